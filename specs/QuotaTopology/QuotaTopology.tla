--------------------------- MODULE QuotaTopology ---------------------------
(***************************************************************************)
(* C15 - the elastic-quota admission webhook keeps the admitted quota      *)
(* objects a well-formed forest hanging off the root.                      *)
(*                                                                         *)
(* State (abstract):                                                       *)
(*   info    function  live quota name -> [parent, isParent, tree, min,    *)
(*           max, ns]   = the set of quota objects admitted so far         *)
(*           (min/max are functions  S -> Nat  with S \subseteq Dims ;      *)
(*            an absent key = dimension not declared)                      *)
(*   pods    set of quota names that currently have pods (environment)     *)
(*                                                                         *)
(* Two layers:                                                             *)
(*   property level   WellFormed, PropCreate/PropUpdate/PropDelete : what  *)
(*                    every accepted / rejected request must satisfy,      *)
(*                    whatever the webhook's algorithm is. Used by the     *)
(*                    trace specification (verdicts).                      *)
(*   design level     AdmitCreate/AdmitUpdate/AdmitDelete : a transcription*)
(*                    of the individual checks of                          *)
(*                    pkg/webhook/elasticquota/quota_topology*.go ; Next   *)
(*                    accepts exactly when they pass.  TLC checks that     *)
(*                    WellFormed is an invariant of Next (MC) and          *)
(*                    enumerates request histories for replay (Gen).       *)
(***************************************************************************)
EXTENDS Integers, FiniteSets, Sequences, FiniteSetsExt, TLC

CONSTANTS Names,       \* quota names (strings)
          Root,        \* name of the root quota (string)
          Dims,        \* resource dimensions (strings)
          Requests,    \* the universe of request bodies explored by Next
          CycleCheck   \* TRUE: webhook with the ancestor check (repaired tree); FALSE: as found at the pinned commit

VARIABLES info, pods
vars == <<info, pods>>

Live(i) == DOMAIN i

Body(r) == [parent |-> r.parent, isParent |-> r.isParent, tree |-> r.tree,
            min |-> r.min, max |-> r.max, ns |-> r.ns]

Put(i, r)  == [n \in (DOMAIN i) \cup {r.name} |-> IF n = r.name THEN Body(r) ELSE i[n]]
Drop(i, n) == [m \in (DOMAIN i) \ {n} |-> i[m]]

Val(rl, d) == IF d \in DOMAIN rl THEN rl[d] ELSE 0
Kids(i, p) == {c \in DOMAIN i : i[c].parent = p}
SumMin(i, S, d) == FoldSet(LAMBDA c, acc : acc + Val(i[c].min, d), 0, S)

(***************************** property level ******************************)
ParentsOK(i) == \A n \in DOMAIN i :
                   i[n].parent = Root \/ (i[n].parent \in DOMAIN i /\ i[i[n].parent].isParent)

RECURSIVE ReachesRoot(_, _, _)
ReachesRoot(i, n, k) == IF n = Root THEN TRUE
                        ELSE IF k = 0 \/ n \notin DOMAIN i THEN FALSE
                        ELSE ReachesRoot(i, i[n].parent, k - 1)
Acyclic(i)   == \A n \in DOMAIN i : ReachesRoot(i, n, Cardinality(DOMAIN i))

MinMaxOK(i)  == \A n \in DOMAIN i :
                   /\ DOMAIN i[n].min \subseteq DOMAIN i[n].max
                   /\ \A d \in DOMAIN i[n].min : i[n].min[d] <= i[n].max[d]

MinSumOK(i)  == \A p \in DOMAIN i : \A d \in Dims :
                   SumMin(i, Kids(i, p), d) <= Val(i[p].min, d)

DimsAgree(i) == \A n \in DOMAIN i :
                   (i[n].parent # Root /\ i[n].parent \in DOMAIN i) =>
                      /\ DOMAIN i[n].max = DOMAIN i[i[n].parent].max
                      /\ DOMAIN i[n].min \subseteq DOMAIN i[i[n].parent].min

NsOK(i)      == \A a, b \in DOMAIN i : a # b => i[a].ns \cap i[b].ns = {}

WellFormedOf(i) == ParentsOK(i) /\ Acyclic(i) /\ MinMaxOK(i) /\ MinSumOK(i) /\ DimsAgree(i) /\ NsOK(i)
WellFormed == WellFormedOf(info)

\* what the property demands of one request, given the webhook's verdict `acc`
PropCreate(r, acc) ==
    /\ UNCHANGED pods
    /\ IF acc THEN /\ r.name \notin DOMAIN info
                   /\ info' = Put(info, r)
                   /\ WellFormedOf(info')
              ELSE UNCHANGED info
PropUpdate(r, acc) ==
    /\ UNCHANGED pods
    /\ IF acc THEN /\ r.name \in DOMAIN info
                   /\ info' = Put(info, r)
                   /\ WellFormedOf(info')
              ELSE UNCHANGED info
PropDelete(n, acc) ==
    /\ UNCHANGED pods
    /\ IF acc THEN /\ n \in DOMAIN info
                   /\ Kids(info, n) = {}          \* a quota with children ...
                   /\ n \notin pods               \* ... or pods is not deleted
                   /\ info' = Drop(info, n)
                   /\ WellFormedOf(info')
              ELSE UNCHANGED info
SetPods(n, b) == /\ pods' = IF b THEN pods \cup {n} ELSE pods \ {n}
                 /\ UNCHANGED info

(****************************** design level *******************************)
\* transcription of the webhook's checks (feature gates at their defaults:
\* ElasticQuotaEnableUpdateResourceKey off, ElasticQuotaGuaranteeUsage off;
\* no force-update / tree-root labels)
NsFree(r)      == \A n \in DOMAIN info : n # r.name => info[n].ns \cap r.ns = {}
SelfItemOK(r)  == /\ DOMAIN r.min \subseteq DOMAIN r.max
                  /\ \A d \in DOMAIN r.min : r.min[d] <= r.max[d]
TreeOK(old, r) == /\ (old # <<>> => old.tree = r.tree)
                  /\ ((r.parent # Root /\ r.parent \in DOMAIN info) => info[r.parent].tree = r.tree)
                  /\ \A c \in Kids(info, r.name) : info[c].tree = r.tree
ParentOK(r)    == r.parent = Root \/ (r.parent \in DOMAIN info /\ info[r.parent].isParent)
KeysOK(r)      == /\ r.parent # Root =>
                        /\ DOMAIN info[r.parent].max = DOMAIN r.max
                        /\ DOMAIN r.min \subseteq DOMAIN info[r.parent].min
                  /\ \A c \in Kids(info, r.name) :
                        /\ DOMAIN info[c].max = DOMAIN r.max
                        /\ DOMAIN info[c].min \subseteq DOMAIN r.min
MinOK(r)       == /\ r.parent # Root =>
                        \A d \in Dims : SumMin(info, Kids(info, r.parent) \ {r.name}, d) + Val(r.min, d)
                                           <= Val(info[r.parent].min, d)
                  /\ \A d \in Dims : SumMin(info, Kids(info, r.name), d) <= Val(r.min, d)
\* repaired webhook (fix: commit): a quota may not become its own ancestor
RECURSIVE IsAncestorOrSelf(_, _, _)
IsAncestorOrSelf(a, n, k) == IF n = a THEN TRUE
                             ELSE IF n = Root \/ k = 0 \/ n \notin DOMAIN info THEN FALSE
                             ELSE IsAncestorOrSelf(a, info[n].parent, k - 1)
NoCycle(r)     == CycleCheck => ~IsAncestorOrSelf(r.name, r.parent, Cardinality(DOMAIN info) + 1)

TopologyOK(old, r) ==
    /\ TreeOK(old, r)
    /\ NoCycle(r)
    /\ \/ (r.parent = Root /\ ~r.isParent)
       \/ (ParentOK(r) /\ KeysOK(r) /\ MinOK(r))

AdmitCreate(r) == /\ r.name \notin DOMAIN info
                  /\ NsFree(r) /\ SelfItemOK(r)
                  /\ TopologyOK(<<>>, r)

HasPods(n, old) == n \in pods          \* harness binds pods by the quota-name label only
IsParentChangeOK(old, r) ==
    old.isParent # r.isParent =>
       /\ ~(Kids(info, r.name) # {} /\ ~r.isParent)
       /\ ~(r.isParent /\ HasPods(r.name, old))
AdmitUpdate(r) == /\ r.name \in DOMAIN info
                  /\ \/ Body(r) = info[r.name]       \* nothing changes: accepted without checks
                     \/ /\ NsFree(r) /\ SelfItemOK(r)
                        /\ IsParentChangeOK(info[r.name], r)
                        /\ TopologyOK(info[r.name], r)
AdmitDelete(n) == n \in DOMAIN info /\ Kids(info, n) = {} /\ n \notin pods

\* design-level steps: the state changes exactly when the transcribed checks pass
\* (WellFormed is NOT assumed here - it is what TLC checks)
Create(r)  == /\ r.name \notin DOMAIN info
              /\ info' = IF AdmitCreate(r) THEN Put(info, r) ELSE info
              /\ UNCHANGED pods
Update(r)  == /\ r.name \in DOMAIN info
              /\ info' = IF AdmitUpdate(r) THEN Put(info, r) ELSE info
              /\ UNCHANGED pods
Delete(n)  == /\ n \in DOMAIN info
              /\ info' = IF AdmitDelete(n) THEN Drop(info, n) ELSE info
              /\ UNCHANGED pods
TogglePods(n) == n \in DOMAIN info /\ SetPods(n, n \notin pods)

Init == info = <<>> /\ pods = {}
Next == \/ \E r \in Requests : Create(r) \/ Update(r)
        \/ \E n \in Names : Delete(n) \/ TogglePods(n)
Spec == Init /\ [][Next]_vars

\* every design-level step is a step the property allows (refinement, checked as an action property)
StepAllowed ==
    [][ \/ \E r \in Requests : \/ (r.name \notin DOMAIN info /\ PropCreate(r, AdmitCreate(r)))
                               \/ (r.name \in DOMAIN info /\ PropUpdate(r, AdmitUpdate(r)))
        \/ \E n \in Names : (n \in DOMAIN info /\ PropDelete(n, AdmitDelete(n))) \/ TogglePods(n) ]_vars
=============================================================================
