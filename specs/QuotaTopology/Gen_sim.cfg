\* simulation: longer random histories over the richer universe (namespaces, tree ids, two dimensions)
SPECIFICATION GenSpec
CONSTANTS
  Names = {"a", "b", "c"}
  Root = "koordinator-root-quota"
  Dims = {"cpu", "memory"}
  Requests <- MCRequests
  MCParents = {"koordinator-root-quota", "a", "b", "c"}
  MCMins <- RL2
  MCMaxs <- RL2max
  MCNs <- Ns2
  MCTrees = {"", "t1"}
  CycleCheck = TRUE
  Biased = TRUE
  K = 12
INVARIANT GenPrint
CHECK_DEADLOCK FALSE
