------------------------- MODULE MC_QuotaTopology -------------------------
EXTENDS QuotaTopology
CONSTANTS MCParents, MCMins, MCMaxs, MCNs, MCTrees
MCRequests == [name : Names, parent : MCParents, isParent : BOOLEAN, tree : MCTrees,
               min : MCMins, max : MCMaxs, ns : MCNs]
\* resource-list menus
RL1 == {<<>>, [cpu |-> 1], [cpu |-> 2]}
RL1max == {[cpu |-> 2], <<>>}
RL0 == {<<>>, [cpu |-> 1]}
RL0max == {[cpu |-> 2]}
RL2 == {<<>>, [cpu |-> 1], [cpu |-> 1, memory |-> 1], [cpu |-> 2, memory |-> 2]}
RL2max == {[cpu |-> 2], [cpu |-> 2, memory |-> 2]}
NsNone == {{}}
Ns2 == {{}, {"n1"}, {"n2"}, {"n1", "n2"}}
=============================================================================
