\* all request histories of length 3 over: 2 names, parent in {root,a,b}, isParent, min in {none, cpu:1}, max cpu:2
SPECIFICATION GenSpec
CONSTANTS
  Names = {"a", "b"}
  Root = "koordinator-root-quota"
  Dims = {"cpu"}
  Requests <- MCRequests
  MCParents = {"koordinator-root-quota", "a", "b"}
  MCMins <- RL0
  MCMaxs <- RL0max
  MCNs <- NsNone
  MCTrees = {""}
  CycleCheck = TRUE
  Biased = FALSE
  K = 3
CONSTRAINT GenBound
INVARIANT GenPrint
CHECK_DEADLOCK FALSE
