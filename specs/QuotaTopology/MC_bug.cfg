\* the webhook as found at the pinned commit (no ancestor check): TLC finds the cycle
SPECIFICATION Spec
CONSTANTS
  Names = {"a", "b"}
  Root = "koordinator-root-quota"
  Dims = {"cpu"}
  Requests <- MCRequests
  MCParents = {"koordinator-root-quota", "a", "b"}
  MCMins <- RL1
  MCMaxs <- RL1max
  MCNs <- NsNone
  MCTrees = {""}
  CycleCheck = FALSE
INVARIANT WellFormed
