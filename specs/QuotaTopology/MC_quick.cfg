\* tree logic, one dimension, no namespaces / tree ids: 3 names
SPECIFICATION Spec
CONSTANTS
  Names = {"a", "b", "c"}
  Root = "koordinator-root-quota"
  Dims = {"cpu"}
  Requests <- MCRequests
  MCParents = {"koordinator-root-quota", "a", "b", "c"}
  MCMins <- RL1
  MCMaxs <- RL1max
  MCNs <- NsNone
  MCTrees = {""}
  CycleCheck = TRUE
INVARIANT WellFormed
PROPERTY StepAllowed
