\* all request histories of length 2 over the richer request universe (min/max absent or present)
SPECIFICATION GenSpec
CONSTANTS
  Names = {"a", "b"}
  Root = "koordinator-root-quota"
  Dims = {"cpu"}
  Requests <- MCRequests
  MCParents = {"koordinator-root-quota", "a", "b"}
  MCMins <- RL1
  MCMaxs <- RL1max
  MCNs <- NsNone
  MCTrees = {""}
  CycleCheck = TRUE
  Biased = FALSE
  K = 3
CONSTRAINT GenBound
INVARIANT GenPrint
CHECK_DEADLOCK FALSE
