SPECIFICATION TraceSpec
CONSTANTS
  Names = {"a", "b", "c", "d", "e", "f"}
  Root = "koordinator-root-quota"
  Dims = {"cpu", "memory"}
  Requests = {}
  CycleCheck = TRUE
\* property invariants are listed as CONSTRAINTs (before Report): a recorded state that violates one is not
\* explored further, so its segment never reaches SegDone (= rejected) while TLC goes on with the other segments
CONSTRAINT WellFormed
CONSTRAINT Report
CHECK_DEADLOCK FALSE
