SPECIFICATION TraceSpec
CONSTANTS
  Names = {"a", "b", "c", "d", "e", "f"}
  Root = "koordinator-root-quota"
  Dims = {"cpu", "memory"}
  Requests = {}
  CycleCheck = TRUE
INVARIANT WellFormed
CONSTRAINT Report
CHECK_DEADLOCK FALSE
