------------------------ MODULE QuotaTopologyTrace ------------------------
(* Trace validation for C15: every recorded request (with the webhook's     *)
(* verdict) must be a step the PROPERTY allows, and the topology recorded   *)
(* by the webhook after it must equal the set of admitted objects.          *)
EXTENDS QuotaTopology, TraceCommon, SequencesExt

Req(e) == [name |-> e.name, parent |-> e.parent, isParent |-> e.isParent, tree |-> e.tree,
           min |-> e.min, max |-> e.max, ns |-> ToSet(e.ns)]

NsMapOf(i) == [x \in UNION {i[n].ns : n \in DOMAIN i} |-> CHOOSE n \in DOMAIN i : x \in i[n].ns]

\* e.obs = projection of the webhook's recorded topology (getQuotaTopologyInfo + namespace map)
ObsOK(e) ==
  LET o == e.obs IN
  /\ DOMAIN o.info = DOMAIN info'
  /\ \A n \in DOMAIN info' :
        /\ o.info[n].parent = info'[n].parent
        /\ o.info[n].isParent = info'[n].isParent
        /\ o.info[n].tree = info'[n].tree
        /\ o.info[n].min = info'[n].min
        /\ o.info[n].max = info'[n].max
  /\ \A p \in DOMAIN o.children : ToSet(o.children[p]) = Kids(info', p)
  /\ \A p \in (DOMAIN info') \cup {Root} : Kids(info', p) # {} => p \in DOMAIN o.children
  /\ o.nsmap = NsMapOf(info')

\* a request on which the webhook crashed (the harness recovers the panic and logs it) is neither admitted nor rejected
NoPanic == "panic" \notin DOMAIN Ev
TCreate == IsEvent("create") /\ NoPanic /\ PropCreate(Req(Ev), Ev.accepted) /\ ObsOK(Ev)
TUpdate == IsEvent("update") /\ NoPanic /\ PropUpdate(Req(Ev), Ev.accepted) /\ ObsOK(Ev)
TDelete == IsEvent("delete") /\ PropDelete(Ev.name, Ev.accepted) /\ ObsOK(Ev)
TPods   == IsEvent("pods")   /\ SetPods(Ev.name, Ev.has) /\ ObsOK(Ev)

\* two requests handled CONCURRENTLY by the webhook (a deletion whose pod listing is in progress while a second request
\* arrives): whatever the interleaving, the pair of verdicts and the recorded topology must be explained by handling
\* the two requests one after the other in SOME order (each step as the property demands)
RQ(x) == [kind |-> x.op, name |-> x.name, acc |-> x.accepted,
          r |-> IF x.op = "delete" THEN <<>> ELSE Req(x)]
After(i, q) == IF ~q.acc THEN i ELSE IF q.kind = "delete" THEN Drop(i, q.name) ELSE Put(i, q.r)
Cond(i, q) == ~q.acc \/
              /\ CASE q.kind = "create" -> q.name \notin DOMAIN i
                    [] q.kind = "update" -> q.name \in DOMAIN i
                    [] OTHER            -> q.name \in DOMAIN i /\ Kids(i, q.name) = {} /\ q.name \notin pods
              /\ WellFormedOf(After(i, q))
TRace == /\ IsEvent("race")
         /\ UNCHANGED pods
         /\ \E o \in {<<RQ(Ev.a), RQ(Ev.b)>>, <<RQ(Ev.b), RQ(Ev.a)>>} :
               /\ (Cond(info, o[1]) /\ Cond(After(info, o[1]), o[2])) = TRUE
               /\ info' = After(After(info, o[1]), o[2])
         /\ ObsOK(Ev)

TraceInit == \E i \in Starts : TraceStart(i) /\ Init
TraceNext == TCreate \/ TUpdate \/ TDelete \/ TPods \/ TRace \/ (SegDone /\ UNCHANGED vars)
TraceSpec == TraceInit /\ [][TraceNext]_<<vars, tvars>>
=============================================================================
