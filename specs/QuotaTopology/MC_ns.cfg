\* namespaces + tree ids + two dimensions, 2 names
SPECIFICATION Spec
CONSTANTS
  Names = {"a", "b"}
  Root = "koordinator-root-quota"
  Dims = {"cpu", "memory"}
  Requests <- MCRequests
  MCParents = {"koordinator-root-quota", "a", "b"}
  MCMins <- RL2
  MCMaxs <- RL2max
  MCNs <- Ns2
  MCTrees = {"", "t1"}
  CycleCheck = TRUE
INVARIANT WellFormed
PROPERTY StepAllowed
