------------------------- MODULE Gen_QuotaTopology -------------------------
(* Behaviour generation: every request history of length K over the small   *)
(* universe, printed as one JSON script per line (replayed on the real      *)
(* webhook by the Go harness).                                              *)
EXTENDS MC_QuotaTopology, Json, SequencesExt
CONSTANTS K, Biased
VARIABLE hist
ReqJson(op, r) == [op |-> op, name |-> r.name, parent |-> r.parent, isParent |-> r.isParent,
                   tree |-> r.tree, min |-> r.min, max |-> r.max, ns |-> SetToSeq(r.ns)]
GenInit == Init /\ hist = <<[op |-> "reset"]>>
\* Biased (simulation): two steps out of three must be accepted requests, so that random
\* histories build non-trivial trees instead of collecting rejections
Allowed(acc) == ~Biased \/ acc \/ Len(hist) % 3 = 0
GenNext ==
  \/ \E r \in Requests :
        /\ Allowed(IF r.name \in DOMAIN info THEN AdmitUpdate(r) ELSE AdmitCreate(r))
        /\
           \/ Create(r) /\ hist' = Append(hist, ReqJson("create", r))
           \/ Update(r) /\ hist' = Append(hist, ReqJson("update", r))
  \/ \E n \in Names :
        \/ Delete(n) /\ hist' = Append(hist, [op |-> "delete", name |-> n])
        \/ TogglePods(n) /\ hist' = Append(hist, [op |-> "pods", name |-> n, has |-> n \notin pods])
GenSpec == GenInit /\ [][GenNext]_<<vars, hist>>
GenBound == Len(hist) <= K          \* BFS only: states at K+1 events are printed but not expanded
GenPrint == Len(hist) = K + 1 => PrintT(ToJson(hist))
=============================================================================
