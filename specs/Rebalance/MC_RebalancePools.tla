------------------------- MODULE MC_RebalancePools -------------------------
(***************************************************************************)
(* Decide C18 on the model for SEVERAL node pools: LowNodeLoad.Balance as  *)
(* a process over a sequence of pools (MC_Rebalance.tla is the one-pool    *)
(* model; the loop inside a pool is the same transcription).  What one     *)
(* Balance round shares between its pools:                                 *)
(*   processed  the nodes later pools skip.  The code records the          *)
(*              node-level source nodes of a pool that got as far as       *)
(*              balancing; a pool that leaves early records nothing.       *)
(*   detectors  the anomaly detectors, keyed by node name.                 *)
(* Everything else is per pool and recomputed from the UNCHANGED           *)
(* measurements: members (selector minus processed), usage table,          *)
(* classification, running usage, headroom.                                *)
(*                                                                         *)
(* The tree as found (all four Fix* constants FALSE): a pool without       *)
(* selector does not skip processed nodes, the prod-level source nodes are *)
(* not recorded, one detector per node is shared by all pools (created     *)
(* with the condition of the pool that first marks the node).  TLC then    *)
(* refutes PropOK (MC_pools_asfound.cfg; Src broken over the round, An     *)
(* broken).  proposed_fixes/C18b = the four parts, each with its switch:   *)
(*   FixSel     every pool skips processed nodes, selector or not          *)
(*   FixProd    the prod-level source nodes are recorded as well           *)
(*   FixDet     detectors per pool                                         *)
(*   FixForget  a pool forgets its detectors of the nodes processed        *)
(*              earlier in the round (it does not measure them)            *)
(* With all four TRUE PropOK holds; with any one FALSE TLC refutes it      *)
(* (MC_pools_without_*.cfg: each part is needed).                          *)
(*                                                                         *)
(* Every Evict call must satisfy the property-level predicates of          *)
(* Rebalance.tla evaluated for the pool that made it (AllowedP) against    *)
(* the pool's table over ALL the nodes its selector matches, with the      *)
(* node estimates carried over the whole round.                            *)
(***************************************************************************)
EXTENDS Rebalance, TLC

CONSTANTS MCNodes,        \* node names
          MCCap,          \* node -> capacity (both resources)
          MCLabels,       \* node -> sequence of labels
          MCPods,         \* pod -> [node, use, prod]
          PoolChoices,    \* set of configurations explored, each a sequence of pools
                          \*   [sel, dev, low, high, plow, phigh, anomaly, norm, numNodes]
          SysChoices,     \* per node and round: system usage in percent of the capacity, [cpu, mem]
          NoPassChoices,  \* per round: the set of pods the evictor's filter rejects
          Rounds, MayFail,
          FixSel, FixProd, FixDet, FixForget    \* the four parts of proposed_fixes/C18b (all FALSE = the tree as found)

VARIABLES MCPools,        \* the configuration of this behaviour (chosen initially, never changed)
          round, rd, stabs, sN, sP, pool, processed, tab, ndet, pdet,
          pc, abn, pabn, srcs, psrcs, todo, cur, rem, use, puse, avail, calls
vars == <<MCPools, round, rd, stabs, sN, sP, pool, processed, tab, ndet, pdet, pc, abn, pabn, srcs, psrcs, todo, cur, rem, use, puse, avail, calls>>

NP == Len(MCPools)
Zero == [r \in Res |-> 0]
Sub(a, b) == [r \in Res |-> a[r] - b[r]]
ZeroUse == [n \in MCNodes |-> Zero]

RdOf(sys, nopass) ==
  [nodes |-> [n \in MCNodes |-> [labels |-> MCLabels[n], cap |-> [r \in Res |-> MCCap[n]], fresh |-> TRUE, unsched |-> FALSE,
                                 sys |-> [r \in Res |-> (sys[n][r] * MCCap[n]) \div 100]]],
   pods  |-> [p \in DOMAIN MCPods |-> [node |-> MCPods[p].node, use |-> MCPods[p].use, prod |-> MCPods[p].prod,
                                       pass |-> p \notin nopass, metric |-> TRUE]]]

\* a detector together with the condition it was created with (the closure over the creating pool's AnomalyCondition)
PNone == [d |-> NoDet, a |-> 0, n |-> 0]
PMarkAb(x, A, N) == LET a == IF x.d.st = "none" THEN A ELSE x.a
                        n == IF x.d.st = "none" THEN N ELSE x.n
                    IN  [d |-> DetMarkAb(x.d, a, n), a |-> a, n |-> n]
PMarkNorm(x) == IF x.d.st = "none" THEN x ELSE [x EXCEPT !.d = DetMarkNorm(x.d, x.n)]
PReset(x)    == [x EXCEPT !.d = DetReset(x.d)]
\* which detector set a pool uses: its own (Fix) or the one shared set
DI(k) == IF FixDet THEN k ELSE 1

NoPass == /\ abn' = {} /\ pabn' = {} /\ srcs' = {} /\ psrcs' = {} /\ todo' = {} /\ cur' = "" /\ rem' = {}
          /\ use' = ZeroUse /\ puse' = ZeroUse /\ avail' = Zero

Init == /\ MCPools \in PoolChoices
        /\ round = 0
        /\ rd = RdOf([n \in MCNodes |-> [cpu |-> 0, mem |-> 0]], {})
        /\ stabs = [k \in 1..NP |-> PoolTable(MCPools[k], rd)]
        /\ sN = [k \in 1..NP |-> [n \in MCNodes |-> 0]] /\ sP = [k \in 1..NP |-> [n \in MCNodes |-> 0]]
        /\ pool = 0 /\ processed = {} /\ tab = stabs[1]
        /\ ndet = [k \in 1..NP |-> [n \in MCNodes |-> PNone]] /\ pdet = [k \in 1..NP |-> [n \in MCNodes |-> PNone]]
        /\ pc = "idle" /\ abn = {} /\ pabn = {} /\ srcs = {} /\ psrcs = {} /\ todo = {} /\ cur = "" /\ rem = {}
        /\ use = ZeroUse /\ puse = ZeroUse /\ avail = Zero /\ calls = <<>>

\* Balance: fresh inputs, no node processed yet, first pool
StartRound ==
  /\ UNCHANGED MCPools
  /\ pc = "idle" /\ round < Rounds
  /\ \E sys \in [MCNodes -> SysChoices], nopass \in NoPassChoices :
     \E R \in {RdOf(sys, nopass)} : \E TS \in {[k \in 1..NP |-> PoolTable(MCPools[k], R)]} :
       /\ rd' = R /\ stabs' = TS
       /\ sN' = [k \in 1..NP |-> NextStreak(TS[k], R, sN[k], FALSE)]
       /\ sP' = [k \in 1..NP |-> NextStreak(TS[k], R, sP[k], TRUE)]
  /\ pool' = 1 /\ processed' = {} /\ pc' = "pool" /\ calls' = <<>>
  /\ NoPass
  /\ UNCHANGED <<round, tab, ndet, pdet>>

\* processOneNodePool up to the call of evictPodsFromSourceNodes
StartPool ==
  /\ UNCHANGED MCPools
  /\ pc = "pool"
  /\ IF pool > NP THEN
        /\ round' = round + 1 /\ pc' = "idle" /\ pool' = 0
        /\ UNCHANGED <<rd, stabs, sN, sP, processed, tab, ndet, pdet, abn, pabn, srcs, psrcs, todo, cur, rem, use, puse, avail, calls>>
     ELSE
     LET P == MCPools[pool]
         di == DI(pool)
         skip == IF P.sel.nil /\ ~FixSel THEN {} ELSE processed                \* filterNodes
         M == PoolNodes(P, rd) \ skip
         \* (FixForget) the pool forgets its detectors of the nodes processed earlier in this round
         nf == IF FixForget THEN [n \in MCNodes |-> IF n \in processed THEN PNone ELSE ndet[di][n]] ELSE ndet[di]
         pf == IF FixForget THEN [n \in MCNodes |-> IF n \in processed THEN PNone ELSE pdet[di][n]] ELSE pdet[di]
     IN
     IF M = {} THEN
        /\ pool' = pool + 1
        /\ ndet' = [ndet EXCEPT ![di] = nf] /\ pdet' = [pdet EXCEPT ![di] = pf]
        /\ UNCHANGED <<round, rd, stabs, sN, sP, processed, tab, pc, abn, pabn, srcs, psrcs, todo, cur, rem, use, puse, avail, calls>>
     ELSE
     \E T \in {Table(P, Restrict(rd, M))} :
     \E hi \in {ClsHigh(T)}, ph \in {ClsProdHigh(T)}, lo \in {ClsLow(T)}, bl \in {ClsBothLow(T)}, pl \in {ClsProdLow(T)} :
       LET \* forgetNodesNotAbnormal
           nd0 == [n \in MCNodes |-> IF n \in Measured(T) /\ n \notin hi THEN PNone ELSE nf[n]]
           pd0 == [n \in MCNodes |-> IF n \in Measured(T) /\ n \notin ph THEN PNone ELSE pf[n]]
           useDet == P.anomaly >= 2
           nd1 == IF useDet THEN [n \in MCNodes |-> IF n \in hi THEN PMarkAb(nd0[n], P.anomaly, P.norm) ELSE nd0[n]] ELSE nd0
           pd1 == IF useDet THEN [n \in MCNodes |-> IF n \in ph THEN PMarkAb(pd0[n], P.anomaly, P.norm) ELSE pd0[n]] ELSE pd0
           ab  == IF useDet THEN {n \in hi : nd1[n].d.st = "AN"} ELSE hi
           pab == IF useDet THEN {n \in ph : pd1[n].d.st = "AN"} ELSE ph
           nd2 == [n \in MCNodes |-> IF n \in lo \cup bl THEN PReset(nd1[n]) ELSE nd1[n]]
           pd2 == [n \in MCNodes |-> IF n \in pl THEN PReset(pd1[n]) ELSE pd1[n]]
           allLow == Cardinality(lo \cup bl \cup pl)
           tg == lo \cup bl
           Leave(nd, pd) == /\ ndet' = [ndet EXCEPT ![di] = nd] /\ pdet' = [pdet EXCEPT ![di] = pd]
                            /\ pool' = pool + 1 /\ pc' = "pool" /\ NoPass /\ UNCHANGED <<processed, tab>>
       IN  /\ UNCHANGED <<round, rd, stabs, sN, sP, calls>>
           /\ IF hi = {} /\ ph = {} THEN Leave(nd0, pd0)
              ELSE IF (ab = {} /\ pab = {}) \/ (lo \cup bl \cup pl = {}) THEN Leave(nd1, pd1)
              ELSE IF allLow <= P.numNodes \/ allLow = Cardinality(M) THEN Leave(nd2, pd2)
              ELSE /\ ndet' = [ndet EXCEPT ![di] = nd2] /\ pdet' = [pdet EXCEPT ![di] = pd2]
                   /\ tab' = T
                   /\ processed' = IF FixProd THEN processed \cup ph ELSE processed
                   /\ pc' = "node" /\ pool' = pool /\ abn' = ab /\ pabn' = pab /\ srcs' = hi /\ psrcs' = ph
                   /\ todo' = IF tg = {} THEN {} ELSE ab          \* balancePods returns at once without target nodes
                   /\ cur' = "" /\ rem' = {}
                   /\ use' = [n \in MCNodes |-> IF n \in Measured(T) THEN T.use[n] ELSE Zero]
                   /\ puse' = [n \in MCNodes |-> IF n \in Measured(T) THEN T.puse[n] ELSE Zero]
                   /\ avail' = [r \in Res |-> SumF([m \in tg |-> T.high[m][r] - T.use[m][r]], tg)]

\* the evictor's filter lets a pod through if it passes and is not being evicted already (it stays listed for the round)
Gone == {calls[i].pod : i \in {j \in 1..Len(calls) : calls[j].ok}}
Cand(n) == {p \in PodsOn(rd, n) : rd.pods[p].pass /\ p \notin Gone /\ (pc = "prod" => rd.pods[p].prod)}

PickSrc ==
  /\ UNCHANGED MCPools
  /\ pc \in {"node", "prod"} /\ cur = "" /\ todo # {}
  /\ \E n \in todo :
       /\ cur' = n /\ todo' = todo \ {n}
       /\ rem' = Cand(n)
  /\ UNCHANGED <<round, rd, stabs, sN, sP, pool, processed, tab, ndet, pdet, pc, abn, pabn, srcs, psrcs, use, puse, avail, calls>>

\* evictPods: for every removable pod, first the continue-eviction condition, then Evict, then the bookkeeping
Step ==
  /\ UNCHANGED MCPools
  /\ pc \in {"node", "prod"} /\ cur # ""
  /\ LET over == IF pc = "node" THEN ContOver(use[cur], tab.high[cur]) ELSE ContOver(puse[cur], tab.phigh[cur])
         di == DI(pool) IN
     IF rem = {} THEN
        /\ cur' = ""
        /\ UNCHANGED <<round, rd, stabs, sN, sP, pool, processed, tab, ndet, pdet, pc, abn, pabn, srcs, psrcs, todo, rem, use, puse, avail, calls>>
     ELSE IF ~over THEN
        /\ cur' = "" /\ rem' = {}
        /\ IF pc = "node" THEN ndet' = [ndet EXCEPT ![di][cur] = PReset(@)] /\ UNCHANGED pdet
                          ELSE pdet' = [pdet EXCEPT ![di][cur] = PReset(@)] /\ UNCHANGED ndet
        /\ UNCHANGED <<round, rd, stabs, sN, sP, pool, processed, tab, pc, abn, pabn, srcs, psrcs, todo, use, puse, avail, calls>>
     ELSE IF ~ContAvail(avail) THEN
        /\ cur' = "" /\ rem' = {}
        /\ UNCHANGED <<round, rd, stabs, sN, sP, pool, processed, tab, ndet, pdet, pc, abn, pabn, srcs, psrcs, todo, use, puse, avail, calls>>
     ELSE \E p \in rem :
        /\ rem' = rem \ {p}
        /\ \/ /\ calls' = Append(calls, [pod |-> p, ok |-> TRUE, pool |-> pool])
              /\ avail' = Sub(avail, Dec(rd, p))
              /\ use' = [use EXCEPT ![cur] = Sub(@, Dec(rd, p))]
              /\ puse' = IF pc = "prod" THEN [puse EXCEPT ![cur] = Sub(@, Dec(rd, p))] ELSE puse
           \/ /\ MayFail
              /\ calls' = Append(calls, [pod |-> p, ok |-> FALSE, pool |-> pool])
              /\ UNCHANGED <<avail, use, puse>>
        /\ UNCHANGED <<round, rd, stabs, sN, sP, pool, processed, tab, ndet, pdet, pc, abn, pabn, srcs, psrcs, todo, cur>>

EndPass ==
  /\ UNCHANGED MCPools
  /\ pc \in {"node", "prod"} /\ cur = "" /\ todo = {}
  /\ IF pc = "node" THEN
        LET T  == tab
            bl == ClsBothLow(T)   pl == ClsProdLow(T)
            bothNode == [r \in Res |-> Min2(SumF([m \in bl |-> T.high[m][r] - T.use[m][r]], bl), avail[r])]
            bothProd == [r \in Res |-> SumF([m \in bl |-> T.phigh[m][r] - T.puse[m][r]], bl)]
            onlyProd == [r \in Res |-> SumF([m \in pl |-> T.phigh[m][r] - T.puse[m][r]], pl)]
        IN  /\ pc' = "prod"
            /\ avail' = [r \in Res |-> onlyProd[r] + Min2(bothProd[r], bothNode[r])]
            /\ todo' = IF pl \cup bl = {} THEN {} ELSE pabn
            /\ UNCHANGED <<round, rd, stabs, sN, sP, pool, processed, tab, ndet, pdet, abn, pabn, srcs, psrcs, cur, rem, use, puse, calls>>
     ELSE
        LET di == DI(pool) IN
        \* tryMarkNodesAsNormal on the nodes that were treated as abnormal; the node-level source nodes are processed
        /\ ndet' = [ndet EXCEPT ![di] = [n \in MCNodes |-> IF n \in abn THEN PMarkNorm(ndet[di][n]) ELSE ndet[di][n]]]
        /\ pdet' = [pdet EXCEPT ![di] = [n \in MCNodes |-> IF n \in pabn THEN PMarkNorm(pdet[di][n]) ELSE pdet[di][n]]]
        /\ processed' = processed \cup srcs
        /\ pool' = pool + 1 /\ pc' = "pool" /\ NoPass
        /\ UNCHANGED <<round, rd, stabs, sN, sP, tab, calls>>

Next == StartRound \/ StartPool \/ PickSrc \/ Step \/ EndPass
Spec == Init /\ [][Next]_vars

-----------------------------------------------------------------------------
PoolCallsOf(cs, k) == SelectSeq(cs, LAMBDA c : c.pool = k)
\* every Evict call satisfies the property-level predicates for the pool that made it (checked when it is the last call made)
PropOK == calls # <<>> =>
            LET k  == calls[Len(calls)].pool
                cs == SubSeq(calls, 1, Len(calls) - 1)
            IN  AllowedP(MCPools[k], stabs[k], rd, sN[k], sP[k], cs, PoolCallsOf(cs, k), calls[Len(calls)].pod)
\* the running figures of the pool at work are the round's estimates (no node is relieved twice in a round)
EstOK == (pc \in {"node", "prod"} /\ cur # "") =>
            /\ use[cur] = Est(stabs[pool], rd, calls, cur)
            /\ (pc = "prod" => puse[cur] = PEst(stabs[pool], rd, calls, cur))

\* reachability probes (each must be VIOLATED when checked as an invariant)
NoSecondPoolEviction == ~(calls # <<>> /\ calls[Len(calls)].pool >= 2)
NoTwoPoolsEvict      == ~(\E i, j \in 1..Len(calls) : calls[i].pool # calls[j].pool)
NoGatedSecondPool    == ~(calls # <<>> /\ calls[Len(calls)].pool >= 2 /\ MCPools[calls[Len(calls)].pool].anomaly >= 2)

-----------------------------------------------------------------------------
(* concrete domains (selected with  X <- Y  in the cfg files) *)
N3 == {"n1", "n2", "n3"}
N4 == {"n1", "n2", "n3", "n4"}
Cap3 == [n \in N3 |-> IF n = "n2" THEN 2000 ELSE 1000]
Cap4 == [n \in N4 |-> IF n = "n2" THEN 2000 ELSE 1000]
\* n1 a b, n2 a b, n3 b (n4 a)
Lab3 == [n \in N3 |-> IF n = "n3" THEN <<"b">> ELSE <<"a", "b">>]
Lab4 == [n \in N4 |-> IF n = "n3" THEN <<"b">> ELSE IF n = "n4" THEN <<"a">> ELSE <<"a", "b">>]
U(c, m) == [cpu |-> c, mem |-> m]
\* n1 is the usual source (three pods, two prod), n2 the big node, n3 a small one
PodsA == [p1 |-> [node |-> "n1", use |-> U(100, 100), prod |-> TRUE],
          p2 |-> [node |-> "n1", use |-> U(100, 100), prod |-> TRUE],
          p3 |-> [node |-> "n1", use |-> U(100, 100), prod |-> FALSE],
          p4 |-> [node |-> "n3", use |-> U(100, 100), prod |-> FALSE]]
Sys3 == {U(0, 0), U(40, 10), U(70, 10)}
SelA   == [nil |-> FALSE, labels |-> <<"a">>]
SelB   == [nil |-> FALSE, labels |-> <<"b">>]
SelNil == [nil |-> TRUE,  labels |-> <<>>]
PoolAbs(sel, an)  == [sel |-> sel, dev |-> FALSE, low |-> U(2000, 2000), high |-> U(8000, 8000), plow |-> [cpu |-> 1000], phigh |-> [cpu |-> 1500],
                      anomaly |-> an, norm |-> 1, numNodes |-> 0]
PoolLow(sel, an)  == [PoolAbs(sel, an) EXCEPT !.high = U(5000, 8000)]     \* a stricter pool: high threshold 50 percent cpu
\* pool "a" then pool "b" / no selector, same thresholds
PoolsAB(a1, a2)   == <<PoolAbs(SelA, a1), PoolAbs(SelB, a2)>>
PoolsANil(a1, a2) == <<PoolAbs(SelA, a1), PoolAbs(SelNil, a2)>>
\* the second pool is stricter
PoolsALow(a1, a2) == <<PoolAbs(SelA, a1), PoolLow(SelB, a2)>>
AnPairs  == {<<0, 0>>, <<2, 2>>, <<0, 2>>, <<2, 0>>}
AnPairs3 == AnPairs \cup {<<2, 3>>, <<3, 2>>}
ChoicesQuick    == {PoolsAB(a[1], a[2]) : a \in AnPairs} \cup {PoolsANil(a[1], a[2]) : a \in {<<0, 0>>, <<2, 2>>}}
                   \cup {PoolsALow(a[1], a[2]) : a \in {<<0, 0>>, <<2, 2>>}}
ChoicesThorough == {PoolsAB(a[1], a[2]) : a \in AnPairs3} \cup {PoolsANil(a[1], a[2]) : a \in AnPairs3}
                   \cup {PoolsALow(a[1], a[2]) : a \in AnPairs3}
=============================================================================
