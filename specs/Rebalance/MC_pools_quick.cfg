\* MC_pools_quick.cfg: two pools ("a" then "b" / no selector / a stricter "b"), 3 nodes, 4 pods, 3 rounds; proposed_fixes/C18b transcribed
SPECIFICATION Spec
CONSTANTS
  MCNodes <- N3
  MCCap <- Cap3
  MCLabels <- Lab3
  MCPods <- PodsA
  PoolChoices <- ChoicesQuick
  SysChoices <- Sys3
  NoPassChoices = {{}}
  Rounds = 3
  MayFail = FALSE
  FixSel = TRUE
  FixProd = TRUE
  FixDet = TRUE
  FixForget = TRUE
INVARIANT PropOK
INVARIANT EstOK
CHECK_DEADLOCK FALSE
