------------------------------ MODULE Rebalance ------------------------------
(***************************************************************************)
(* C18  Load-aware rebalancing (descheduler plugin LowNodeLoad) evicts     *)
(* only from overloaded nodes and only while it helps.                     *)
(*                                                                         *)
(* Part 1  the usage / threshold TABLE recomputed from the inputs of one   *)
(*         balance round (integer arithmetic only).                        *)
(* Part 2  PROPERTY-LEVEL predicates over the ordered Evict(pod) calls of  *)
(*         a round: Src, An, Low, Fil, Stop (estimate + headroom), Z.      *)
(*         Only these decide verdicts (trace validation, MC invariants).   *)
(* Part 3  TRANSCRIPTION of how the code does it (classifyNodes, the       *)
(*         anomaly detector, the early exits, the continue-eviction        *)
(*         condition, the headroom bookkeeping of the two passes); used    *)
(*         by MC_Rebalance to decide the predicates on the model.          *)
(*                                                                         *)
(* Inputs                                                                  *)
(*  cfg = [dev      : BOOLEAN      deviation thresholds around the average *)
(*         low, high, plow, phigh : resource -> hundredths of a percent    *)
(*                    (a missing resource is unconstrained; low/high and   *)
(*                     plow/phigh always have the same keys)               *)
(*         anomaly  : Nat          consecutive abnormal rounds required    *)
(*                                 (0 = not configured, 1 = immediately)   *)
(*         numNodes : Nat]         NumberOfNodes                           *)
(*  rd  = [nodes : name -> [cap : Res -> Nat (multiples of 100), fresh,    *)
(*                          unsched : BOOLEAN, sys : Res -> Nat],          *)
(*         pods  : name -> [node, use : Res -> Nat, prod, pass, metric]]   *)
(*  A node without a fresh NodeMetric has no measured usage: it is neither *)
(*  source nor destination and does not count in the pool average.         *)
(*                                                                         *)
(* Several node pools (Part 1b).  A configuration is a SEQUENCE of pools,  *)
(* each a cfg record as above plus  sel = [nil : BOOLEAN, labels : Seq]    *)
(* (nil = no node selector: every node; otherwise the nodes carrying every *)
(* listed label; rd.nodes[n].labels is the node's label list).  One round  *)
(* processes the pools in order against the SAME measurements.  The table  *)
(* of a pool is the table of the round input restricted to the nodes its   *)
(* selector matches.  The predicates of Part 2 are evaluated per pool:     *)
(*  - thresholds, source kind, underused nodes, headroom, anomaly streak,  *)
(*    (Z): from the pool's own table / settings;                           *)
(*  - the running ESTIMATE of a node (Src / Stop) is the node's, not the   *)
(*    pool's: measured usage minus everything successfully evicted from it *)
(*    in this round, by whichever pool;                                    *)
(*  - the headroom of a pool's underused nodes is used up by the pool's    *)
(*    own evictions only (nothing is demanded across pools);               *)
(*  - (Fil) sees every eviction of the round so far.                       *)
(***************************************************************************)
EXTENDS Integers, Sequences, FiniteSets

Res == {"cpu", "mem"}

RECURSIVE SumF(_, _)
SumF(f, S) == IF S = {} THEN 0 ELSE LET x == CHOOSE y \in S : TRUE IN f[x] + SumF(f, S \ {x})

Min2(a, b) == IF a < b THEN a ELSE b
Max2(a, b) == IF a > b THEN a ELSE b

-----------------------------------------------------------------------------
(* Part 1: the table *)

NodesOf(rd) == DOMAIN rd.nodes
FreshOf(rd) == {n \in DOMAIN rd.nodes : rd.nodes[n].fresh}
PodsOn(rd, n) == {p \in DOMAIN rd.pods : rd.pods[p].node = n}

\* what evicting p takes off the estimates: its reported usage (a pod without a metric contributes nothing to the
\* measured usage, so nothing is taken off)
Dec(rd, p) == [r \in Res |-> IF rd.pods[p].metric THEN rd.pods[p].use[r] ELSE 0]

\* measured usage = system usage + reported usage of the pods; prod usage = reported usage of the prod pods
Usage(rd, n) == [r \in Res |-> rd.nodes[n].sys[r] + SumF([p \in PodsOn(rd, n) |-> Dec(rd, p)[r]], PodsOn(rd, n))]
ProdUsage(rd, n) == LET PP == {p \in PodsOn(rd, n) : rd.pods[p].prod}
                    IN  [r \in Res |-> SumF([p \in PP |-> Dec(rd, p)[r]], PP)]

Unconstrained(cfg, lowmap, r) == r \notin DOMAIN lowmap \/ (cfg.dev /\ lowmap[r] = 0)

MaxCap(rd, r) == CHOOSE c \in {rd.nodes[n].cap[r] : n \in NodesOf(rd)} : \A n \in NodesOf(rd) : rd.nodes[n].cap[r] <= c

(* threshold quantity of node n for resource r.                                                         *)
(*  absolute : floor(pct * cap / 100)                                                                   *)
(*  deviation: floor(clamp(avg + sign*dev, 0, 100) * cap / 100), avg = mean over the measured nodes of  *)
(*             100*usage/cap.  With L = largest capacity (every capacity divides it), S = SUM usage_i * *)
(*             L/cap_i :  avg + sign*dev = (10^4*S + sign*dev100*nF*L) / (100*nF*L).                    *)
(*  U = usage map (node or prod), m = the map the percentage is read from, sign = -1 (low) / +1 (high)  *)
Thr(cfg, rd, U, n, r, lowmap, m, sign) ==
  LET cap == rd.nodes[n].cap[r]
      K == cap \div 100
  IN  IF Unconstrained(cfg, lowmap, r) THEN cap
      ELSE IF ~cfg.dev THEN (m[r] * K) \div 100
      ELSE LET F  == FreshOf(rd)
               nF == Cardinality(F)
               L  == MaxCap(rd, r)
               S  == SumF([i \in F |-> U[i][r] * (L \div rd.nodes[i].cap[r])], F)
               P  == 10000 * S + sign * m[r] * nF * L
               Q  == 100 * nF * L
               Pc == IF P < 0 THEN 0 ELSE IF P > 100 * Q THEN 100 * Q ELSE P
           IN  (Pc * K) \div Q

TableOf(cfg, rd, F, U, PU) ==
  [use   |-> U,
   puse  |-> PU,
   low   |-> [n \in F |-> [r \in Res |-> Thr(cfg, rd, U,  n, r, cfg.low,  cfg.low,   -1)]],
   high  |-> [n \in F |-> [r \in Res |-> Thr(cfg, rd, U,  n, r, cfg.low,  cfg.high,   1)]],
   plow  |-> [n \in F |-> [r \in Res |-> Thr(cfg, rd, PU, n, r, cfg.plow, cfg.plow,  -1)]],
   phigh |-> [n \in F |-> [r \in Res |-> Thr(cfg, rd, PU, n, r, cfg.plow, cfg.phigh,  1)]],
   sched |-> [n \in F |-> ~rd.nodes[n].unsched]]
\* (U and PU are bound by a set constructor so that TLC evaluates them once: LET definitions are re-evaluated at every use)
Table(cfg, rd) ==
  CHOOSE t \in {TableOf(cfg, rd, FreshOf(rd), U, PU) : U \in {[n \in FreshOf(rd) |-> Usage(rd, n)]},
                                                      PU \in {[n \in FreshOf(rd) |-> ProdUsage(rd, n)]}} : TRUE

Measured(T) == DOMAIN T.use

OverV(u, h)  == \E r \in Res : u[r] > h[r]        \* above the high threshold: some resource strictly above
UnderV(u, l) == \A r \in Res : u[r] <= l[r]       \* below the low thresholds: every resource at or below

Over(T, n)      == OverV(T.use[n], T.high[n])
ProdOver(T, n)  == OverV(T.puse[n], T.phigh[n])
Under(T, n)     == T.sched[n] /\ UnderV(T.use[n], T.low[n])
ProdUnder(T, n) == T.sched[n] /\ UnderV(T.puse[n], T.plow[n])

\* which of its high thresholds makes n a source: the node-level one, else the prod-level one
Kind(T, n) == IF Over(T, n) /\ ~Under(T, n) THEN "node" ELSE IF ProdOver(T, n) THEN "prod" ELSE "none"

\* the underused nodes that can receive load of kind k (a node that is itself a source receives nothing)
Underused(T, k, m) ==
  IF k = "node" THEN Under(T, m) /\ ~ProdOver(T, m)
                ELSE ProdUnder(T, m) /\ ~ProdOver(T, m) /\ (Under(T, m) \/ ~Over(T, m))
UnderusedAny(T, m) == Underused(T, "node", m) \/ Underused(T, "prod", m)
UnderusedSet(T)    == {m \in Measured(T) : UnderusedAny(T, m)}

\* headroom of the underused nodes for load of kind k: what they can take before reaching their high threshold
Headroom0(T, k) ==
  LET D == {m \in Measured(T) : Underused(T, k, m)}
  IN  [r \in Res |-> SumF([m \in D |-> IF k = "node" THEN T.high[m][r] - T.use[m][r] ELSE T.phigh[m][r] - T.puse[m][r]], D)]

-----------------------------------------------------------------------------
(* Part 1b: node pools *)

HasLabel(rd, n, lb) == \E j \in 1..Len(rd.nodes[n].labels) : rd.nodes[n].labels[j] = lb
Matches(pool, rd, n) == IF pool.sel.nil THEN TRUE
                        ELSE \A i \in 1..Len(pool.sel.labels) : HasLabel(rd, n, pool.sel.labels[i])
PoolNodes(pool, rd) == {n \in NodesOf(rd) : Matches(pool, rd, n)}
Restrict(rd, M) == [nodes |-> [n \in M |-> rd.nodes[n]], pods |-> rd.pods]
\* the pool's table: measured usage of the selected nodes against the pool's thresholds (deviation thresholds: around the
\* average of the selected measured nodes)
PoolTable(pool, rd) == Table(pool, Restrict(rd, PoolNodes(pool, rd)))

-----------------------------------------------------------------------------
(* Part 2: property-level predicates.  cs = the Evict calls of this round made so far, in order, each     *)
(* [pod, ok] (ok = the evictor reported success: only then the pod leaves the node).  sN / sP = number of *)
(* consecutive rounds, this one included, in which the node's measured usage / prod usage was above its   *)
(* high threshold (a round without a fresh measurement neither counts nor interrupts).                    *)

OkIdx(rd, cs)        == {i \in 1..Len(cs) : cs[i].ok}
FromIdx(rd, cs, n)   == {i \in OkIdx(rd, cs) : rd.pods[cs[i].pod].node = n}
KindIdx(T, rd, cs, k) == {i \in OkIdx(rd, cs) : rd.pods[cs[i].pod].node \in Measured(T) /\ Kind(T, rd.pods[cs[i].pod].node) = k}

\* running estimates after the successful evictions so far
Est(T, rd, cs, n)  == LET I == FromIdx(rd, cs, n)
                      IN  [r \in Res |-> T.use[n][r] - SumF([i \in I |-> Dec(rd, cs[i].pod)[r]], I)]
PEst(T, rd, cs, n) == LET I == {i \in FromIdx(rd, cs, n) : rd.pods[cs[i].pod].prod}
                      IN  [r \in Res |-> T.puse[n][r] - SumF([i \in I |-> Dec(rd, cs[i].pod)[r]], I)]
Hd(T, rd, cs, k)   == LET I == KindIdx(T, rd, cs, k)
                          H == Headroom0(T, k)
                      IN  [r \in Res |-> H[r] - SumF([i \in I |-> Dec(rd, cs[i].pod)[r]], I)]

AnRequired(cfg) == cfg.anomaly >= 2

\* (Src) measured usage above its high threshold at round start, and still above on the running estimate
SrcOK(T, rd, cs, p) ==
  LET n == rd.pods[p].node IN
  /\ n \in Measured(T)
  /\ Kind(T, n) # "none"
  /\ (Kind(T, n) = "prod" => rd.pods[p].prod)
  /\ IF Kind(T, n) = "node" THEN OverV(Est(T, rd, cs, n), T.high[n]) ELSE OverV(PEst(T, rd, cs, n), T.phigh[n])
\* (An) overloaded for the required number of consecutive rounds
AnOK(cfg, T, rd, sN, sP, p) ==
  LET n == rd.pods[p].node IN
  AnRequired(cfg) => (IF Kind(T, n) = "node" THEN sN[n] ELSE sP[n]) >= cfg.anomaly
\* (Low) some other node is below the low thresholds to receive this load
LowOK(T, rd, p) ==
  LET n == rd.pods[p].node IN \E m \in Measured(T) \ {n} : Underused(T, Kind(T, n), m)
\* (Stop, second half) the headroom of the underused nodes is not used up
HdOK(T, rd, cs, p) ==
  LET n == rd.pods[p].node IN \A r \in Res : Hd(T, rd, cs, Kind(T, n))[r] > 0
\* (Fil) the pod passes the evictor's filter AT THE MOMENT it is evicted.  The filter may depend on what this round
\* already evicted: pods of one workload group (wl, "" = none) are let through one at a time (a per-workload limit on
\* migrating pods, as the migration evictor applies it), so a pod whose group already lost a member this round fails;
\* and a pod that was already evicted successfully in this round (it stays listed on its node until the next round:
\* eviction / migration is not instantaneous) is not let through a second time
Wl(rd, p) == IF "wl" \in DOMAIN rd.pods[p] THEN rd.pods[p].wl ELSE ""
FilOK(rd, cs, p) == /\ rd.pods[p].pass
                    /\ \A i \in OkIdx(rd, cs) : cs[i].pod # p
                    /\ (Wl(rd, p) = "" \/ \A i \in OkIdx(rd, cs) : Wl(rd, cs[i].pod) # Wl(rd, p))
\* (Z) nothing when no node is overloaded, none is underused, all are underused, or not more than NumberOfNodes are
NothingToDo(cfg, T) ==
  \/ \A n \in Measured(T) : Kind(T, n) = "none"
  \/ UnderusedSet(T) = {}
  \/ UnderusedSet(T) = Measured(T)
  \/ Cardinality(UnderusedSet(T)) <= cfg.numNodes
ZOK(cfg, T) == ~NothingToDo(cfg, T)

\* cs = every Evict call of the round so far (estimates, filter); pcs = those made on behalf of THIS pool (its headroom)
AllowedP(cfg, T, rd, sN, sP, cs, pcs, p) ==
  /\ p \in DOMAIN rd.pods
  /\ rd.pods[p].node \in Measured(T)
  /\ SrcOK(T, rd, cs, p)
  /\ AnOK(cfg, T, rd, sN, sP, p)
  /\ LowOK(T, rd, p)
  /\ HdOK(T, rd, pcs, p)
  /\ FilOK(rd, cs, p)
  /\ ZOK(cfg, T)
\* one pool
Allowed(cfg, T, rd, sN, sP, cs, p) == AllowedP(cfg, T, rd, sN, sP, cs, cs, p)

\* what the specification sees for Evict(p) (explain mode / diagnostics)
WhyP(cfg, T, rd, sN, sP, cs, pcs, p) ==
  IF p \notin DOMAIN rd.pods THEN [unknownPod |-> p]
  ELSE LET n == rd.pods[p].node IN
  IF n \notin Measured(T) THEN [node |-> n, measured |-> FALSE]
  ELSE LET k == Kind(T, n) IN
       [node |-> n, kind |-> k, measured |-> TRUE,
        estimate |-> IF k = "prod" THEN PEst(T, rd, cs, n) ELSE Est(T, rd, cs, n),
        highThreshold |-> IF k = "prod" THEN T.phigh[n] ELSE T.high[n],
        src |-> SrcOK(T, rd, cs, p), an |-> AnOK(cfg, T, rd, sN, sP, p),
        streak |-> IF k = "prod" THEN sP[n] ELSE sN[n], required |-> cfg.anomaly,
        low |-> LowOK(T, rd, p), headroom |-> Hd(T, rd, pcs, IF k = "none" THEN "node" ELSE k),
        hd |-> HdOK(T, rd, pcs, p), fil |-> FilOK(rd, cs, p), z |-> ZOK(cfg, T)]
Why(cfg, T, rd, sN, sP, cs, p) == WhyP(cfg, T, rd, sN, sP, cs, cs, p)

StreakCap == 9
NextStreak(T, rd, s, prodKind) ==
  [n \in NodesOf(rd) |->
     IF n \notin Measured(T) THEN s[n]
     ELSE IF (IF prodKind THEN ProdOver(T, n) ELSE Over(T, n)) THEN Min2(s[n] + 1, StreakCap) ELSE 0]

-----------------------------------------------------------------------------
(* Part 3: transcription of the code *)

\* classifyNodes (utilization_util.go): low is tested first, then high, prod inside each branch
ClsLow(T)      == {n \in Measured(T) : Under(T, n) /\ ~ProdOver(T, n) /\ ~ProdUnder(T, n)}
ClsBothLow(T)  == {n \in Measured(T) : Under(T, n) /\ ~ProdOver(T, n) /\ ProdUnder(T, n)}
ClsHigh(T)     == {n \in Measured(T) : ~Under(T, n) /\ Over(T, n)}
ClsProdHigh(T) == {n \in Measured(T) : (Under(T, n) \/ ~Over(T, n)) /\ ProdOver(T, n)}
ClsProdLow(T)  == {n \in Measured(T) : ~Under(T, n) /\ ~Over(T, n) /\ ~ProdOver(T, n) /\ ProdUnder(T, n)}

\* anomaly.BasicDetector as configured by filterRealAbnormalNodes (timeouts far away):
\*   anomaly condition  ConsecutiveAbnormalities > A   normal condition  ConsecutiveNormalities > N
\* state OK carries the abnormal count, state AN the normal count (the other counter is never read there)
NoDet  == [st |-> "none", c |-> 0]
NewDet == [st |-> "OK", c |-> 0]
DetCur(d, N)  == IF d.st = "AN" /\ d.c > N THEN NewDet ELSE d                   \* currentState()
DetMarkAb(d0, A, N) ==                                                          \* Mark(false)
  LET d == DetCur(IF d0.st = "none" THEN NewDet ELSE d0, N) IN
  IF d.st = "OK" THEN (IF d.c + 1 > A THEN [st |-> "AN", c |-> 0] ELSE [st |-> "OK", c |-> d.c + 1])
                 ELSE [st |-> "AN", c |-> 0]
DetMarkNorm(d0, N) ==                                                           \* Mark(true), only on existing detectors
  IF d0.st = "none" THEN d0
  ELSE LET d == DetCur(d0, N) IN
       IF d.st = "OK" THEN [st |-> "OK", c |-> 0]
       ELSE IF d.c + 1 > N THEN NewDet ELSE [st |-> "AN", c |-> d.c + 1]
DetReset(d) == IF d.st = "AN" THEN NewDet ELSE d                                \* Reset(): setState(OK) is a no-op in state OK

\* continue-eviction condition (low_node_load.go): still over its high threshold and every headroom figure positive
ContOver(u, h) == OverV(u, h)
ContAvail(av)  == \A r \in Res : av[r] > 0
=============================================================================
