\* MC_asfound.cfg5
SPECIFICATION Spec
CONSTANTS
  MCNodes <- N3
  MCCap <- Cap3
  MCUnsched = {}
  MCPods <- PodsA
  BaseCfg <- CfgAbsProd
  AnomalySet = {2}
  MCNorm = 1
  SysChoices <- Sys3
  StaleChoices = {{}}
  NoPassChoices = {{}}
  Rounds = 4
  Repaired = FALSE
  NodeFit = FALSE
  MayFail = FALSE
INVARIANT PropOK
INVARIANT EstOK
CHECK_DEADLOCK FALSE
