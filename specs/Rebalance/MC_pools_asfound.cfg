\* MC_pools_asfound.cfg: the tree as found: TLC REFUTES PropOK (not run by the pipeline; documents the defects behind proposed_fixes/C18b)
SPECIFICATION Spec
CONSTANTS
  MCNodes <- N3
  MCCap <- Cap3
  MCLabels <- Lab3
  MCPods <- PodsA
  PoolChoices <- ChoicesQuick
  SysChoices <- Sys3
  NoPassChoices = {{}}
  Rounds = 3
  MayFail = FALSE
  FixSel = FALSE
  FixProd = FALSE
  FixDet = FALSE
  FixForget = FALSE
INVARIANT PropOK
CHECK_DEADLOCK FALSE
