--------------------------- MODULE RebalanceTrace ---------------------------
(***************************************************************************)
(* Trace validation for C18.  One segment = one LowNodeLoad plugin         *)
(* instance (its anomaly detectors live as long as the segment) driven     *)
(* through several successive Balance rounds:                              *)
(*   reset  cfg = [numNodes, pools : sequence of node pools, each with its *)
(*          selector (sel), thresholds in hundredths of a percent,         *)
(*          deviation flag and anomaly setting], names (all node names)    *)
(*   round  the inputs of one Balance call: nodes (labels, capacity, fresh *)
(*          metric?, unschedulable?, system usage) and pods (node,         *)
(*          reported usage, prod?, passes the evictor's filter?, has a pod *)
(*          metric?)                                                       *)
(*   evict  one Evict(pod) call received by the recording evictor, in      *)
(*          order, with the result the evictor returned (ok)               *)
(*   end    Balance returned; obs = the recorder's count / list of the     *)
(*          pods handed to Evict in this round                             *)
(* TLC recomputes one usage / threshold table per pool from the round      *)
(* inputs and accepts an evict event only if the property-level predicates *)
(* of Rebalance.tla hold for it under SOME pool that can be at work        *)
(* (AllowedP).  Nothing else is demanded: any order, any subset, any       *)
(* number of rounds without evictions is accepted.                         *)
(*                                                                         *)
(* Which pool an Evict call belongs to is not observable.  The pools are   *)
(* processed in order, so the calls of a round are attributed to pools     *)
(* monotonically: cur = the pool the previous call was attributed to; a    *)
(* call is attributed to the FIRST pool k >= cur under which it is         *)
(* allowed.  (Greedy is complete: the only thing an attribution changes    *)
(* for later calls is whose headroom is charged, and attributing to an     *)
(* earlier pool leaves every later pool's headroom untouched.)             *)
(***************************************************************************)
EXTENDS Rebalance, TraceCommon, SequencesExt

VARIABLES cfg, rd, tabs, sN, sP, calls, cur, open
vars == <<cfg, rd, tabs, sN, sP, calls, cur, open>>

PoolOf(e, k) == LET q == e.cfg.pools[k] IN
  [sel |-> [nil |-> q.sel.nil, labels |-> q.sel.labels],
   dev |-> q.dev, low |-> q.low, high |-> q.high, plow |-> q.plow, phigh |-> q.phigh,
   anomaly |-> q.anomaly, numNodes |-> e.cfg.numNodes]         \* NumberOfNodes is one setting for all pools
CfgOf(e) == [k \in 1..Len(e.cfg.pools) |-> PoolOf(e, k)]
NP == Len(cfg)

Init(e) == /\ cfg = CfgOf(e)
           /\ rd = [nodes |-> <<>>, pods |-> <<>>]
           /\ tabs = <<>>
           /\ sN = [k \in 1..Len(e.cfg.pools) |-> [n \in ToSet(e.names) |-> 0]]
           /\ sP = [k \in 1..Len(e.cfg.pools) |-> [n \in ToSet(e.names) |-> 0]]
           /\ calls = <<>>
           /\ cur = 1
           /\ open = FALSE

\* the streaks are kept per pool: "above ITS high threshold" is the threshold of the pool that evicts; a round in which the
\* pool does not select the node (or the node is not measured) neither counts nor interrupts
TRound == /\ IsEvent("round")
          /\ ~open
          /\ DOMAIN Ev.nodes = DOMAIN sN[1]
          /\ \E R \in {[nodes |-> Ev.nodes, pods |-> Ev.pods]} : \E TS \in {[k \in 1..NP |-> PoolTable(cfg[k], R)]} :
               /\ rd' = R /\ tabs' = TS
               /\ sN' = [k \in 1..NP |-> NextStreak(TS[k], R, sN[k], FALSE)]
               /\ sP' = [k \in 1..NP |-> NextStreak(TS[k], R, sP[k], TRUE)]
          /\ calls' = <<>> /\ cur' = 1 /\ open' = TRUE
          /\ UNCHANGED cfg

PoolCalls(k) == SelectSeq(calls, LAMBDA c : c.pool = k)
\* Second pass for the recorded finding "anomaly detectors shared across node pools" (known_findings.json): the clause (An)
\* - enough consecutive rounds above the evicting pool's own high threshold - is switched off for the nodes that several
\* pools select, and for those only; every other clause stays.  (A call the shared detector let through too early is also
\* attributed to another pool by the first pass, which shifts the cursor: such segments are re-validated as a whole.)
TolerateShared == "VERIF_TOLERATE_C18_SHARED" \in DOMAIN IOEnv
SharedNodes == {n \in DOMAIN sN[1] : Cardinality({k \in 1..NP : n \in Measured(tabs[k])}) > 1}
StreakFor(s) == IF TolerateShared THEN [n \in DOMAIN s |-> IF n \in SharedNodes THEN StreakCap ELSE s[n]] ELSE s
AllowedIn(k, p) == AllowedP(cfg[k], tabs[k], rd, StreakFor(sN[k]), StreakFor(sP[k]), calls, PoolCalls(k), p)
\* was this pod's node already relieved by an earlier pool of this round, and as which kind of source ("" = no)?
\* (diagnostics only)
Again(k, p) == IF p \notin DOMAIN rd.pods THEN ""
               ELSE LET n == rd.pods[p].node
                        J == {calls[i].pool : i \in FromIdx(rd, calls, n)} \cap 1..(k - 1)
                    IN  IF J = {} THEN ""
                        ELSE LET j == CHOOSE x \in J : \A y \in J : x <= y
                             IN  IF n \in Measured(tabs[j]) THEN Kind(tabs[j], n) ELSE "?"
WhyIn(k, p) == [pool |-> k, past |-> k < cur, selNil |-> cfg[k].sel.nil, again |-> Again(k, p),
                why |-> WhyP(cfg[k], tabs[k], rd, sN[k], sP[k], calls, PoolCalls(k), p)]

TEvict == /\ IsEvent("evict")
          /\ open
          /\ \E p \in {Ev.pod} : \E OKs \in {{k \in cur..NP : AllowedIn(k, p)}} :
               /\ Expect(OKs # {}, [cursor |-> cur, pools |-> [k \in 1..NP |-> WhyIn(k, p)]])
               /\ \E k \in {IF OKs = {} THEN cur ELSE CHOOSE x \in OKs : \A y \in OKs : x <= y} :
                    /\ calls' = Append(calls, [pod |-> p, ok |-> Ev.ok, pool |-> k])
                    /\ cur' = k
          /\ UNCHANGED <<cfg, rd, tabs, sN, sP, open>>

\* the recorder's own summary of the round must agree with the evict events (binds the count and the order)
TEnd == /\ IsEvent("end")
        /\ open
        /\ Expect(/\ Ev.obs.calls = Len(calls)
                  /\ Len(Ev.obs.pods) = Len(calls)
                  /\ \A i \in 1..Len(calls) : Ev.obs.pods[i] = calls[i].pod,
                  [calls |-> Len(calls), pods |-> [i \in 1..Len(calls) |-> calls[i].pod]])
        /\ open' = FALSE /\ calls' = <<>> /\ cur' = 1
        /\ UNCHANGED <<cfg, rd, tabs, sN, sP>>

TraceInit == \E i \in Starts : TraceStart(i) /\ Init(Trace[i])
TraceNext == TRound \/ TEvict \/ TEnd \/ (SegDone /\ UNCHANGED vars)
TraceSpec == TraceInit /\ [][TraceNext]_<<vars, tvars>>
=============================================================================
