--------------------------- MODULE RebalanceTrace ---------------------------
(***************************************************************************)
(* Trace validation for C18.  One segment = one LowNodeLoad plugin         *)
(* instance (its anomaly detectors live as long as the segment) driven     *)
(* through several successive Balance rounds:                              *)
(*   reset  cfg (thresholds in hundredths of a percent, deviation flag,    *)
(*          anomaly, numNodes), names (the node names of the pool)         *)
(*   round  the inputs of one Balance call: nodes (capacity, fresh metric?,*)
(*          unschedulable?, system usage) and pods (node, reported usage,  *)
(*          prod?, passes the evictor's filter?, has a pod metric?)        *)
(*   evict  one Evict(pod) call received by the recording evictor, in      *)
(*          order, with the result the evictor returned (ok)               *)
(*   end    Balance returned; obs = the recorder's count / list of the     *)
(*          pods handed to Evict in this round                             *)
(* TLC recomputes the usage / threshold table from the round inputs and    *)
(* accepts an evict event only if the property-level predicates of         *)
(* Rebalance.tla hold for it (Allowed).  Nothing else is demanded: any     *)
(* order, any subset, any number of rounds without evictions is accepted.  *)
(***************************************************************************)
EXTENDS Rebalance, TraceCommon, SequencesExt

VARIABLES cfg, rd, tab, sN, sP, calls, open
vars == <<cfg, rd, tab, sN, sP, calls, open>>

CfgOf(e) == [dev |-> e.cfg.dev, low |-> e.cfg.low, high |-> e.cfg.high, plow |-> e.cfg.plow, phigh |-> e.cfg.phigh,
             anomaly |-> e.cfg.anomaly, numNodes |-> e.cfg.numNodes]

Init(e) == /\ cfg = CfgOf(e)
           /\ rd = [nodes |-> <<>>, pods |-> <<>>]
           /\ tab = <<>>
           /\ sN = [n \in ToSet(e.names) |-> 0]
           /\ sP = [n \in ToSet(e.names) |-> 0]
           /\ calls = <<>>
           /\ open = FALSE

TRound == /\ IsEvent("round")
          /\ ~open
          /\ DOMAIN Ev.nodes = DOMAIN sN
          /\ \E R \in {[nodes |-> Ev.nodes, pods |-> Ev.pods]} : \E T \in {Table(cfg, R)} :
               /\ rd' = R /\ tab' = T
               /\ sN' = NextStreak(T, R, sN, FALSE)
               /\ sP' = NextStreak(T, R, sP, TRUE)
          /\ calls' = <<>> /\ open' = TRUE
          /\ UNCHANGED cfg

TEvict == /\ IsEvent("evict")
          /\ open
          /\ Expect(Allowed(cfg, tab, rd, sN, sP, calls, Ev.pod), Why(cfg, tab, rd, sN, sP, calls, Ev.pod))
          /\ calls' = Append(calls, [pod |-> Ev.pod, ok |-> Ev.ok])
          /\ UNCHANGED <<cfg, rd, tab, sN, sP, open>>

\* the recorder's own summary of the round must agree with the evict events (binds the count and the order)
TEnd == /\ IsEvent("end")
        /\ open
        /\ Expect(/\ Ev.obs.calls = Len(calls)
                  /\ Len(Ev.obs.pods) = Len(calls)
                  /\ \A i \in 1..Len(calls) : Ev.obs.pods[i] = calls[i].pod,
                  [calls |-> Len(calls), pods |-> [i \in 1..Len(calls) |-> calls[i].pod]])
        /\ open' = FALSE /\ calls' = <<>>
        /\ UNCHANGED <<cfg, rd, tab, sN, sP>>

TraceInit == \E i \in Starts : TraceStart(i) /\ Init(Trace[i])
TraceNext == TRound \/ TEvict \/ TEnd \/ (SegDone /\ UNCHANGED vars)
TraceSpec == TraceInit /\ [][TraceNext]_<<vars, tvars>>
=============================================================================
