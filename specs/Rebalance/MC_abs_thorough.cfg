\* MC_abs_thorough.cfg5
SPECIFICATION Spec
CONSTANTS
  MCNodes <- N3
  MCCap <- Cap3
  MCUnsched = {}
  MCPods <- PodsA
  BaseCfg <- CfgAbsProd
  AnomalySet = {0, 1, 2}
  MCNorm = 1
  SysChoices <- Sys4
  StaleChoices = {{}}
  NoPassChoices = {{}, {"p2"}, {"p1"}}
  Rounds = 4
  Repaired = TRUE
  NodeFit = FALSE
  MayFail = TRUE
INVARIANT PropOK
INVARIANT EstOK
CHECK_DEADLOCK FALSE
