\* MC_pools_thorough.cfg: as MC_pools_quick.cfg with anomaly pairs (2,3) / (3,2) and 4 rounds
SPECIFICATION Spec
CONSTANTS
  MCNodes <- N3
  MCCap <- Cap3
  MCLabels <- Lab3
  MCPods <- PodsA
  PoolChoices <- ChoicesThorough
  SysChoices <- Sys3
  NoPassChoices = {{}}
  Rounds = 4
  MayFail = FALSE
  FixSel = TRUE
  FixProd = TRUE
  FixDet = TRUE
  FixForget = TRUE
INVARIANT PropOK
INVARIANT EstOK
CHECK_DEADLOCK FALSE
