\* MC_pools_without_prod.cfg: C18b without "prod-level source nodes are recorded": TLC REFUTES PropOK (not run by the pipeline)
SPECIFICATION Spec
CONSTANTS
  MCNodes <- N3
  MCCap <- Cap3
  MCLabels <- Lab3
  MCPods <- PodsA
  PoolChoices <- ChoicesThorough
  SysChoices <- Sys3
  NoPassChoices = {{}}
  Rounds = 4
  MayFail = FALSE
  FixSel = TRUE
  FixProd = FALSE
  FixDet = TRUE
  FixForget = TRUE
INVARIANT PropOK
CHECK_DEADLOCK FALSE
