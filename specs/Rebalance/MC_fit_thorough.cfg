\* MC_fit_thorough.cfg5
SPECIFICATION Spec
CONSTANTS
  MCNodes <- N3
  MCCap <- Cap3
  MCUnsched = {"n3"}
  MCPods <- PodsB
  BaseCfg <- CfgAbsN1
  AnomalySet = {0, 2}
  MCNorm = 1
  SysChoices <- Sys3
  StaleChoices = {{}, {"n3"}}
  NoPassChoices = {{}, {"p3"}}
  Rounds = 4
  Repaired = TRUE
  NodeFit = TRUE
  MayFail = TRUE
INVARIANT PropOK
INVARIANT EstOK
CHECK_DEADLOCK FALSE
