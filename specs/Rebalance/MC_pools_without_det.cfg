\* MC_pools_without_det.cfg: C18b without "detectors per pool": TLC REFUTES PropOK (not run by the pipeline)
SPECIFICATION Spec
CONSTANTS
  MCNodes <- N3
  MCCap <- Cap3
  MCLabels <- Lab3
  MCPods <- PodsA
  PoolChoices <- ChoicesThorough
  SysChoices <- Sys3
  NoPassChoices = {{}}
  Rounds = 4
  MayFail = FALSE
  FixSel = TRUE
  FixProd = TRUE
  FixDet = FALSE
  FixForget = TRUE
INVARIANT PropOK
CHECK_DEADLOCK FALSE
