\* MC_dev_quick.cfg5
SPECIFICATION Spec
CONSTANTS
  MCNodes <- N3
  MCCap <- Cap3
  MCUnsched = {}
  MCPods <- PodsA
  BaseCfg <- CfgDev
  AnomalySet = {0, 2}
  MCNorm = 1
  SysChoices <- Sys3
  StaleChoices = {{}}
  NoPassChoices = {{}}
  Rounds = 4
  Repaired = TRUE
  NodeFit = FALSE
  MayFail = FALSE
INVARIANT PropOK
INVARIANT EstOK
CHECK_DEADLOCK FALSE
