\* MC_pools_without_forget.cfg: C18b without "a pool forgets its detectors of processed nodes": TLC REFUTES PropOK (not run by the pipeline)
SPECIFICATION Spec
CONSTANTS
  MCNodes <- N3
  MCCap <- Cap3
  MCLabels <- Lab3
  MCPods <- PodsA
  PoolChoices <- ChoicesThorough
  SysChoices <- Sys3
  NoPassChoices = {{}}
  Rounds = 4
  MayFail = FALSE
  FixSel = TRUE
  FixProd = TRUE
  FixDet = TRUE
  FixForget = FALSE
INVARIANT PropOK
CHECK_DEADLOCK FALSE
