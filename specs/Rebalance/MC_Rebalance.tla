---------------------------- MODULE MC_Rebalance ----------------------------
(***************************************************************************)
(* Decide C18 on the model: the balancing loop of LowNodeLoad (Part 3 of   *)
(* Rebalance.tla: classification, anomaly detectors carried across rounds, *)
(* early exits, continue-eviction condition evaluated before every pod,    *)
(* running usage / totalAvailable decremented per successful eviction, the *)
(* prod pass with its reduced headroom) is run as a process over every     *)
(* input of a small domain, for Rounds successive rounds; every Evict call *)
(* it makes must satisfy the property-level predicates (PropOK).           *)
(*                                                                         *)
(* The model is MORE liberal than the code where the property does not     *)
(* care: source nodes and pods are taken in any order, with NodeFit any    *)
(* subset of the passing pods may be removable, an eviction may fail.      *)
(*                                                                         *)
(* Repaired = FALSE transcribes the detectors as found (a streak survives  *)
(* rounds in which the node was not overloaded): TLC then refutes (An),    *)
(* see MC_asfound.cfg.  Repaired = TRUE forgets the detector of a measured *)
(* node that is not a source in this round (proposed_fixes/C18).           *)
(***************************************************************************)
EXTENDS Rebalance, TLC

CONSTANTS MCNodes,        \* node names
          MCCap,          \* node -> capacity (both resources)
          MCUnsched,      \* unschedulable nodes
          MCPods,         \* pod -> [node, use, prod]
          BaseCfg,        \* thresholds etc. (anomaly filled in from AnomalySet)
          AnomalySet,     \* values of ConsecutiveAbnormalities explored (0 = not configured)
          MCNorm,         \* ConsecutiveNormalities
          SysChoices,     \* per node and round: system usage in percent of the capacity, [cpu, mem]
          StaleChoices,   \* per round: the set of nodes without a fresh metric
          NoPassChoices,  \* per round: the set of pods the evictor's filter rejects
          Rounds, Repaired, NodeFit, MayFail

VARIABLES round, anomaly, rd, tab, ndet, pdet, sN, sP,
          pc, abn, pabn, todo, cur, rem, use, puse, avail, calls
vars == <<round, anomaly, rd, tab, ndet, pdet, sN, sP, pc, abn, pabn, todo, cur, rem, use, puse, avail, calls>>

Cfg == [BaseCfg EXCEPT !.anomaly = anomaly]
Zero == [r \in Res |-> 0]
Sub(a, b) == [r \in Res |-> a[r] - b[r]]
ZeroUse == [n \in MCNodes |-> Zero]

RdOf(sys, stale, nopass) ==
  [nodes |-> [n \in MCNodes |-> [cap |-> [r \in Res |-> MCCap[n]], fresh |-> n \notin stale, unsched |-> n \in MCUnsched,
                                 sys |-> [r \in Res |-> (sys[n][r] * MCCap[n]) \div 100]]],
   pods  |-> [p \in DOMAIN MCPods |-> [node |-> MCPods[p].node, use |-> MCPods[p].use, prod |-> MCPods[p].prod,
                                       pass |-> p \notin nopass, metric |-> TRUE]]]

Idle(r) == /\ pc' = "idle" /\ round' = r /\ abn' = {} /\ pabn' = {} /\ todo' = {} /\ cur' = "" /\ rem' = {}
           /\ use' = ZeroUse /\ puse' = ZeroUse /\ avail' = Zero /\ calls' = <<>>

Init == /\ round = 0 /\ anomaly \in AnomalySet
        /\ rd = RdOf([n \in MCNodes |-> [cpu |-> 0, mem |-> 0]], {}, {})
        /\ tab = Table([BaseCfg EXCEPT !.anomaly = 0], rd)
        /\ ndet = [n \in MCNodes |-> NoDet] /\ pdet = [n \in MCNodes |-> NoDet]
        /\ sN = [n \in MCNodes |-> 0] /\ sP = [n \in MCNodes |-> 0]
        /\ pc = "idle" /\ abn = {} /\ pabn = {} /\ todo = {} /\ cur = "" /\ rem = {}
        /\ use = ZeroUse /\ puse = ZeroUse /\ avail = Zero /\ calls = <<>>

\* processOneNodePool up to the call of evictPodsFromSourceNodes
StartRound ==
  /\ pc = "idle" /\ round < Rounds
  /\ \E sys \in [MCNodes -> SysChoices], stale \in StaleChoices, nopass \in NoPassChoices :
     \E R \in {RdOf(sys, stale, nopass)} : \E T \in {Table(Cfg, R)} :           \* (bound, so that TLC evaluates them once)
     \E hi \in {ClsHigh(T)}, ph \in {ClsProdHigh(T)}, lo \in {ClsLow(T)}, bl \in {ClsBothLow(T)}, pl \in {ClsProdLow(T)} :
       LET nd0 == IF Repaired THEN [n \in MCNodes |-> IF n \in Measured(T) /\ n \notin hi THEN NoDet ELSE ndet[n]] ELSE ndet
           pd0 == IF Repaired THEN [n \in MCNodes |-> IF n \in Measured(T) /\ n \notin ph THEN NoDet ELSE pdet[n]] ELSE pdet
           useDet == anomaly >= 2          \* nil condition or ConsecutiveAbnormalities = 1: every source node is abnormal
           nd1 == IF useDet THEN [n \in MCNodes |-> IF n \in hi THEN DetMarkAb(nd0[n], anomaly, MCNorm) ELSE nd0[n]] ELSE nd0
           pd1 == IF useDet THEN [n \in MCNodes |-> IF n \in ph THEN DetMarkAb(pd0[n], anomaly, MCNorm) ELSE pd0[n]] ELSE pd0
           ab  == IF useDet THEN {n \in hi : nd1[n].st = "AN"} ELSE hi
           pab == IF useDet THEN {n \in ph : pd1[n].st = "AN"} ELSE ph
           nd2 == [n \in MCNodes |-> IF n \in lo \cup bl THEN DetReset(nd1[n]) ELSE nd1[n]]
           pd2 == [n \in MCNodes |-> IF n \in pl THEN DetReset(pd1[n]) ELSE pd1[n]]
           allLow == Cardinality(lo \cup bl \cup pl)
           tg == lo \cup bl
       IN  /\ rd' = R /\ tab' = T
           /\ sN' = NextStreak(T, R, sN, FALSE) /\ sP' = NextStreak(T, R, sP, TRUE)
           /\ UNCHANGED anomaly
           /\ IF hi = {} /\ ph = {} THEN ndet' = nd0 /\ pdet' = pd0 /\ Idle(round + 1)
              ELSE IF (ab = {} /\ pab = {}) \/ (lo \cup bl \cup pl = {}) THEN ndet' = nd1 /\ pdet' = pd1 /\ Idle(round + 1)
              ELSE IF allLow <= Cfg.numNodes \/ allLow = Cardinality(MCNodes) THEN ndet' = nd2 /\ pdet' = pd2 /\ Idle(round + 1)
              ELSE /\ ndet' = nd2 /\ pdet' = pd2
                   /\ pc' = "node" /\ round' = round /\ abn' = ab /\ pabn' = pab
                   /\ todo' = IF tg = {} THEN {} ELSE ab          \* balancePods returns at once without target nodes
                   /\ cur' = "" /\ rem' = {}
                   /\ use' = T.use /\ puse' = T.puse
                   /\ avail' = [r \in Res |-> SumF([m \in tg |-> T.high[m][r] - T.use[m][r]], tg)]
                   /\ calls' = <<>>

Cand(n) == {p \in PodsOn(rd, n) : rd.pods[p].pass /\ (pc = "prod" => rd.pods[p].prod)}

PickSrc ==
  /\ pc \in {"node", "prod"} /\ cur = "" /\ todo # {}
  /\ \E n \in todo :
       /\ cur' = n /\ todo' = todo \ {n}
       /\ rem' \in (IF NodeFit THEN SUBSET Cand(n) ELSE {Cand(n)})
  /\ UNCHANGED <<round, anomaly, rd, tab, ndet, pdet, sN, sP, pc, abn, pabn, use, puse, avail, calls>>

\* evictPods: for every removable pod, first the continue-eviction condition, then Evict, then the bookkeeping
Step ==
  /\ pc \in {"node", "prod"} /\ cur # ""
  /\ LET over == IF pc = "node" THEN ContOver(use[cur], tab.high[cur]) ELSE ContOver(puse[cur], tab.phigh[cur]) IN
     IF rem = {} THEN
        /\ cur' = ""
        /\ UNCHANGED <<round, anomaly, rd, tab, ndet, pdet, sN, sP, pc, abn, pabn, todo, rem, use, puse, avail, calls>>
     ELSE IF ~over THEN
        /\ cur' = "" /\ rem' = {}
        /\ IF pc = "node" THEN ndet' = [ndet EXCEPT ![cur] = DetReset(@)] /\ UNCHANGED pdet
                          ELSE pdet' = [pdet EXCEPT ![cur] = DetReset(@)] /\ UNCHANGED ndet
        /\ UNCHANGED <<round, anomaly, rd, tab, sN, sP, pc, abn, pabn, todo, use, puse, avail, calls>>
     ELSE IF ~ContAvail(avail) THEN
        /\ cur' = "" /\ rem' = {}
        /\ UNCHANGED <<round, anomaly, rd, tab, ndet, pdet, sN, sP, pc, abn, pabn, todo, use, puse, avail, calls>>
     ELSE \E p \in rem :
        /\ rem' = rem \ {p}
        /\ \/ /\ calls' = Append(calls, [pod |-> p, ok |-> TRUE])
              /\ avail' = Sub(avail, Dec(rd, p))
              /\ use' = [use EXCEPT ![cur] = Sub(@, Dec(rd, p))]
              /\ puse' = IF pc = "prod" THEN [puse EXCEPT ![cur] = Sub(@, Dec(rd, p))] ELSE puse
           \/ /\ MayFail
              /\ calls' = Append(calls, [pod |-> p, ok |-> FALSE])
              /\ UNCHANGED <<avail, use, puse>>
        /\ UNCHANGED <<round, anomaly, rd, tab, ndet, pdet, sN, sP, pc, abn, pabn, todo, cur>>

EndPass ==
  /\ pc \in {"node", "prod"} /\ cur = "" /\ todo = {}
  /\ IF pc = "node" THEN
        LET T  == tab
            bl == ClsBothLow(T)   pl == ClsProdLow(T)
            bothNode == [r \in Res |-> Min2(SumF([m \in bl |-> T.high[m][r] - T.use[m][r]], bl), avail[r])]
            bothProd == [r \in Res |-> SumF([m \in bl |-> T.phigh[m][r] - T.puse[m][r]], bl)]
            onlyProd == [r \in Res |-> SumF([m \in pl |-> T.phigh[m][r] - T.puse[m][r]], pl)]
        IN  /\ pc' = "prod"
            /\ avail' = [r \in Res |-> onlyProd[r] + Min2(bothProd[r], bothNode[r])]
            /\ todo' = IF pl \cup bl = {} THEN {} ELSE pabn
            /\ UNCHANGED <<round, anomaly, rd, tab, ndet, pdet, sN, sP, abn, pabn, cur, rem, use, puse, calls>>
     ELSE
        \* tryMarkNodesAsNormal on the nodes that were treated as abnormal
        /\ ndet' = [n \in MCNodes |-> IF n \in abn THEN DetMarkNorm(ndet[n], MCNorm) ELSE ndet[n]]
        /\ pdet' = [n \in MCNodes |-> IF n \in pabn THEN DetMarkNorm(pdet[n], MCNorm) ELSE pdet[n]]
        /\ Idle(round + 1)
        /\ UNCHANGED <<anomaly, rd, tab, sN, sP>>

Next == StartRound \/ PickSrc \/ Step \/ EndPass
Spec == Init /\ [][Next]_vars

-----------------------------------------------------------------------------
\* every Evict call of the loop satisfies the property-level predicates (checked when it is the last call made)
PropOK == calls # <<>> =>
            Allowed(Cfg, tab, rd, sN, sP, SubSeq(calls, 1, Len(calls) - 1), calls[Len(calls)].pod)
\* the loop's running figures are the specification's estimates (node pass: usage; prod pass: prod usage)
EstOK == (pc \in {"node", "prod"} /\ cur # "") =>
            /\ use[cur] = Est(tab, rd, calls, cur)
            /\ (pc = "prod" => puse[cur] = PEst(tab, rd, calls, cur))
            /\ \A r \in Res : avail[r] <= Hd(tab, rd, calls, pc)[r]

\* reachability probes (each must be VIOLATED when checked as an invariant: see the comments in the cfg files)
NoTwoEvictions  == Len(calls) < 2
NoProdEviction  == ~(pc = "prod" /\ calls # <<>> /\ Kind(tab, rd.pods[calls[Len(calls)].pod].node) = "prod")
NoAnomalyGated  == ~(anomaly >= 2 /\ calls # <<>>)
NoHeadroomStop  == ~(pc \in {"node", "prod"} /\ cur # "" /\ rem # {} /\ calls # <<>> /\ ~ContAvail(avail)
                     /\ (IF pc = "node" THEN ContOver(use[cur], tab.high[cur]) ELSE ContOver(puse[cur], tab.phigh[cur])))

-----------------------------------------------------------------------------
(* concrete domains (selected with  X <- Y  in the cfg files) *)
N2 == {"n1", "n2"}
N3 == {"n1", "n2", "n3"}
Cap3 == [n \in N3 |-> IF n = "n2" THEN 2000 ELSE 1000]           \* two capacities
Cap2 == [n \in N2 |-> IF n = "n2" THEN 2000 ELSE 1000]
U(c, m) == [cpu |-> c, mem |-> m]
\* n1 is the usual source (two pods, one prod), n2 the big node, n3 a small one
PodsA == [p1 |-> [node |-> "n1", use |-> U(200, 100), prod |-> TRUE],
          p2 |-> [node |-> "n1", use |-> U(100, 300), prod |-> FALSE],
          p3 |-> [node |-> "n2", use |-> U(400, 200), prod |-> TRUE],
          p4 |-> [node |-> "n3", use |-> U(100, 100), prod |-> FALSE]]
PodsB == [p1 |-> [node |-> "n1", use |-> U(200, 100), prod |-> TRUE],
          p2 |-> [node |-> "n1", use |-> U(100, 300), prod |-> TRUE],
          p3 |-> [node |-> "n1", use |-> U(300, 0),   prod |-> FALSE],
          p4 |-> [node |-> "n2", use |-> U(400, 200), prod |-> TRUE]]
\* system usage in percent of the capacity; with the pods this gives node usages around 10 / 50 / 90 percent
Sys4 == {U(0, 0), U(40, 10), U(70, 10), U(10, 70)}
Sys3 == {U(0, 0), U(40, 10), U(70, 10)}
CfgAbs     == [dev |-> FALSE, low |-> U(2000, 2000), high |-> U(8000, 8000), plow |-> <<>>, phigh |-> <<>>,
               anomaly |-> 0, numNodes |-> 0]
CfgAbsProd == [dev |-> FALSE, low |-> U(2000, 2000), high |-> U(8000, 8000), plow |-> [cpu |-> 1000], phigh |-> [cpu |-> 1500],
               anomaly |-> 0, numNodes |-> 0]
CfgAbsN1   == [CfgAbsProd EXCEPT !.numNodes = 1]
CfgDev     == [dev |-> TRUE, low |-> U(1000, 1000), high |-> U(1000, 1000), plow |-> [cpu |-> 500], phigh |-> [cpu |-> 500],
               anomaly |-> 0, numNodes |-> 0]
=============================================================================
