\* MC_pools_without_sel.cfg: C18b without "a pool without selector skips processed nodes": TLC REFUTES PropOK (not run by the pipeline)
SPECIFICATION Spec
CONSTANTS
  MCNodes <- N3
  MCCap <- Cap3
  MCLabels <- Lab3
  MCPods <- PodsA
  PoolChoices <- ChoicesThorough
  SysChoices <- Sys3
  NoPassChoices = {{}}
  Rounds = 4
  MayFail = FALSE
  FixSel = FALSE
  FixProd = TRUE
  FixDet = TRUE
  FixForget = TRUE
INVARIANT PropOK
CHECK_DEADLOCK FALSE
