\* 5 rounds, anomaly 2 / 3 (a broken streak of 3 needs 5 rounds), absolute thresholds + prod, 3 nodes, 4 pods
SPECIFICATION Spec
CONSTANTS
  MCNodes <- N3
  MCCap <- Cap3
  MCUnsched = {}
  MCPods <- PodsA
  BaseCfg <- CfgAbsProd
  AnomalySet = {2, 3}
  MCNorm = 2
  SysChoices <- Sys3
  StaleChoices = {{}}
  NoPassChoices = {{}}
  Rounds = 5
  Repaired = TRUE
  NodeFit = FALSE
  MayFail = FALSE
INVARIANT PropOK
INVARIANT EstOK
CHECK_DEADLOCK FALSE
