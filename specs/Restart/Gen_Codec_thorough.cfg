SPECIFICATION GenSpec
CONSTANTS
  CPUs = {0, 1, 2, 3, 5, 7}
  NumaNodes = {0, 1}
  Amounts = {0, 500, 1024}
  Minors = {0, 1, 2}
  DevAmounts = {0, 50, 100}
INVARIANT GenPrint
CHECK_DEADLOCK FALSE
