SPECIFICATION GenSpec
CONSTANTS
  CPUs = {0, 1, 2, 5}
  NumaNodes = {0, 1}
  Amounts = {0, 1500}
  Minors = {0, 2}
  DevAmounts = {0, 50}
INVARIANT GenPrint
CHECK_DEADLOCK FALSE
