----------------------------- MODULE CodecTrace -----------------------------
(* Trace validation of the codec law of C19: x = the abstract value written  *)
(* by the real setter, y = what the real getter read back, y2 = read back     *)
(* after writing y again.                                                      *)
EXTENDS TraceCommon
TRound == /\ IsEvent("roundtrip")
          /\ Ev.err = ""                                  \* writing and reading back never fails
          /\ Expect(Ev.y = Ev.x, Ev.x)                    \* Get(Set(x)) = x
          /\ Ev.y2 = Ev.x                                 \* and writing the read-back value again changes nothing
TraceInit == \E i \in Starts : TraceStart(i)
TraceNext == TRound \/ SegDone
TraceSpec == TraceInit /\ [][TraceNext]_tvars
=============================================================================
