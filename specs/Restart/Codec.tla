------------------------------- MODULE Codec -------------------------------
(***************************************************************************)
(* C19 (codec law) - every allocation the scheduler persists on a pod at   *)
(* bind time can be read back to exactly the value that was written:       *)
(*     Get(Set(x)) = x                                                     *)
(* for the three annotation codecs of apis/extension                       *)
(*   rs  ResourceStatus        (cpuset + per-NUMA amounts)                 *)
(*   da  DeviceAllocations     (type -> list of [minor, resources, id])    *)
(*   ra  ReservationAllocated  (name, uid)                                 *)
(* The abstract values are enumerated by TLC (Gen), written and read back  *)
(* by the real setters / getters, and compared here.                       *)
(***************************************************************************)
EXTENDS Integers, FiniteSets, Sequences, TLC, Json

CONSTANTS CPUs, NumaNodes, Amounts, Minors, DevAmounts
\* abstract values
RSValues == [cpus : SUBSET CPUs,
             numa : UNION {[S -> [cpu : Amounts, memory : Amounts]] : S \in SUBSET NumaNodes}]
DevAlloc  == [minor : Minors, core : DevAmounts, mem : DevAmounts, id : {"", "id1"}]
DevLists  == {<<>>} \cup {<<a>> : a \in DevAlloc} \cup {<<a, b>> : a \in DevAlloc, b \in DevAlloc}
RAValues  == [name : {"r1", "reservation-2"}, uid : {"u1", "00000000-aaaa"}]

VARIABLE hist
GenInit == hist = <<>>
\* numa as a sequence of [node, cpu, memory] in ascending node order (JSON has no integer-keyed maps)
NumaSeq(f) == LET S == DOMAIN f
                  Seq2(n) == [node |-> n, cpu |-> f[n].cpu, memory |-> f[n].memory]
              IN  IF S = {} THEN <<>> ELSE IF S = {0} THEN <<Seq2(0)>> ELSE IF S = {1} THEN <<Seq2(1)>> ELSE <<Seq2(0), Seq2(1)>>
SetSeq(S) == LET RECURSIVE ToSeq(_)
                 ToSeq(T) == IF T = {} THEN <<>> ELSE LET m == CHOOSE x \in T : \A y \in T : x <= y IN <<m>> \o ToSeq(T \ {m})
             IN  ToSeq(S)
GenNext ==
  /\ hist = <<>>
  /\ \/ \E v \in RSValues : hist' = <<[op |-> "reset"], [op |-> "roundtrip", kind |-> "rs", x |-> [cpus |-> SetSeq(v.cpus), numa |-> NumaSeq(v.numa)]]>>
     \/ \E g \in DevLists, r \in {<<>>} \cup {<<a>> : a \in DevAlloc} :
           hist' = <<[op |-> "reset"], [op |-> "roundtrip", kind |-> "da", x |-> [gpu |-> g, rdma |-> r]]>>
     \/ \E v \in RAValues : hist' = <<[op |-> "reset"], [op |-> "roundtrip", kind |-> "ra", x |-> v]>>
GenSpec == GenInit /\ [][GenNext]_hist
GenPrint == hist # <<>> => PrintT(ToJson(hist))

=============================================================================
