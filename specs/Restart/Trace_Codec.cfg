SPECIFICATION TraceSpec
CONSTRAINT Report
CHECK_DEADLOCK FALSE
