\* (D) on the model, exhaustive: as MC_quick, for every combination of estimation windows (none / 1 s after scheduled,
\* none / 1 s after initialized) and with / without system usage in the prod usage
SPECIFICATION MCSpec
CONSTANTS
  Dims = {"cpu"}
  Nodes = {"n1"}
  PodNames = {"p1"}
  ReqVals = {0, 1, 3}
  UsageVals = {0, 2}
  Times = {0, 1, 2}
  RIs = {1, 2}
  MaxClock = 2
  MCEstScheds <- OptSec1
  MCEstInits <- OptSec1
  MCSys = {TRUE, FALSE}
  NodeChange = FALSE
INVARIANT MembersOK
INVARIANT NoDrift
INVARIANT ViewsOK
CHECK_DEADLOCK FALSE
