\* (D) on the model, exhaustive: 1 node, 2 pods (sums of several pods, add / delete of one pod next to another)
SPECIFICATION MCSpec
CONSTANTS
  Dims = {"cpu"}
  Nodes = {"n1"}
  PodNames = {"p1", "p2"}
  ReqVals = {0, 3}
  UsageVals = {2}
  Times = {0, 2}
  RIs = {1}
  MaxClock = 1
  MCEstScheds <- OnlyOne
  MCEstInits <- OnlyNone
  MCSys = {TRUE}
  NodeChange = FALSE
INVARIANT MembersOK
INVARIANT NoDrift
INVARIANT ViewsOK
CHECK_DEADLOCK FALSE
