------------------------------ MODULE LoadAware ------------------------------
(***************************************************************************)
(* C08 - load-aware placement keeps nodes under threshold; load estimates  *)
(* never drift.   (koordinator: pkg/scheduler/plugins/loadaware)           *)
(*                                                                         *)
(* ABSTRACT STATE                                                          *)
(*   cfg       the plugin arguments of this run (LoadAwareSchedulingArgs)  *)
(*   clock     the scheduler-internal clock (seconds after an epoch T0)    *)
(*   metric    node -> the node's CURRENT NodeMetric report, or NoMetric   *)
(*   assigned  node -> (pod uid -> Info): the pods CURRENTLY assigned to   *)
(*             the node (reserved there and not rolled back, or bound      *)
(*             there, not terminated, not deleted), each with the facts    *)
(*             fixed when it was (re-)assigned: estimate, assign time,     *)
(*             estimation deadline, prod?                                  *)
(*                                                                         *)
(* PROPERTY-LEVEL OPERATORS (everything is derived FROM SCRATCH from       *)
(* metric[n] and assigned[n]; nothing is carried from step to step):       *)
(*   ShouldEstimate  the report does not yet reflect the pod's usage       *)
(*   NodeDelta       sum over such pods of max(0, estimate - reported)     *)
(*   ProdUsage / ProdDelta   the same for prod pods                        *)
(*   Existing(n, view)       what GetNodeMetricAndEstimatedOfExisting must *)
(*                           return for the three threshold profiles       *)
(*   FilterOK        the verdicts the statement allows for Plugin.Filter   *)
(*                                                                         *)
(* ALGORITHM TRANSCRIPTION (used by MC only, never for a verdict):         *)
(*   ImplAddPod / ImplDeletePod / ImplRebuild : the incremental sums of    *)
(*   nodeInfo.addPod / deletePod / AddOrUpdateNodeMetric.                  *)
(*                                                                         *)
(* Vectors are functions Dims -> Int. Times are integers >= 0; None = -1   *)
(* marks an absent time / seconds value / map key.                         *)
(***************************************************************************)
EXTENDS Integers, FiniteSets, Sequences

CONSTANT Dims

VARIABLES cfg, clock, metric, assigned
vars == <<cfg, clock, metric, assigned>>

None     == -1
ProdName == "koord-prod"           \* priority class string reported by koordlet for prod pods

Max(a, b) == IF a > b THEN a ELSE b
Zero      == [d \in Dims |-> 0]
a (+) b   == [d \in Dims |-> a[d] + b[d]]
PosSub(a, b) == [d \in Dims |-> Max(0, a[d] - b[d])]
IsZero(v) == \A d \in Dims : v[d] = 0

RECURSIVE SumF(_)
SumF(f) == IF DOMAIN f = {} THEN Zero
           ELSE LET k == CHOOSE x \in DOMAIN f : TRUE
                IN  f[k] (+) SumF([x \in DOMAIN f \ {k} |-> f[x]])

Put(f, k, v) == [x \in DOMAIN f \cup {k} |-> IF x = k THEN v ELSE f[x]]
Drop(f, k)   == [x \in DOMAIN f \ {k} |-> f[x]]

NoMetric == [found |-> FALSE]

(***************************************************************************)
(* A pod object (what the informer / scheduler hands over):                *)
(*  [uid, name, prio \in {"prod","mid","batch","free"}, req, lim : vectors *)
(*   in the resource names of its priority class, node (""=unbound),       *)
(*   sched / init : LastTransitionTime of PodScheduled / Initialized=True   *)
(*   (None = condition absent), term (phase Succeeded/Failed), ds (owned   *)
(*   by a DaemonSet), cs / ci : custom estimation seconds annotations      *)
(*   (None = absent), cf : custom scaling factors (0 = key absent)]        *)
(***************************************************************************)

\* ---------------------------------------------------------------- the pod estimate (model of DefaultEstimator)
DefaultEst(prio, d) ==
    IF prio \in {"prod", "batch"}
    THEN (IF d = "cpu" THEN 250 ELSE IF d = "memory" THEN 209715200 ELSE 0)
    ELSE 0
HasCustomFactors(p) == cfg.custom /\ \E d \in Dims : p.cf[d] > 0
Factor(p, d) == IF HasCustomFactors(p) /\ p.cf[d] > 0 THEN p.cf[d] ELSE cfg.factors[d]
EstDim(p, d) ==
    LET f == Factor(p, d)
        q == Max(p.req[d], p.lim[d])
    IN  IF f <= 0 \/ p.prio = "free" THEN 0                  \* resource not estimated / no resource name for the class
        ELSE IF q = 0 THEN DefaultEst(p.prio, d)
        ELSE LET e == (q * f + 50) \div 100                  \* math.Round(q * f / 100)
             IN  IF p.lim[d] > 0 /\ e > p.lim[d] THEN p.lim[d] ELSE e
Est(p) == [d \in Dims |-> EstDim(p, d)]

\* ---------------------------------------------------------------- what is remembered when a pod is (re-)assigned
Deadline(p, ts) ==
    LET cs == IF cfg.custom THEN p.cs ELSE None
        ci == IF cfg.custom THEN p.ci ELSE None
        aS == IF cfg.estSched # None /\ cs < 0 THEN cfg.estSched ELSE cs
        aI == IF cfg.estInit  # None /\ ci < 0 THEN cfg.estInit  ELSE ci
    IN  IF aI > 0 /\ p.init # None THEN p.init + aI
        ELSE IF aS > 0 THEN ts + aS
        ELSE None
Info(p, now) ==
    LET ts == IF p.sched # None THEN p.sched ELSE now
        e  == Est(p)
    IN  [pod |-> p, ts |-> ts, dl |-> Deadline(p, ts), est |-> e, hasEst |-> ~IsZero(e), prod |-> p.prio = "prod"]

\* ---------------------------------------------------------------- from scratch: one pod against the node's report
Reported(m, name) == IF m.found /\ name \in DOMAIN m.pods
                     THEN [has |-> TRUE, prio |-> m.pods[name].prio, usage |-> m.pods[name].usage]
                     ELSE [has |-> FALSE, prio |-> "", usage |-> Zero]
\* the report does not yet reflect this pod's usage
ShouldEstimate(m, i) ==
    LET r == Reported(m, i.pod.name)
    IN  \/ ~r.has                                   \* usage not collected
        \/ m.ut = None                              \* a report that carries no time reflects nothing
        \/ m.ut - m.ri < i.ts                       \* pod missed / is still inside the latest report interval
        \/ (i.dl # None /\ i.dl > m.ut)             \* pod is still inside its configured estimation window
ActiveProd(m, i) == LET r == Reported(m, i.pod.name) IN i.prod /\ r.has /\ r.prio = ProdName
Excess(m, i)     == LET r == Reported(m, i.pod.name) IN IF r.has THEN PosSub(i.est, r.usage) ELSE i.est

NodeDeltaOf(m, i) == IF i.hasEst /\ ShouldEstimate(m, i) THEN Excess(m, i) ELSE Zero
FullOf(i)         == IF i.hasEst THEN i.est ELSE Zero
ProdUsageOf(m, i) == IF ActiveProd(m, i) THEN Reported(m, i.pod.name).usage ELSE Zero
ProdDeltaOf(m, i) == IF ~i.hasEst \/ ~i.prod THEN Zero
                     ELSE IF ~ActiveProd(m, i) THEN i.est        \* its usage is not part of the prod usage at all
                     ELSE IF ShouldEstimate(m, i) THEN Excess(m, i) ELSE Zero

\* ---------------------------------------------------------------- from scratch: the node
NodeDelta(m, A)     == SumF([u \in DOMAIN A |-> NodeDeltaOf(m, A[u])])
NodeEstimated(m, A) == SumF([u \in DOMAIN A |-> FullOf(A[u])])
ProdDelta(m, A)     == SumF([u \in DOMAIN A |-> ProdDeltaOf(m, A[u])])
ProdUsage(m, A)     == (IF cfg.includeSys /\ m.hasNM THEN m.sys ELSE Zero) (+) SumF([u \in DOMAIN A |-> ProdUsageOf(m, A[u])])

\* the aggregated usage the report carries for (type, duration); duration 0 = the longest recorded period, else the plain usage
AggUsage(m, type, dur) ==
    LET ofType == {a \in m.agg : a.type = type}
    IN  IF ~m.hasNM THEN [has |-> FALSE, v |-> Zero]
        ELSE IF dur # 0
             THEN (IF \E a \in ofType : a.dur = dur
                   THEN [has |-> TRUE, v |-> (CHOOSE a \in ofType : a.dur = dur).usage]
                   ELSE [has |-> FALSE, v |-> Zero])
             ELSE (IF ofType # {}
                   THEN [has |-> TRUE, v |-> (CHOOSE a \in ofType : \A b \in ofType : b.dur <= a.dur).usage]
                   ELSE [has |-> TRUE, v |-> m.usage])

\* views: [kind |-> "node"] | [kind |-> "prod"] | [kind |-> "agg", type, dur]
\* last reported usage + not-yet-reflected excess of every pod placed there; when the report has no usage of the
\* requested kind nothing is reflected, and the sum of the full estimates stands in
Existing(n, view) ==
    LET m == metric[n]
        A == assigned[n]
    IN  IF view.kind = "prod" THEN ProdUsage(m, A) (+) ProdDelta(m, A)
        ELSE LET u == IF view.kind = "agg" THEN AggUsage(m, view.type, view.dur)
                      ELSE [has |-> m.hasNM, v |-> IF m.hasNM THEN m.usage ELSE Zero]
             IN  IF u.has THEN u.v (+) NodeDelta(m, A) ELSE NodeEstimated(m, A)

\* ---------------------------------------------------------------- (T) the threshold decision
\* 200 * e <= (2 * thr + 1) * a  without leaving 32 bits:  k * x as <<hi, lo>> in base 10000  (k <= 201, x < 2^31)
MulHL(k, x) == LET lo0 == k * (x % 10000) IN <<k * (x \div 10000) + lo0 \div 10000, lo0 % 10000>>
LeqHL(p, q) == p[1] < q[1] \/ (p[1] = q[1] /\ p[2] <= q[2])
LtHL(p, q)  == p[1] < q[1] \/ (p[1] = q[1] /\ p[2] < q[2])
\* round(100 * e / a) <= thr ; math.Round is exact except at the half point, where either verdict is accepted
Within(e, a, thr)       == LeqHL(MulHL(200, e), MulHL(2 * thr + 1, a))
StrictlyWithin(e, a, thr) == LtHL(MulHL(200, e), MulHL(2 * thr + 1, a))

\* node descriptor: [name, alloc, raw (None = key absent in the raw-allocatable annotation),
\*                   cu / cp : [has, v] custom usage / prod thresholds, ca : [has, v, type, dur] custom aggregated profile]
EffAlloc(nd) == [d \in Dims |-> IF nd.raw[d] # None THEN nd.raw[d] ELSE nd.alloc[d]]
Customized(nd) == nd.cu.has \/ nd.cp.has \/ nd.ca.has
Profile(nd) ==
    [usage |-> IF nd.cu.has THEN nd.cu.v ELSE cfg.usageThr,
     prod  |-> IF nd.cp.has THEN nd.cp.v ELSE cfg.prodThr,
     agg   |-> IF nd.ca.has THEN [on |-> TRUE, v |-> nd.ca.v, type |-> nd.ca.type, dur |-> nd.ca.dur]
               ELSE [on |-> cfg.aggOn, v |-> cfg.aggThr, type |-> cfg.aggType, dur |-> cfg.aggDur]]
IsProdPod(p, nd) == ~IsZero(Profile(nd).prod) /\ p.prio = "prod"
ViewFor(p, nd) == IF IsProdPod(p, nd) THEN [kind |-> "prod"]
                  ELSE IF Profile(nd).agg.on THEN [kind |-> "agg", type |-> Profile(nd).agg.type, dur |-> Profile(nd).agg.dur]
                  ELSE [kind |-> "node"]
ThresholdsFor(p, nd) == IF IsProdPod(p, nd) THEN Profile(nd).prod
                        ELSE IF Profile(nd).agg.on THEN Profile(nd).agg.v
                        ELSE Profile(nd).usage

\* the node's metric counts as expired AND the run is configured to act on that
ExpiredApplies(m) == /\ cfg.filterExpired = 1 /\ cfg.expSec # None
                     /\ (m.ut = None \/ (cfg.expSec > 0 /\ cfg.nowOff - m.ut >= cfg.expSec))

EstimatedWith(p, nd) == Existing(nd.name, ViewFor(p, nd)) (+) Est(p)
UnderThresholds(p, nd) ==
    LET thr == ThresholdsFor(p, nd)  al == EffAlloc(nd)  e == EstimatedWith(p, nd)
    IN  \A d \in Dims : thr[d] = 0 \/ al[d] = 0 \/ Within(e[d], al[d], thr[d])
ClearlyUnderThresholds(p, nd) ==
    LET thr == ThresholdsFor(p, nd)  al == EffAlloc(nd)  e == EstimatedWith(p, nd)
    IN  \A d \in Dims : thr[d] = 0 \/ al[d] = 0 \/ StrictlyWithin(e[d], al[d], thr[d])

\* which branch of the statement decides this call (also used for non-vacuity counting)
FilterCase(p, nd) ==
    LET m == metric[nd.name]
    IN  IF p.ds THEN "daemonset"
        ELSE IF IsZero(ThresholdsFor(p, nd)) THEN "disabled"
        ELSE IF ~m.found THEN "nometric"
        ELSE IF ExpiredApplies(m) THEN "expired"
        ELSE IF ~m.hasNM THEN "nousage"
        ELSE "threshold"

\* The verdicts the statement allows.  strict = FALSE is the statement ("passes ONLY IF under the thresholds");
\* strict = TRUE additionally demands that a pod under every threshold passes (diagnostic, not the property).
FilterOK(p, nd, pass, strict) ==
    LET c == FilterCase(p, nd)
    IN  CASE c = "daemonset" -> TRUE
          [] c = "disabled"  -> TRUE
          [] c = "nometric"  -> pass                                  \* no load information: the node is skipped
          [] c = "expired"   -> pass = (cfg.enableExpired # 0)        \* skipped or rejected exactly as configured
          [] c = "nousage"   -> pass                                  \* report without node usage: skipped
          [] c = "threshold" -> /\ pass => UnderThresholds(p, nd)
                                /\ strict => (ClearlyUnderThresholds(p, nd) => pass)

\* ---------------------------------------------------------------- how events change what is "currently assigned"
AssignF(A, n, p, now) == IF n = "" \/ p.term THEN A ELSE [A EXCEPT ![n] = Put(@, p.uid, Info(p, now))]
UnAssignF(A, n, uid)  == IF n = "" \/ n \notin DOMAIN A THEN A ELSE [A EXCEPT ![n] = Drop(@, uid)]

SpecOf(p)  == <<p.prio, p.req, p.lim, p.node>>
CondsOf(p) == <<p.sched, p.init>>

ReserveF(A, p, n, now) == AssignF(A, n, [p EXCEPT !.node = n], now)      \* the scheduler reserves its assumed copy
UnreserveF(A, p, n)    == UnAssignF(A, n, p.uid)
PodAddF(A, p, now)     == AssignF(A, p.node, p, now)
PodDeleteF(A, p)       == UnAssignF(A, p.node, p.uid)
PodUpdateF(A, oldNode, p, now) ==
    LET A1 == IF oldNode # "" /\ oldNode # p.node THEN UnAssignF(A, oldNode, p.uid) ELSE A     \* node change
    IN  IF p.node = "" THEN A1
        ELSE IF p.uid \notin DOMAIN A1[p.node] THEN AssignF(A1, p.node, p, now)                 \* not placed there yet
        ELSE IF p.term THEN UnAssignF(A1, p.node, p.uid)                                        \* terminated
        ELSE IF SpecOf(p) # SpecOf(A1[p.node][p.uid].pod) \/ CondsOf(p) # CondsOf(A1[p.node][p.uid].pod)
             THEN AssignF(A1, p.node, p, now)                                                   \* spec / priority / conditions
        ELSE A1                                                                                 \* nothing relevant changed

(***************************************************************************)
(* ALGORITHM TRANSCRIPTION  (pod_assign_cache.go: addPod, deletePod,       *)
(* AddOrUpdateNodeMetric).  c = [nodeDelta, prodDelta, nodeEst, prodUsage, *)
(* ut (the nodeInfo.updateTime the code keeps; ZeroTime before any report  *)
(* with a time)].                                                          *)
(***************************************************************************)
ZeroTime == -1000000
ImplEmpty(ut) == [nodeDelta |-> Zero, prodDelta |-> Zero, nodeEst |-> Zero, prodUsage |-> Zero, ut |-> ut]
Neg(v) == [d \in Dims |-> 0 - v[d]]

\* sign = 1 : addPod ; sign = -1 : deletePod ("reverse procedure of addPod")
ImplApply(c, m, i, sign) ==
    LET r      == Reported(m, i.pod.name)
        S(v)   == IF sign = 1 THEN v ELSE Neg(v)
        active == i.prod /\ r.has /\ r.prio = ProdName
        c1     == IF active THEN [c EXCEPT !.prodUsage = @ (+) S(r.usage)] ELSE c
        should == ~r.has \/ c.ut - m.ri < i.ts \/ (i.dl # None /\ i.dl > c.ut)
        delta  == IF r.has THEN PosSub(i.est, r.usage) ELSE i.est
        c2     == IF should THEN [c1 EXCEPT !.nodeDelta = @ (+) S(delta)] ELSE c1
        c3     == [c2 EXCEPT !.nodeEst = @ (+) S(i.est)]
        drop   == ~active /\ r.has                       \* u, should = nil, true
        pdelta == IF drop THEN i.est ELSE delta
    IN  IF ~i.hasEst THEN c1
        ELSE IF ~i.prod THEN c3
        ELSE IF drop \/ should THEN [c3 EXCEPT !.prodDelta = @ (+) S(pdelta)]
        ELSE c3
ImplAddPod(c, m, i)    == ImplApply(c, m, i, 1)
ImplDeletePod(c, m, i) == ImplApply(c, m, i, -1)

RECURSIVE ImplAddAll(_, _, _)
ImplAddAll(c, m, A) == IF DOMAIN A = {} THEN c
                       ELSE LET k == CHOOSE x \in DOMAIN A : TRUE
                            IN  ImplAddAll(ImplAddPod(c, m, A[k]), m, Drop(A, k))
\* AddOrUpdateNodeMetric: reset every sum and add every cached pod again
ImplRebuild(c, m, A) ==
    LET ut == IF m.ut # None THEN m.ut ELSE c.ut
        c0 == [ImplEmpty(ut) EXCEPT !.prodUsage = IF cfg.includeSys /\ m.hasNM THEN m.sys ELSE Zero]
    IN  ImplAddAll(c0, m, A)
\* GetNodeMetricAndEstimatedOfExisting on the cached sums
ImplExisting(c, m, view) ==
    IF view.kind = "prod" THEN c.prodUsage (+) c.prodDelta
    ELSE LET u == IF view.kind = "agg" THEN AggUsage(m, view.type, view.dur)
                  ELSE [has |-> m.hasNM, v |-> IF m.hasNM THEN m.usage ELSE Zero]
         IN  IF u.has THEN u.v (+) c.nodeDelta ELSE c.nodeEst
=============================================================================
