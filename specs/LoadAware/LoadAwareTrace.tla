--------------------------- MODULE LoadAwareTrace ---------------------------
(***************************************************************************)
(* Trace validation for C08.  Every event recorded from the REAL           *)
(* podAssignCache / Plugin (harness zz_verif_c08_test.go) is checked       *)
(* against the property-level operators of LoadAware:                      *)
(*  (D) after EVERY operation the vectors returned by                      *)
(*      GetNodeMetricAndEstimatedOfExisting (obs, per node and per view:   *)
(*      whole-node, prod, aggregated p95 longest-period / 300 s) equal the *)
(*      values computed FROM SCRATCH from the node's current report and    *)
(*      the pods currently assigned to it; event "rebuild" carries the     *)
(*      vectors of a FRESH cache fed the same report and pods, which must  *)
(*      equal them too;                                                    *)
(*  (T) every Plugin.Filter verdict is one the statement allows            *)
(*      (FilterOK): a non-daemon-set pod passes ONLY IF the estimated      *)
(*      utilisation stays within every configured threshold; missing /     *)
(*      expired / usage-less reports are skipped or rejected exactly as    *)
(*      configured;                                                        *)
(*  (E) segments of kind "est" validate the specification's model of the   *)
(*      DefaultEstimator against the real one.                             *)
(* The implementation transcription of LoadAware is NOT used here.         *)
(***************************************************************************)
EXTENDS LoadAware, TraceCommon

CONSTANT Strict     \* FALSE: the statement ("passes only if"); TRUE also demands "under every threshold => passes" (diagnostic)

SeqSet(s) == {s[k] : k \in 1..Len(s)}

CfgOf(e) == [nodes |-> SeqSet(e.nodes), factors |-> e.factors, estSched |-> e.estSched, estInit |-> e.estInit,
             custom |-> e.custom, includeSys |-> e.includeSys, usageThr |-> e.usageThr, prodThr |-> e.prodThr,
             aggOn |-> e.aggOn, aggThr |-> e.aggThr, aggType |-> e.aggType, aggDur |-> e.aggDur,
             filterExpired |-> e.filterExpired, expSec |-> e.expSec, enableExpired |-> e.enableExpired,
             nowOff |-> e.nowOff]

\* the report as the cache reads it: entries with an empty usage list are skipped, no interval = 60 s
MetricOf(e) ==
    LET aggs == {a \in SeqSet(e.agg) : ~a.empty}
        reps == {r \in SeqSet(e.pods) : ~r.empty}
    IN  [found |-> TRUE, ut |-> e.ut, ri |-> IF e.ri = None THEN 60 ELSE e.ri, hasNM |-> e.hasNM,
         usage |-> e.usage, sys |-> e.sys,
         agg  |-> {[type |-> a.type, dur |-> a.dur, usage |-> a.usage] : a \in aggs},
         pods |-> [nm \in {r.name : r \in reps} |->
                     LET r == CHOOSE x \in reps : x.name = nm IN [prio |-> r.prio, usage |-> r.usage]]]

\* ---- (D): what GetNodeMetricAndEstimatedOfExisting must return, per node and view
P95(dur) == [kind |-> "agg", type |-> "p95", dur |-> dur]
ViewsOf(n) == IF metric[n].found
              THEN [found |-> TRUE, node |-> Existing(n, [kind |-> "node"]), prod |-> Existing(n, [kind |-> "prod"]),
                    a0 |-> Existing(n, P95(0)), a300 |-> Existing(n, P95(300)),
                    g0 |-> Existing(n, [kind |-> "agg", type |-> "avg", dur |-> 0])]
              ELSE [found |-> FALSE, node |-> Zero, prod |-> Zero, a0 |-> Zero, a300 |-> Zero, g0 |-> Zero]
ExpectedObs == [n \in cfg.nodes |-> ViewsOf(n)]
VEq(a, b) == \A d \in Dims : a[d] = b[d]
ObsEq(o, x) == /\ DOMAIN o = DOMAIN x
               /\ \A n \in DOMAIN x : /\ o[n].found = x[n].found
                                      /\ VEq(o[n].node, x[n].node) /\ VEq(o[n].prod, x[n].prod)
                                      /\ VEq(o[n].a0, x[n].a0) /\ VEq(o[n].a300, x[n].a300) /\ VEq(o[n].g0, x[n].g0)
\* non-vacuity statistics (only when VERIF_STATS is set; never part of a verdict): for every pod placed on a node that
\* has a report, which clause decides whether the report reflects it, and how it counts for the prod view
PlacedPairs == UNION {{<<n, u>> : u \in DOMAIN assigned[n]} : n \in {x \in cfg.nodes : metric[x].found}}
EstCat(pr) == LET m == metric[pr[1]]  i == assigned[pr[1]][pr[2]]  r == Reported(m, i.pod.name)
              IN  IF ~i.hasEst THEN "noest" ELSE IF ~r.has THEN "norep" ELSE IF m.ut = None THEN "notime"
                  ELSE IF m.ut - m.ri < i.ts THEN "interval" ELSE IF i.dl # None /\ i.dl > m.ut THEN "deadline"
                  ELSE "reflected"
ProdCat(pr) == LET m == metric[pr[1]]  i == assigned[pr[1]][pr[2]]  r == Reported(m, i.pod.name)
               IN  IF ~i.prod THEN "nonprod" ELSE IF ActiveProd(m, i) THEN "prodActive"
                   ELSE IF r.has THEN "prodReportedAsOther" ELSE "prodUnreported"
StatCats == <<"noest", "norep", "notime", "interval", "deadline", "reflected",
              "nonprod", "prodActive", "prodReportedAsOther", "prodUnreported">>
Stats == [k \in 1..Len(StatCats) |-> Cardinality({pr \in PlacedPairs : EstCat(pr) = StatCats[k] \/ ProdCat(pr) = StatCats[k]})]
StatOK == IF "VERIF_STATS" \in DOMAIN IOEnv THEN PrintT(<<"STAT", Stats'>>) ELSE TRUE

ObsOK(e) == Expect(ObsEq(e.obs, ExpectedObs'), ExpectedObs') /\ StatOK

Keep == UNCHANGED <<cfg>>

TTick == /\ IsEvent("tick") /\ clock' = clock + Ev.d
         /\ UNCHANGED <<metric, assigned>> /\ Keep /\ ObsOK(Ev)

TReserve == /\ IsEvent("reserve") /\ Ev.node \in cfg.nodes
            /\ assigned' = ReserveF(assigned, Ev.pod, Ev.node, clock)
            /\ UNCHANGED <<clock, metric>> /\ Keep /\ ObsOK(Ev)
TUnreserve == /\ IsEvent("unreserve")
              /\ assigned' = UnreserveF(assigned, Ev.pod, Ev.node)
              /\ UNCHANGED <<clock, metric>> /\ Keep /\ ObsOK(Ev)
TPodAdd == /\ IsEvent("podAdd") /\ Ev.pod.node \in cfg.nodes \cup {""}
           /\ assigned' = PodAddF(assigned, Ev.pod, clock)
           /\ UNCHANGED <<clock, metric>> /\ Keep /\ ObsOK(Ev)
TPodUpdate == /\ IsEvent("podUpdate") /\ Ev.pod.node \in cfg.nodes \cup {""}
              /\ assigned' = PodUpdateF(assigned, Ev.oldNode, Ev.pod, clock)
              /\ UNCHANGED <<clock, metric>> /\ Keep /\ ObsOK(Ev)
TPodDelete == /\ IsEvent("podDelete")
              /\ assigned' = PodDeleteF(assigned, Ev.pod)
              /\ UNCHANGED <<clock, metric>> /\ Keep /\ ObsOK(Ev)
TMetric == /\ IsEvent("metric") /\ Ev.node \in cfg.nodes
           /\ metric' = [metric EXCEPT ![Ev.node] = MetricOf(Ev)]
           /\ UNCHANGED <<clock, assigned>> /\ Keep /\ ObsOK(Ev)
TMetricDelete == /\ IsEvent("metricDelete") /\ Ev.node \in cfg.nodes
                 /\ metric' = [metric EXCEPT ![Ev.node] = NoMetric]
                 /\ UNCHANGED <<clock, assigned>> /\ Keep /\ ObsOK(Ev)
\* Reserve / Unreserve calls for DISTINCT pods issued concurrently (scheduling and binding goroutines); observed at
\* quiescence: whatever the interleaving, the estimate equals the from-scratch value for the resulting placement
RECURSIVE ParF(_, _, _)
ParF(A, ops, i) == IF i > Len(ops) THEN A
                   ELSE ParF(IF ops[i].op = "reserve" THEN ReserveF(A, ops[i].pod, ops[i].node, clock)
                                                     ELSE UnreserveF(A, ops[i].pod, ops[i].node), ops, i + 1)
TPar == /\ IsEvent("par")
        /\ \A i \in 1..Len(Ev.ops) : Ev.ops[i].op \in {"reserve", "unreserve"} /\ Ev.ops[i].node \in cfg.nodes
        /\ assigned' = ParF(assigned, Ev.ops, 1)
        /\ UNCHANGED <<clock, metric>> /\ Keep /\ ObsOK(Ev)
\* a fresh cache fed the current reports and the currently assigned pods reports the same vectors
TRebuild == /\ IsEvent("rebuild")
            /\ UNCHANGED <<clock, metric, assigned>> /\ Keep /\ ObsOK(Ev)

\* ---- (T)
FilterExpected(e) == [case |-> FilterCase(e.pod, e.nd),
                      estimated |-> IF FilterCase(e.pod, e.nd) = "threshold" THEN EstimatedWith(e.pod, e.nd) ELSE Zero,
                      allocatable |-> EffAlloc(e.nd), thresholds |-> ThresholdsFor(e.pod, e.nd),
                      mayPass |-> FilterOK(e.pod, e.nd, TRUE, Strict), mayReject |-> FilterOK(e.pod, e.nd, FALSE, Strict)]
TFilter == /\ IsEvent("filter") /\ Ev.nd.name \in cfg.nodes
           /\ UNCHANGED <<clock, metric, assigned>> /\ Keep
           /\ (IF "VERIF_STATS" \in DOMAIN IOEnv THEN PrintT(<<"FSTAT", l, ToJson(FilterExpected(Ev))>>) ELSE TRUE)
           /\ IF Explaining /\ FilterOK(Ev.pod, Ev.nd, Ev.pass, Strict)
              THEN ObsOK(Ev)                                   \* the verdict is fine: explain the vectors
              ELSE /\ Expect(FilterOK(Ev.pod, Ev.nd, Ev.pass, Strict), FilterExpected(Ev))
                   /\ (Explaining \/ ObsOK(Ev))                \* asking never changes the estimate kept for the node

\* ---- (E) the model of the estimator
TEstimate == /\ IsEvent("estimate")
             /\ Expect(VEq(Ev.est, Est(Ev.pod)), Est(Ev.pod))
             /\ UNCHANGED <<clock, metric, assigned>> /\ Keep

TraceInit == \E i \in Starts :
                /\ TraceStart(i)
                /\ cfg = CfgOf(Trace[i])
                /\ clock = Trace[i].clock
                /\ metric = [n \in SeqSet(Trace[i].nodes) |-> NoMetric]
                /\ assigned = [n \in SeqSet(Trace[i].nodes) |-> <<>>]
TraceNext == \/ TTick \/ TReserve \/ TUnreserve \/ TPodAdd \/ TPodUpdate \/ TPodDelete
             \/ TMetric \/ TMetricDelete \/ TRebuild \/ TFilter \/ TEstimate \/ TPar
             \/ (SegDone /\ UNCHANGED vars)
TraceSpec == TraceInit /\ [][TraceNext]_<<vars, tvars>>
=============================================================================
