SPECIFICATION TraceSpec
CONSTANTS
  Dims = {"cpu", "memory"}
  Strict = FALSE
\* (D) and (T) are conjoined to the trace actions: an event whose observation the property does not allow has no
\* successor, so its segment never reaches SegDone (= rejected) while TLC goes on with the other segments
CONSTRAINT Report
CHECK_DEADLOCK FALSE
