---------------------------- MODULE MC_LoadAware ----------------------------
(***************************************************************************)
(* C08 (D) decided on the model: every history of LEGAL scheduler /        *)
(* informer events over a tiny universe, with                              *)
(*   - the "world" (API pods + reservations) defining who is placed where, *)
(*   - `assigned` maintained by the event entry points (ReserveF, ...),    *)
(*   - `cache` maintained by the transcription of the incremental sums     *)
(*     (addPod / deletePod / rebuild on every metric report).              *)
(* Invariants: MembersOK (the entry points keep exactly the pods the world *)
(* places on the node) and NoDrift (the incremental sums equal the         *)
(* from-scratch operators whenever the node has a report), ViewsOK (what   *)
(* GetNodeMetricAndEstimatedOfExisting would return equals Existing).      *)
(***************************************************************************)
EXTENDS LoadAware, TLC

CONSTANTS Nodes, PodNames, ReqVals, UsageVals, Times, RIs, MaxClock,
          MCEstScheds, MCEstInits, MCSys, NodeChange

VARIABLES cache,   \* node -> cached sums (implementation)
          api,     \* pod name -> the pod object last delivered by the informer, or NoPod
          resv     \* pod name -> node it is reserved on by the scheduler ("" = none)
mcvars == <<vars, cache, api, resv>>

OptSec1 == {None, 1}     \* cfg files cannot write -1
OptSec2 == {None, 2}
OnlyNone == {None}
OnlyOne == {1}

NoPod == [exists |-> FALSE]
V(x)  == [d \in Dims |-> x]

MkPod(name, prio, r, node, sched, init, term) ==
    [exists |-> TRUE, uid |-> name, name |-> name, prio |-> prio, req |-> V(r), lim |-> Zero, node |-> node,
     sched |-> sched, init |-> init, term |-> term, ds |-> FALSE, cs |-> None, ci |-> None, cf |-> Zero]
\* prod pods: estimate = request (>0, no default); mid pods: request 0 gives "no estimate"
Shapes == {<<"prod", r>> : r \in ReqVals \ {0}} \cup {<<"mid", r>> : r \in ReqVals}

RepVals == {[prio |-> pr, usage |-> V(u)] : pr \in {ProdName, "koord-mid"}, u \in UsageVals}
PodReports == UNION {[S -> RepVals] : S \in SUBSET PodNames}
\* what koordlet / the controller can deliver: a freshly created object (empty status), or a full status stamped with a time
MetricShapes ==
    {[found |-> TRUE, ut |-> None, ri |-> ri, hasNM |-> FALSE, usage |-> Zero, sys |-> Zero, agg |-> {}, pods |-> <<>>] : ri \in RIs}
    \cup
    {[found |-> TRUE, ut |-> ut, ri |-> ri, hasNM |-> TRUE, usage |-> V(1), sys |-> V(1), agg |-> {}, pods |-> pr] :
        ut \in Times, ri \in RIs, pr \in PodReports}

MCInit ==
    /\ \E es \in MCEstScheds, ei \in MCEstInits, sys \in MCSys :
       cfg = [factors |-> V(100), estSched |-> es, estInit |-> ei, custom |-> FALSE,
              includeSys |-> sys, usageThr |-> Zero, prodThr |-> Zero, aggOn |-> FALSE, aggThr |-> Zero,
              aggType |-> "", aggDur |-> 0, filterExpired |-> None, expSec |-> None, enableExpired |-> None, nowOff |-> 0]
    /\ clock = 0
    /\ metric = [n \in Nodes |-> NoMetric]
    /\ assigned = [n \in Nodes |-> <<>>]
    /\ cache = [n \in Nodes |-> ImplEmpty(ZeroTime)]
    /\ api = [p \in PodNames |-> NoPod]
    /\ resv = [p \in PodNames |-> ""]

\* ---- implementation side of assign / unAssign (podInfos coincide with `assigned`, which the entry points maintain)
ImplAssign(C, A, n, p) ==
    IF n = "" \/ p.term \/ ~metric[n].found THEN C
    ELSE LET i == Info(p, clock)
             c0 == IF p.uid \in DOMAIN A[n] THEN ImplDeletePod(C[n], metric[n], A[n][p.uid]) ELSE C[n]
         IN  [C EXCEPT ![n] = ImplAddPod(c0, metric[n], i)]
ImplUnAssign(C, A, n, uid) ==
    IF n = "" \/ ~metric[n].found \/ uid \notin DOMAIN A[n] THEN C
    ELSE [C EXCEPT ![n] = ImplDeletePod(@, metric[n], A[n][uid])]
\* tryCleanup: a nodeInfo without report and without pods is dropped (a later one starts with a zero updateTime)
Cleanup(C, M, A) == [n \in Nodes |-> IF ~M[n].found /\ DOMAIN A[n] = {} THEN ImplEmpty(ZeroTime) ELSE C[n]]

\* OnUpdate on the implementation side, step by step as the code does
ImplPodUpdate(C, A, oldNode, p) ==
    LET moved == oldNode # "" /\ oldNode # p.node
        C1 == IF moved THEN ImplUnAssign(C, A, oldNode, p.uid) ELSE C
        A1 == IF moved THEN UnAssignF(A, oldNode, p.uid) ELSE A
    IN  IF p.node = "" THEN C1
        ELSE IF p.uid \notin DOMAIN A1[p.node] THEN ImplAssign(C1, A1, p.node, p)
        ELSE IF p.term THEN ImplUnAssign(C1, A1, p.node, p.uid)
        ELSE IF SpecOf(p) # SpecOf(A1[p.node][p.uid].pod) \/ CondsOf(p) # CondsOf(A1[p.node][p.uid].pod)
             THEN ImplAssign(C1, A1, p.node, p)
        ELSE C1

Step(A2, C2, M2) == /\ assigned' = A2
                    /\ metric' = M2
                    /\ cache' = Cleanup(C2, M2, A2)

Tick == clock < MaxClock /\ clock' = clock + 1 /\ UNCHANGED <<cfg, metric, assigned, cache, api, resv>>

\* informer: pod created (pending, or already bound as seen in an initial list)
Create(p) ==
    /\ ~api[p].exists /\ resv[p] = ""
    /\ \E sh \in Shapes, n \in Nodes \cup {""}, t \in Times \cup {None} :
          LET o == MkPod(p, sh[1], sh[2], n, IF n = "" THEN None ELSE t, None, FALSE)
          IN  /\ api' = [api EXCEPT ![p] = o]
              /\ Step(PodAddF(assigned, o, clock), ImplAssign(cache, assigned, o.node, o), metric)
    /\ UNCHANGED <<cfg, clock, resv>>

Reserve(p) ==
    /\ api[p].exists /\ api[p].node = "" /\ ~api[p].term /\ resv[p] = ""
    /\ \E n \in Nodes :
          LET o == [api[p] EXCEPT !.node = n]
          IN  /\ resv' = [resv EXCEPT ![p] = n]
              /\ Step(ReserveF(assigned, api[p], n, clock), ImplAssign(cache, assigned, n, o), metric)
    /\ UNCHANGED <<cfg, clock, api>>

\* roll-back (bind failed, permit rejected, pod vanished ...)
Unreserve(p) ==
    /\ resv[p] # ""
    /\ resv' = [resv EXCEPT ![p] = ""]
    /\ Step(UnAssignF(assigned, resv[p], p), ImplUnAssign(cache, assigned, resv[p], p), metric)
    /\ UNCHANGED <<cfg, clock, api>>

Deliver(p, o) ==   \* informer update old = api[p], new = o
    /\ api' = [api EXCEPT ![p] = o]
    /\ Step(PodUpdateF(assigned, api[p].node, o, clock), ImplPodUpdate(cache, assigned, api[p].node, o), metric)

\* the binding reaches the informer
Bind(p) ==
    /\ api[p].exists /\ resv[p] # "" /\ api[p].node = ""
    /\ \E t \in Times \cup {None} : Deliver(p, [api[p] EXCEPT !.node = resv[p], !.sched = t])
    /\ resv' = [resv EXCEPT ![p] = ""]
    /\ UNCHANGED <<cfg, clock>>

Update(p) ==
    /\ api[p].exists
    /\ \/ \E sh \in Shapes : Deliver(p, [api[p] EXCEPT !.prio = sh[1], !.req = V(sh[2])])       \* spec / priority
       \/ \E t \in Times : cfg.estInit # None /\ api[p].init = None /\ Deliver(p, [api[p] EXCEPT !.init = t])   \* conditions
       \/ \E t \in Times : api[p].node # "" /\ api[p].sched = None /\ Deliver(p, [api[p] EXCEPT !.sched = t])
       \/ api[p].node # "" /\ ~api[p].term /\ Deliver(p, [api[p] EXCEPT !.term = TRUE])          \* terminated
       \/ Deliver(p, api[p])                                                                      \* nothing relevant
       \/ /\ NodeChange /\ api[p].node # ""
          /\ \E n \in Nodes \ {api[p].node} : Deliver(p, [api[p] EXCEPT !.node = n])            \* node change
    /\ UNCHANGED <<cfg, clock, resv>>

Delete(p) ==
    /\ api[p].exists
    /\ api' = [api EXCEPT ![p] = NoPod]
    /\ Step(PodDeleteF(assigned, api[p]), ImplUnAssign(cache, assigned, api[p].node, p), metric)
    /\ UNCHANGED <<cfg, clock, resv>>

MetricUpdate(n) ==
    /\ \E m \in MetricShapes :
          Step(assigned, [cache EXCEPT ![n] = ImplRebuild(@, m, assigned[n])], [metric EXCEPT ![n] = m])
    /\ UNCHANGED <<cfg, clock, api, resv>>

MetricDelete(n) ==
    /\ metric[n].found
    /\ Step(assigned, cache, [metric EXCEPT ![n] = NoMetric])
    /\ UNCHANGED <<cfg, clock, api, resv>>

MCNext == \/ Tick
          \/ \E p \in PodNames : Create(p) \/ Reserve(p) \/ Unreserve(p) \/ Bind(p) \/ Update(p) \/ Delete(p)
          \/ \E n \in Nodes : MetricUpdate(n) \/ MetricDelete(n)
MCSpec == MCInit /\ [][MCNext]_mcvars

\* ---------------------------------------------------------------- what is decided
\* who the world places on node n
WorldAssigned(n) == {p \in PodNames : resv[p] = n} \cup {p \in PodNames : api[p].exists /\ api[p].node = n /\ ~api[p].term}
MembersOK == \A n \in Nodes : DOMAIN assigned[n] = WorldAssigned(n)

NoDrift ==
    \A n \in Nodes : metric[n].found =>
        /\ cache[n].nodeDelta = NodeDelta(metric[n], assigned[n])
        /\ cache[n].prodDelta = ProdDelta(metric[n], assigned[n])
        /\ cache[n].nodeEst   = NodeEstimated(metric[n], assigned[n])
        /\ cache[n].prodUsage = ProdUsage(metric[n], assigned[n])
MCViews == {[kind |-> "node"], [kind |-> "prod"]}
ViewsOK ==
    \A n \in Nodes : metric[n].found =>
        \A v \in MCViews : ImplExisting(cache[n], metric[n], v) = Existing(n, v)
\* non-vacuity: MC_quick.cfg runs with -coverage; an action never taken fails the check (exit 2)
=============================================================================
