\* (T) on the model: arithmetic grid incl. exact boundaries / half points, and the Filter decision over all profiles
SPECIFICATION TSpec
CONSTANTS
  Dims = {"cpu"}
  MaxE = 45
  MaxA = 24
  Thrs = {0, 1, 2, 3, 10, 12, 13, 25, 33, 37, 49, 50, 51, 62, 63, 65, 75, 87, 88, 95, 99, 100}
INVARIANT ArithOK
INVARIANT FilterDecisionOK
INVARIANT FilterRefusesWrong
CHECK_DEADLOCK FALSE
