---------------------------- MODULE MC_Threshold ----------------------------
(***************************************************************************)
(* C08 (T) decided on the model, over a grid of initial states:            *)
(*  kind "arith" : (estimated, allocatable, threshold) incl. every exact   *)
(*     boundary and half point - the integer predicate used for verdicts   *)
(*     (Within / StrictlyWithin, computed in two 16-bit-safe limbs) agrees *)
(*     with round-half-up(100 * e / a) <= thr, the two differ exactly at   *)
(*     the half point, and the limb product is the product;                *)
(*  kind "filter" : a transcription of Plugin.Filter's decision (daemonset *)
(*     bypass, disabled thresholds, missing / expired / usage-less metric, *)
(*     profile selection whole-node / prod / aggregated, amplified node,   *)
(*     per-resource rounding) gives only verdicts FilterOK allows.         *)
(***************************************************************************)
EXTENDS LoadAware, TLC

CONSTANTS MaxE, MaxA, Thrs
VARIABLE c
tvars == <<vars, c>>

V(x) == [d \in Dims |-> x]

\* exact round half up of 100 * e / a   (what math.Round computes wherever it is exact)
RoundPct(e, a) == (200 * e + a) \div (2 * a)

ArithOK ==
    c.kind = "arith" =>
      LET e == c.e  a == c.a  t == c.thr
      IN  /\ a > 0 => ((RoundPct(e, a) <= t) <=> StrictlyWithin(e, a, t))
          /\ StrictlyWithin(e, a, t) => Within(e, a, t)
          /\ (Within(e, a, t) /\ ~StrictlyWithin(e, a, t)) <=> (200 * e = (2 * t + 1) * a)
          /\ Within(e, a, t) <=> (200 * e <= (2 * t + 1) * a)
          /\ \A k \in {1, 200, 201} : \A x \in {e, 9999 + e, 10000 * a + e, 400000 * (a + 1) + 137 * e} :
                MulHL(k, x)[1] * 10000 + MulHL(k, x)[2] = k * x /\ MulHL(k, x)[2] \in 0..9999

\* ---- Plugin.Filter, transcribed (pass = TRUE / reject = FALSE)
FilterImpl(p, nd) ==
    LET m   == metric[nd.name]
        thr == ThresholdsFor(p, nd)
        al  == EffAlloc(nd)
    IN  IF p.ds THEN TRUE
        ELSE IF IsZero(thr) THEN TRUE
        ELSE IF ~m.found THEN TRUE
        ELSE IF ExpiredApplies(m) THEN cfg.enableExpired # 0
        ELSE IF ~m.hasNM THEN TRUE
        ELSE LET e == EstimatedWith(p, nd)
             IN  \A d \in Dims : thr[d] = 0 \/ al[d] = 0 \/ RoundPct(e[d], al[d]) <= thr[d]

MkPod(name, prio, r, ds) ==
    [uid |-> name, name |-> name, prio |-> prio, req |-> V(r), lim |-> Zero, node |-> "", sched |-> None, init |-> None,
     term |-> FALSE, ds |-> ds, cs |-> None, ci |-> None, cf |-> Zero]
Incoming == {MkPod("in", pr, r, ds) : pr \in {"prod", "mid"}, r \in {1, 2}, ds \in BOOLEAN}
NoCustom == [has |-> FALSE, v |-> Zero]
NodeDescs == {[name |-> "n1", alloc |-> V(al), raw |-> V(raw), cu |-> cu, cp |-> NoCustom,
               ca |-> [has |-> FALSE, v |-> Zero, type |-> "", dur |-> 0]] :
                 al \in {0, 8}, raw \in {None, 4}, cu \in {NoCustom, [has |-> TRUE, v |-> V(25)]}}
Cfgs == {[factors |-> V(100), estSched |-> None, estInit |-> None, custom |-> FALSE, includeSys |-> TRUE,
          usageThr |-> V(u), prodThr |-> V(pt), aggOn |-> ao, aggThr |-> V(50), aggType |-> "p95", aggDur |-> 0,
          filterExpired |-> fe, expSec |-> es, enableExpired |-> en, nowOff |-> 20] :
            u \in {0, 50}, pt \in {0, 50}, ao \in BOOLEAN, fe \in {None, 0, 1}, es \in {None, 10}, en \in {None, 0, 1}}
Metrics == {NoMetric,
            [found |-> TRUE, ut |-> None, ri |-> 1, hasNM |-> FALSE, usage |-> Zero, sys |-> Zero, agg |-> {}, pods |-> <<>>]}
           \cup {[found |-> TRUE, ut |-> ut, ri |-> 1, hasNM |-> TRUE, usage |-> V(u), sys |-> V(1),
                  agg |-> ag, pods |-> <<>>] :
                    ut \in {5, 15}, u \in 0..4, ag \in {{}, {[type |-> "p95", dur |-> 300, usage |-> V(3)]}}}
Placed == {<<>>} \cup {[x \in {"q"} |-> [pod |-> MkPod("q", "prod", 1, FALSE), ts |-> 15, dl |-> None, est |-> V(1),
                                         hasEst |-> TRUE, prod |-> TRUE]]}

Cases == {[kind |-> "arith", e |-> e, a |-> a, thr |-> t] : e \in 0..MaxE, a \in 0..MaxA, t \in Thrs}
         \cup {[kind |-> "filter", p |-> p, nd |-> nd] : p \in Incoming, nd \in NodeDescs}

TInit ==
    /\ c \in Cases
    /\ clock = 0
    /\ IF c.kind = "arith"
       THEN /\ cfg = CHOOSE x \in Cfgs : TRUE
            /\ metric = [n \in {"n1"} |-> NoMetric]
            /\ assigned = [n \in {"n1"} |-> <<>>]
       ELSE /\ cfg \in Cfgs
            /\ metric \in [{"n1"} -> Metrics]
            /\ assigned \in [{"n1"} -> Placed]
TNext == UNCHANGED tvars
TSpec == TInit /\ [][TNext]_tvars

FilterDecisionOK ==
    c.kind = "filter" => FilterOK(c.p, c.nd, FilterImpl(c.p, c.nd), TRUE)
\* and a verdict the statement forbids is really refused by FilterOK (the predicate is not vacuous)
FilterRefusesWrong ==
    c.kind = "filter" =>
       LET k == FilterCase(c.p, c.nd)
       IN  k \in {"nometric", "nousage", "expired"} => ~FilterOK(c.p, c.nd, ~FilterImpl(c.p, c.nd), FALSE)
=============================================================================
