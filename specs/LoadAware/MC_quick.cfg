\* (D) on the model: 1 node, 2 pods, one dimension
SPECIFICATION MCSpec
CONSTANTS
  Dims = {"cpu"}
  Nodes = {"n1"}
  PodNames = {"p1", "p2"}
  ReqVals = {0, 1, 3}
  UsageVals = {0, 2}
  Times = {0, 1, 2}
  RIs = {1}
  MaxClock = 2
  MCEstSched = 1
  MCEstInit = 1
  MCIncludeSys = TRUE
  NodeChange = FALSE
INVARIANT MembersOK
INVARIANT NoDrift
INVARIANT ViewsOK
CHECK_DEADLOCK FALSE
