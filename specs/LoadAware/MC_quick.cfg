\* (D) on the model, exhaustive: 1 node, 1 pod, one dimension, every legal event order, all timestamp relations
\* around the report interval (1, 2) and the estimation windows (none / 1 s after scheduled, none / 1 s after initialized)
SPECIFICATION MCSpec
CONSTANTS
  Dims = {"cpu"}
  Nodes = {"n1"}
  PodNames = {"p1"}
  ReqVals = {0, 1, 3}
  UsageVals = {0, 2}
  Times = {0, 1, 2, 3}
  RIs = {1, 2}
  MaxClock = 3
  MCEstScheds <- OptSec1
  MCEstInits <- OptSec1
  NodeChange = FALSE
INVARIANT MembersOK
INVARIANT NoDrift
INVARIANT ViewsOK
CHECK_DEADLOCK FALSE
