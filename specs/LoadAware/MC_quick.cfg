\* (D) on the model, exhaustive: 1 node, 1 pod, one dimension, every legal event order, all timestamp relations
\* around the report interval (1, 2) and the estimation windows (1 s after scheduled / after initialized)
SPECIFICATION MCSpec
CONSTANTS
  Dims = {"cpu"}
  Nodes = {"n1"}
  PodNames = {"p1"}
  ReqVals = {0, 1, 3}
  UsageVals = {0, 2}
  Times = {0, 1, 2}
  RIs = {1, 2}
  MaxClock = 1
  MCEstScheds <- OnlyOne
  MCEstInits <- OnlyOne
  MCSys = {TRUE}
  NodeChange = FALSE
INVARIANT MembersOK
INVARIANT NoDrift
INVARIANT ViewsOK
CHECK_DEADLOCK FALSE
