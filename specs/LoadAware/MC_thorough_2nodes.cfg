\* (D) on the model, exhaustive: 2 nodes, 1 pod, node changes delivered by the informer
SPECIFICATION MCSpec
CONSTANTS
  Dims = {"cpu"}
  Nodes = {"n1", "n2"}
  PodNames = {"p1"}
  ReqVals = {0, 1, 3}
  UsageVals = {0, 2}
  Times = {0, 1, 2}
  RIs = {1}
  MaxClock = 1
  MCEstScheds <- OnlyOne
  MCEstInits <- OnlyNone
  MCSys = {TRUE}
  NodeChange = TRUE
INVARIANT MembersOK
INVARIANT NoDrift
INVARIANT ViewsOK
CHECK_DEADLOCK FALSE
