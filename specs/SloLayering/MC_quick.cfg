\* one strategy section (JSON overlay merge): step 0 over values {v1,v2}, <= 1 node entry; follow-ups over {v1}, no entries
SPECIFICATION Spec
CONSTANTS
  Sections = {"s"}
  Kind = "merge"
  Vals1 = {"v1", "v2"}
  N1 = 1
  Vals2 = {"v1"}
  N2 = 0
  MaxSteps = 3
  SelKeys = {{"l1"}, {"l2"}, {}}
  AlwaysMarshalled = {}
  HostAppFallback = TRUE
  Zero = "0"
INVARIANT LayeredOK
INVARIANT NoLeak
CHECK_DEADLOCK FALSE
