\* all histories of length 2: a section over values {v1,v2} with <= 1 node entry, then one of 15 follow-ups (absent, malformed, 13 cluster-only sections) or a delete
SPECIFICATION GenSpec
CONSTANTS
  Sections = {"s"}
  Kind = "merge"
  Vals1 = {"v1", "v2"}
  N1 = 1
  Vals2 = {"v1"}
  N2 = 0
  MaxSteps = 2
  K = 2
  SelKeys = {{"l1"}, {"l2"}, {}}
  AlwaysMarshalled = {}
  HostAppFallback = TRUE
  Zero = "0"
CONSTRAINT GenBound
INVARIANT GenPrint
CHECK_DEADLOCK FALSE
