SPECIFICATION TraceSpec
CONSTANTS
  Sections = {"resource-threshold-config", "resource-qos-config", "cpu-burst-config", "system-config", "host-application-config"}
  AlwaysMarshalled = {}
  HostAppFallback = TRUE
  Zero = "0"
INVARIANT LayeredOK
INVARIANT NoLeak
CONSTRAINT Report
CHECK_DEADLOCK FALSE
