SPECIFICATION TraceSpec
CONSTANTS
  Sections = {"resource-threshold-config", "resource-qos-config", "cpu-burst-config", "system-config", "host-application-config"}
  AlwaysMarshalled = {}
  HostAppFallback = TRUE
  Zero = "0"
\* property invariants as CONSTRAINTs before Report (docs/FAMILY_GUIDE.md): a violating recorded state cuts only its own segment
CONSTRAINT LayeredOK
CONSTRAINT NoLeak
CONSTRAINT Report
CHECK_DEADLOCK FALSE
