\* host-application-config (kind "replace"): every sequence of length <= 3, <= 2 node entries
SPECIFICATION Spec
CONSTANTS
  Sections = {"s"}
  Kind = "replace"
  Vals1 = {"v1", "v2"}
  N1 = 2
  Vals2 = {"v1", "v2"}
  N2 = 2
  MaxSteps = 3
  SelKeys = {{"l1"}, {"l2"}, {}}
  AlwaysMarshalled = {}
  HostAppFallback = TRUE
  Zero = "0"
INVARIANT LayeredOK
INVARIANT NoLeak
CHECK_DEADLOCK FALSE
