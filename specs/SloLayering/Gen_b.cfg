\* all single updates with <= 2 node entries (overlapping selectors l1 / l2 / everything) over value v1
SPECIFICATION GenSpec
CONSTANTS
  Sections = {"s"}
  Kind = "merge"
  Vals1 = {"v1"}
  N1 = 2
  Vals2 = {"v1"}
  N2 = 0
  MaxSteps = 1
  K = 1
  SelKeys = {{"l1"}, {"l2"}, {}}
  AlwaysMarshalled = {}
  HostAppFallback = TRUE
  Zero = "0"
CONSTRAINT GenBound
INVARIANT GenPrint
CHECK_DEADLOCK FALSE
