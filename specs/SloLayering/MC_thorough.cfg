\* one strategy section: step 0 over values {v1,v2}, <= 2 node entries with overlapping selectors; follow-ups over {v1}
\* measured: 6.2 M generated, 538 k distinct, 1.5 min on 16 workers
SPECIFICATION Spec
CONSTANTS
  Sections = {"s"}
  Kind = "merge"
  Vals1 = {"v1", "v2"}
  N1 = 2
  Vals2 = {"v1"}
  N2 = 0
  MaxSteps = 3
  SelKeys = {{"l1"}, {"l2"}, {}}
  AlwaysMarshalled = {}
  HostAppFallback = TRUE
  Zero = "0"
INVARIANT LayeredOK
INVARIANT NoLeak
CHECK_DEADLOCK FALSE
