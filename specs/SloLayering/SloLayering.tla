---------------------------- MODULE SloLayering ----------------------------
(***************************************************************************)
(* C20 - Node SLO settings are layered  default < cluster < first matching *)
(* node override.                                                          *)
(*                                                                         *)
(* The slo-controller ConfigMap has one key ("section") per strategy:      *)
(*   resource-threshold-config, resource-qos-config, cpu-burst-config,     *)
(*   system-config, host-application-config.                               *)
(* A section is, per ConfigMap event, absent / malformed / parsed.  A      *)
(* parsed section consists of a cluster-wide layer and a SEQUENCE of node  *)
(* entries (selector, layer).  A layer is a partial map  field path ->     *)
(* value ; "the layer sets the field" = the path is in its domain.  Values *)
(* are opaque tokens (the empty section "{}" is a parsed section whose     *)
(* layers set nothing).  A field path is a leaf of the section's JSON      *)
(* document: scalars, quantities and LISTS are leaves (a list is set and   *)
(* delivered as a whole); JSON objects (structs, string-keyed maps) are    *)
(* interior and merge key by key.                                          *)
(*                                                                         *)
(*   env.labels     node -> (label -> value)                               *)
(*   env.dflt       section -> (path -> value)      the built-in defaults  *)
(*   effective[s]   last good parse of section s:  [st |-> "default"]  or  *)
(*                  [st |-> "parsed", cluster |-> layer,                   *)
(*                   nodes |-> << [sel |-> selector, set |-> layer], .. >>]*)
(*   obs            node -> section -> (path -> value): the NodeSLOSpec    *)
(*                  computed for each node after the last event (MC: by    *)
(*                  the transcription below; Trace: by the real code)      *)
(*                                                                         *)
(* Property-level part: Layered, LayeredOK, NoLeak, CMUpdate, CMDelete.    *)
(* Algorithm-level part (how the code does it): Merge*, ImplCalc, ImplGet  *)
(* over a small struct shape; checked against Layered in MC_SloLayering.   *)
(***************************************************************************)
EXTENDS Naturals, Sequences, FiniteSets, IOUtils

CONSTANT Sections

VARIABLES env, effective, obs
vars == <<env, effective, obs>>

Unset == "-"
MGet(m, k) == IF k \in DOMAIN m THEN m[k] ELSE Unset
Range(f) == {f[x] : x \in DOMAIN f}

---------------------------------------------------------------------------
(* Label selectors (metav1.LabelSelector semantics): a nil selector        *)
(* selects nothing, an empty one everything; matchLabels and               *)
(* matchExpressions are ANDed.                                             *)
(*   sel = [nil |-> BOOLEAN, ml |-> (label -> value),                      *)
(*          me |-> << [key, op, vals], .. >>]                              *)
ReqOK(r, lab) ==
  CASE r.op = "In"           -> r.key \in DOMAIN lab /\ lab[r.key] \in Range(r.vals)
    [] r.op = "NotIn"        -> ~(r.key \in DOMAIN lab /\ lab[r.key] \in Range(r.vals))
    [] r.op = "Exists"       -> r.key \in DOMAIN lab
    [] r.op = "DoesNotExist" -> r.key \notin DOMAIN lab
    [] OTHER                 -> FALSE

Matches(sel, lab) ==
  /\ ~sel.nil
  /\ \A k \in DOMAIN sel.ml : k \in DOMAIN lab /\ lab[k] = sel.ml[k]
  /\ \A j \in DOMAIN sel.me : ReqOK(sel.me[j], lab)

\* index of the FIRST node entry selecting a node with these labels (0: none)
FirstMatch(entries, lab) ==
  LET I == {i \in DOMAIN entries : Matches(entries[i].sel, lab)}
  IN  IF I = {} THEN 0 ELSE CHOOSE i \in I : \A j \in I : i <= j

---------------------------------------------------------------------------
(* THE PROPERTY.  es = effective section, d = its defaults, lab = labels   *)
Layered(es, d, lab, p) ==
  IF es.st = "default" THEN MGet(d, p)
  ELSE LET i == FirstMatch(es.nodes, lab) IN
       IF i # 0 /\ p \in DOMAIN es.nodes[i].set THEN es.nodes[i].set[p]
       ELSE IF p \in DOMAIN es.cluster THEN es.cluster[p]
       ELSE MGet(d, p)

\* every path that any layer of the effective section (or the default) sets
Paths(es, d) ==
  DOMAIN d \cup (IF es.st = "default" THEN {}
                 ELSE DOMAIN es.cluster \cup UNION {DOMAIN es.nodes[i].set : i \in DOMAIN es.nodes})

\* what a ConfigMap event does to one section's effective settings
Step(es, c) ==
  CASE c.st = "absent"    -> [st |-> "default"]            \* falls back to the defaults
    [] c.st = "malformed" -> es                            \* previous settings stay in force
    [] OTHER              -> [st |-> "parsed", cluster |-> c.cluster, nodes |-> c.nodes]

AllDefault == [s \in Sections |-> [st |-> "default"]]

ExpectedObs(eff) ==
  [n \in DOMAIN env.labels |->
     [s \in Sections |->
        [p \in {q \in Paths(eff[s], env.dflt[s]) : Layered(eff[s], env.dflt[s], env.labels[n], q) # Unset}
           |-> Layered(eff[s], env.dflt[s], env.labels[n], p)]]]

\* second validation pass of the segments rejected for the recorded finding on MergeCfg (a VALUE field and a LIST field
\* are overlaid by marshal / unmarshal, known_findings.json): those two paths are not compared there, so that the rest of
\* such a segment is judged too
TolerateMerge == "VERIF_TOLERATE_C20_MERGECFG" \in DOMAIN IOEnv
FindingPath(p) == p \in {"totalNetworkBandwidth", "beClass/blkioQOS/blocks", "lsClass/blkioQOS/blocks", "lsrClass/blkioQOS/blocks",
                         "systemClass/blkioQOS/blocks", "cgroupRoot/blkioQOS/blocks"}
\* o (node -> section -> path -> value) is field by field what Layered says, nothing else appears
ObsOKFor(eff, o) ==
  \A n \in DOMAIN env.labels : \A s \in Sections :
    \A p \in Paths(eff[s], env.dflt[s]) \cup DOMAIN o[n][s] :
       IF TolerateMerge /\ FindingPath(p) THEN TRUE
       ELSE MGet(o[n][s], p) = Layered(eff[s], env.dflt[s], env.labels[n], p)

LayeredOK == ObsOKFor(effective, obs)

\* no leak: a value that appears for a node has a source that applies to the node - the default,
\* the cluster-wide layer, or a node entry that SELECTS the node (never one that does not)
NoLeakFor(eff, o) ==
  \A n \in DOMAIN env.labels : \A s \in Sections : \A p \in DOMAIN o[n][s] :
    LET v == o[n][s][p]  es == eff[s] IN
    \/ (TolerateMerge /\ FindingPath(p))
    \/ v = MGet(env.dflt[s], p)
    \/ /\ es.st = "parsed"
       /\ \/ v = MGet(es.cluster, p)
          \/ \E i \in DOMAIN es.nodes : /\ Matches(es.nodes[i].sel, env.labels[n])
                                        /\ v = MGet(es.nodes[i].set, p)
NoLeak == NoLeakFor(effective, obs)

CMUpdate(cfg, o) == /\ effective' = [s \in Sections |-> Step(effective[s], cfg[s])]
                    /\ obs' = o
                    /\ UNCHANGED env
CMDelete(o)      == /\ effective' = AllDefault
                    /\ obs' = o
                    /\ UNCHANGED env
Observe(o)       == /\ obs' = o
                    /\ UNCHANGED <<env, effective>>

---------------------------------------------------------------------------
(* HOW THE CODE DOES IT (transcription of resource_strategy.go,            *)
(* nodeslo_cm_event_handler.go syncConfig, util.MergeCfg) over an abstract *)
(* strategy struct                                                         *)
(*     type S struct { A *T; In `json:",inline"` struct{ B *T };           *)
(*                     P *struct{ C *T } }            (all omitempty)      *)
(*   tree = [has, a, b, p |-> [has, c]]   has = FALSE: nil pointer         *)
(* MergeCfg(old, new) = json.Unmarshal(json.Marshal(new), old): only what  *)
(* new marshals overrides old.  A field in AlwaysMarshalled is a non-      *)
(* pointer value that omitempty cannot omit (resource.Quantity): it        *)
(* marshals its zero value when unset.  HostApp sections are not merged at *)
(* all: the matching entry's list replaces the cluster's (HostAppFallback: *)
(* ... unless the entry does not set it).                                  *)
CONSTANTS AlwaysMarshalled, HostAppFallback, Zero

NilTree == [has |-> FALSE, a |-> Unset, b |-> Unset, p |-> [has |-> FALSE, c |-> Unset]]
Ov(o, n) == IF n = Unset THEN o ELSE n
OvF(f, o, n) == IF f \in AlwaysMarshalled THEN (IF n = Unset THEN Zero ELSE n) ELSE Ov(o, n)
MergeT(old, new) ==
  IF ~new.has THEN old
  ELSE [has |-> TRUE, a |-> OvF("a", old.a, new.a), b |-> OvF("b", old.b, new.b),
        p |-> IF ~new.p.has THEN old.p
              ELSE [has |-> TRUE, c |-> Ov(old.p.c, new.p.c)]]

\* flattening a struct value to the property's view (path -> value for the set leaves)
LeafOf(t, q) == CASE q = "a" -> t.a [] q = "in/b" -> t.b [] q = "p/c" -> IF t.p.has THEN t.p.c ELSE Unset
TreeLeaves == {"a", "in/b", "p/c"}
Flat(t) == [q \in {x \in TreeLeaves : t.has /\ LeafOf(t, x) # Unset} |-> LeafOf(t, q)]

\* cfg section as unmarshalled: [st, cluster |-> tree, nodes |-> <<[sel, strat |-> tree]>>]
\* kind "merge": calculate*CfgMerged of the four strategy sections
ImplCalcMerge(old, c, dflt) ==
  CASE c.st = "absent"    -> [cluster |-> dflt, nodes |-> <<>>]
    [] c.st = "malformed" -> old
    [] OTHER ->
       LET cl == MergeT(dflt, c.cluster) IN
       [cluster |-> cl,
        nodes   |-> [i \in DOMAIN c.nodes |-> [sel |-> c.nodes[i].sel, strat |-> MergeT(cl, c.nodes[i].strat)]]]
\* kind "replace": calculateHostAppConfigMerged keeps the section as parsed
ImplCalcReplace(old, c, dflt) ==
  CASE c.st = "absent"    -> [cluster |-> dflt, nodes |-> <<>>]
    [] c.st = "malformed" -> old
    [] OTHER -> [cluster |-> c.cluster, nodes |-> c.nodes]

\* get*Spec: the first entry whose selector matches, else the cluster strategy
ImplGetMerge(m, lab) ==
  LET i == FirstMatch(m.nodes, lab) IN IF i # 0 THEN m.nodes[i].strat ELSE m.cluster
ImplGetReplace(m, lab) ==
  LET i == FirstMatch(m.nodes, lab) IN
  IF i # 0 /\ ~(HostAppFallback /\ DOMAIN Flat(m.nodes[i].strat) = {}) THEN m.nodes[i].strat ELSE m.cluster
=============================================================================
