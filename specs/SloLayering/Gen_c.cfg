\* all histories of length 3: a section over value v1 with <= 1 node entry, then two follow-ups (absent, malformed, cluster-only, delete)
SPECIFICATION GenSpec
CONSTANTS
  Sections = {"s"}
  Kind = "merge"
  Vals1 = {"v1"}
  N1 = 1
  Vals2 = {"v1"}
  N2 = 0
  MaxSteps = 3
  K = 3
  SelKeys = {{"l1"}, {"l2"}, {}}
  AlwaysMarshalled = {}
  HostAppFallback = TRUE
  Zero = "0"
CONSTRAINT GenBound
INVARIANT GenPrint
CHECK_DEADLOCK FALSE
