-------------------------- MODULE Gen_SloLayering --------------------------
(* Behaviour generation: every ConfigMap update sequence of length K of ONE *)
(* abstract section over the small domain of MC_SloLayering, printed as one *)
(* JSON script per line.  The Go harness instantiates a script for each of  *)
(* the five real sections (abstract fields a, in/b, p/c -> real JSON paths  *)
(* of the strategy type, v1/v2 -> values of the field's type) and feeds the *)
(* rendered ConfigMaps to the real handler.                                 *)
EXTENDS MC_SloLayering, Json, SequencesExt
CONSTANT K
VARIABLE hist

CfgJ(c) == [op |-> "update", st |-> c.st, cluster |-> c.cluster,
            nodes |-> [i \in DOMAIN c.nodes |->
                         [sel |-> SetToSeq(DOMAIN c.nodes[i].sel.ml), strat |-> c.nodes[i].strat]]]
TheSection == CHOOSE s \in Sections : TRUE

GenInit == Init /\ hist = <<[op |-> "reset"]>>
GenNext == /\ step < MaxSteps
           /\ \/ \E c \in [Sections -> Domain(step)] :
                    Update(c) /\ hist' = Append(hist, CfgJ(c[TheSection]))
              \/ Delete /\ hist' = Append(hist, [op |-> "delete"])
GenSpec == GenInit /\ [][GenNext]_<<mcvars, hist>>
GenBound == Len(hist) <= K          \* BFS only: states at K+1 events are printed but not expanded
GenPrint == Len(hist) = K + 1 => PrintT(ToJson(hist))
=============================================================================
