\* every update sequence of length <= 3 over ONE domain (values {v1,v2}, <= 1 node entry, selectors l1 / everything)
SPECIFICATION Spec
CONSTANTS
  Sections = {"s"}
  Kind = "merge"
  Vals1 = {"v1", "v2"}
  N1 = 1
  Vals2 = {"v1", "v2"}
  N2 = 1
  MaxSteps = 3
  SelKeys = {{"l1"}, {}}
  AlwaysMarshalled = {}
  HostAppFallback = TRUE
  Zero = "0"
INVARIANT LayeredOK
INVARIANT NoLeak
CHECK_DEADLOCK FALSE
