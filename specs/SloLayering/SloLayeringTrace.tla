------------------------- MODULE SloLayeringTrace -------------------------
(* Trace validation for C20.  A segment is one life of the real             *)
(* SLOCfgHandlerForConfigMapEvent (cache initialised with DefaultSLOCfg()): *)
(*   reset   nodes: node -> labels, dflt: section -> path -> value (read    *)
(*           from the real default object)                                  *)
(*   update  cfg: what the ConfigMap says per section (st, cluster layer,   *)
(*           node entries); data: the ConfigMap itself (replay only)        *)
(*   delete  the ConfigMap is deleted                                       *)
(*   get     nothing changes                                                *)
(* every event carries obs: node -> section -> path -> value, the           *)
(* NodeSLOSpec the real getNodeSLOSpec computed after the event.  The event *)
(* is accepted iff obs is, field by field, Layered of the effective         *)
(* settings (and therefore leaks nothing).                                  *)
EXTENDS SloLayering, TraceCommon

Secs(e) == [s \in Sections |-> e.cfg[s]]

\* eff: the effective settings after the event; binds the event first (priming an operator primes its arguments)
\* "= TRUE": evaluated as a value.  Left as an action formula TLC would branch on every true disjunct
\* inside NoLeakFor and generate the same successor exponentially often.
Accept(eff, o) ==
  /\ Expect((ObsOKFor(eff, o) /\ NoLeakFor(eff, o)) = TRUE, ExpectedObs(eff))
  /\ obs' = o

TUpdate == IsEvent("update") /\
           \E e \in {Ev} :
             LET eff == [s \in Sections |-> Step(effective[s], e.cfg[s])] IN
             effective' = eff /\ UNCHANGED env /\ Accept(eff, e.obs)
TDelete == IsEvent("delete") /\
           \E e \in {Ev} : effective' = AllDefault /\ UNCHANGED env /\ Accept(AllDefault, e.obs)
TGet    == IsEvent("get") /\
           \E e \in {Ev} : UNCHANGED <<env, effective>> /\ Accept(effective, e.obs)

TraceInit == \E i \in Starts :
               /\ TraceStart(i)
               /\ env = [labels |-> Trace[i].nodes, dflt |-> Trace[i].dflt]
               /\ effective = AllDefault
               /\ obs = ExpectedObs(AllDefault)
TraceNext == TUpdate \/ TDelete \/ TGet \/ (SegDone /\ UNCHANGED vars)
TraceSpec == TraceInit /\ [][TraceNext]_<<vars, tvars>>
=============================================================================
