-------------------------- MODULE MC_SloLayering --------------------------
(* Decide C20 on the model: TLC explores ConfigMap update sequences over a *)
(* small abstract domain and checks that the transcription of the merge    *)
(* (default <- cluster <- first matching node entry, keep-old-on-error,    *)
(* the Impl operators of SloLayering) delivers to every node exactly Layered, and leaks    *)
(* nothing.                                                                *)
(*   Kind      "merge"  : the four strategy sections (JSON overlay merge)  *)
(*             "replace": host-application-config (one list-valued field)  *)
(*   step 0 draws the section from Parsed(Vals1, N1), later steps from     *)
(*   Parsed(Vals2, N2); absent and malformed are always possible.          *)
EXTENDS SloLayering, TLC
CONSTANTS Kind, Vals1, N1, Vals2, N2, MaxSteps, SelKeys

VARIABLES merged, step
mcvars == <<vars, merged, step>>

NoP == [has |-> FALSE, c |-> Unset]
DfltTree == IF Kind = "replace" THEN NilTree
            ELSE [has |-> TRUE, a |-> "d", b |-> Unset, p |-> [has |-> TRUE, c |-> "d"]]

LabelsOf(n) == CASE n = "n0" -> {} [] n = "n1" -> {"l1"} [] n = "n2" -> {"l2"} [] n = "n12" -> {"l1", "l2"}
MCLabels == [n \in {"n0", "n1", "n2", "n12"} |-> [k \in LabelsOf(n) |-> "1"]]
SelOf(ks) == [nil |-> FALSE, ml |-> [k \in ks |-> "1"], me |-> <<>>]
Sels == {SelOf(ks) : ks \in SelKeys}

VU(v) == v \cup {Unset}
Trees(v) ==
  IF Kind = "replace"
  THEN {NilTree} \cup {[has |-> TRUE, a |-> x, b |-> Unset, p |-> NoP] : x \in VU(v)}
  ELSE {NilTree} \cup [has : {TRUE}, a : VU(v), b : VU(v), p : {NoP} \cup [has : {TRUE}, c : VU(v)]]
Entries(v, n) == UNION {[1..k -> [sel : Sels, strat : Trees(v)]] : k \in 0..n}
Parsed(v, n) == [st : {"parsed"}, cluster : Trees(v), nodes : Entries(v, n)]
Unparsed == {[st |-> x, cluster |-> NilTree, nodes |-> <<>>] : x \in {"absent", "malformed"}}
Domain(k) == Unparsed \cup (IF k = 0 THEN Parsed(Vals1, N1) ELSE Parsed(Vals2, N2))

\* the property's view of an unmarshalled section
PropCfg(c) == [st |-> c.st, cluster |-> Flat(c.cluster),
               nodes |-> [i \in DOMAIN c.nodes |-> [sel |-> c.nodes[i].sel, set |-> Flat(c.nodes[i].strat)]]]

ImplCalc(old, c) == IF Kind = "replace" THEN ImplCalcReplace(old, c, DfltTree) ELSE ImplCalcMerge(old, c, DfltTree)
ImplGet(m, lab)  == IF Kind = "replace" THEN ImplGetReplace(m, lab) ELSE ImplGetMerge(m, lab)
ImplObs(m) == [n \in DOMAIN MCLabels |-> [s \in Sections |-> Flat(ImplGet(m[s], MCLabels[n]))]]
DefaultMerged == [s \in Sections |-> [cluster |-> DfltTree, nodes |-> <<>>]]

Init == /\ env = [labels |-> MCLabels, dflt |-> [s \in Sections |-> Flat(DfltTree)]]
        /\ effective = AllDefault
        /\ merged = DefaultMerged
        /\ obs = ImplObs(DefaultMerged)
        /\ step = 0

Update(c) == LET m2 == [s \in Sections |-> ImplCalc(merged[s], c[s])] IN
             /\ merged' = m2
             /\ CMUpdate([s \in Sections |-> PropCfg(c[s])], ImplObs(m2))
             /\ step' = step + 1
Delete == /\ merged' = DefaultMerged
          /\ CMDelete(ImplObs(DefaultMerged))
          /\ step' = step + 1

Next == /\ step < MaxSteps
        /\ \/ \E c \in [Sections -> Domain(step)] : Update(c)
           \/ Delete
Spec == Init /\ [][Next]_mcvars
=============================================================================
