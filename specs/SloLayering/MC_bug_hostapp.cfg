\* NOT run by bin/check. The code as found: a matching host-application node entry without "applications" hides the
\* cluster-wide applications: LayeredOK is violated.
SPECIFICATION Spec
CONSTANTS
  Sections = {"s"}
  Kind = "replace"
  Vals1 = {"v1", "v2"}
  N1 = 2
  Vals2 = {"v1", "v2"}
  N2 = 2
  MaxSteps = 3
  SelKeys = {{"l1"}, {"l2"}, {}}
  AlwaysMarshalled = {}
  HostAppFallback = FALSE
  Zero = "0"
INVARIANT LayeredOK
INVARIANT NoLeak
CHECK_DEADLOCK FALSE
