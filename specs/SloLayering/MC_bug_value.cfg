\* NOT run by bin/check. The code as found: a value-typed field that omitempty cannot omit (system-config totalNetworkBandwidth,
\* a resource.Quantity) is marshalled as its zero value by MergeCfg and overrides the lower layer: LayeredOK is violated.
SPECIFICATION Spec
CONSTANTS
  Sections = {"s"}
  Kind = "merge"
  Vals1 = {"v1", "v2"}
  N1 = 1
  Vals2 = {"v1"}
  N2 = 0
  MaxSteps = 3
  SelKeys = {{"l1"}, {"l2"}, {}}
  AlwaysMarshalled = {"b"}
  HostAppFallback = TRUE
  Zero = "0"
INVARIANT LayeredOK
INVARIANT NoLeak
CHECK_DEADLOCK FALSE
