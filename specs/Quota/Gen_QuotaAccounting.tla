------------------------ MODULE Gen_QuotaAccounting ------------------------
(* Behaviour generation for C01 from the algorithm-level model: histories    *)
(* printed as JSON scripts for the Go harness (both resource dimensions get  *)
(* the model's single value).  BFS configs use  VIEW vars  so that TLC keeps  *)
(* ONE witness history per reachable model state (every state of the bounded *)
(* model is driven on the real manager); simulation configs give long random *)
(* histories.                                                                *)
EXTENDS QuotaAccountingImpl, Json
CONSTANT K
VARIABLE hist
V(x) == [cpu |-> x, memory |-> x]
QJson(n, b) == [op |-> "quota", name |-> n, parent |-> b.parent, isParent |-> b.isParent, lent |-> b.lent,
                min |-> V(b.min), max |-> V(b.max)]
Log(e) == hist' = Append(hist, e)
GenInit == Init /\ hist = <<[op |-> "reset"]>>
GenNext ==
  \/ \E n \in QNames, b \in Bodies : (QuotaCreate(n, b) \/ QuotaUpdate(n, b)) /\ Log(QJson(n, b))
  \/ \E n \in QNames : QuotaDelete(n) /\ Log([op |-> "quotaDelete", name |-> n])
  \/ \E p \in PNames, q \in QNames, r \in Vals, bound \in BOOLEAN :
        PodAdd(p, q, r, bound) /\ Log([op |-> "podAdd", pod |-> p, q |-> q, req |-> V(r), np |-> FALSE, bound |-> bound])
  \/ \E p \in PNames, r \in Vals :
        PodResize(p, r) /\ Log([op |-> "podUpdate", pod |-> p, q |-> pod[p].q, req |-> V(r), np |-> FALSE, bound |-> FALSE])
  \/ \E p \in PNames : \/ PodDelete(p) /\ Log([op |-> "podDelete", pod |-> p])
                       \/ Reserve(p)   /\ Log([op |-> "reserve", pod |-> p])
                       \/ Unreserve(p) /\ Log([op |-> "unreserve", pod |-> p])
  \/ \E p \in PNames, q \in QNames : Migrate(p, q) /\ Log([op |-> "migrate", pod |-> p, in |-> q])
  \/ ResetAll /\ Log([op |-> "resetAll"])
GenSpec == GenInit /\ [][GenNext]_<<vars, hist>>
GenView == vars
GenBound == Len(hist) <= K
\* every witness ends with a comparison against a fresh manager fed the final objects
GenPrint == PrintT(ToJson(Append(hist, [op |-> "rebuild", variant |-> Len(hist) % 2])))
\* simulation: print only complete histories
GenPrintEnd == Len(hist) = K + 1 => GenPrint
=============================================================================
