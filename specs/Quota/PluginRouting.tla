--------------------------- MODULE PluginRouting ---------------------------
(***************************************************************************)
(* Design-level model of how the elastic-quota PLUGIN routes pod events to *)
(* quota groups (pod_handler.go, plugin_helper.go, plugin.go Reserve /     *)
(* Unreserve, core MigratePod).  Growth beyond C01's core model: the core  *)
(* manager is exact per call (QuotaAccountingImpl); what can still go      *)
(* wrong is WHICH group a call is sent to.                                 *)
(*                                                                         *)
(* A pod names its group by label.  If the group is unknown the pod is     *)
(* parked in the DEFAULT group; a periodic cycle moves parked pods to      *)
(* their group once it exists.  Between the creation of the group and the  *)
(* next cycle the handlers already route the pod's events to the group     *)
(* although the default group still counts it.                             *)
(*                                                                         *)
(*   cnt[g][p]   how many times group g counts pod p's request             *)
(*               (0 / 1 is right, 2 is a double count)                     *)
(*   asg[g][p]   g counts p as assigned (used)                             *)
(*   live[p]     the pod object exists in the API server                   *)
(*   label[p]    the group its label names                                 *)
(*   groups      the groups that exist (Default always)                    *)
(*   snap        the pods the running migration cycle listed (the cycle is *)
(*               NOT atomic: it lists the default group's pods, then moves *)
(*               them one by one, each move under the manager's lock)      *)
(*                                                                         *)
(* Variant = "asFound": the handlers as shipped at the pinned commit.      *)
(* Variant = "fixed"  : a pod still parked in Default is moved home before *)
(*                      its event is applied; MigratePod ignores a pod     *)
(*                      that left the source or is already in the target   *)
(*                      (fix commits 659cbdb / e53563d).                   *)
(*                                                                         *)
(* ExactlyOnce: every live pod is counted exactly once, in exactly one     *)
(* group; a deleted pod is counted nowhere - in every reachable state      *)
(* where no cycle is half way (and, for the fixed variant, in every state).*)
(***************************************************************************)
EXTENDS Naturals, FiniteSets, TLC
CONSTANTS Pods, Names, Default, Variant
ASSUME Default \notin Names /\ Variant \in {"asFound", "fixed"}
Groups == Names \cup {Default}
VARIABLES cnt, asg, live, label, groups, snap
vars == <<cnt, asg, live, label, groups, snap>>

Route(p) == IF label[p] \in groups THEN label[p] ELSE Default      \* getPodAssociateQuotaNameAndTreeID
In(g, p) == cnt[g][p] > 0

Init == /\ cnt = [g \in Groups |-> [p \in Pods |-> 0]]
        /\ asg = [g \in Groups |-> [p \in Pods |-> FALSE]]
        /\ live = [p \in Pods |-> FALSE]
        /\ label \in [Pods -> Names]
        /\ groups = {Default}
        /\ snap = {}

(**************************** core manager calls ***************************)
\* OnPodAdd(g, p): no-op when g already holds p
CoreAdd(C, A, g, p, bound) ==
    IF C[g][p] > 0 THEN <<C, A>>
    ELSE <<[C EXCEPT ![g][p] = 1], [A EXCEPT ![g][p] = bound]>>
\* OnPodDelete(g, p): no-op when g does not hold p
CoreDel(C, A, g, p) ==
    IF C[g][p] = 0 THEN <<C, A>>
    ELSE <<[C EXCEPT ![g][p] = 0], [A EXCEPT ![g][p] = FALSE]>>
\* OnPodUpdate(g, g, p): "pod creation before quota creation" branch adds the pod when g does not hold it
CoreUpd(C, A, g, p, bound) ==
    IF C[g][p] > 0 THEN <<C, [A EXCEPT ![g][p] = @ \/ bound]>>
    ELSE <<[C EXCEPT ![g][p] = 1], [A EXCEPT ![g][p] = bound]>>
\* MigratePod(p, out, in)
CoreMigrate(C, A, out, in, p) ==
    IF Variant = "fixed" /\ C[out][p] = 0 THEN <<C, A>>                                   \* left the source meanwhile
    ELSE IF Variant = "fixed" /\ C[in][p] > 0
         THEN <<[C EXCEPT ![out][p] = 0], [A EXCEPT ![out][p] = FALSE]>>                  \* already counted by the target
    ELSE LET a == A[out][p] IN
         \* as shipped: remove from out (floored), then ADD to in unconditionally
         <<[C EXCEPT ![out][p] = 0, ![in][p] = @ + 1], [A EXCEPT ![out][p] = FALSE, ![in][p] = a]>>

\* fixed: a pod parked in Default whose group exists is moved home before its event
Home(C, A, p, g) ==
    IF Variant = "fixed" /\ g # Default /\ C[Default][p] > 0 THEN CoreMigrate(C, A, Default, g, p) ELSE <<C, A>>

(******************************** actions ********************************)
QuotaCreate(n) == /\ n \notin groups /\ groups' = groups \cup {n}
                  /\ UNCHANGED <<cnt, asg, live, label, snap>>

PodAdd(p, bound) == /\ ~live[p] /\ live' = [live EXCEPT ![p] = TRUE]
                    /\ LET r == CoreAdd(cnt, asg, Route(p), p, bound) IN cnt' = r[1] /\ asg' = r[2]
                    /\ UNCHANGED <<label, groups, snap>>

\* same label (the label is immutable once a pod runs; a label change is the core model's business)
PodUpdate(p, bound) == /\ live[p]
                       /\ LET g == Route(p)
                              h == Home(cnt, asg, p, g)
                              r == CoreUpd(h[1], h[2], g, p, bound)
                          IN  cnt' = r[1] /\ asg' = r[2]
                       /\ UNCHANGED <<live, label, groups, snap>>

PodDelete(p) == /\ live[p] /\ live' = [live EXCEPT ![p] = FALSE]
                /\ LET g == Route(p)
                       h == Home(cnt, asg, p, g)
                       r == CoreDel(h[1], h[2], g, p)
                   IN  cnt' = r[1] /\ asg' = r[2]
                /\ UNCHANGED <<label, groups, snap>>

Reserve(p) == /\ live[p]
              /\ LET g == Route(p)
                     h == Home(cnt, asg, p, g)
                 IN  /\ cnt' = h[1]
                     /\ asg' = IF h[1][g][p] > 0 THEN [h[2] EXCEPT ![g][p] = TRUE] ELSE h[2]
              /\ UNCHANGED <<live, label, groups, snap>>

Unreserve(p) == /\ live[p]
                /\ LET g == Route(p)
                       h == Home(cnt, asg, p, g)
                   IN  /\ cnt' = h[1]
                       /\ asg' = IF h[1][g][p] > 0 THEN [h[2] EXCEPT ![g][p] = FALSE] ELSE h[2]
                /\ UNCHANGED <<live, label, groups, snap>>

\* migrateDefaultQuotaGroupsPod: list the default group's pods ...
CycleStart == /\ snap = {}
              /\ snap' = {p \in Pods : In(Default, p) /\ label[p] \in groups}
              /\ snap' # {}
              /\ UNCHANGED <<cnt, asg, live, label, groups>>
\* ... then move them one at a time (other handlers run in between)
CycleStep(p) == /\ p \in snap /\ snap' = snap \ {p}
                /\ LET r == CoreMigrate(cnt, asg, Default, label[p], p) IN cnt' = r[1] /\ asg' = r[2]
                /\ UNCHANGED <<live, label, groups>>

Next == \/ \E n \in Names : QuotaCreate(n)
        \/ \E p \in Pods, b \in BOOLEAN : PodAdd(p, b) \/ PodUpdate(p, b)
        \/ \E p \in Pods : PodDelete(p) \/ Reserve(p) \/ Unreserve(p) \/ CycleStep(p)
        \/ CycleStart
Spec == Init /\ [][Next]_vars

(******************************* properties ******************************)
Holders(p) == {g \in Groups : In(g, p)}
ExactlyOnce == \A p \in Pods :
                 IF live[p] THEN Cardinality(Holders(p)) = 1 /\ \A g \in Holders(p) : cnt[g][p] = 1
                 ELSE Holders(p) = {}
\* a pod counted as assigned is counted
AssignedIsCounted == \A g \in Groups, p \in Pods : asg[g][p] => In(g, p)
\* once its group exists and a full cycle has passed, a pod is at home (checked as: no parked pod escapes a cycle start)
TypeOK == /\ \A g \in Groups, p \in Pods : cnt[g][p] \in 0..3
          /\ snap \subseteq Pods
=============================================================================
