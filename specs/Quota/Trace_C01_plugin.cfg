SPECIFICATION PTraceSpec
CONSTANTS
  Root = "koordinator-root-quota"
  Default = "koordinator-default-quota"
  BigMax = 2000000000
  Dims = {"cpu", "memory"}
  CheckFigures = TRUE
CONSTRAINT NonNegative
CONSTRAINT Report
CHECK_DEADLOCK FALSE
