-------------------------- MODULE QuotaPluginTrace --------------------------
(***************************************************************************)
(* C01 at the PLUGIN level (growth beyond the core manager): pod and quota *)
(* events are routed by the elastic-quota plugin's handlers, which map a   *)
(* pod to the group named by its label if that group is known and to the   *)
(* DEFAULT group otherwise; a periodic cycle (migrateDefaultQuotaGroupsPod)*)
(* moves pods out of the default group once their group exists.            *)
(*                                                                         *)
(* Abstract state = QuotaAccounting's (quota, pod, cluster) plus           *)
(*   plabel   pod -> the group its label names                             *)
(* Every pod the plugin knows is accounted in EXACTLY ONE group:           *)
(*   podAdd / podUpdate   the group its label names if live, else default  *)
(*   migrateCycle         default -> labelled group when that is live      *)
(*   quotaDelete          the deleted group's pod records go with it until *)
(*                        their next event (as in the core model)          *)
(*   any pod event        a pod still parked in default although its group *)
(*                        is live by now moves there first                  *)
(* and after every event the reported figures of every group - the default *)
(* group included - equal the from-scratch figures (ObsOK of C01).         *)
(***************************************************************************)
EXTENDS QuotaAccountingTrace
CONSTANTS Default, BigMax
VARIABLE plabel
pvars == <<plabel>>

DefaultBody == [parent |-> Root, isParent |-> FALSE, lent |-> TRUE, min |-> Zero,
                max |-> [d \in Dims |-> BigMax], weight |-> [d \in Dims |-> BigMax], dims |-> Dims]
Eff(Q, lab) == IF lab \in DOMAIN Q THEN lab ELSE Default

PInit == /\ quota = [n \in {Default} |-> DefaultBody] /\ pod = <<>> /\ cluster = Zero /\ plabel = <<>>

PQuota == /\ IsEvent("quota") /\ Ev.name # Default
          /\ QuotaUpsertOK(Cur, QReq(Ev)) /\ Becomes(QuotaUpsertF(Cur, QReq(Ev)))
          /\ UNCHANGED plabel /\ ObsOK(Ev)
\* as in the core model the deleted group's pod records go with it (the webhook refuses to delete a group that has pods)
PQuotaDelete == /\ IsEvent("quotaDelete") /\ Ev.name # Default
                /\ QuotaDeleteOK(Cur, Ev.name) /\ Becomes(QuotaDeleteF(Cur, Ev.name))
                /\ UNCHANGED plabel /\ ObsOK(Ev)
\* a pod still parked in the default group although its own group exists by now (created before its quota, the cycle
\* has not run yet) is moved there, assignment kept, before the event itself is applied
Home(S, p) == IF p \in DOMAIN S.pod /\ S.pod[p].q = Default /\ plabel[p] \in DOMAIN S.quota /\ plabel[p] # Default
              THEN [S EXCEPT !.pod[p].q = plabel[p]] ELSE S
\* add or update of a pod object: afterwards it is accounted exactly once, in the group its label names (if live)
PPodSet == /\ IsEvent("podSet")
           /\ LET q == Eff(quota, Ev.label)
                  S == IF Ev.pod \in DOMAIN pod
                       THEN PodUpdateF(Home(Cur, Ev.pod), Ev.pod, q, Vec(Ev.req), Ev.np, Ev.bound)
                       ELSE PodAddF(Cur, Ev.pod, q, Vec(Ev.req), Ev.np, Ev.bound)
              IN  Becomes(S)
           /\ plabel' = [x \in (DOMAIN plabel) \cup {Ev.pod} |-> IF x = Ev.pod THEN Ev.label ELSE plabel[x]]
           /\ ObsOK(Ev)
PPodDelete == /\ IsEvent("podDelete")
              /\ Becomes(IF Ev.pod \in DOMAIN pod THEN PodDeleteF(Cur, Ev.pod) ELSE Cur)
              /\ plabel' = [x \in (DOMAIN plabel) \ {Ev.pod} |-> plabel[x]]
              /\ ObsOK(Ev)
PReserve == /\ IsEvent("reserve")
            /\ Becomes(IF Ev.pod \in DOMAIN pod THEN ReserveF(Home(Cur, Ev.pod), Ev.pod) ELSE Cur)
            /\ UNCHANGED plabel /\ ObsOK(Ev)
PUnreserve == /\ IsEvent("unreserve")
              /\ Becomes(IF Ev.pod \in DOMAIN pod THEN UnreserveF(Home(Cur, Ev.pod), Ev.pod) ELSE Cur)
              /\ UNCHANGED plabel /\ ObsOK(Ev)
\* the periodic cycle: every pod sitting in the default group whose own group exists now moves there (assignment kept)
PMigrate == /\ IsEvent("migrateCycle")
            /\ pod' = [p \in DOMAIN pod |-> IF pod[p].q = Default /\ plabel[p] \in DOMAIN quota /\ plabel[p] # Default
                                            THEN [pod[p] EXCEPT !.q = plabel[p]] ELSE pod[p]]
            /\ UNCHANGED <<quota, cluster, plabel>> /\ ObsOK(Ev)
PNode == IsEvent("node") /\ NodeDelta(Vec(Ev.delta)) /\ UNCHANGED plabel /\ ObsOK(Ev)

PTraceInit == \E i \in Starts : TraceStart(i) /\ PInit
PTraceNext == PQuota \/ PQuotaDelete \/ PPodSet \/ PPodDelete \/ PReserve \/ PUnreserve \/ PMigrate \/ PNode
              \/ (SegDone /\ UNCHANGED vars /\ UNCHANGED plabel)
PTraceSpec == PTraceInit /\ [][PTraceNext]_<<vars, tvars, pvars>>
=============================================================================
