------------------------ MODULE QuotaAccountingImpl ------------------------
(***************************************************************************)
(* Algorithm-level model of GroupQuotaManager's INCREMENTAL accounting     *)
(* (pkg/scheduler/plugins/elasticquota/core/group_quota_manager.go), one   *)
(* resource dimension.  On top of the abstract objects (quota, pod) it     *)
(* keeps, per live group, the stored figures                               *)
(*     fig[q] = [req, child, selfReq, used, selfUsed]                      *)
(* and updates them the way the code does: a delta is pushed from a group  *)
(* to the root, each group re-deriving its Request from ChildRequest and   *)
(* min and handing the change of its max-limited request to its parent;    *)
(* negative results are clamped at 0.  Re-parenting = delete + re-add of   *)
(* the self and child parts; a lent / isParent change = full rebuild from  *)
(* the stored self figures.                                                *)
(*                                                                         *)
(* TLC checks  Exact : fig = figures computed from scratch  in every       *)
(* reachable state (MC_Impl*.cfg).  LimitedDelete = FALSE models           *)
(* deleteQuotaNoLock as found at the pinned commit (it subtracts the       *)
(* UNLIMITED request from the parent although the parent was credited the  *)
(* max-limited one); TRUE models the repaired code.                        *)
(***************************************************************************)
EXTENDS Integers, FiniteSets, Sequences, FiniteSetsExt, TLC

CONSTANTS Root, QNames, PNames, Vals, MinVals, MaxVals, LimitedDelete

VARIABLES quota,  \* live name -> [parent, isParent, lent, min, max]
          pod,    \* live pod  -> [q, req, assigned]
          fig     \* live name -> [req, child, selfReq, used, selfUsed]
vars == <<quota, pod, fig>>

Max2(a, b) == IF a >= b THEN a ELSE b
Min2(a, b) == IF a <= b THEN a ELSE b
Pos(a)     == IF a < 0 THEN 0 ELSE a
SumOver(S, f(_)) == FoldSet(LAMBDA x, acc : acc + f(x), 0, S)

Kids(Q, q)  == {c \in DOMAIN Q : Q[c].parent = q}
PodsOf(P, q) == {p \in DOMAIN P : P[p].q = q}

(************************* from-scratch reference ***************************)
RECURSIVE RChild(_, _, _), RReq(_, _, _), RLim(_, _, _), RUsed(_, _, _)
RSelfReq(Q, P, q)  == SumOver(PodsOf(P, q), LAMBDA p : P[p].req)
RSelfUsed(Q, P, q) == SumOver({p \in PodsOf(P, q) : P[p].assigned}, LAMBDA p : P[p].req)
RChild(Q, P, q)    == RSelfReq(Q, P, q) + SumOver(Kids(Q, q), LAMBDA c : RLim(Q, P, c))
RReq(Q, P, q)      == IF Q[q].lent THEN RChild(Q, P, q) ELSE Max2(RChild(Q, P, q), Q[q].min)
RLim(Q, P, q)      == Min2(RReq(Q, P, q), Q[q].max)
RUsed(Q, P, q)     == RSelfUsed(Q, P, q) + SumOver(Kids(Q, q), LAMBDA c : RUsed(Q, P, c))
Ref(Q, P, q) == [req |-> RReq(Q, P, q), child |-> RChild(Q, P, q), selfReq |-> RSelfReq(Q, P, q),
                 used |-> RUsed(Q, P, q), selfUsed |-> RSelfUsed(Q, P, q)]

Exact == \A q \in DOMAIN quota : fig[q] = Ref(quota, pod, q)

(**************************** the incremental code **************************)
ZeroFig == [req |-> 0, child |-> 0, selfReq |-> 0, used |-> 0, selfUsed |-> 0]
Lim(Q, F, q) == Min2(F[q].req, Q[q].max)                      \* getLimitRequestNoLock

\* recursiveUpdateGroupTreeWithDeltaRequest: push `delta` from group q upwards.
\* self = TRUE only for the first group of a pod-originated update (selfQuotaIndex = 0)
RECURSIVE PushReq(_, _, _, _, _)
PushReq(Q, F, q, delta, self) ==
    IF q = Root \/ q \notin DOMAIN Q THEN F
    ELSE LET old   == Lim(Q, F, q)
             child == Pos(F[q].child + delta)
             sreq  == IF self THEN Pos(F[q].selfReq + delta) ELSE F[q].selfReq
             real  == IF Q[q].lent THEN child ELSE Max2(child, Q[q].min)
             F1    == [F EXCEPT ![q].child = child, ![q].selfReq = sreq, ![q].req = real]
         IN  PushReq(Q, F1, Q[q].parent, Lim(Q, F1, q) - old, FALSE)

RECURSIVE PushUsed(_, _, _, _, _)
PushUsed(Q, F, q, delta, self) ==
    IF q = Root \/ q \notin DOMAIN Q THEN F
    ELSE LET F1 == [F EXCEPT ![q].used = Pos(F[q].used + delta),
                             ![q].selfUsed = IF self THEN Pos(F[q].selfUsed + delta) ELSE F[q].selfUsed]
         IN  PushUsed(Q, F1, Q[q].parent, delta, FALSE)

\* doUpdateOneGroupMaxQuotaNoLock / doUpdateOneGroupMinQuotaNoLock (Q already carries the new value)
SetMax(Qold, Qnew, F, q) ==
    PushReq(Qnew, F, Qnew[q].parent, Lim(Qnew, F, q) - Lim(Qold, F, q), FALSE)
SetMin(Q, F, q) ==
    LET old  == Lim(Q, F, q)
        real == IF Q[q].lent THEN F[q].child ELSE Max2(F[q].child, Q[q].min)
        F1   == [F EXCEPT ![q].req = real]
    IN  PushReq(Q, F1, Q[q].parent, Lim(Q, F1, q) - old, FALSE)

\* deleteQuotaNoLock: hand the group's totals back to the parent chain
DeleteFig(Q, F, q) ==
    LET back == IF LimitedDelete THEN Lim(Q, F, q) ELSE F[q].req
        F1   == PushReq(Q, F, Q[q].parent, 0 - back, FALSE)
        F2   == PushUsed(Q, F1, Q[q].parent, 0 - F[q].used, FALSE)
    IN  [n \in (DOMAIN F) \ {q} |-> F2[n]]

\* rebuildAllGroupQuotaNoLock: clear everything, then re-push each group's stored own part
RECURSIVE RebuildFrom(_, _, _, _)
RebuildFrom(Q, F, saved, todo) ==
    IF todo = {} THEN F
    ELSE LET q  == CHOOSE x \in todo : TRUE
             F1 == PushReq(Q, F, q, saved[q].r, TRUE)
             F2 == PushUsed(Q, F1, q, saved[q].u, TRUE)
         IN  RebuildFrom(Q, F2, saved, todo \ {q})
Rebuild(Q, F) ==
    LET saved == [q \in DOMAIN Q |-> IF Q[q].isParent THEN [r |-> F[q].selfReq, u |-> F[q].selfUsed]
                                                       ELSE [r |-> F[q].child,   u |-> F[q].used]]
    IN  RebuildFrom(Q, [q \in DOMAIN Q |-> ZeroFig], saved, DOMAIN Q)

(********************************** actions *********************************)
RECURSIVE Reaches(_, _, _)
Reaches(n, a, k) == IF n = a THEN TRUE
                    ELSE IF n = Root \/ k = 0 \/ n \notin DOMAIN quota THEN FALSE
                    ELSE Reaches(quota[n].parent, a, k - 1)
\* webhook (C15): the parent exists and is marked as a parent
ParentOK(b) == b.parent = Root \/ (b.parent \in DOMAIN quota /\ quota[b.parent].isParent)
Bodies == [parent : QNames \cup {Root}, isParent : BOOLEAN, lent : BOOLEAN, min : MinVals, max : MaxVals]

QuotaCreate(n, b) ==
    /\ n \notin DOMAIN quota /\ ParentOK(b) /\ b.parent # n
    /\ LET Q  == [m \in (DOMAIN quota) \cup {n} |-> IF m = n THEN b ELSE quota[m]]
           F0 == [m \in DOMAIN Q |-> IF m = n THEN ZeroFig ELSE fig[m]]
       IN  /\ quota' = Q
           /\ fig' = SetMin(Q, F0, n)            \* max first (request is 0: no delta), then min
    /\ UNCHANGED pod

\* UpdateQuota on an existing group
QuotaUpdate(n, b) ==
    /\ n \in DOMAIN quota /\ b # quota[n]
    /\ ParentOK(b) /\ b.parent # n
    /\ ~Reaches(b.parent, n, Cardinality(DOMAIN quota) + 1)          \* no cycle (webhook, C15)
    /\ (Kids(quota, n) # {} => b.isParent)                           \* webhook: a group with children stays a parent
    /\ (PodsOf(pod, n) # {} /\ ~quota[n].isParent => ~b.isParent)    \* webhook: a group with pods does not become a parent
    /\ LET old == quota[n]
           Q   == [quota EXCEPT ![n] = b]
       IN  /\ quota' = Q
           /\ IF old.parent # b.parent THEN
                 \* updateQuotaNoLockWhenParentChange
                 LET Fd == DeleteFig(quota, fig, n)
                     Q0 == [Q EXCEPT ![n].min = 0, ![n].max = 0]      \* re-added with empty min/max ...
                     F0 == [m \in DOMAIN Q |-> IF m = n THEN ZeroFig ELSE Fd[m]]
                     Q1 == [Q0 EXCEPT ![n].max = b.max]
                     F1 == SetMax(Q0, Q1, F0, n)                      \* ... then max, then min
                     F2 == SetMin(Q, F1, n)
                     F3 == PushReq(Q, F2, n, fig[n].selfReq, TRUE)    \* self part
                     F4 == IF old.isParent THEN PushReq(Q, F3, n, fig[n].child - fig[n].selfReq, FALSE) ELSE F3
                     F5 == PushUsed(Q, F4, n, fig[n].selfUsed, TRUE)
                     F6 == IF old.isParent THEN PushUsed(Q, F5, n, fig[n].used - fig[n].selfUsed, FALSE) ELSE F5
                 IN  fig' = F6
              ELSE IF old.lent # b.lent \/ old.isParent # b.isParent THEN
                 fig' = Rebuild(Q, fig)
              ELSE
                 LET Q1 == [quota EXCEPT ![n].max = b.max]
                     F1 == IF old.max # b.max THEN SetMax(quota, Q1, fig, n) ELSE fig
                 IN  fig' = IF old.min # b.min THEN SetMin(Q, F1, n) ELSE F1
    /\ UNCHANGED pod

QuotaDelete(n) ==
    /\ n \in DOMAIN quota /\ Kids(quota, n) = {}
    /\ quota' = [m \in (DOMAIN quota) \ {n} |-> quota[m]]
    /\ pod' = [p \in {x \in DOMAIN pod : pod[x].q # n} |-> pod[p]]
    /\ fig' = DeleteFig(quota, fig, n)

PodAdd(p, q, r, bound) ==
    /\ p \notin DOMAIN pod /\ q \in DOMAIN quota
    /\ pod' = [x \in (DOMAIN pod) \cup {p} |-> IF x = p THEN [q |-> q, req |-> r, assigned |-> bound] ELSE pod[x]]
    /\ LET F1 == PushReq(quota, fig, q, r, TRUE)
       IN  fig' = IF bound THEN PushUsed(quota, F1, q, r, TRUE) ELSE F1
    /\ UNCHANGED quota

PodResize(p, r) ==
    /\ p \in DOMAIN pod /\ r # pod[p].req
    /\ pod' = [pod EXCEPT ![p].req = r]
    /\ LET F1 == PushReq(quota, fig, pod[p].q, r - pod[p].req, TRUE)
       IN  fig' = IF pod[p].assigned THEN PushUsed(quota, F1, pod[p].q, r - pod[p].req, TRUE) ELSE F1
    /\ UNCHANGED quota

PodDelete(p) ==
    /\ p \in DOMAIN pod
    /\ pod' = [x \in (DOMAIN pod) \ {p} |-> pod[x]]
    /\ LET F1 == PushReq(quota, fig, pod[p].q, 0 - pod[p].req, TRUE)
       IN  fig' = IF pod[p].assigned THEN PushUsed(quota, F1, pod[p].q, 0 - pod[p].req, TRUE) ELSE F1
    /\ UNCHANGED quota

Reserve(p) ==
    /\ p \in DOMAIN pod /\ ~pod[p].assigned
    /\ pod' = [pod EXCEPT ![p].assigned = TRUE]
    /\ fig' = PushUsed(quota, fig, pod[p].q, pod[p].req, TRUE)
    /\ UNCHANGED quota
Unreserve(p) ==
    /\ p \in DOMAIN pod /\ pod[p].assigned
    /\ pod' = [pod EXCEPT ![p].assigned = FALSE]
    /\ fig' = PushUsed(quota, fig, pod[p].q, 0 - pod[p].req, TRUE)
    /\ UNCHANGED quota

Migrate(p, in) ==
    /\ p \in DOMAIN pod /\ in \in DOMAIN quota /\ in # pod[p].q
    /\ pod' = [pod EXCEPT ![p].q = in]
    /\ LET out == pod[p].q
           r   == pod[p].req
           F1  == PushReq(quota, fig, out, 0 - r, TRUE)
           F2  == IF pod[p].assigned THEN PushUsed(quota, F1, out, 0 - r, TRUE) ELSE F1
           F3  == PushReq(quota, F2, in, r, TRUE)
       IN  fig' = IF pod[p].assigned THEN PushUsed(quota, F3, in, r, TRUE) ELSE F3
    /\ UNCHANGED quota

ResetAll == fig' = Rebuild(quota, fig) /\ UNCHANGED <<quota, pod>>

Init == quota = <<>> /\ pod = <<>> /\ fig = <<>>
Next == \/ \E n \in QNames, b \in Bodies : QuotaCreate(n, b) \/ QuotaUpdate(n, b)
        \/ \E n \in QNames : QuotaDelete(n)
        \/ \E p \in PNames, q \in QNames, r \in Vals, bound \in BOOLEAN : PodAdd(p, q, r, bound)
        \/ \E p \in PNames, r \in Vals : PodResize(p, r)
        \/ \E p \in PNames : PodDelete(p) \/ Reserve(p) \/ Unreserve(p)
        \/ \E p \in PNames, q \in QNames : Migrate(p, q)
        \/ ResetAll
Spec == Init /\ [][Next]_vars
NonNegative == \A q \in DOMAIN fig : fig[q].req >= 0 /\ fig[q].child >= 0 /\ fig[q].used >= 0
=============================================================================
