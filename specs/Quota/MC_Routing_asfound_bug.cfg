SPECIFICATION Spec
CONSTANTS
  Pods = {p1, p2, p3}
  Names = {a, b}
  Default = dflt
  Variant = "asFound"
INVARIANT ExactlyOnce
INVARIANT AssignedIsCounted
INVARIANT TypeOK
