--------------------------- MODULE QuotaTreeTrace ---------------------------
(***************************************************************************)
(* C02 on multi-level trees: RefreshRuntime(name) walks root -> name; at    *)
(* every level the parent's calculator divides `total` among the sibling   *)
(* groups.  The harness logs, per level and dimension, the calculator's    *)
(* actual inputs and outputs.  TLC checks for each level                   *)
(*   (i)   the siblings that were served are exactly the child groups of   *)
(*         the parent                                                      *)
(*   (ii)  the relational predicates of RuntimeShare hold between the TRUE *)
(*         inputs - each child's max-limited request (C01's from-scratch   *)
(*         Limited), min, shared weight, lend flag, taken from the         *)
(*         abstract objects - and the runtimes the calculator produced     *)
(*         (its cached copies of the inputs are NOT trusted)               *)
(*   (iii) total = cluster total at the top level, = the parent's runtime  *)
(*         (as computed one level up) below                                *)
(*   (iv)  the value returned is the group's runtime at its own level.     *)
(***************************************************************************)
EXTENDS QuotaAccountingTrace
RS == INSTANCE RuntimeShare
VARIABLE scaleOn    \* min-quota scaling enabled for this segment (fixed during a behaviour)

\* CPU is kept in milli-units inside the calculator; the abstract cluster total (node events) is kept in the calculator's
\* units too, because a node may add a fraction of a core
Scale(d) == IF d = "cpu" THEN 1000 ELSE 1

SibNames(lv, d) == {lv.sibs[d][k].name : k \in 1..Len(lv.sibs[d])}
Rt(lv, d)       == [k \in 1..Len(lv.sibs[d]) |-> lv.sibs[d][k].rt]
RtOf(lv, d, n)  == LET k == CHOOSE k \in 1..Len(lv.sibs[d]) : lv.sibs[d][k].name = n IN lv.sibs[d][k].rt

\* the TRUE inputs of a level, taken from the abstract objects (not from the calculator's cached nodes):
\* sibling k (in the logged name order) asks for its max-limited request
TrueNodes(lv, d) ==
    [k \in 1..Len(lv.sibs[d]) |->
        LET n == lv.sibs[d][k].name IN
        \* with min-quota scaling the guaranteed minimum in force is the (lazily refreshed, float-computed) scaled min the
        \* calculator holds; it is taken from the log and only required to lie within 0 .. the declared min (MinOK below)
        [req  |-> Scale(d) * Limited(n, d),
         min  |-> IF scaleOn THEN lv.sibs[d][k].min ELSE Scale(d) * quota[n].min[d], guar |-> 0,
         w    |-> Scale(d) * quota[n].weight[d], lent |-> quota[n].lent]]

LevelOK(lv, d, total) ==
    /\ lv.total[d] = total
    \* every child group that declares the dimension is served (groups that do not declare it ask for nothing in it
    \* and may be missing from that dimension's calculator tree)
    /\ SibNames(lv, d) \subseteq Kids(lv.parent)
    /\ {k \in Kids(lv.parent) : d \in quota[k].dims} \subseteq SibNames(lv, d)
    /\ \A k \in 1..Len(lv.sibs[d]) : lv.sibs[d][k].min >= 0 /\ lv.sibs[d][k].min <= Scale(d) * quota[lv.sibs[d][k].name].min[d]     \* MinOK
    /\ RS!ShareOK(TrueNodes(lv, d), total, Rt(lv, d))

RECURSIVE LevelsOK(_, _, _, _)
LevelsOK(levels, i, d, total) ==
    IF i > Len(levels) THEN TRUE
    ELSE /\ LevelOK(levels[i], d, total)
         /\ LevelsOK(levels, i + 1, d, RtOf(levels[i], d, levels[i].name))

PathOK(levels, name) ==
    /\ Len(levels) >= 1
    /\ levels[1].parent = Root
    /\ levels[Len(levels)].name = name
    /\ \A i \in 1..Len(levels) : quota[levels[i].name].parent = levels[i].parent
    /\ \A i \in 1..(Len(levels) - 1) : levels[i + 1].parent = levels[i].name

TRefresh ==
    /\ IsEvent("refresh") /\ Skip /\ UNCHANGED scaleOn
    /\ Ev.name \in DOMAIN quota
    /\ PathOK(Ev.levels, Ev.name)
    /\ \A d \in quota[Ev.name].dims :               \* the dimensions the groups on the path declare
          /\ LevelsOK(Ev.levels, 1, d, cluster[d])
          /\ Ev.result[d] = RtOf(Ev.levels[Len(Ev.levels)], d, Ev.name)     \* logged in calculator units

TreeInit == \E i \in Starts : TraceStart(i) /\ Init /\ scaleOn = Get(Trace[i], "scale", FALSE)
TreeNext == (TraceNext /\ UNCHANGED scaleOn) \/ TRefresh
TreeSpec == TreeInit /\ [][TreeNext]_<<vars, tvars, scaleOn>>
=============================================================================
