-------------------------- MODULE QuotaAccounting --------------------------
(***************************************************************************)
(* C01 - elastic-quota usage / request accounting.                         *)
(*                                                                         *)
(* Abstract state = the OBJECTS the manager currently knows:               *)
(*   quota  live quota name -> [parent, isParent, lent, min, max]          *)
(*          (min, max : Dims -> Nat ; every quota declares every dimension *)
(*           - the property quantifies over trees sharing one fixed set of *)
(*           dimensions)                                                   *)
(*          (+ weight : Dims -> Nat, the shared weight used by C02)        *)
(*   pod    live pod id -> [q, req, np, assigned, bound]                   *)
(*          q   quota the pod is accounted in                              *)
(*          req Dims -> Nat ; np = non-preemptible ; assigned = holds      *)
(*          resources (reserved / bound)                                   *)
(*                                                                         *)
(* Every figure the manager reports is a DERIVED operator, computed from   *)
(* scratch from these objects (Used, Request, ChildRequest, Self.., NP..).   *)
(* The trace specification demands that the incrementally maintained       *)
(* figures logged after every operation equal these operators.             *)
(***************************************************************************)
EXTENDS Integers, FiniteSets, Sequences, FiniteSetsExt, TLC

CONSTANTS Root,      \* name of the root quota (string)
          Dims       \* resource dimensions (strings)

VARIABLES quota, pod,
          cluster    \* Dims -> Nat : total resource of the cluster (sum of node add/remove deltas)
vars == <<quota, pod, cluster>>

Zero == [d \in Dims |-> 0]
Max2(a, b) == IF a >= b THEN a ELSE b
Min2(a, b) == IF a <= b THEN a ELSE b

Kids(q)   == {c \in DOMAIN quota : quota[c].parent = q}
PodsOf(q) == {p \in DOMAIN pod : pod[p].q = q}
SumOver(S, f(_)) == FoldSet(LAMBDA x, acc : acc + f(x), 0, S)

(**************************** figures from scratch **************************)
\* a pod counts in its group only in the dimensions the group declares (its max); the admission webhook (C15) makes
\* the declared dimensions agree along a tree, so the mask is the same for every ancestor
MReq(p, d) == IF d \in quota[pod[p].q].dims THEN pod[p].req[d] ELSE 0
SelfRequest(q, d)   == SumOver(PodsOf(q), LAMBDA p : MReq(p, d))
SelfUsed(q, d)      == SumOver({p \in PodsOf(q) : pod[p].assigned}, LAMBDA p : MReq(p, d))
SelfNPRequest(q, d) == SumOver({p \in PodsOf(q) : pod[p].np}, LAMBDA p : MReq(p, d))
SelfNPUsed(q, d)    == SumOver({p \in PodsOf(q) : pod[p].np /\ pod[p].assigned}, LAMBDA p : MReq(p, d))

RECURSIVE ChildRequest(_, _), Request(_, _), Limited(_, _), Used(_, _), NPRequest(_, _), NPUsed(_, _)
\* what the subtree asks for: own pods + the max-limited requests of the child groups
ChildRequest(q, d) == SelfRequest(q, d) + SumOver(Kids(q), LAMBDA c : Limited(c, d))
\* a group that does not lend asks for at least its min
Request(q, d)      == IF quota[q].lent THEN ChildRequest(q, d) ELSE Max2(ChildRequest(q, d), quota[q].min[d])
\* what is passed upwards is limited by max
Limited(q, d)      == Min2(Request(q, d), quota[q].max[d])
Used(q, d)         == SelfUsed(q, d) + SumOver(Kids(q), LAMBDA c : Used(c, d))
NPRequest(q, d)    == SelfNPRequest(q, d) + SumOver(Kids(q), LAMBDA c : NPRequest(c, d))
NPUsed(q, d)       == SelfNPUsed(q, d) + SumOver(Kids(q), LAMBDA c : NPUsed(c, d))

Figures(q) == [used         |-> [d \in Dims |-> Used(q, d)],
               request      |-> [d \in Dims |-> Request(q, d)],
               childRequest |-> [d \in Dims |-> ChildRequest(q, d)],
               selfUsed     |-> [d \in Dims |-> SelfUsed(q, d)],
               selfRequest  |-> [d \in Dims |-> SelfRequest(q, d)],
               npUsed       |-> [d \in Dims |-> NPUsed(q, d)],
               npRequest    |-> [d \in Dims |-> NPRequest(q, d)],
               selfNpUsed   |-> [d \in Dims |-> SelfNPUsed(q, d)],
               selfNpRequest|-> [d \in Dims |-> SelfNPRequest(q, d)]]

(******************************* well-formedness ****************************)
RECURSIVE Reaches(_, _, _)
Reaches(n, a, k) == IF n = a THEN TRUE
                    ELSE IF n = Root \/ k = 0 \/ n \notin DOMAIN quota THEN FALSE
                    ELSE Reaches(quota[n].parent, a, k - 1)
\* a is n itself or an ancestor of n
IsAncestorOrSelf(a, n) == Reaches(n, a, Cardinality(DOMAIN quota) + 1)

(********************************** operations ******************************)
\* Operations are written as state transformers  St -> St  (St = [quota, pod]) so that a batch of
\* operations issued concurrently on distinct pods can be applied as one step (they commute in the
\* abstract state, so any linearisation gives the same objects).
QBody(r) == [parent |-> r.parent, isParent |-> r.isParent, lent |-> r.lent, min |-> r.min, max |-> r.max,
             weight |-> r.weight,      \* shared weight (defaults to max)
             dims |-> r.dims]          \* declared dimensions (C01/C02 drivers: all of Dims)

RECURSIVE ReachesIn(_, _, _, _)
ReachesIn(Q, n, a, k) == IF n = a THEN TRUE
                         ELSE IF n = Root \/ k = 0 \/ n \notin DOMAIN Q THEN FALSE
                         ELSE ReachesIn(Q, Q[n].parent, a, k - 1)

\* create or update (min / max / lent / isParent / parent); the admission webhook (C15) guarantees
\* that the parent exists and that no cycle is created
QuotaUpsertOK(S, r) ==
    /\ r.name # Root /\ r.name # r.parent
    /\ r.parent = Root \/ r.parent \in DOMAIN S.quota
    /\ ~ReachesIn(S.quota, r.parent, r.name, Cardinality(DOMAIN S.quota) + 1)
QuotaUpsertF(S, r) ==
    [S EXCEPT !.quota = [n \in (DOMAIN S.quota) \cup {r.name} |-> IF n = r.name THEN QBody(r) ELSE S.quota[n]]]

\* a deleted group takes its pod records with it (the manager forgets them); the webhook
\* guarantees it has no child groups
QuotaDeleteOK(S, n) == n \in DOMAIN S.quota /\ {c \in DOMAIN S.quota : S.quota[c].parent = n} = {}
QuotaDeleteF(S, n) ==
    [quota |-> [m \in (DOMAIN S.quota) \ {n} |-> S.quota[m]],
     pod   |-> [p \in {x \in DOMAIN S.pod : S.pod[x].q # n} |-> S.pod[p]]]

PodAddOK(S, p, q) == p \notin DOMAIN S.pod /\ q \in DOMAIN S.quota
PodAddF(S, p, q, req, np, bound) ==
    [S EXCEPT !.pod = [x \in (DOMAIN S.pod) \cup {p} |->
                          IF x = p THEN [q |-> q, req |-> req, np |-> np, assigned |-> bound, bound |-> bound] ELSE S.pod[x]]]

\* spec / label / node change of a known pod; moving it to another group re-derives `assigned`
\* from the object (bound), staying in the group keeps an assignment made by Reserve
PodUpdateOK(S, p, q) == p \in DOMAIN S.pod /\ q \in DOMAIN S.quota
PodUpdateF(S, p, q, req, np, bound) ==
    [S EXCEPT !.pod[p] = [q |-> q, req |-> req, np |-> np,
                          assigned |-> IF q = S.pod[p].q THEN (S.pod[p].assigned \/ bound) ELSE bound,
                          bound |-> bound]]        \* bound = the object carries a node name = the assignment is PERSISTED

PodKnown(S, p)   == p \in DOMAIN S.pod
PodDeleteF(S, p) == [S EXCEPT !.pod = [x \in (DOMAIN S.pod) \ {p} |-> S.pod[x]]]
ReserveF(S, p)   == [S EXCEPT !.pod[p].assigned = TRUE]
UnreserveF(S, p) == [S EXCEPT !.pod[p].assigned = FALSE]
\* C19: the scheduler restarts; a fresh manager sees only the persisted objects, so exactly the pods whose
\* object carries a node name are assigned afterwards (a reservation that was not bound yet is lost, by design)
RestartF(S) == [S EXCEPT !.pod = [p \in DOMAIN S.pod |-> [S.pod[p] EXCEPT !.assigned = S.pod[p].bound]]]
MigrateOK(S, p, in) == p \in DOMAIN S.pod /\ in \in DOMAIN S.quota /\ in # S.pod[p].q
MigrateF(S, p, in)  == [S EXCEPT !.pod[p].q = in]

Cur == [quota |-> quota, pod |-> pod]
Becomes(S) == quota' = S.quota /\ pod' = S.pod /\ UNCHANGED cluster

QuotaUpsert(r)  == QuotaUpsertOK(Cur, r) /\ Becomes(QuotaUpsertF(Cur, r))
QuotaDelete(n)  == QuotaDeleteOK(Cur, n) /\ Becomes(QuotaDeleteF(Cur, n))
PodAdd(p, q, req, np, bound)    == PodAddOK(Cur, p, q) /\ Becomes(PodAddF(Cur, p, q, req, np, bound))
PodUpdate(p, q, req, np, bound) == PodUpdateOK(Cur, p, q) /\ Becomes(PodUpdateF(Cur, p, q, req, np, bound))
PodDelete(p)    == PodKnown(Cur, p) /\ Becomes(PodDeleteF(Cur, p))
Reserve(p)      == PodKnown(Cur, p) /\ Becomes(ReserveF(Cur, p))
Unreserve(p)    == PodKnown(Cur, p) /\ Becomes(UnreserveF(Cur, p))
Migrate(p, in)  == MigrateOK(Cur, p, in) /\ Becomes(MigrateF(Cur, p, in))
\* node add / remove changes the cluster total only
NodeDelta(delta) == cluster' = [d \in Dims |-> cluster[d] + delta[d]] /\ UNCHANGED <<quota, pod>>
\* full rebuild of the manager's tree, fresh manager, runtime refresh: no effect on the objects
Skip == UNCHANGED vars

Init == quota = <<>> /\ pod = <<>> /\ cluster = Zero

(********************************* invariants *******************************)
NonNegative == \A q \in DOMAIN quota : \A d \in Dims :
                  /\ Used(q, d) >= 0 /\ Request(q, d) >= 0
                  /\ Used(q, d) <= SumOver(DOMAIN pod, LAMBDA p : pod[p].req[d])
UsedWithinRequest == \A q \in DOMAIN quota : \A d \in Dims : SelfUsed(q, d) <= SelfRequest(q, d)
=============================================================================
