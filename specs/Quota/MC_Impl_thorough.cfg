\* three groups (re-parenting between two parents), one pod value above max; lent fixed to keep the space finite and small enough
SPECIFICATION Spec
CONSTANTS
  Root = "koordinator-root-quota"
  QNames = {"a", "b", "c"}
  PNames = {"p1", "p2"}
  Vals = {3}
  MinVals = {0, 2}
  MaxVals = {2, 9}
  LimitedDelete = TRUE
INVARIANT Exact
INVARIANT NonNegative
