\* one witness history for every reachable state of a tiny model (2 groups, 1 pod)
SPECIFICATION GenSpec
CONSTANTS
  Root = "koordinator-root-quota"
  QNames = {"a", "b"}
  PNames = {"p1"}
  Vals = {1, 3}
  MinVals = {0, 2}
  MaxVals = {2}
  LimitedDelete = TRUE
  K = 7
VIEW GenView
CONSTRAINT GenBound
INVARIANT GenPrint
CHECK_DEADLOCK FALSE
