SPECIFICATION Spec
CONSTANTS
  Root = "root"
  Parent = "P"
  Leaves = {"A", "B"}
  Pods = {"p1", "p2", "p3"}
  Reqs = {1, 2}
  Maxs = {2, 3}
  CheckParent = TRUE
INVARIANT NeverAboveMax
