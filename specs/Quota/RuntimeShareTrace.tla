------------------------- MODULE RuntimeShareTrace -------------------------
(* Trace validation for C02 (single level): each segment is one input        *)
(* (reset: siblings in name order + total) and one event carrying the        *)
(* runtime quotas the real quotaTree.redistribution produced, once per       *)
(* insertion order tried by the harness.                                     *)
EXTENDS RuntimeShare, TraceCommon
VARIABLES nodes, total
vars == <<nodes, total>>

AllSame(runs) == \A a, b \in 1..Len(runs) : runs[a] = runs[b]      \* does not depend on iteration order
TShare == /\ IsEvent("share")
          /\ UNCHANGED vars
          /\ Expect(/\ \A k \in 1..Len(Ev.runs) : Len(Ev.runs[k]) = Len(nodes) /\ ShareOK(nodes, total, Ev.runs[k])
                    /\ AllSame(Ev.runs),
                    Redistribute(nodes, total))

TraceInit == \E i \in Starts : TraceStart(i) /\ nodes = Trace[i].nodes /\ total = Trace[i].total
TraceNext == TShare \/ (SegDone /\ UNCHANGED vars)
TraceSpec == TraceInit /\ [][TraceNext]_<<vars, tvars>>
=============================================================================
