------------------------- MODULE RuntimeShareTrace -------------------------
(* Trace validation for C02 (single level): each segment is one input        *)
(* (reset: siblings in name order + total) and one event carrying the        *)
(* runtime quotas the real quotaTree.redistribution produced, once per       *)
(* insertion order tried by the harness.                                     *)
EXTENDS RuntimeShare, TraceCommon
VARIABLES nodes, total
vars == <<nodes, total>>

AllSame(runs) == \A a, b \in 1..Len(runs) : runs[a] = runs[b]      \* does not depend on iteration order
TShare == /\ IsEvent("share")
          /\ UNCHANGED vars
          /\ Expect(/\ \A k \in 1..Len(Ev.runs) : Len(Ev.runs[k]) = Len(nodes) /\ ShareOK(nodes, total, Ev.runs[k])
                    /\ AllSame(Ev.runs),
                    Redistribute(nodes, total))

\* 64-bit-scale inputs: amounts logged in units of U (floor); nodes[i] = [req, min, guar, lent, wpos]
TShareCoarse == /\ IsEvent("shareCoarse")
                /\ UNCHANGED vars
                /\ Expect(/\ \A k \in 1..Len(Ev.runs) : Len(Ev.runs[k]) = Len(nodes) /\ CoarseOK(nodes, total, Ev.runs[k])
                          /\ AllSame(Ev.runs),
                          [note |-> "coarse units: bounds, sum <= total, nothing undistributed while a weighted sibling is short"])

TraceInit == \E i \in Starts : TraceStart(i) /\ nodes = Trace[i].nodes /\ total = Trace[i].total
TraceNext == TShare \/ TShareCoarse \/ (SegDone /\ UNCHANGED vars)
TraceSpec == TraceInit /\ [][TraceNext]_<<vars, tvars>>
=============================================================================
