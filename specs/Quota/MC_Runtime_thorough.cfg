SPECIFICATION Spec
CONSTANTS
  MaxN = 3
  Reqs = {0, 1, 3, 5}
  Mins = {0, 2}
  Guars = {0, 3}
  Ws = {0, 1, 3}
  Totals = {0, 2, 3, 5, 7, 8, 11, 12}
INVARIANT ModelOK
