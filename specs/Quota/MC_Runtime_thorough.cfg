SPECIFICATION Spec
CONSTANTS
  MaxN = 3
  Reqs = {0, 1, 3, 5}
  Mins = {0, 2}
  Guars = {0, 3}
  Ws = {0, 1, 2, 3}
  Totals = {0, 1, 2, 3, 4, 5, 6, 7, 8, 9, 10, 11, 12}
INVARIANT ModelOK
