\* one witness history for every reachable state of the MC_Impl_quick model (2 groups, 2 pods)
SPECIFICATION GenSpec
CONSTANTS
  Root = "koordinator-root-quota"
  QNames = {"a", "b"}
  PNames = {"p1", "p2"}
  Vals = {1, 3}
  MinVals = {0, 2}
  MaxVals = {2, 9}
  LimitedDelete = TRUE
  K = 8
VIEW GenView
CONSTRAINT GenBound
INVARIANT GenPrint
CHECK_DEADLOCK FALSE
