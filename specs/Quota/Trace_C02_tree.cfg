SPECIFICATION TreeSpec
CONSTANTS
  Root = "koordinator-root-quota"
  Dims = {"cpu", "memory"}
  CheckFigures = FALSE
CONSTRAINT Report
CHECK_DEADLOCK FALSE
