\* long random histories: 4 groups (depth up to 3), 3 pods
SPECIFICATION GenSpec
CONSTANTS
  Root = "koordinator-root-quota"
  QNames = {"a", "b", "c", "d"}
  PNames = {"p1", "p2", "p3"}
  Vals = {1, 3, 5}
  MinVals = {0, 2}
  MaxVals = {2, 4, 9}
  LimitedDelete = TRUE
  K = 25
INVARIANT GenPrintEnd
CHECK_DEADLOCK FALSE
