---------------------------- MODULE RuntimeShare ----------------------------
(***************************************************************************)
(* C02 - division of a parent's resource among sibling quota groups        *)
(* (one resource dimension; quotaTree.redistribution).                     *)
(*                                                                         *)
(* Input : N siblings, identified by 1..N in ascending NAME order, each    *)
(*         [req, min, guar, w, lent] ; a total.                            *)
(* Output: rt[i] (runtime quota).                                          *)
(*                                                                         *)
(* Property level: relational predicates Bounds, SumFits, WorkConserving,  *)
(* Fair over (input, output) - they do not mention the algorithm.          *)
(* Design level: Redistribute = transcription of the two-phase             *)
(* water-filling with largest-remainder (Hamilton) integer split; TLC      *)
(* checks that it satisfies the predicates for every input of a bounded    *)
(* domain (MC_Runtime*.cfg).                                               *)
(***************************************************************************)
EXTENDS Integers, FiniteSets, Sequences, FiniteSetsExt, TLC

Max2(a, b) == IF a >= b THEN a ELSE b
Min2(a, b) == IF a <= b THEN a ELSE b
Abs(a) == IF a < 0 THEN 0 - a ELSE a
SumOver(S, f(_)) == FoldSet(LAMBDA x, acc : acc + f(x), 0, S)

Idx(nodes)     == 1..Len(nodes)
MinP(nodes, i) == Max2(nodes[i].min, nodes[i].guar)        \* guaranteed minimum
Hungry0(nodes) == {i \in Idx(nodes) : nodes[i].req > MinP(nodes, i)}
\* what a sibling gets before any sharing
Base(nodes, i) == IF nodes[i].req > MinP(nodes, i) THEN MinP(nodes, i)
                  ELSE IF nodes[i].lent THEN nodes[i].req ELSE MinP(nodes, i)

(***************************** property level ******************************)
\* at least the smaller of request and guaranteed minimum, never more than the larger
Bounds(nodes, rt) == \A i \in Idx(nodes) :
    /\ rt[i] >= Min2(nodes[i].req, MinP(nodes, i))
    /\ rt[i] <= Max2(nodes[i].req, MinP(nodes, i))
\* together never more than the parent has, whenever the minimums fit
SumFits(nodes, total, rt) ==
    SumOver(Idx(nodes), LAMBDA i : MinP(nodes, i)) <= total => SumOver(Idx(nodes), LAMBDA i : rt[i]) <= total
\* capacity left after the minimums is handed out until every request is met or nothing is left:
\* no unit is dropped (or created) by rounding
StillHungry(nodes, rt) == {i \in Idx(nodes) : rt[i] < nodes[i].req}
WorkConserving(nodes, total, rt) ==
    SumOver(Idx(nodes), LAMBDA i : Base(nodes, i)) <= total =>
       \/ StillHungry(nodes, rt) = {}
       \/ \A i \in StillHungry(nodes, rt) : nodes[i].w = 0
       \/ SumOver(Idx(nodes), LAMBDA i : rt[i]) = total
\* ... in proportion to their shared weights: two siblings that are both still unsatisfied have
\* received shares above their minimum proportional to their weights, up to one unit of
\* integer rounding per sibling and round (at most N rounds)
Fair(nodes, rt) == \A i, j \in StillHungry(nodes, rt) :
    (nodes[i].w > 0 /\ nodes[j].w > 0) =>
       Abs((rt[i] - MinP(nodes, i)) * nodes[j].w - (rt[j] - MinP(nodes, j)) * nodes[i].w)
          <= Len(nodes) * (nodes[i].w + nodes[j].w)
\* a still-unsatisfied sibling with a positive weight is never left at its minimum while a unit is undistributed,
\* and a sibling whose request is met gets exactly its request
Exact(nodes, rt) == \A i \in Hungry0(nodes) : rt[i] >= MinP(nodes, i) /\ rt[i] <= nodes[i].req

ShareOK(nodes, total, rt) ==
    /\ Bounds(nodes, rt) /\ SumFits(nodes, total, rt) /\ WorkConserving(nodes, total, rt)
    /\ Fair(nodes, rt) /\ Exact(nodes, rt)

(****************************** design level *******************************)
(***************************************************************************)
(* 64-bit-scale values (memory in bytes) do not fit TLC's 32-bit integers. *)
(* For them the harness logs every amount divided by a unit U (floor), and *)
(* the predicates below are the consequences of the exact ones that        *)
(* survive the flooring: each exact predicate implies its coarse form, so  *)
(* a coarse violation is a violation, while some exact violations (smaller *)
(* than a unit) go unnoticed.  N = number of siblings.  Weights are not    *)
(* compared (Fair has no sound coarse form).                               *)
(***************************************************************************)
CBase(nodes, i) == IF nodes[i].req > MinP(nodes, i) THEN MinP(nodes, i)
                   ELSE IF nodes[i].lent THEN nodes[i].req ELSE MinP(nodes, i)
CSum(nodes, f(_)) == SumOver(Idx(nodes), f)
CoarseOK(nodes, total, rt) ==
    LET N == Len(nodes) IN
    /\ Bounds(nodes, rt)                                                  \* floor is monotone and commutes with min / max
    /\ (CSum(nodes, LAMBDA i : MinP(nodes, i)) + N <= total => CSum(nodes, LAMBDA i : rt[i]) <= total)
    \* a sibling that is surely still unsatisfied and has a weight, while the hand-out surely differs from the total
    /\ (CSum(nodes, LAMBDA i : CBase(nodes, i)) + N <= total =>
           ~(/\ \E i \in Idx(nodes) : rt[i] < nodes[i].req /\ nodes[i].wpos
             /\ (CSum(nodes, LAMBDA i : rt[i]) < total - N \/ CSum(nodes, LAMBDA i : rt[i]) > total)))
    /\ \A i \in Idx(nodes) : nodes[i].req > MinP(nodes, i) => rt[i] >= MinP(nodes, i) /\ rt[i] <= nodes[i].req

\* computeHamiltonDeltas: largest-remainder split of T among H by weight (ties by name = index)
Hamilton(nodes, T, H) ==
    LET W     == SumOver(H, LAMBDA i : nodes[i].w)
        P     == {i \in H : nodes[i].w > 0}
        base(i) == (nodes[i].w * T) \div W
        rem(i)  == (nodes[i].w * T) % W
        resid == T - SumOver(P, LAMBDA i : base(i))
        rank(i) == 1 + Cardinality({j \in P : rem(j) > rem(i) \/ (rem(j) = rem(i) /\ j < i)})
    IN  [i \in H |-> IF i \in P THEN base(i) + (IF rank(i) <= resid THEN 1 ELSE 0) ELSE 0]

RECURSIVE Iterate(_, _, _, _)
Iterate(nodes, T, H, rt) ==
    IF SumOver(H, LAMBDA i : nodes[i].w) <= 0 \/ T <= 0 \/ H = {} THEN rt
    ELSE LET d    == Hamilton(nodes, T, H)
             rt1  == [i \in DOMAIN rt |-> IF i \in H THEN rt[i] + d[i] ELSE rt[i]]
             H2   == {i \in H : rt1[i] < nodes[i].req}
             over == SumOver(H \ H2, LAMBDA i : rt1[i] - nodes[i].req)
             rt2  == [i \in DOMAIN rt |-> IF i \in H \ H2 THEN nodes[i].req ELSE rt1[i]]
         IN  IF over > 0 /\ H2 # {} THEN Iterate(nodes, over, H2, rt2) ELSE rt2

Redistribute(nodes, total) ==
    LET b    == [i \in Idx(nodes) |-> Base(nodes, i)]
        left == total - SumOver(Idx(nodes), LAMBDA i : b[i])
    IN  IF left > 0 THEN Iterate(nodes, left, Hungry0(nodes), b) ELSE b
=============================================================================
