SPECIFICATION Spec
CONSTANTS
  Groups = {"P", "A", "B", "C"}
  Root = "root"
  ParentOf <- MCParent
  Procs = {"t1", "t2", "t3", "t4"}
  LeafOf <- MCLeaf
  DeltaOf <- MCDelta
  Rogue = {"t3"}
INVARIANT NoDeadlock
INVARIANT Serializable
INVARIANT Isolation
CHECK_DEADLOCK FALSE
