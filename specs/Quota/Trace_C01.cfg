SPECIFICATION TraceSpec
CONSTANTS
  Root = "koordinator-root-quota"
  Dims = {"cpu", "memory"}
INVARIANT NonNegative
INVARIANT UsedWithinRequest
CONSTRAINT Report
CHECK_DEADLOCK FALSE
