SPECIFICATION TraceSpec
CONSTANTS
  Root = "koordinator-root-quota"
  Dims = {"cpu", "memory"}
  CheckFigures = TRUE
\* property invariants are listed as CONSTRAINTs (before Report): a recorded state that violates one is not
\* explored further, so its segment never reaches SegDone (= rejected) while TLC goes on with the other segments
CONSTRAINT NonNegative
CONSTRAINT UsedWithinRequest
CONSTRAINT Report
CHECK_DEADLOCK FALSE
