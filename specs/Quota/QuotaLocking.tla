---------------------------- MODULE QuotaLocking ----------------------------
(***************************************************************************)
(* C01, schedules clause (design level): operations on DISTINCT pods       *)
(* issued from concurrent goroutines.  Pod handlers run under the          *)
(* hierarchy READ lock, so they really interleave; each delta propagation  *)
(* (updateGroupDeltaRequestNoLock / updateGroupDeltaUsedNoLock) takes the  *)
(* per-group locks of the whole path  ROOT FIRST, leaf last                *)
(* (scopedLockForQuotaInfo), applies the delta group by group from the     *)
(* leaf upwards, then releases.  This module models exactly those          *)
(* sub-steps for a fixed tree and a set of concurrent propagations and     *)
(* lets TLC explore every interleaving:                                    *)
(*   NoDeadlock    some process can always move until all are done         *)
(*   Serializable  when all are done every group's figure equals the sum   *)
(*                 of the deltas of the propagations passing through it    *)
(*                 (= what any sequential order gives)                     *)
(*   Isolation     a group is only ever modified by the lock holder        *)
(* LockOrder = "rootFirst" is the code; "leafFirst" for one process        *)
(* (MC_Locking_bug.cfg) shows the deadlock the ordering prevents.          *)
(***************************************************************************)
EXTENDS Integers, FiniteSets, Sequences, FiniteSetsExt, TLC

CONSTANTS Groups, Root, ParentOf,   \* ParentOf : Groups -> Groups \cup {Root}
          Procs, LeafOf, DeltaOf,   \* each process pushes DeltaOf[p] from group LeafOf[p] to the root
          Rogue                     \* set of processes that (wrongly) lock leaf first

VARIABLES pc,       \* p -> "lock" | "apply" | "unlock" | "done"
          idx,      \* p -> position in its path
          holder,   \* group -> process holding its lock, or "none"
          fig       \* group -> accumulated figure
vars == <<pc, idx, holder, fig>>

RECURSIVE PathUp(_)
PathUp(g) == IF g = Root THEN <<>> ELSE <<g>> \o PathUp(ParentOf[g])      \* leaf ... top-level group
Path(p)   == PathUp(LeafOf[p])
Rev(s)    == [i \in 1..Len(s) |-> s[Len(s) + 1 - i]]
LockSeq(p) == IF p \in Rogue THEN Path(p) ELSE Rev(Path(p))                \* code: root side first

Init == /\ pc = [p \in Procs |-> "lock"] /\ idx = [p \in Procs |-> 1]
        /\ holder = [g \in Groups |-> "none"] /\ fig = [g \in Groups |-> 0]

Lock(p) == /\ pc[p] = "lock"
           /\ LET g == LockSeq(p)[idx[p]] IN
              /\ holder[g] = "none"
              /\ holder' = [holder EXCEPT ![g] = p]
           /\ IF idx[p] = Len(Path(p)) THEN pc' = [pc EXCEPT ![p] = "apply"] /\ idx' = [idx EXCEPT ![p] = 1]
                                       ELSE pc' = pc /\ idx' = [idx EXCEPT ![p] = @ + 1]
           /\ UNCHANGED fig
Apply(p) == /\ pc[p] = "apply"
            /\ LET g == Path(p)[idx[p]] IN fig' = [fig EXCEPT ![g] = @ + DeltaOf[p]]
            /\ IF idx[p] = Len(Path(p)) THEN pc' = [pc EXCEPT ![p] = "unlock"] /\ idx' = [idx EXCEPT ![p] = 1]
                                        ELSE pc' = pc /\ idx' = [idx EXCEPT ![p] = @ + 1]
            /\ UNCHANGED holder
Unlock(p) == /\ pc[p] = "unlock"
             /\ holder' = [g \in Groups |-> IF holder[g] = p THEN "none" ELSE holder[g]]
             /\ pc' = [pc EXCEPT ![p] = "done"]
             /\ UNCHANGED <<idx, fig>>
Next == \E p \in Procs : Lock(p) \/ Apply(p) \/ Unlock(p)
Spec == Init /\ [][Next]_vars

AllDone == \A p \in Procs : pc[p] = "done"
NoDeadlock == AllDone \/ ENABLED Next
Through(g) == {p \in Procs : \E i \in 1..Len(Path(p)) : Path(p)[i] = g}
Serializable == AllDone => \A g \in Groups : fig[g] = FoldSet(LAMBDA p, acc : acc + DeltaOf[p], 0, Through(g))
\* whoever is applying holds every lock of its path
Isolation == \A p \in Procs : pc[p] = "apply" => \A i \in 1..Len(Path(p)) : holder[Path(p)[i]] = p
=============================================================================
