SPECIFICATION AdmSpec
CONSTANTS
  Root = "koordinator-root-quota"
  Dims = {"cpu", "memory", "gpu"}
  CheckFigures = FALSE
\* property invariants are listed as CONSTRAINTs (before Report): a recorded state that violates one is not
\* explored further, so its segment never reaches SegDone (= rejected) while TLC goes on with the other segments
CONSTRAINT NeverAboveMax
CONSTRAINT Report
CHECK_DEADLOCK FALSE
