SPECIFICATION AdmSpec
CONSTANTS
  Root = "koordinator-root-quota"
  Dims = {"cpu", "memory"}
  CheckFigures = FALSE
INVARIANT NeverAboveMax
CONSTRAINT Report
CHECK_DEADLOCK FALSE
