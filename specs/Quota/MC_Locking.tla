----------------------------- MODULE MC_Locking -----------------------------
EXTENDS QuotaLocking
\* tree:  root <- P <- {A, B} ; root <- C
MCParent == [g \in Groups |-> IF g \in {"A", "B"} THEN "P" ELSE "root"]
MCLeaf   == [p \in Procs |-> CASE p = "t1" -> "A" [] p = "t2" -> "B" [] p = "t3" -> "A" [] OTHER -> "C"]
MCDelta  == [p \in Procs |-> CASE p = "t1" -> 1 [] p = "t2" -> 2 [] p = "t3" -> 4 [] OTHER -> 8]
=============================================================================
