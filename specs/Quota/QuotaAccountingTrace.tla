----------------------- MODULE QuotaAccountingTrace -----------------------
(* Trace validation for C01: after EVERY operation the figures reported by   *)
(* the real GroupQuotaManager (GetQuotaSummaries, projected by the harness)  *)
(* must equal the figures computed from scratch from the surviving objects,  *)
(* and so must the figures of a fresh manager fed the final objects          *)
(* (event "rebuild").                                                         *)
EXTENDS QuotaAccounting, TraceCommon, SequencesExt
CONSTANT CheckFigures   \* TRUE for C01; FALSE when the same executor records runtime refreshes for C02 / C03

Vec(m) == [d \in Dims |-> m[d]]
QReq(e) == [name |-> e.name, parent |-> e.parent, isParent |-> e.isParent, lent |-> e.lent,
            min |-> Vec(e.min), max |-> Vec(e.max),
            weight |-> IF Has(e, "weight") THEN Vec(e.weight) ELSE Vec(e.max),
            dims |-> IF Has(e, "dims") THEN ToSet(e.dims) ELSE Dims]

\* e.obs : quota name -> [fig |-> reported figures, pods |-> pod id -> isAssigned]
ExpectedObs == [q \in DOMAIN quota |-> [fig |-> Figures(q), pods |-> [p \in PodsOf(q) |-> pod[p].assigned]]]
\* the root group's totals (not reported by the summaries; read in-package when the harness can): the sums over the
\* top-level groups
TopLevel == {q \in DOMAIN quota : quota[q].parent = Root}
RootFig == [used      |-> [d \in Dims |-> SumOver(TopLevel, LAMBDA q : Used(q, d))],
            request   |-> [d \in Dims |-> SumOver(TopLevel, LAMBDA q : Limited(q, d))],
            npUsed    |-> [d \in Dims |-> SumOver(TopLevel, LAMBDA q : NPUsed(q, d))],
            npRequest |-> [d \in Dims |-> SumOver(TopLevel, LAMBDA q : NPRequest(q, d))]]
ObsEq(o, x) == /\ (DOMAIN o) \ {Root} = DOMAIN x
               /\ \A q \in DOMAIN x : o[q].fig = x[q].fig /\ FEq(o[q].pods, x[q].pods)
               /\ (Root \in DOMAIN o => o[Root].root = RootFig')
ObsOK(e) == IF CheckFigures THEN Expect(ObsEq(e.obs, ExpectedObs'), ExpectedObs') ELSE TRUE

\* one (sub-)operation as a state transformer; OK(...) = the history is one the plugin can deliver
OpOK(S, o) ==
  CASE o.op = "quota"       -> QuotaUpsertOK(S, QReq(o))
    [] o.op = "quotaDelete" -> QuotaDeleteOK(S, o.name)
    [] o.op = "podAdd"      -> PodAddOK(S, o.pod, o.q)
    [] o.op = "podUpdate"   -> PodUpdateOK(S, o.pod, o.q)
    [] o.op = "migrate"     -> MigrateOK(S, o.pod, o.in)
    [] o.op \in {"podDelete", "reserve", "unreserve", "raceDelete"} -> PodKnown(S, o.pod)
    [] OTHER -> FALSE
OpF(S, o) ==
  CASE o.op = "quota"       -> QuotaUpsertF(S, QReq(o))
    [] o.op = "quotaDelete" -> QuotaDeleteF(S, o.name)
    [] o.op = "podAdd"      -> PodAddF(S, o.pod, o.q, Vec(o.req), o.np, o.bound)
    [] o.op = "podUpdate"   -> PodUpdateF(S, o.pod, o.q, Vec(o.req), o.np, o.bound)
    [] o.op = "podDelete"   -> PodDeleteF(S, o.pod)
    \* Reserve / Unreserve of a pod racing the informer's delete of the same pod: both complete, the pod is gone
    [] o.op = "raceDelete"  -> PodDeleteF(S, o.pod)
    [] o.op = "reserve"     -> ReserveF(S, o.pod)
    [] o.op = "unreserve"   -> UnreserveF(S, o.pod)
    [] o.op = "migrate"     -> MigrateF(S, o.pod, o.in)

RECURSIVE ApplyAll(_, _, _)
ApplyAll(S, ops, i) == IF i > Len(ops) THEN S ELSE ApplyAll(OpF(S, ops[i]), ops, i + 1)
RECURSIVE AllOK(_, _, _)
AllOK(S, ops, i) == IF i > Len(ops) THEN TRUE ELSE OpOK(S, ops[i]) /\ AllOK(OpF(S, ops[i]), ops, i + 1)

SingleOps == {"quota", "quotaDelete", "podAdd", "podUpdate", "podDelete", "reserve", "unreserve", "migrate", "raceDelete"}
TSingle == /\ ~done /\ l <= TLen /\ Trace[l].op \in SingleOps
           /\ l' = l + 1 /\ UNCHANGED <<seg, done>>
           /\ OpOK(Cur, Ev) /\ Becomes(OpF(Cur, Ev)) /\ ObsOK(Ev)
\* operations issued concurrently from separate goroutines on distinct pods; observed at quiescence
TPar    == IsEvent("par") /\ AllOK(Cur, Ev.ops, 1) /\ Becomes(ApplyAll(Cur, Ev.ops, 1)) /\ ObsOK(Ev)
TNode   == IsEvent("node") /\ NodeDelta(Vec(Ev.delta)) /\ ObsOK(Ev)
\* C19 (quota part): crash + restart. The events after it come from the FRESH manager fed the persisted objects in an
\* arbitrary informer order with duplicate adds / same-allocation updates; its figures must be the from-scratch ones.
TRestart == IsEvent("restart") /\ Becomes(RestartF(Cur)) /\ ObsOK(Ev)
TSkip   == /\ ~done /\ l <= TLen /\ Trace[l].op \in {"resetAll", "rebuild"}
           /\ l' = l + 1 /\ UNCHANGED <<seg, done>>
           /\ Skip /\ ObsOK(Ev)

TraceInit == \E i \in Starts : TraceStart(i) /\ Init
TraceNext == TSingle \/ TPar \/ TNode \/ TRestart \/ TSkip \/ (SegDone /\ UNCHANGED vars)
TraceSpec == TraceInit /\ [][TraceNext]_<<vars, tvars>>
=============================================================================
