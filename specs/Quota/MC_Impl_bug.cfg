\* deleteQuotaNoLock as found at the pinned commit: TLC finds the lost request
SPECIFICATION Spec
CONSTANTS
  Root = "koordinator-root-quota"
  QNames = {"a", "b"}
  PNames = {"p1", "p2"}
  Vals = {1, 3}
  MinVals = {0}
  MaxVals = {2, 9}
  LimitedDelete = FALSE
INVARIANT Exact
