------------------------ MODULE QuotaAdmissionTrace ------------------------
(***************************************************************************)
(* Trace validation for C03: histories driven through the real plugin      *)
(* (PreFilter / Reserve / Unreserve / pod, quota and node handlers).       *)
(* For every scheduling attempt the logged verdict must agree with the     *)
(* property's admission predicate evaluated on the ABSTRACT state          *)
(* (from-scratch Used / NonPreemptibleUsed of C01) and on the limit in     *)
(* force: max when runtime quota is off; when it is on, the runtime of     *)
(* each group on the path, which itself must satisfy C02's predicates at   *)
(* every level (reuses QuotaTreeTrace).  The limit the plugin actually     *)
(* compared against (PostFilterState.usedLimit) is logged and bound.       *)
(***************************************************************************)
EXTENDS QuotaTreeTrace
VARIABLES cfg,      \* [runtime, checkParent] of this segment
          lowered   \* groups whose max was lowered at some point
avars == <<cfg, lowered>>

RECURSIVE Ancestors(_, _)
Ancestors(q, k) == IF q = Root \/ q \notin DOMAIN quota \/ k = 0 THEN {}
                   ELSE LET p == quota[q].parent IN (IF p = Root THEN {} ELSE {p}) \cup Ancestors(p, k - 1)
Anc(q) == Ancestors(q, Cardinality(DOMAIN quota))

\* the limit in force for group a (calculator units: milli-CPU)
Limit(e, a, d) == IF cfg.runtime THEN e.limits[a][d] ELSE Scale(d) * quota[a].max[d]

LimitsAreRuntimes(e, q) ==
    cfg.runtime =>
       /\ PathOK(e.levels, q)
       /\ \A d \in quota[q].dims :
             /\ LevelsOK(e.levels, 1, d, cluster[d])
             /\ \A i \in 1..Len(e.levels) : e.limits[e.levels[i].name][d] = RtOf(e.levels[i], d, e.levels[i].name)

TAdmit ==
    /\ IsEvent("admit")
    /\ Ev.pod \in DOMAIN pod /\ ~pod[Ev.pod].assigned
    /\ LET p   == Ev.pod
           q   == pod[p].q
           req == pod[p].req
           DD    == quota[q].dims                      \* "in every dimension the quota declares"
           OwnOK == \A d \in DD : Scale(d) * (Used(q, d) + req[d]) <= Limit(Ev, q, d)
           NPOK  == pod[p].np => \A d \in DD : NPUsed(q, d) + req[d] <= quota[q].min[d]
           ParOK == cfg.checkParent => \A a \in Anc(q) : \A d \in DD : Scale(d) * (Used(a, d) + req[d]) <= Limit(Ev, a, d)
       IN  /\ LimitsAreRuntimes(Ev, q)
           /\ \A d \in DD : Ev.usedLimit[d] = Limit(Ev, q, d)            \* the plugin compared against the right limit
           /\ Ev.code \in {"Success", "Unschedulable"}
           /\ Ev.code = "Success" <=> (OwnOK /\ NPOK /\ ParOK)            \* no over-admission, no unjustified rejection
           /\ Becomes([Cur EXCEPT !.pod[p].assigned = (Ev.code = "Success")])   \* Success is followed by Reserve
    /\ UNCHANGED avars /\ UNCHANGED scaleOn

\* quota upserts remember lowered max
TQuotaA ==
    /\ IsEvent("quota") /\ OpOK(Cur, Ev) /\ Becomes(OpF(Cur, Ev))
    /\ lowered' = IF Ev.name \in DOMAIN quota /\ \E d \in quota[Ev.name].dims : Ev.max[d] < quota[Ev.name].max[d]
                  THEN lowered \cup {Ev.name} ELSE lowered
    /\ UNCHANGED cfg /\ UNCHANGED scaleOn
TOtherA ==
    /\ ~done /\ l <= TLen /\ Trace[l].op \in (SingleOps \ {"quota"})
    /\ l' = l + 1 /\ UNCHANGED <<seg, done>>
    /\ OpOK(Cur, Ev) /\ Becomes(OpF(Cur, Ev)) /\ UNCHANGED avars /\ UNCHANGED scaleOn
TNodeA == IsEvent("node") /\ NodeDelta(Vec(Ev.delta)) /\ UNCHANGED avars /\ UNCHANGED scaleOn

\* a group whose max is not lowered never shows used above max (groups checked at every admission they account for)
NeverAboveMax ==
    \A q \in DOMAIN quota : (q \notin lowered /\ (cfg.checkParent \/ Kids(q) = {})) =>
        \A d \in quota[q].dims : Used(q, d) <= quota[q].max[d]

AdmInit == \E i \in Starts : /\ TraceStart(i) /\ Init
                             /\ cfg = [runtime |-> Trace[i].runtime, checkParent |-> Trace[i].checkParent]
                             /\ lowered = {} /\ scaleOn = Get(Trace[i], "scale", FALSE)
AdmNext == TAdmit \/ TQuotaA \/ TOtherA \/ TNodeA \/ (SegDone /\ UNCHANGED vars /\ UNCHANGED avars /\ UNCHANGED scaleOn)
AdmSpec == AdmInit /\ [][AdmNext]_<<vars, tvars, avars, scaleOn>>
=============================================================================
