SPECIFICATION Spec
CONSTANTS
  Root = "koordinator-root-quota"
  QNames = {"a", "b"}
  PNames = {"p1", "p2"}
  Vals = {1, 3}
  MinVals = {0, 2}
  MaxVals = {2, 9}
  LimitedDelete = TRUE
INVARIANT Exact
INVARIANT NonNegative
