--------------------------- MODULE QuotaAdmission ---------------------------
(***************************************************************************)
(* C03 - closed loop  admit -> reserve -> accounting -> next admit  on a   *)
(* fixed small quota tree (design level, one dimension).                   *)
(*                                                                         *)
(* Admission rule (the property's predicate): a pod of group q is admitted *)
(* iff  used(q) + req <= limit(q)  [and the same for every ancestor when   *)
(* CheckParent], where limit is the group's runtime quota or its max.  The *)
(* runtime quota is only known to be <= max (C02: never more than the      *)
(* larger of max-limited request and min, both <= max), so the model lets  *)
(* it be ANY value 0..max at each attempt.  TLC checks                     *)
(*   NeverAboveMax : a group whose max was not lowered never shows used    *)
(*                   above max (for groups checked at admission)           *)
(* over all interleavings of pod creation, admission, roll-back, deletion, *)
(* and max changes.                                                        *)
(***************************************************************************)
EXTENDS Integers, FiniteSets, FiniteSetsExt, TLC
CONSTANTS Root, Leaves, Parent, Pods, Reqs, Maxs, CheckParent
\* tree: Parent -> Root ; Leaves -> Parent
Groups == Leaves \cup {Parent}
Par(q) == IF q = Parent THEN Root ELSE Parent
VARIABLES max,      \* Groups -> Maxs
          lowered,  \* set of groups whose max was lowered at some point
          pod       \* live pod -> [q, req, assigned]
vars == <<max, lowered, pod>>
SumOver(S, f(_)) == FoldSet(LAMBDA x, acc : acc + f(x), 0, S)
Used(q) == SumOver({p \in DOMAIN pod : pod[p].assigned /\ (pod[p].q = q \/ (q = Parent /\ pod[p].q \in Leaves))},
                   LAMBDA p : pod[p].req)
Path(q) == IF CheckParent /\ q # Parent THEN {q, Parent} ELSE {q}

Init == max \in [Groups -> Maxs] /\ lowered = {} /\ pod = <<>>
PodAdd(p, q, r) == /\ p \notin DOMAIN pod
                   /\ pod' = [x \in (DOMAIN pod) \cup {p} |-> IF x = p THEN [q |-> q, req |-> r, assigned |-> FALSE] ELSE pod[x]]
                   /\ UNCHANGED <<max, lowered>>
\* one scheduling attempt: lim(a) = the limit in force for group a at this attempt (any value up to max)
Admit(p, lim) == /\ p \in DOMAIN pod /\ ~pod[p].assigned
                 /\ \A a \in Path(pod[p].q) : lim[a] <= max[a]
                 /\ LET ok == \A a \in Path(pod[p].q) : Used(a) + pod[p].req <= lim[a]
                    IN  pod' = [pod EXCEPT ![p].assigned = ok]
                 /\ UNCHANGED <<max, lowered>>
Unreserve(p) == /\ p \in DOMAIN pod /\ pod[p].assigned
                /\ pod' = [pod EXCEPT ![p].assigned = FALSE] /\ UNCHANGED <<max, lowered>>
PodDelete(p) == /\ p \in DOMAIN pod
                /\ pod' = [x \in (DOMAIN pod) \ {p} |-> pod[x]] /\ UNCHANGED <<max, lowered>>
SetMax(q, m) == /\ m # max[q]
                /\ max' = [max EXCEPT ![q] = m]
                /\ lowered' = IF m < max[q] THEN lowered \cup {q} ELSE lowered
                /\ UNCHANGED pod
Next == \/ \E p \in Pods, q \in Groups, r \in Reqs : PodAdd(p, q, r)
        \/ \E p \in Pods : \E lim \in [Groups -> 0..FoldSet(LAMBDA a, b : IF a > b THEN a ELSE b, 0, Maxs)] : Admit(p, lim)
        \/ \E p \in Pods : Unreserve(p) \/ PodDelete(p)
        \/ \E q \in Groups, m \in Maxs : SetMax(q, m)
Spec == Init /\ [][Next]_vars
\* groups that are checked at admission of every pod they account for
Checked(q) == q \in Leaves \/ CheckParent
NeverAboveMax == \A q \in Groups : (q \notin lowered /\ Checked(q)) => Used(q) <= max[q]
=============================================================================
