----------------------------- MODULE MC_Runtime -----------------------------
(* Decide C02 on the model: every input of the bounded domain is an initial  *)
(* state; the invariant says the transcription satisfies the relational      *)
(* predicates (and is order independent by construction: it is a function    *)
(* of the name-ordered sibling list).                                        *)
EXTENDS RuntimeShare
CONSTANTS MaxN, Reqs, Mins, Guars, Ws, Totals
VARIABLES nodes, total
NodeRec == [req : Reqs, min : Mins, guar : Guars, w : Ws, lent : BOOLEAN]
Init == /\ nodes \in UNION {[1..n -> NodeRec] : n \in 1..MaxN}
        /\ total \in Totals
Next == UNCHANGED <<nodes, total>>
Spec == Init /\ [][Next]_<<nodes, total>>
ModelOK == ShareOK(nodes, total, Redistribute(nodes, total))
=============================================================================
