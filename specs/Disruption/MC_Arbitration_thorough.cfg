SPECIFICATION Spec
CONSTANTS
  NPods = 4
  LimChoices = {0, 1, 2}
  WlPairs <- WlAll
  ReadyPods = {"p1", "p2", "p3"}
  SkipChoices = {TRUE, FALSE}
  GateChoices <- GatesNone
INVARIANT TypeOK
INVARIANT DupInv
PROPERTY RoundProp
CHECK_DEADLOCK FALSE
