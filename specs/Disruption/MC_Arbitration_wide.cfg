SPECIFICATION Spec
CONSTANTS
  NPods = 5
  LimChoices = {0, 1}
  WlPairs <- WlWide
  ReadyPods = {"p1"}
  SkipChoices = {FALSE}
  GateChoices <- GatesSome
INVARIANT TypeOK
INVARIANT DupInv
PROPERTY RoundProp
CHECK_DEADLOCK FALSE
