------------------------- MODULE EvictionCapsTrace -------------------------
(***************************************************************************)
(* Trace validation for the eviction caps of C16.  The harness runs real   *)
(* Evict calls on goroutines and controls the schedule with a blocking     *)
(* fake API (clientset reactor / evict plugin): an event is recorded when  *)
(* a caller is refused, parks inside the API call, or returns.             *)
(*   start  {caller, node, ns, outcome: "parked" | "refused" | "dry"}      *)
(*   finish {caller, ok, ret}        the API answered ok / error           *)
(* plus, whenever no call is in flight, the counters the evictor reports.  *)
(* Only the property-level predicates are asserted: Caps on the successful *)
(* evictions, Counters at quiescence, refused / dry-run => no API call.    *)
(***************************************************************************)
EXTENDS EvictionCaps, TraceCommon
VARIABLE dry
CapOf(x) == x     \* 99 encodes "not configured" (NoCap) in the events as well

CountersOK(e) ==
    (Has(e, "counters") /\ ~dry) =>
        /\ \A n \in Nodes : Get(e.counters.node, n, 0) = okN'[n]
        /\ \A s \in Namespaces : Get(e.counters.ns, s, 0) = okNs'[s]
        /\ e.counters.total = okT'
SameCaps == UNCHANGED <<capNode, capNs, capTotal, cntN, cntNs, cntT, dry>>

TStart == /\ IsEvent("start")
          /\ pc[Ev.caller] # "calling"
          /\ target' = [target EXCEPT ![Ev.caller] = [node |-> Ev.node, ns |-> Ev.ns]]
          /\ Ev.outcome \in {"parked", "refused", "dry"}
          /\ (dry => Ev.outcome # "parked")                 \* dry run issues no API call
          /\ (Ev.outcome = "dry" => dry)
          /\ pc' = [pc EXCEPT ![Ev.caller] = IF Ev.outcome = "parked" THEN "calling" ELSE "done"]
          /\ UNCHANGED <<okN, okNs, okT>> /\ SameCaps
          /\ CountersOK(Ev)                                 \* a refused eviction has no side effect
TFinish == /\ IsEvent("finish")
           /\ pc[Ev.caller] = "calling"
           /\ pc' = [pc EXCEPT ![Ev.caller] = "done"]
           /\ Ev.ret = Ev.ok                                 \* the caller reports what the API said
           /\ IF Ev.ok THEN /\ okN'  = [okN  EXCEPT ![target[Ev.caller].node] = @ + 1]
                            /\ okNs' = [okNs EXCEPT ![target[Ev.caller].ns] = @ + 1]
                            /\ okT'  = okT + 1
                       ELSE UNCHANGED <<okN, okNs, okT>>
           /\ UNCHANGED target /\ SameCaps
           /\ CountersOK(Ev)

\* a burst: several Evict calls released together by a barrier, the API answering at once; the interleaving is whatever
\* the Go scheduler made of it and only the outcome at quiescence is recorded (calls[i] = [node, ns, ok]).  Every
\* interleaving must respect the caps, so any outcome that breaks Caps / Counters is a violation (a stress driver can
\* miss a race, it cannot raise a false alarm)
OkAt(calls, f, x) == Cardinality({i \in DOMAIN calls : calls[i].ok /\ calls[i][f] = x})
TBurst == /\ IsEvent("burst")
          /\ \A c \in Callers : pc[c] # "calling"
          /\ IF dry THEN UNCHANGED <<okN, okNs, okT>>
                    ELSE /\ okN'  = [n \in Nodes |-> okN[n] + OkAt(Ev.calls, "node", n)]
                         /\ okNs' = [x \in Namespaces |-> okNs[x] + OkAt(Ev.calls, "ns", x)]
                         /\ okT'  = okT + Cardinality({i \in DOMAIN Ev.calls : Ev.calls[i].ok})
          /\ UNCHANGED <<target, pc>> /\ SameCaps
          /\ CountersOK(Ev)

TraceInit == \E i \in Starts :
                /\ TraceStart(i)
                /\ capNode = Trace[i].capNode /\ capNs = Trace[i].capNs /\ capTotal = Trace[i].capTotal
                /\ dry = Trace[i].dryRun
                /\ target = [c \in Callers |-> [node |-> "n1", ns |-> "s1"]]
                /\ pc = [c \in Callers |-> "idle"]
                /\ okN = [n \in Nodes |-> 0] /\ okNs = [s \in Namespaces |-> 0] /\ okT = 0
                /\ cntN = [n \in Nodes |-> 0] /\ cntNs = [s \in Namespaces |-> 0] /\ cntT = 0
TraceNext == TStart \/ TFinish \/ TBurst \/ (SegDone /\ UNCHANGED vars /\ UNCHANGED dry)
TraceSpec == TraceInit /\ [][TraceNext]_<<vars, dry, tvars>>
=============================================================================
