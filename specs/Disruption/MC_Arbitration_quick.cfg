SPECIFICATION Spec
CONSTANTS
  NPods = 4
  LimChoices = {0, 1, 2}
  WlPairs <- WlQuick
  ReadyPods = {"p1"}
  SkipChoices = {FALSE}
  GateChoices <- GatesNone
INVARIANT TypeOK
INVARIANT DupInv
PROPERTY RoundProp
CHECK_DEADLOCK FALSE
