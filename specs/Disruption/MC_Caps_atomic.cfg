SPECIFICATION Spec
CONSTANTS
  Callers = {"a", "b", "c"}
  Nodes = {"n1", "n2"}
  Namespaces = {"s1", "s2"}
  NoCap = 99
  Atomic = TRUE
  CapChoices = {99, 0, 1, 2}
  MaxOk = 3
CONSTRAINT Bound
INVARIANT Caps
INVARIANT Counters
