SPECIFICATION GenSpec
CONSTANTS
  GCallers = {"a", "b", "c"}
  GTargets <- T2
  K = 6
CONSTRAINT GenBound
INVARIANT GenPrint
CHECK_DEADLOCK FALSE
