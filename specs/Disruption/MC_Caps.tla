------------------------------ MODULE MC_Caps ------------------------------
EXTENDS EvictionCaps
CONSTANTS CapChoices, MaxOk
Init == \E cn \in CapChoices, cs \in CapChoices, ct \in CapChoices : InitWith(cn, cs, ct)
Spec == Init /\ [][Next]_vars
Bound == okT <= MaxOk /\ cntT <= MaxOk + 2
=============================================================================
