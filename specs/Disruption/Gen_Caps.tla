------------------------------ MODULE Gen_Caps ------------------------------
(* Schedules for the caps harness: every interleaving of start / finish      *)
(* steps of a few callers (the environment decides the order and whether the *)
(* API call succeeds; what each call DOES is up to the real code).           *)
EXTENDS Integers, Sequences, FiniteSets, TLC, Json
CONSTANTS GCallers, GTargets, K
VARIABLES st, hist       \* st: caller -> "idle" | "started" | "finished"
GenInit == st = [c \in GCallers |-> "idle"] /\ hist = <<>>
GStart(c, t) == /\ st[c] = "idle" /\ st' = [st EXCEPT ![c] = "started"]
                /\ hist' = Append(hist, [op |-> "start", caller |-> c, node |-> t.node, ns |-> t.ns])
GFinish(c, ok) == /\ st[c] = "started" /\ st' = [st EXCEPT ![c] = "finished"]
                  /\ hist' = Append(hist, [op |-> "finish", caller |-> c, ok |-> ok])
GAgain(c) == st[c] = "finished" /\ st' = [st EXCEPT ![c] = "idle"] /\ UNCHANGED hist
GenNext == \E c \in GCallers : (\E t \in GTargets : GStart(c, t)) \/ (\E ok \in BOOLEAN : GFinish(c, ok)) \/ GAgain(c)
GenSpec == GenInit /\ [][GenNext]_<<st, hist>>
GenBound == Len(hist) <= K
\* complete schedules only (nobody left in flight)
GenPrint == (Len(hist) = K /\ \A c \in GCallers : st[c] # "started") => PrintT(ToJson(hist))
T2 == {[node |-> "n1", ns |-> "s1"], [node |-> "n1", ns |-> "s2"], [node |-> "n2", ns |-> "s1"]}
T1 == {[node |-> "n1", ns |-> "s1"], [node |-> "n2", ns |-> "s1"]}
=============================================================================
