---------------------------- MODULE EvictionCaps ----------------------------
(***************************************************************************)
(* C16 (second half) - eviction caps of one descheduling cycle under       *)
(* concurrent evictors (PodEvictor.Evict, evictorProxy.Evict +             *)
(* EvictionLimiter).                                                       *)
(*                                                                         *)
(* Callers are processes.  A caller evicting pod  target[c]  goes through  *)
(*   Start   it decides to go ahead (or is refused) and, if it goes ahead  *)
(*           and this is not a dry run, its request leaves for the API     *)
(*   Finish  the API answers (ok / error) and the caller returns           *)
(* Property level (what the statement says, whatever the algorithm):       *)
(*   Caps        successful evictions per node / namespace / in total      *)
(*               never exceed the configured caps                          *)
(*   Counters    at quiescence the reported counters equal the successful  *)
(*               evictions                                                 *)
(*   a refused eviction has no side effect; dry run issues no API call     *)
(* Design level: the check / call / count steps of the code.  Atomic=FALSE *)
(* models the code as found (check, API call and increment are separate    *)
(* critical sections); Atomic=TRUE a design that reserves the slot under   *)
(* the lock and releases it on failure.  TLC checks Caps for both          *)
(* (MC_Caps_atomic.cfg passes; MC_Caps_asfound.cfg exhibits the race).     *)
(***************************************************************************)
EXTENDS Integers, FiniteSets, Sequences, FiniteSetsExt, TLC

CONSTANTS Callers, Nodes, Namespaces,
          NoCap,        \* value meaning "cap not configured"
          Atomic

VARIABLES capNode, capNs, capTotal,   \* configured caps (NoCap or a number)
          target,                     \* caller -> [node, ns]
          pc,                         \* caller -> "idle" | "calling" | "done"
          okN, okNs, okT,             \* successful evictions (ground truth at the API)
          cntN, cntNs, cntT           \* the counters the code keeps (design level)
vars == <<capNode, capNs, capTotal, target, pc, okN, okNs, okT, cntN, cntNs, cntT>>

Within(x, cap) == cap = NoCap \/ x <= cap
Caps == /\ \A n \in Nodes : Within(okN[n], capNode)
        /\ \A s \in Namespaces : Within(okNs[s], capNs)
        /\ Within(okT, capTotal)
Quiescent == \A c \in Callers : pc[c] # "calling"
Counters == Quiescent => /\ \A n \in Nodes : cntN[n] = okN[n]
                         /\ \A s \in Namespaces : cntNs[s] = okNs[s]
                         /\ cntT = okT

(****************************** design level *******************************)
Room(c) == /\ capNode  = NoCap \/ cntN[target[c].node] + 1 <= capNode
           /\ capNs    = NoCap \/ cntNs[target[c].ns] + 1 <= capNs
           /\ capTotal = NoCap \/ cntT + 1 <= capTotal
Bump(c, d) == /\ cntN'  = [cntN  EXCEPT ![target[c].node] = @ + d]
              /\ cntNs' = [cntNs EXCEPT ![target[c].ns] = @ + d]
              /\ cntT'  = cntT + d
\* check (and, in the atomic design, reserve) then let the request leave
Start(c) == /\ pc[c] = "idle"
            /\ IF Room(c) THEN /\ pc' = [pc EXCEPT ![c] = "calling"]
                               /\ IF Atomic THEN Bump(c, 1) ELSE UNCHANGED <<cntN, cntNs, cntT>>
                          ELSE /\ pc' = [pc EXCEPT ![c] = "done"]          \* refused: no side effect
                               /\ UNCHANGED <<cntN, cntNs, cntT>>
            /\ UNCHANGED <<capNode, capNs, capTotal, target, okN, okNs, okT>>
Finish(c, ok) ==
            /\ pc[c] = "calling"
            /\ pc' = [pc EXCEPT ![c] = "done"]
            /\ IF ok THEN /\ okN'  = [okN  EXCEPT ![target[c].node] = @ + 1]
                          /\ okNs' = [okNs EXCEPT ![target[c].ns] = @ + 1]
                          /\ okT'  = okT + 1
                          /\ IF Atomic THEN UNCHANGED <<cntN, cntNs, cntT>> ELSE Bump(c, 1)
                     ELSE /\ UNCHANGED <<okN, okNs, okT>>
                          /\ IF Atomic THEN Bump(c, -1) ELSE UNCHANGED <<cntN, cntNs, cntT>>
            /\ UNCHANGED <<capNode, capNs, capTotal, target>>
\* a caller comes back with another pod (several plugins / workers, several pods each)
Again(c, t) == /\ pc[c] = "done" /\ pc' = [pc EXCEPT ![c] = "idle"] /\ target' = [target EXCEPT ![c] = t]
               /\ UNCHANGED <<capNode, capNs, capTotal, okN, okNs, okT, cntN, cntNs, cntT>>

Targets == [node : Nodes, ns : Namespaces]
InitWith(cn, cs, ct) ==
        /\ capNode = cn /\ capNs = cs /\ capTotal = ct
        /\ target \in [Callers -> Targets]
        /\ pc = [c \in Callers |-> "idle"]
        /\ okN = [n \in Nodes |-> 0] /\ okNs = [s \in Namespaces |-> 0] /\ okT = 0
        /\ cntN = [n \in Nodes |-> 0] /\ cntNs = [s \in Namespaces |-> 0] /\ cntT = 0
Next == \E c \in Callers : Start(c) \/ (\E ok \in BOOLEAN : Finish(c, ok)) \/ (\E t \in Targets : Again(c, t))
=============================================================================
