SPECIFICATION GenSpec
CONSTANTS
  GCallers = {"a", "b"}
  GTargets <- T1
  K = 6
CONSTRAINT GenBound
INVARIANT GenPrint
CHECK_DEADLOCK FALSE
