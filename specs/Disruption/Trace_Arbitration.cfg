SPECIFICATION TraceSpec
\* the property-level predicates are conjoined to the trace actions (TRound, TFilter): an event that breaks
\* them has no successor, so its segment never reaches SegDone (= rejected)
CONSTRAINT Report
CHECK_DEADLOCK FALSE
