SPECIFICATION TraceSpec
CONSTANTS
  Callers = {"a", "b", "c", "d", "e", "f", "g", "h"}
  Nodes = {"n1", "n2", "n3"}
  Namespaces = {"s1", "s2", "s3"}
  NoCap = 99
  Atomic = TRUE
\* property invariants are listed as CONSTRAINTs (before Report): a recorded state that violates one is not
\* explored further, so its segment never reaches SegDone (= rejected) while TLC goes on with the other segments
CONSTRAINT Caps
CONSTRAINT Report
CHECK_DEADLOCK FALSE
