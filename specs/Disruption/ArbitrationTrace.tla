-------------------------- MODULE ArbitrationTrace --------------------------
(***************************************************************************)
(* Trace validation for the arbitration half of C16.  Events recorded by   *)
(* the in-package harness from the real arbitratorImpl on a fake API       *)
(* server (zz_verif_c16arb_test.go); every event carries  obs , the        *)
(* projection read back after it:                                          *)
(*   obs.jobs[j] = [pod, phase, passed, waiting]        obs.ready[pod]     *)
(* What decides a verdict on the code under test is only what the property *)
(* states:                                                                 *)
(*   round   RoundOK(state before the round, state observed after it)      *)
(*   filter  DupOK: Arbitrator.Filter said no for a pod with a live job    *)
(* Around them, so that these predicates are evaluated on states that mean *)
(* what the model takes them to mean:                                      *)
(*   - the environment events (jobs created / started / finished /         *)
(*     deleted by the harness through the API and the real event handler,  *)
(*     pods changing readiness) must leave exactly the state the           *)
(*     environment actions of Arbitration.tla describe;                    *)
(*   - a round only touches the jobs that were waiting (RoundFrame).       *)
(* The outcome of a round itself is NOT compared with the transcription    *)
(* (any outcome that satisfies RoundOK is accepted); VERIF_DIAG, by hand   *)
(* only, adds that comparison.                                             *)
(***************************************************************************)
EXTENDS Arbitration, TraceCommon

JobsOf(o) == [j \in DOMAIN o.jobs |-> [pod |-> o.jobs[j].pod, phase |-> o.jobs[j].phase, passed |-> o.jobs[j].passed]]
WaitOf(o) == {j \in DOMAIN o.jobs : o.jobs[j].waiting}
SameJobs(A, B) == DOMAIN A = DOMAIN B /\ \A j \in DOMAIN A : A[j] = B[j]

\* the observation is the state the environment action leads to
ObsIsNext == Expect(/\ SameJobs(JobsOf(Ev.obs), jobs')
                    /\ WaitOf(Ev.obs) = waiting'
                    /\ FEq(Ev.obs.ready, ready'),
                    [jobs |-> jobs', waiting |-> waiting', ready |-> ready'])

TCreate == IsEvent("jobCreate") /\ JobCreate(Ev.job, Ev.pod, Ev.phase) /\ ObsIsNext
TStart  == IsEvent("jobStart")  /\ JobStart(Ev.job) /\ ObsIsNext
TFinish == IsEvent("jobFinish") /\ JobFinish(Ev.job, Ev.phase) /\ ObsIsNext
TDelete == IsEvent("jobDelete") /\ JobDelete(Ev.job) /\ ObsIsNext
TReady  == IsEvent("podReady")  /\ PodSetReady(Ev.pod, Ev.val) /\ ObsIsNext

\* Arbitrator.Filter only answers; DupOK is all the property asks of the answer
TFilter == /\ IsEvent("filter")
           /\ Expect(DupOK(jobs, Ev.pod, Ev.result), [result |-> ~HasLive(jobs, Ev.pod) /\ Ev.result])
           /\ UNCHANGED vars
           /\ ObsIsNext

\* a round leaves alone everything but the jobs that were waiting; those keep their pod, stay passed once
\* passed, and change phase at most to Failed; nothing joins the waiting collection
RoundFrame(J0, W0, R0, J1, W1, R1) ==
    /\ DOMAIN J1 = DOMAIN J0
    /\ FEq(R1, R0)
    /\ W1 \subseteq W0
    /\ \A j \in DOMAIN J0 :
          IF j \notin W0 THEN J1[j] = J0[j]
          ELSE /\ J1[j].pod = J0[j].pod
               /\ (J0[j].passed => J1[j].passed)
               /\ (J1[j].phase = J0[j].phase \/ J1[j].phase = "Failed")

\* By hand only (VERIF_DIAG set; never part of a verdict): does the design-level transcription of the round
\* (Arbitration!RunRound, for SOME processing order) reproduce what the real code did?  Keeps the model that
\* MC_Arbitration explores honest.
Diag == "VERIF_DIAG" \in DOMAIN IOEnv
ModelAgrees(J1, W1) ==
    IF Cardinality(waiting) > 6 THEN TRUE
    ELSE {order \in (IF waiting = {} THEN {<<>>} ELSE SetToSeqs(waiting)) :
             LET S == RunRound([J |-> jobs, W |-> waiting], order)
             IN  S.W = W1 /\ SameJobs(S.J, J1)} # {}

TRound == /\ IsEvent("round")
          /\ LET J1 == JobsOf(Ev.obs)
                 W1 == WaitOf(Ev.obs)
                 R1 == Ev.obs.ready
             IN  Expect(/\ RoundFrame(jobs, waiting, ready, J1, W1, R1)
                        /\ RoundOK(jobs, waiting, ready, J1, W1, R1),
                        \* explain mode: which clauses this round breaks (all empty / TRUE when it is fine)
                        [roundTouchedOnlyWaitingJobs |-> RoundFrame(jobs, waiting, ready, J1, W1, R1),
                         limitsExceededByThisRound |-> BrokenLimits(jobs, ready, J1, R1),
                         jobsFailedOrDroppedAlthoughOnlyHeadroomWasMissing |-> BrokenRetry(jobs, waiting, J1, W1)])
          /\ (Diag => IF ModelAgrees(JobsOf(Ev.obs), WaitOf(Ev.obs)) THEN TRUE
                       ELSE PrintT(<<"DIAG round differs from the transcription", seg, l>>) /\ FALSE)
          /\ jobs' = JobsOf(Ev.obs) /\ waiting' = WaitOf(Ev.obs) /\ ready' = Ev.obs.ready
          /\ UNCHANGED <<pods, wls, lim>>

TraceInit == \E i \in Starts :
                /\ TraceStart(i)
                /\ pods = Trace[i].pods /\ wls = Trace[i].wls
                /\ lim = [Trace[i].lim EXCEPT !.gates = ToSet(Trace[i].lim.gates)]
                /\ ready = Trace[i].ready0
                /\ jobs = <<>> /\ waiting = {}
TraceNext == \/ TRound \/ TFilter \/ TCreate \/ TStart \/ TFinish \/ TDelete \/ TReady
             \/ (SegDone /\ UNCHANGED vars)
TraceSpec == TraceInit /\ [][TraceNext]_<<vars, tvars>>
=============================================================================
