-------------------------- MODULE ArbitrationTrace --------------------------
(***************************************************************************)
(* Trace validation for the arbitration half of C16.  Events recorded by   *)
(* the in-package harness from the real arbitratorImpl on a fake API       *)
(* server (zz_verif_c16arb_test.go); every event carries  obs , the        *)
(* projection read back after it:                                          *)
(*   obs.jobs[j] = [pod, phase, passed, inMap, waiting]   obs.ready[pod]   *)
(* The specification state simply FOLLOWS the observations; what is        *)
(* asserted is only what the property states:                              *)
(*   round   RoundOK(state before the round, state observed after it)      *)
(*   filter  DupOK: Arbitrator.Filter said no for a pod with a live job    *)
(* The other events (jobs created / started / finished / deleted, pods     *)
(* changing readiness) are the environment: nothing is demanded of them.   *)
(***************************************************************************)
EXTENDS Arbitration, TraceCommon

JobsOf(o) == [j \in DOMAIN o.jobs |-> [pod |-> o.jobs[j].pod, phase |-> o.jobs[j].phase, passed |-> o.jobs[j].passed]]
WaitOf(o) == {j \in DOMAIN o.jobs : o.jobs[j].waiting}
Follow(o) == /\ jobs' = JobsOf(o) /\ waiting' = WaitOf(o) /\ ready' = o.ready
             /\ UNCHANGED <<pods, wls, lim>>

\* By hand only (VERIF_DIAG set; never part of a verdict): does the design-level transcription of the round
\* (Arbitration!RunRound, for SOME processing order) reproduce what the real code did?  Keeps the model that
\* MC_Arbitration explores honest.
Diag == "VERIF_DIAG" \in DOMAIN IOEnv
ModelAgrees(J1, W1) ==
    IF Cardinality(waiting) > 6 THEN TRUE
    ELSE {order \in (IF waiting = {} THEN {<<>>} ELSE SetToSeqs(waiting)) :
             LET S == RunRound([J |-> jobs, W |-> waiting], order)
             IN  S.W = W1 /\ DOMAIN S.J = DOMAIN J1 /\ \A j \in DOMAIN J1 : S.J[j] = J1[j]} # {}

TRound == /\ IsEvent("round")
          /\ LET J1 == JobsOf(Ev.obs)
                 W1 == WaitOf(Ev.obs)
                 R1 == Ev.obs.ready
             IN  Expect(RoundOK(jobs, waiting, ready, J1, W1, R1),
                        [brokenLimits |-> BrokenLimits(jobs, ready, J1, R1),
                         failedOrDroppedAlthoughOnlyHeadroomWasMissing |-> BrokenRetry(jobs, waiting, J1, W1)])
          /\ (Diag => IF ModelAgrees(JobsOf(Ev.obs), WaitOf(Ev.obs)) THEN TRUE
                       ELSE PrintT(<<"DIAG round differs from the transcription", seg, l>>) /\ FALSE)
          /\ Follow(Ev.obs)
TFilter == /\ IsEvent("filter")
           /\ Expect(DupOK(jobs, Ev.pod, Ev.result), [result |-> ~HasLive(jobs, Ev.pod) /\ Ev.result])
           /\ Follow(Ev.obs)
TEnv == /\ \/ IsEvent("jobCreate") \/ IsEvent("jobStart") \/ IsEvent("jobFinish")
           \/ IsEvent("jobDelete") \/ IsEvent("podReady")
        /\ Follow(Ev.obs)

TraceInit == \E i \in Starts :
                /\ TraceStart(i)
                /\ pods = Trace[i].pods /\ wls = Trace[i].wls
                /\ lim = [Trace[i].lim EXCEPT !.gates = ToSet(Trace[i].lim.gates)]
                /\ ready = Trace[i].ready0
                /\ jobs = <<>> /\ waiting = {}
TraceNext == TRound \/ TFilter \/ TEnv \/ (SegDone /\ UNCHANGED vars)
TraceSpec == TraceInit /\ [][TraceNext]_<<vars, tvars>>
=============================================================================
