--------------------------- MODULE MC_Arbitration ---------------------------
(***************************************************************************)
(* Bounded exhaustive check: the transcription of the arbitration round    *)
(* (Arbitration!Round, every processing order) satisfies the property-     *)
(* level predicates RoundOK / DupOK in every reachable state, for every    *)
(* limit setting of the cfg.  Universe: 2 nodes, 2 namespaces, 3 workloads *)
(* (two of them share a namespace so that the node, namespace, workload    *)
(* and global scopes all differ), 4-5 pods, one job slot per pod (a pod    *)
(* never has two live jobs;                                                *)
(* finished / deleted jobs leave the table, so the slot is reused and the  *)
(* number of rounds is unbounded).  Limits already exceeded before a round *)
(* arise from jobs created in phase Running and from pods turning unready. *)
(***************************************************************************)
EXTENDS Arbitration, TLC
CONSTANTS NPods,          \* 4 or 5 pods of the topology below are used
          LimChoices,     \* values of perNode / perNamespace / global
          WlPairs,        \* pairs <<maxMigrating, maxUnavailable>> per workload
          ReadyPods,      \* pods whose readiness changes
          SkipChoices,    \* SkipCheckExpectedReplicas
          GateChoices     \* sets of skipped eviction gates
VARIABLE last             \* "round" iff the step that led here was a round
mcvars == <<vars, last>>

AllPods == <<"p1", "p2", "p3", "p4", "p5">>
Topo == [p \in {AllPods[i] : i \in 1..NPods} |->
           CASE p = "p1" -> [node |-> "n1", ns |-> "s1", wl |-> "w1", evictable |-> TRUE]
             [] p = "p2" -> [node |-> "n2", ns |-> "s1", wl |-> "w1", evictable |-> TRUE]
             [] p = "p3" -> [node |-> "n1", ns |-> "s1", wl |-> "w2", evictable |-> TRUE]
             [] p = "p4" -> [node |-> "n2", ns |-> "s2", wl |-> "w3", evictable |-> TRUE]
             [] p = "p5" -> [node |-> "n1", ns |-> "s2", wl |-> "w3", evictable |-> FALSE]]
\* w1 and w2 each miss one replica; the expected-replicas rule forbids migrating w2 / w3 pods when a
\* per-workload maximum of 2 is configured (replicas = maximum)
WlTab == [w \in {"w1", "w2", "w3"} |->
           CASE w = "w1" -> [ns |-> "s1", replicas |-> 3]
             [] w = "w2" -> [ns |-> "s1", replicas |-> 2]
             [] w = "w3" -> [ns |-> "s2", replicas |-> 2]]
JobOf(p) == "j" \o p          \* one job slot per pod

None == [kind |-> "none", v |-> 0]
Abs(n) == [kind |-> "int", v |-> n]
Pct(n) == [kind |-> "pct", v |-> n]
WlQuick    == {<<None, None>>, <<Abs(1), None>>, <<None, Abs(1)>>, <<Abs(1), Abs(2)>>, <<Abs(2), Abs(1)>>, <<Abs(2), Abs(2)>>}
WlAll      == {None, Abs(1), Abs(2)} \X {None, Abs(1), Abs(2)}
WlWide     == {<<None, None>>, <<Abs(1), Abs(3)>>, <<Pct(50), Abs(2)>>, <<Abs(2), Pct(50)>>, <<Abs(3), Abs(1)>>}
GatesNone  == {{}}
GatesSome  == {{}, {"MaxMigratingPerWorkload"}, {"MaxUnavailablePerWorkload"},
               {"MaxMigratingPerNode", "MaxMigratingGlobally", "ExpectedReplicas"}}

Init == /\ pods = Topo /\ wls = WlTab
        /\ \E n \in LimChoices, s \in LimChoices, g \in LimChoices, mu \in WlPairs,
              k \in SkipChoices, gs \in GateChoices :
              lim = [node |-> n, ns |-> s, global |-> g, wlMig |-> mu[1], wlUnav |-> mu[2], skipExpRep |-> k, gates |-> gs]
        /\ ready = [p \in DOMAIN Topo |-> TRUE]
        /\ jobs = <<>> /\ waiting = {}
        /\ last = "other"

\* finished jobs neither count nor block a new job: they leave the table (only the jobs failed by a
\* round are shown once in the state after that round, for RoundOK)
NoGarbage == \A j \in DOMAIN jobs : jobs[j].phase \notin Terminal
Purge == /\ ~NoGarbage
         /\ jobs' = [k \in {j \in DOMAIN jobs : jobs[j].phase \notin Terminal} |-> jobs[k]]
         /\ waiting' = {j \in waiting : jobs[j].phase \notin Terminal}
         /\ UNCHANGED <<pods, wls, lim, ready>>
Other(A) == NoGarbage /\ A /\ last' = "other"
ARound   == NoGarbage /\ Round /\ last' = "round"
ACreate  == Other(\E p \in Pods, ph \in {"Pending", "Running"} : JobCreate(JobOf(p), p, ph))
AStart   == Other(\E j \in DOMAIN jobs : JobStart(j))
ADelete  == Other(\E j \in DOMAIN jobs : JobDelete(j))      \* delete = complete / fail / abort, then purge
AReady   == Other(\E p \in ReadyPods \cap Pods, b \in BOOLEAN : PodSetReady(p, b))
APurge   == Purge /\ last' = "other"
Next == ARound \/ ACreate \/ AStart \/ ADelete \/ AReady \/ APurge
Spec == Init /\ [][Next]_mcvars

\* the property, on every round step
RoundProp == [][last' = "round" => RoundOK(jobs, waiting, ready, jobs', waiting', ready')]_mcvars
\* the gate in front of job creation refuses a pod that has a live job
DupInv == \A p \in Pods : DupOK(jobs, p, FilterModel(p))
TypeOK == /\ waiting \subseteq DOMAIN jobs
          /\ \A j \in DOMAIN jobs : jobs[j].pod \in Pods /\ jobs[j].passed \in BOOLEAN
          /\ \A p \in Pods : Card({j \in NonTerminal(jobs) : jobs[j].pod = p}) <= 1
=============================================================================
