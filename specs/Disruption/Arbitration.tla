----------------------------- MODULE Arbitration -----------------------------
(***************************************************************************)
(* C16 (first half) - arbitration of PodMigrationJobs                      *)
(* (pkg/descheduler/controllers/migration/arbitrator).                     *)
(*                                                                         *)
(* State                                                                   *)
(*   pods     pod -> [node, ns, wl, evictable]        (static)             *)
(*   wls      workload -> [ns, replicas]              (static)             *)
(*   lim      [node, ns, global : Int   (<= 0 : not configured),           *)
(*             wlMig, wlUnav : [kind : "none"|"int"|"pct", v : Nat],       *)
(*             skipExpRep : BOOLEAN, gates : set of skipped eviction gates]*)
(*   ready    pod -> BOOLEAN                                               *)
(*   jobs     job -> [pod, phase, passed]    the PodMigrationJobs that     *)
(*            exist in the API (phase as in status, "" read as Pending;    *)
(*            passed = annotation passed-arbitration = "true")             *)
(*   waiting  the jobs of the arbitrator's waiting collection (restricted  *)
(*            to jobs that still exist)                                    *)
(*                                                                         *)
(* PROPERTY LEVEL (what the statement of C16 says about a round, whatever  *)
(* the algorithm): RoundOK(before, after), DupOK.  These - and only these -*)
(* decide verdicts on recorded executions (ArbitrationTrace).              *)
(* DESIGN LEVEL: a transcription of how filter.go / arbitrator.go decide   *)
(* (Room, Eligible, Round, FilterModel).  TLC checks on a bounded universe *)
(* that the transcription satisfies the property-level predicates          *)
(* (MC_Arbitration); it is never compared with the code for a verdict.     *)
(***************************************************************************)
EXTENDS Integers, FiniteSets, Sequences, SequencesExt

VARIABLES pods, wls, lim, ready, jobs, waiting
vars == <<pods, wls, lim, ready, jobs, waiting>>

Pods      == DOMAIN pods
Workloads == DOMAIN wls
NodesOf   == {pods[p].node : p \in Pods}
NssOf     == {pods[p].ns : p \in Pods}
PodsOf(w) == {p \in Pods : pods[p].wl = w}
Card(S)   == Cardinality(S)
Max2(a, b) == IF a >= b THEN a ELSE b

Terminal == {"Succeeded", "Failed", "Aborted"}
\* "running or have passed arbitration"
Active(J)      == {j \in DOMAIN J : J[j].phase = "Running" \/ (J[j].phase = "Pending" /\ J[j].passed)}
\* a live migration job: pending (arbitrated or not) or running
NonTerminal(J) == {j \in DOMAIN J : J[j].phase \in {"Pending", "Running"}}

(*************************** configured limits *****************************)
\* 0 stands for "no maximum configured": nil or <= 0 for the three counters (0 is how the per-node default
\* of 2 is switched off), kind "none" for the two per-workload values, or the limit's eviction gate skipped.
Gate(g) == g \in lim.gates
LGlobal == IF Gate("MaxMigratingGlobally") \/ lim.global <= 0 THEN 0 ELSE lim.global
LNode   == IF Gate("MaxMigratingPerNode") \/ lim.node <= 0 THEN 0 ELSE lim.node
LNs     == IF Gate("MaxMigratingPerNamespace") \/ lim.ns <= 0 THEN 0 ELSE lim.ns
\* an absolute number or a percentage of the workload's expected replicas (the harness only uses
\* percentages that divide exactly, so no rounding rule is involved)
CfgVal(c, r) == CASE c.kind = "int" -> c.v
                  [] c.kind = "pct" -> (c.v * r) \div 100
                  [] OTHER -> 0
LMig(w)  == IF Gate("MaxMigratingPerWorkload") THEN 0 ELSE CfgVal(lim.wlMig, wls[w].replicas)
LUnav(w) == IF Gate("MaxUnavailablePerWorkload") THEN 0 ELSE CfgVal(lim.wlUnav, wls[w].replicas)

(***************************** property level ******************************)
OnNode(J, n) == {j \in Active(J) : pods[J[j].pod].node = n}
InNs(J, s)   == {j \in Active(J) : pods[J[j].pod].ns = s}
OfWl(J, w)   == {j \in Active(J) : pods[J[j].pod].wl = w}
\* pods of the workload that are unavailable or being migrated
Unavail(J, R, w) == {p \in PodsOf(w) : ~R[p]} \cup {J[j].pod : j \in OfWl(J, w)}

\* "never more than the configured maximum, except where the limit was already exceeded before the round"
Within(after, before, L) == L > 0 => after <= Max2(L, before)

\* the limit clauses that the pair (before, after) of a round breaks (names, for diagnostics)
BrokenLimits(J0, R0, J1, R1) ==
     (IF Within(Card(Active(J1)), Card(Active(J0)), LGlobal) THEN {} ELSE {"global"})
  \cup {"node:" \o n : n \in {m \in NodesOf : ~Within(Card(OnNode(J1, m)), Card(OnNode(J0, m)), LNode)}}
  \cup {"namespace:" \o s : s \in {t \in NssOf : ~Within(Card(InNs(J1, t)), Card(InNs(J0, t)), LNs)}}
  \cup {"workload-migrating:" \o w : w \in {x \in Workloads : ~Within(Card(OfWl(J1, x)), Card(OfWl(J0, x)), LMig(x))}}
  \cup {"workload-unavailable:" \o w : w \in {x \in Workloads :
                                ~Within(Card(Unavail(J1, R1, x)), Card(Unavail(J0, R0, x)), LUnav(x))}}

(* Reasons other than lack of headroom for which a migration may be forbidden (then the job may fail):    *)
(* the pod is not evictable, or the documented expected-replicas rule (a workload with a single replica,  *)
(* or whose replicas equal the effective maxMigrating / maxUnavailable, is never migrated unless the      *)
(* check is switched off).  EffMax is util.GetMaxUnavailable: configured value (at least 1), default by   *)
(* size when not configured, never more than the replicas.                                                *)
EffMax(c, r) == LET a == CfgVal(c, r)
                    b == IF c.kind # "none" /\ a = 0 THEN 1 ELSE a
                    d == IF b # 0 THEN b ELSE IF r > 10 THEN (10 * r) \div 100 ELSE IF r >= 4 THEN 2 ELSE 1
                IN  IF d > r THEN r ELSE d
ExpRepOK(w) == \/ lim.skipExpRep
               \/ Gate("ExpectedReplicas")
               \/ LET r == wls[w].replicas
                  IN ~(r = 1 \/ r = EffMax(lim.wlMig, r) \/ r = EffMax(lim.wlUnav, r))
Eligible(p) == pods[p].evictable /\ ExpRepOK(pods[p].wl)

\* "a job refused only for lack of headroom stays waiting rather than failing":
\* a live waiting job whose migration nothing else forbids is, after the round, either passed or still
\* waiting in the phase it had.  The jobs that break it:
BrokenRetry(J0, W0, J1, W1) ==
   {j \in W0 \cap NonTerminal(J0) :
        /\ Eligible(J0[j].pod)
        /\ ~(/\ j \in DOMAIN J1
             /\ J1[j].phase = J0[j].phase
             /\ (J1[j].passed \/ j \in W1))}

RoundOK(J0, W0, R0, J1, W1, R1) == /\ BrokenLimits(J0, R0, J1, R1) = {}
                                   /\ BrokenRetry(J0, W0, J1, W1) = {}

\* "a pod that already has a live migration job never gets a second one": Arbitrator.Filter(pod), the
\* gate in front of job creation, answers false for such a pod (nothing is demanded otherwise)
HasLive(J, p) == \E j \in NonTerminal(J) : J[j].pod = p
DupOK(J, p, answer) == HasLive(J, p) => ~answer

(****************************** design level *******************************)
(* How filter.go decides whether pod p has headroom.  arb = TRUE inside a round (pending jobs count only *)
(* once they passed arbitration - the arbitrated-jobs map), FALSE in Arbitrator.Filter (every pending    *)
(* job counts).  The pod's own job never counts; a limit is enforced with `count >= max => refuse`.      *)
Counted(J, arb) == IF arb THEN Active(J) ELSE NonTerminal(J)
Room(J, R, p, arb) ==
  LET C     == {j \in Counted(J, arb) : J[j].pod # p}
      w     == pods[p].wl
      r     == wls[w].replicas
      mig   == {J[j].pod : j \in {k \in C : pods[J[k].pod].wl = w}}
      unav  == {q \in PodsOf(w) : ~R[q]} \cup mig
  IN  /\ LGlobal > 0 => Card(C) < LGlobal
      /\ LNode > 0 => Card({q \in Pods \ {p} : pods[q].node = pods[p].node /\ \E j \in C : J[j].pod = q}) < LNode
      /\ LNs > 0 => Card({j \in C : pods[J[j].pod].ns = pods[p].ns}) < LNs
      /\ (~Gate("MaxMigratingPerWorkload") /\ mig # {}) => Card(mig) < EffMax(lim.wlMig, r)
      /\ ~Gate("MaxUnavailablePerWorkload") => Card(unav) < EffMax(lim.wlUnav, r)

\* one job of the round (arbitrator.go: filtering, updateFailedJob, updatePassedJob).  A waiting job that
\* was modified after it was queued (here: it reached a terminal phase) cannot be written any more - the
\* update conflicts - so it is only dropped from the collection when it would have been failed.
Decide(S, j) ==
  LET J == S.J
      p == J[j].pod
  IN  IF ~Eligible(p)
        THEN [J |-> IF J[j].phase \in Terminal THEN J ELSE [J EXCEPT ![j].phase = "Failed"], W |-> S.W \ {j}]
      ELSE IF Room(J, ready, p, TRUE) /\ J[j].phase \notin Terminal
        THEN [J |-> [J EXCEPT ![j].passed = TRUE], W |-> S.W \ {j}]   \* visible to the jobs decided after it
      ELSE S
RECURSIVE RunRound(_, _)
RunRound(S, order) == IF order = <<>> THEN S ELSE RunRound(Decide(S, Head(order)), Tail(order))

\* sort.go fixes one order; the property must not depend on it, so the model takes every order
Round == /\ waiting # {}
         /\ \E order \in SetToSeqs(waiting) :
               LET S == RunRound([J |-> jobs, W |-> waiting], order)
               IN  jobs' = S.J /\ waiting' = S.W
         /\ UNCHANGED <<pods, wls, lim, ready>>

\* Arbitrator.Filter
FilterModel(p) == ~HasLive(jobs, p) /\ Eligible(p) /\ Room(jobs, ready, p, FALSE)

\* environment: the informer hands every created job to the arbitrator (handler.Create)
JobCreate(j, p, ph) == /\ j \notin DOMAIN jobs /\ ~HasLive(jobs, p)
                       /\ jobs' = [k \in DOMAIN jobs \cup {j} |-> IF k = j THEN [pod |-> p, phase |-> ph, passed |-> FALSE] ELSE jobs[k]]
                       /\ waiting' = waiting \cup {j}
                       /\ UNCHANGED <<pods, wls, lim, ready>>
JobStart(j) == /\ j \in DOMAIN jobs /\ jobs[j].phase = "Pending" /\ jobs[j].passed
               /\ jobs' = [jobs EXCEPT ![j].phase = "Running"]
               /\ UNCHANGED <<pods, wls, lim, ready, waiting>>
JobFinish(j, ph) == /\ j \in NonTerminal(jobs) /\ ph \in Terminal
                    /\ jobs' = [jobs EXCEPT ![j].phase = ph]
                    /\ UNCHANGED <<pods, wls, lim, ready, waiting>>
JobDelete(j) == /\ j \in DOMAIN jobs
                /\ jobs' = [k \in DOMAIN jobs \ {j} |-> jobs[k]]
                /\ waiting' = waiting \ {j}
                /\ UNCHANGED <<pods, wls, lim, ready>>
PodSetReady(p, b) == /\ ready[p] # b
                     /\ ready' = [ready EXCEPT ![p] = b]
                     /\ UNCHANGED <<pods, wls, lim, jobs, waiting>>
=============================================================================
