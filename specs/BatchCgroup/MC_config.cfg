SPECIFICATION Spec
CONSTANTS
  MaxLen = 4
INVARIANT ConfigOK
CHECK_DEADLOCK FALSE
