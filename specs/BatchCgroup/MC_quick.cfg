SPECIFICATION Spec
CONSTANTS
  MaxN = 2
  CpuVals <- CpuFull
  MemVals <- MemFull
INVARIANT ModelOK
CHECK_DEADLOCK FALSE
