--------------------------- MODULE MC_BatchCgroup ---------------------------
(* Decide C14 on the model: every input of the bounded domain is a reachable  *)
(* state (containers are appended one by one so that TLC's workers share the  *)
(* enumeration); the invariants say that the values the statement prescribes         *)
(* (WantPod / WantContainer) satisfy the relation "pod no tighter than any    *)
(* container" and "pod = sum of containers up to rounding and clamps", and    *)
(* the ASSUMEs pin the conversions to the well-known reference points.        *)
EXTENDS BatchCgroup, TLC
CONSTANTS MaxN, CpuVals, MemVals
VARIABLES cs, cfg

\* value menus (a cfg file cannot hold negative numbers): Absent, zero, tiny, just below / at one core, 2.5 cores, huge
CpuFull  == {Absent, 0, 1, 999, 1000, 2500, 300000}
CpuSmall == {Absent, 0, 1, 1000, 2500, 300000}
MemFull  == {Absent, 0, 1000, 268435456}
MemSmall == {Absent, 0, 1000}

Ratios == {[num |-> 0, den |-> 1],      \* none
           [num |-> 1, den |-> 1],      \* 1.0
           [num |-> 3, den |-> 2],      \* 1.5
           [num |-> 2, den |-> 1]}      \* 2.0
ContRec == [req : CpuVals, lim : CpuVals, mem : MemVals]
\* with the CFS quota disabled the ratio is irrelevant
Cfgs == {[cfs |-> FALSE, ratio |-> [num |-> 0, den |-> 1]]} \cup [cfs : {TRUE}, ratio : Ratios]
Init == cs = <<>> /\ cfg \in Cfgs
Next == /\ Len(cs) < MaxN
        /\ \E c \in ContRec : cs' = Append(cs, c)
        /\ UNCHANGED cfg
Spec == Init /\ [][Next]_<<cs, cfg>>

P    == WantPod(cs, cfg)
C(i) == WantContainer(cs[i], cfg)
N    == Len(cs)
Sum(f(_)) == LET S[i \in 0..N] == IF i = 0 THEN 0 ELSE S[i - 1] + f(i) IN S[N]

\* (R) the pod is never tighter than one of its containers
PodNoTighter == \A i \in Idx(cs) : NoTighter(P, C(i))

\* the pod is unlimited exactly when one container is
UnlimitedPropagates ==
    /\ P.quota = Unlimited <=> \E i \in Idx(cs) : C(i).quota = Unlimited
    /\ P.mem   = Unlimited <=> \E i \in Idx(cs) : C(i).mem = Unlimited

\* ... and equals their sum up to the conversion's rounding and minimum clamps
SumUpToRounding ==
    LET sumS == Sum(LAMBDA i : C(i).shares)
        sumQ == Sum(LAMBDA i : C(i).quota)
        sumM == Sum(LAMBDA i : C(i).mem)
    IN  /\ P.shares <= sumS + (N - 1)                                   \* one unit of floor rounding per extra container
        /\ P.shares = SharesMax \/ P.shares >= sumS - SharesMin * N     \* minimum clamps only raise the containers
        /\ ((\A i \in Idx(cs) : cs[i].req >= 2) /\ P.shares < SharesMax) => sumS <= P.shares   \* no clamp active
        /\ P.quota # Unlimited =>
              /\ P.quota <= sumQ
              /\ P.quota >= sumQ - N * (QuotaMin + 1)
              /\ (\A i \in Idx(cs) : cs[i].lim >= 10) => P.quota >= sumQ - (N - 1)              \* ceil rounding only
              /\ ((\A i \in Idx(cs) : cs[i].lim >= 10) /\ ~RatioAboveOne(cfg.ratio)) => P.quota = sumQ
        /\ P.mem # Unlimited => P.mem = sumM

\* the values are legal cgroup values
Legal == /\ P.shares \in SharesMin..SharesMax
         /\ P.quota = Unlimited \/ P.quota >= 1
         /\ P.mem = Unlimited \/ P.mem >= 1
         /\ ~cfg.cfs => P.quota = Unlimited /\ \A i \in Idx(cs) : C(i).quota = Unlimited
         /\ \A i \in Idx(cs) : /\ C(i).shares \in SharesMin..SharesMax
                               /\ C(i).quota = Unlimited \/ C(i).quota >= 1
                               /\ C(i).mem = Unlimited \/ C(i).mem >= 1

\* a well-formed observation that carries exactly the prescribed values is accepted, one that is off by one is not
Obs(w) == [shares |-> [set |-> TRUE, v |-> w.shares], quota |-> [set |-> TRUE, v |-> w.quota], mem |-> [set |-> TRUE, v |-> w.mem]]
Unset  == [shares |-> [set |-> FALSE, v |-> 0], quota |-> [set |-> FALSE, v |-> 0], mem |-> [set |-> FALSE, v |-> 0]]
PredicateSane ==
    /\ HookOK(cs, "label", cfg, Obs(P), [i \in Idx(cs) |-> Obs(C(i))])
    /\ HookOK(cs, "none", cfg, Unset, [i \in Idx(cs) |-> Unset])
    /\ ~HookOK(cs, "none", cfg, Obs(P), [i \in Idx(cs) |-> Unset])
    /\ UsesBatch(cs) => ~HookOK(cs, "label", cfg, Obs([P EXCEPT !.shares = @ + 1]), [i \in Idx(cs) |-> Obs(C(i))])
    /\ UsesBatch(cs) => ~HookOK(cs, "label", cfg, Unset, [i \in Idx(cs) |-> Unset])

ModelOK == cs # <<>> => PodNoTighter /\ UnlimitedPropagates /\ SumUpToRounding /\ Legal /\ PredicateSane

(* conversion identities (constant level, evaluated once) *)
ASSUME /\ Shares(-1) = 2 /\ Shares(0) = 2 /\ Shares(1) = 2 /\ Shares(2) = 2 /\ Shares(3) = 3
       /\ Shares(999) = 1022 /\ Shares(1000) = 1024 /\ Shares(2500) = 2560
       /\ Shares(256000) = 262144 /\ Shares(255999) = 262142 /\ Shares(300000) = 262144
ASSUME /\ Quota(-1) = Unlimited /\ Quota(0) = Unlimited /\ Quota(1) = 1000 /\ Quota(10) = 1000 /\ Quota(11) = 1100
       /\ Quota(999) = 99900 /\ Quota(1000) = 100000 /\ Quota(2500) = 250000 /\ Quota(300000) = 30000000
ASSUME \A m \in 0..3000 : Shares(m) <= Shares(m + 1) /\ (Quota(m) = Unlimited \/ Quota(m) <= Quota(m + 1))
ASSUME \A r \in Ratios : /\ ScaleQuota(Unlimited, r) = Unlimited
                         /\ \A q \in 1000..1300 : /\ ScaleQuota(q, r) >= 1 /\ ScaleQuota(q, r) <= q
                                                  /\ ScaleQuota(q, r) <= ScaleQuota(q + 1, r)
                                                  /\ RatioAboveOne(r) => /\ ScaleQuota(q, r) * r.num >= q * r.den
                                                                         /\ (ScaleQuota(q, r) - 1) * r.num < q * r.den
                                                  /\ ~RatioAboveOne(r) => ScaleQuota(q, r) = q
ASSUME /\ ScaleQuota(100000, [num |-> 3, den |-> 2]) = 66667 /\ ScaleQuota(100000, [num |-> 2, den |-> 1]) = 50000
       /\ ScaleQuota(100000, [num |-> 1, den |-> 2]) = 100000      \* a ratio below 1 does not scale
ASSUME MemLimit(0) = Unlimited /\ MemLimit(-1) = Unlimited /\ MemLimit(1) = 1 /\ MemLimit(1000) = 1000
=============================================================================
