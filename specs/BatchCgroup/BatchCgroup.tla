---------------------------- MODULE BatchCgroup ----------------------------
(***************************************************************************)
(* C14 - cgroup values injected for a best-effort pod that uses reclaimed  *)
(* (batch) resources: runtime hook "BatchResource"                         *)
(* (pkg/koordlet/runtimehooks/hooks/batchresource).                        *)
(*                                                                         *)
(* Input  : cs    sequence of containers [req, lim, mem] - the declared    *)
(*                batch-cpu request (milli-cores), batch-cpu limit         *)
(*                (milli-cores) and batch-memory limit (bytes);            *)
(*                Absent (-1) = "not declared"                             *)
(*          mark  how the pod is marked: "label" (koordinator.sh/qosClass  *)
(*                = BE in the labels - the only marking the API defines),  *)
(*                "annotation" (same key, annotations only), "ls" (label   *)
(*                LS), "none"                                              *)
(*          cfg   [cfs : BOOLEAN, ratio : [num, den]]  CFS quota enabled,  *)
(*                node CPU normalization ratio num/den (num = 0: none).    *)
(*                cfg is STATE of the node agent: it is what the LAST      *)
(*                delivered NodeSLO / Node object says (CfsAfterSLO,       *)
(*                NodeRatios below), not a per-pod input                   *)
(*          The declared amounts are those of the pod SPEC: an extended-   *)
(*          resource-spec annotation the pod carried before admission      *)
(*          (equal, subset, superset, other amounts, stale) is not a       *)
(*          declaration and has no influence on what is prescribed         *)
(* Output : pod / per container  [shares, quota, mem], each [set, v]       *)
(*          (set = FALSE: the hook did not inject that value)              *)
(*                                                                         *)
(* Everything in this module is property level: the conversions are the    *)
(* "standard conversions" the statement refers to (kubelet's MilliCPUTo-   *)
(* Shares / MilliCPUToQuota as re-implemented in koordlet/util/system),    *)
(* Want* are the values the statement prescribes, NoTighter is the         *)
(* relation "pod cgroup never tighter than one of its containers".         *)
(***************************************************************************)
EXTENDS Integers, Sequences, FiniteSets, IOUtils

Absent    == -1        \* amount not declared
Unlimited == -1        \* cgroup value "no limit" (cfs quota -1 / memory limit -1)

SharesMin  == 2
SharesMax  == 262144
SharesUnit == 1024     \* shares per core
QuotaMin   == 1000     \* cfs_quota_us may not be below 1000
PeriodPerMilli == 100  \* cfs period 100000us / 1000 milli-cores

Max2(a, b) == IF a >= b THEN a ELSE b
Min2(a, b) == IF a <= b THEN a ELSE b
Clamp(x, lo, hi) == Max2(lo, Min2(x, hi))
CeilDiv(a, b) == (a + b - 1) \div b

(****************************** conversions ********************************)
\* milli-cores -> cpu.shares
Shares(m) == IF m <= 0 THEN SharesMin ELSE Clamp((m * SharesUnit) \div 1000, SharesMin, SharesMax)
\* milli-cores -> cpu.cfs_quota_us ; <= 0 means unlimited
Quota(m) == IF m * PeriodPerMilli <= 0 THEN Unlimited ELSE Max2(m * PeriodPerMilli, QuotaMin)
\* node CPU normalization: a limited quota is divided by the ratio (rounded up) when the ratio is above 1
RatioAboveOne(r) == r.num > r.den /\ r.den > 0
ScaleQuota(q, r) == IF q > 0 /\ RatioAboveOne(r) THEN CeilDiv(q * r.den, r.num) ELSE q
\* bytes -> memory limit ; <= 0 means unlimited
MemLimit(b) == IF b <= 0 THEN Unlimited ELSE b

(**************************** declared amounts *****************************)
Idx(cs)      == 1..Len(cs)
Declares(c)  == c.req # Absent \/ c.lim # Absent \/ c.mem # Absent     \* the container uses batch resources
UsesBatch(cs) == \E i \in Idx(cs) : Declares(cs[i])                    \* "a pod using reclaimed resources"
IsBE(mark)   == mark = "label"

CpuReq(c) == IF c.req <= 0 THEN 0 ELSE c.req      \* no (or zero) request: nothing requested
CpuUnl(c) == c.lim <= 0                            \* undeclared (or zero) limit means unlimited
MemUnl(c) == c.mem <= 0

SumSeq(cs, f(_)) == LET S[i \in 0..Len(cs)] == IF i = 0 THEN 0 ELSE S[i - 1] + f(cs[i]) IN S[Len(cs)]

(************************ what the statement prescribes ********************)
\* (i) container: the conversion of its own declared amounts
WantContainer(c, cfg) ==
    [shares |-> Shares(CpuReq(c)),
     quota  |-> IF ~cfg.cfs \/ CpuUnl(c) THEN Unlimited ELSE ScaleQuota(Quota(c.lim), cfg.ratio),
     mem    |-> IF MemUnl(c) THEN Unlimited ELSE MemLimit(c.mem)]
\* (ii) pod: the same conversion applied to the sums, unlimited as soon as one container is unlimited
WantPod(cs, cfg) ==
    [shares |-> Shares(SumSeq(cs, CpuReq)),
     quota  |-> IF ~cfg.cfs \/ (\E i \in Idx(cs) : CpuUnl(cs[i])) THEN Unlimited
                ELSE ScaleQuota(Quota(SumSeq(cs, LAMBDA c : c.lim)), cfg.ratio),
     mem    |-> IF \E i \in Idx(cs) : MemUnl(cs[i]) THEN Unlimited
                ELSE MemLimit(SumSeq(cs, LAMBDA c : c.mem))]

\* relation (R): a limit p of the pod is no tighter than the limit c of a container (Unlimited is the top element)
GeqLimit(p, c) == p = Unlimited \/ (c # Unlimited /\ p >= c)
NoTighter(p, c) == /\ p.shares >= c.shares
                   /\ GeqLimit(p.quota, c.quota)
                   /\ GeqLimit(p.mem, c.mem)

(************************* predicates on observations **********************)
\* an observed value o = [set, v]; what is in force when the hook injects nothing for a container is the
\* container's own (kubelet) value, which for an undeclared amount is minimum shares / no limit
IsUnset(x)    == ~x.set /\ x.v = 0                \* the recorder writes an absent value as [set |-> FALSE, v |-> 0]
Untouched(o)  == IsUnset(o.shares) /\ IsUnset(o.quota) /\ IsUnset(o.mem)
Injected(o, w) == /\ o.shares.set /\ o.shares.v = w.shares
                  /\ o.quota.set  /\ o.quota.v  = w.quota
                  /\ o.mem.set    /\ o.mem.v    = w.mem
InForce(o) == [shares |-> IF o.shares.set THEN o.shares.v ELSE SharesMin,
               quota  |-> IF o.quota.set  THEN o.quota.v  ELSE Unlimited,
               mem    |-> IF o.mem.set    THEN o.mem.v    ELSE Unlimited]

\* the statement for one pod, in its three parts. conts[i] = observed values of container i, pod = observed pod-level values
Scope(cs, mark) == IsBE(mark) /\ UsesBatch(cs)   \* a BE pod that declares no batch amount at all is not in the statement's scope (noted)
\* (i) + (iii) container level
ContsOK(cs, mark, cfg, conts) ==
    /\ Len(conts) = Len(cs)
    /\ IF ~IsBE(mark) THEN \A i \in Idx(cs) : Untouched(conts[i])                        \* (iii)
       ELSE IF ~UsesBatch(cs) THEN TRUE
       ELSE \A i \in Idx(cs) :                                                           \* (i)
               IF Declares(cs[i]) THEN Injected(conts[i], WantContainer(cs[i], cfg))
               \* a container that declares nothing: left alone (= unlimited) or given the unlimited conversion
               ELSE Untouched(conts[i]) \/ Injected(conts[i], WantContainer(cs[i], cfg))
\* (ii) + (iii) pod level
\* second validation pass of the segments rejected for the recorded finding "a container that declares nothing is ignored
\* at pod level" (known_findings.json): the code's formula (sums over the DECLARING containers) is accepted there, so
\* that the rest of such a segment is judged too
TolerateSidecar == "VERIF_TOLERATE_C14_SIDECAR" \in DOMAIN IOEnv
DeclaringOnly(cs) == SelectSeq(cs, Declares)
PodOK(cs, mark, cfg, pod) ==
    IF ~IsBE(mark) THEN Untouched(pod)                                                   \* (iii)
    ELSE IF ~UsesBatch(cs) THEN TRUE
    ELSE IF Injected(pod, WantPod(cs, cfg)) THEN TRUE                                    \* (ii)
    ELSE TolerateSidecar /\ Injected(pod, WantPod(DeclaringOnly(cs), cfg))
\* (R) on what was observed (pod and containers observed under the same configuration)
RelOK(cs, mark, pod, conts) ==
    Scope(cs, mark) => \A i \in Idx(cs) : IF TolerateSidecar /\ ~Declares(cs[i]) THEN TRUE
                                          ELSE NoTighter(InForce(pod), InForce(conts[i]))

\* the whole statement for one pod
HookOK(cs, mark, cfg, pod, conts) ==
    ContsOK(cs, mark, cfg, conts) /\ PodOK(cs, mark, cfg, pod) /\ RelOK(cs, mark, pod, conts)

(******************* the configuration in force (state of the agent) ********)
\* "the node's CPU normalization ratio when one above 1 is configured": what is configured is what the LAST delivered
\* Node object carries.  kind = "valid"  : the annotation holds the positive number num/den  -> that ratio
\*                       kind = "none"   : no annotation (removed / never set)             -> no ratio
\*                       kind = "invalid": the annotation is not a positive number. The statement ranges over "all scale
\*                                         ratios" and does not say what a malformed value configures: either nothing
\*                                         (no ratio) or the delivery is ignored (the ratio in force stays)
NoRatio == [num |-> 0, den |-> 1]
NodeRatios(cur, kind, num, den) ==
    IF kind = "valid" THEN {[num |-> num, den |-> den]}
    ELSE IF kind = "none" THEN {NoRatio}
    ELSE {NoRatio, cur}
\* CFS quota of BE pods is disabled exactly when the last delivered NodeSLO enables BE cpu suppression by the cfsQuota
\* policy (policy "" = strategy absent: the default strategy, which is not the cfsQuota policy)
CfsAfterSLO(enable, policy) == ~(enable /\ policy = "cfsQuota")
=============================================================================
