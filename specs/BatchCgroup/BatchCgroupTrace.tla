------------------------- MODULE BatchCgroupTrace -------------------------
(* Trace validation for C14: one segment per pod and agent (plugin) instance. *)
(*   reset : the pod  containers = <<[name, req, lim, mem], ...>> (Absent =   *)
(*           -1: what the pod SPEC declares), mark, pre = [kind, raw] (the    *)
(*           extended-resource-spec annotation the pod carries BEFORE         *)
(*           admission; an input of the executor only - it declares nothing), *)
(*           and the configuration delivered before the first event: cfs,     *)
(*           rnum/rden (ratio, rnum = 0: none)                                *)
(*   admit : the pod went through the real mutating webhook (Create);         *)
(*           obs.allowed - a refused pod never reaches the agent              *)
(*   node  : a Node object was delivered to the real parseRuleForNodeMeta:    *)
(*           kind (valid | none | invalid), rnum/rden, raw (annotation value) *)
(*   slo   : a NodeSLO was delivered to the real parseRuleForNodeSLO: enable, *)
(*           policy (cpuset | cfsQuota | "" = strategy absent)                *)
(*   conts : the container-level hook ran for every container of the admitted *)
(*           pod in request mode `mode` (proxy | nri : amounts read from the  *)
(*           annotation the webhook left; reconciler : from the pod object);  *)
(*           obs.containers = [name |-> [shares, quota, mem]], every value    *)
(*           [set, v], read from Response.Resources                           *)
(*   hook  : the pod-level hook ran; obs.pod = [shares, quota, mem]           *)
(* The configuration in force for a conts / hook event is the state (cfs,     *)
(* ratio) produced by the deliveries so far. A conts event is accepted iff    *)
(* ContsOK, a hook event iff PodOK and - against the containers observed last *)
(* under the same configuration and mode - RelOK (the statement of C14).      *)
EXTENDS BatchCgroup, TraceCommon
VARIABLES inp,      \* the reset event
          cfs,      \* CFS quota enabled (last delivered NodeSLO)
          ratio,    \* node CPU normalization ratio in force (last delivered Node)
          adm,      \* "no" (not yet admitted) | "yes" | "refused"
          lastc     \* [mode, vals] container values observed last under the current configuration (mode "" = none)
vars == <<inp, cfs, ratio, adm, lastc>>

Cfg == [cfs |-> cfs, ratio |-> ratio]
Conts(r) == [i \in 1..Len(r.containers) |-> [req |-> r.containers[i].req, lim |-> r.containers[i].lim, mem |-> r.containers[i].mem]]
NoConts == [mode |-> "", vals |-> <<>>]

Show(w) == [shares |-> [set |-> TRUE, v |-> w.shares], quota |-> [set |-> TRUE, v |-> w.quota], mem |-> [set |-> TRUE, v |-> w.mem]]
ShowUnset == [shares |-> [set |-> FALSE, v |-> 0], quota |-> [set |-> FALSE, v |-> 0], mem |-> [set |-> FALSE, v |-> 0]]
\* observed values of container i (obs.containers is keyed by container name)
ObsConts(r, obs) == [i \in 1..Len(r.containers) |-> obs.containers[r.containers[i].name]]
\* what the statement prescribes, in the shape of obs (explain mode only; for a container that declares nothing
\* "untouched" is shown when that is what was observed, since both are accepted)
ExpectedConts(r, obs) ==
    LET cs == Conts(r)
        names == {r.containers[i].name : i \in Idx(cs)}
        ix(nm) == CHOOSE i \in Idx(cs) : r.containers[i].name = nm
    IN
    [cfg |-> Cfg,
     containers |-> IF ~Scope(cs, r.mark) THEN [nm \in names |-> ShowUnset]
                    ELSE [nm \in names |-> IF ~Declares(cs[ix(nm)]) /\ Untouched(obs.containers[nm]) THEN ShowUnset
                                            ELSE Show(WantContainer(cs[ix(nm)], Cfg))]]
ExpectedPod(r) ==
    [cfg |-> Cfg, pod |-> IF ~Scope(Conts(r), r.mark) THEN ShowUnset ELSE Show(WantPod(Conts(r), Cfg))]

TAdmit == /\ IsEvent("admit")
          /\ adm = "no"
          /\ adm' = IF Ev.obs.allowed THEN "yes" ELSE "refused"
          /\ UNCHANGED <<inp, cfs, ratio, lastc>>

\* diagnosis only (never set by bin/check): with VERIF_C14_STRICT_INVALID in the environment a malformed annotation is read
\* as "no ratio configured" only - shows which histories rely on the "delivery ignored" reading (see NodeRatios)
StrictInvalid == "VERIF_C14_STRICT_INVALID" \in DOMAIN IOEnv
TNode == /\ IsEvent("node")
         /\ ratio' \in IF StrictInvalid /\ Ev.kind = "invalid" THEN {NoRatio} ELSE NodeRatios(ratio, Ev.kind, Ev.rnum, Ev.rden)
         /\ lastc' = NoConts
         /\ UNCHANGED <<inp, cfs, adm>>

TSlo == /\ IsEvent("slo")
        /\ cfs' = CfsAfterSLO(Ev.enable, Ev.policy)
        /\ lastc' = NoConts
        /\ UNCHANGED <<inp, ratio, adm>>

TConts == /\ IsEvent("conts")
          /\ adm = "yes"
          /\ Expect(ContsOK(Conts(inp), inp.mark, Cfg, ObsConts(inp, Ev.obs)), ExpectedConts(inp, Ev.obs))
          /\ lastc' = [mode |-> Ev.mode, vals |-> ObsConts(inp, Ev.obs)]
          /\ UNCHANGED <<inp, cfs, ratio, adm>>

THook == /\ IsEvent("hook")
         /\ adm = "yes"
         /\ Expect(/\ PodOK(Conts(inp), inp.mark, Cfg, Ev.obs.pod)
                   /\ IF lastc.mode = Ev.mode THEN RelOK(Conts(inp), inp.mark, Ev.obs.pod, lastc.vals) ELSE TRUE,
                   ExpectedPod(inp))
         /\ UNCHANGED vars

TraceInit == \E i \in Starts :
                /\ TraceStart(i)
                /\ inp = Trace[i]
                /\ cfs = Trace[i].cfs
                /\ ratio = [num |-> Trace[i].rnum, den |-> Trace[i].rden]
                /\ adm = "no"
                /\ lastc = NoConts
\* a segment is not accepted before the pod went through admission
TraceNext == TAdmit \/ TNode \/ TSlo \/ TConts \/ THook \/ (SegDone /\ adm # "no" /\ UNCHANGED vars)
TraceSpec == TraceInit /\ [][TraceNext]_<<vars, tvars>>
=============================================================================
