------------------------- MODULE BatchCgroupTrace -------------------------
(* Trace validation for C14: one segment per pod.                            *)
(*   reset : the inputs  containers = <<[name, req, lim, mem], ...>> (Absent *)
(*           = -1), mark, cfs, rnum/rden (ratio, rnum = 0: none), mode (how  *)
(*           the harness built the hook request: proxy | nri | reconciler)   *)
(*   hook  : obs = [pod |-> [shares, quota, mem], containers |-> [name |->   *)
(*           [shares, quota, mem]]], every value [set, v], read from         *)
(*           Response.Resources of the real PodContext / ContainerContext    *)
(*           after the real hook ran                                         *)
(* The segment is accepted iff the observation satisfies HookOK (the         *)
(* statement of C14 for that pod).                                           *)
EXTENDS BatchCgroup, TraceCommon
VARIABLES inp
vars == <<inp>>

Cfg(r) == [cfs |-> r.cfs, ratio |-> [num |-> r.rnum, den |-> r.rden]]
Conts(r) == [i \in 1..Len(r.containers) |-> [req |-> r.containers[i].req, lim |-> r.containers[i].lim, mem |-> r.containers[i].mem]]

Show(w) == [shares |-> [set |-> TRUE, v |-> w.shares], quota |-> [set |-> TRUE, v |-> w.quota], mem |-> [set |-> TRUE, v |-> w.mem]]
ShowUnset == [shares |-> [set |-> FALSE, v |-> 0], quota |-> [set |-> FALSE, v |-> 0], mem |-> [set |-> FALSE, v |-> 0]]
\* observed values of container i (obs.containers is keyed by container name)
ObsConts(r, obs) == [i \in 1..Len(r.containers) |-> obs.containers[r.containers[i].name]]
\* what the statement prescribes, in the shape of obs (explain mode only; for a container that declares nothing
\* "untouched" is shown when that is what was observed, since both are accepted)
Expected(r, obs) ==
    LET cs == Conts(r)
        names == {r.containers[i].name : i \in Idx(cs)}
        ix(nm) == CHOOSE i \in Idx(cs) : r.containers[i].name = nm
    IN
    IF ~IsBE(r.mark) \/ ~UsesBatch(cs)
    THEN [pod |-> ShowUnset, containers |-> [nm \in names |-> ShowUnset]]
    ELSE [pod |-> Show(WantPod(cs, Cfg(r))),
          containers |-> [nm \in names |-> IF ~Declares(cs[ix(nm)]) /\ Untouched(obs.containers[nm]) THEN ShowUnset
                                            ELSE Show(WantContainer(cs[ix(nm)], Cfg(r)))]]

THook == /\ IsEvent("hook")
         /\ UNCHANGED vars
         /\ Expect(HookOK(Conts(inp), inp.mark, Cfg(inp), Ev.obs.pod, ObsConts(inp, Ev.obs)), Expected(inp, Ev.obs))

TraceInit == \E i \in Starts : TraceStart(i) /\ inp = Trace[i]
TraceNext == THook \/ (SegDone /\ l > seg + 1 /\ UNCHANGED vars)     \* a segment without its hook event is not accepted
TraceSpec == TraceInit /\ [][TraceNext]_<<vars, tvars>>
=============================================================================
