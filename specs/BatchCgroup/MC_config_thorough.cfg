SPECIFICATION Spec
CONSTANTS
  MaxLen = 5
INVARIANT ConfigOK
CHECK_DEADLOCK FALSE
