--------------------------- MODULE MC_BatchConfig ---------------------------
(* The configuration in force as STATE: Node / NodeSLO objects are delivered  *)
(* one after the other (hist); the agent's state (cfs, ratio) is updated by    *)
(* NodeRatios / CfsAfterSLO at every delivery. Decided on the model: the state *)
(* is always what the LAST delivered object of each kind says (declaratively,  *)
(* from the history), whatever was learnt before - in particular a ratio above *)
(* 1 does not survive the removal of the annotation or a later ratio <= 1 -    *)
(* and the quota the statement prescribes under that state is the undivided    *)
(* conversion exactly when the last Node object configures no ratio above 1.   *)
EXTENDS BatchCgroup, TLC
CONSTANTS MaxLen
VARIABLES hist, cfs, ratio

RatioMenu == {[num |-> 1, den |-> 2], [num |-> 1, den |-> 1], [num |-> 5, den |-> 4], [num |-> 3, den |-> 2], [num |-> 2, den |-> 1]}
NodeDeliveries == {[op |-> "node", kind |-> "valid", rnum |-> r.num, rden |-> r.den] : r \in RatioMenu}
                  \cup {[op |-> "node", kind |-> k, rnum |-> 0, rden |-> 1] : k \in {"none", "invalid"}}
SLODeliveries  == {[op |-> "slo", enable |-> e, policy |-> p] : e \in BOOLEAN, p \in {"cpuset", "cfsQuota", ""}}

Init == hist = <<>> /\ cfs = TRUE /\ ratio = NoRatio
Next == /\ Len(hist) < MaxLen
        /\ \/ \E d \in NodeDeliveries : /\ hist' = Append(hist, d)
                                        /\ ratio' \in NodeRatios(ratio, d.kind, d.rnum, d.rden)
                                        /\ UNCHANGED cfs
           \/ \E d \in SLODeliveries :  /\ hist' = Append(hist, d)
                                        /\ cfs' = CfsAfterSLO(d.enable, d.policy)
                                        /\ UNCHANGED ratio
Spec == Init /\ [][Next]_<<hist, cfs, ratio>>

\* index of the last delivery of kind op that is not an ignorable (invalid) one; 0 if none
LastIdx(op, ign(_)) == LET S == {i \in 1..Len(hist) : hist[i].op = op /\ ~ign(hist[i])} IN IF S = {} THEN 0 ELSE CHOOSE i \in S : \A j \in S : j <= i
LastNode    == LastIdx("node", LAMBDA d : FALSE)                 \* last Node object delivered
LastGood    == LastIdx("node", LAMBDA d : d.kind = "invalid")    \* last well-formed Node object delivered
LastSLO     == LastIdx("slo", LAMBDA d : FALSE)
RatioOf(i)  == IF i = 0 \/ hist[i].kind # "valid" THEN NoRatio ELSE [num |-> hist[i].rnum, den |-> hist[i].rden]

\* the ratio in force is that of the last delivered Node object; a malformed one configures nothing or is ignored
LastDeliveredDecides ==
    /\ LastNode = LastGood => ratio = RatioOf(LastNode)
    /\ LastNode # LastGood => ratio \in {NoRatio, RatioOf(LastGood)}
    /\ cfs = (IF LastSLO = 0 THEN TRUE ELSE CfsAfterSLO(hist[LastSLO].enable, hist[LastSLO].policy))
\* ... hence no division once the last Node object carries no annotation or a ratio <= 1 (whatever was learnt before)
NoStaleRatio ==
    (LastNode # 0 /\ (hist[LastNode].kind = "none" \/ (hist[LastNode].kind = "valid" /\ hist[LastNode].rnum <= hist[LastNode].rden)))
        => /\ ~RatioAboveOne(ratio)
           /\ \A m \in {1, 10, 15, 999, 2500} :
                 WantContainer([req |-> m, lim |-> m, mem |-> m], [cfs |-> TRUE, ratio |-> ratio]).quota = Quota(m)
\* ... and division by exactly the delivered ratio when the last Node object carries one above 1
RatioApplied ==
    (LastNode # 0 /\ hist[LastNode].kind = "valid" /\ hist[LastNode].rnum > hist[LastNode].rden)
        => \A m \in {1, 10, 15, 999, 2500} :
              LET q == WantContainer([req |-> m, lim |-> m, mem |-> m], [cfs |-> cfs, ratio |-> ratio]).quota IN
              IF ~cfs THEN q = Unlimited
              ELSE q = CeilDiv(Quota(m) * hist[LastNode].rden, hist[LastNode].rnum)
ConfigOK == LastDeliveredDecides /\ NoStaleRatio /\ RatioApplied
=============================================================================
