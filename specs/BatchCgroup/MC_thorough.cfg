SPECIFICATION Spec
CONSTANTS
  MaxN = 3
  CpuVals <- CpuSmall
  MemVals <- MemSmall
INVARIANT ModelOK
CHECK_DEADLOCK FALSE
