--------------------------- MODULE CpuBurstTrace ---------------------------
(***************************************************************************)
(* Trace validation for G02.  One segment = one node: a cgroup tree of     *)
(* plain files, the REAL cpuBurst object (its limiters, its executor and   *)
(* the executor's cache) driven round after round through cpuBurst.start() *)
(* by harness zz_verif_g02_test.go, with the environment's moves between   *)
(* the rounds.                                                             *)
(*                                                                         *)
(* A `round` event carries the inputs the fakes handed out (node usage,    *)
(* pod usages, per container: throttled yes/no/none, usage percent), the   *)
(* executor calls in their order  ws = [kind, p, k, v, eff]  and           *)
(*   obs = every cfs_quota / cfs_burst file and every limiter (cap, tok,   *)
(*         exp, age in whole seconds)  AS READ after the round.            *)
(* The state after a round is TAKEN from the observation; the clauses of   *)
(* CpuBurst.tla section 3 judge the step (RoundProp), BudgetOK / TokensOK  *)
(* the state.  Environment events have exactly the modelled effect (the    *)
(* harness's discipline; clause W of the next round compares the files).   *)
(***************************************************************************)
EXTENDS CpuBurst, TraceCommon

TPOrder == <<"p1", "p2", "p3">>
TCNames == <<"a", "b">>

CfgOf(c) == [policy |-> c.policy, bp |-> c.bp, qp |-> c.qp, ps |-> c.ps, thr |-> c.thr]
AnnOf(a) == [policy |-> a.policy, bp |-> a.bp, qp |-> a.qp, ps |-> a.ps]
CtrOf(c) == [has |-> c.has, id |-> c.id, limit |-> c.limit, running |-> c.running]
FilesOf(f) == [k \in FK |-> f[k]]
PodRec(e) == [st |-> "present", burstable |-> e.qos \notin {"LSR", "LSE", "BE"}, active |-> e.active, qos |-> e.qos, req |-> e.req,
              ann |-> AnnOf(e.ann), ctr |-> [k \in CSet |-> CtrOf(e.ctr[k])]]

\* share pool of getNodeStateForBurst: LSE/LSR requests leave the pool, LSE/LSR/BE usage is not the pool's
Listed == {p \in PNames : pods[p].st = "present"}
RECURSIVE SumOver(_, _)
SumOver(S, f) == IF S = {} THEN 0 ELSE LET x == CHOOSE x \in S : TRUE IN f[x] + SumOver(S \ {x}, f)
PoolTotal(e) == e.node.cores * 1000 - SumOver({p \in Listed : pods[p].qos \in {"LSR", "LSE"}}, [p \in PNames |-> pods[p].req])
PoolUsed(e) == e.node.used - SumOver({p \in Listed : pods[p].qos \in {"LSR", "LSE", "BE"} /\ e.pu[p] >= 0}, [p \in PNames |-> e.pu[p]])

ObsLim(o) == [id \in DOMAIN o |-> [cap |-> o[id].cap, tok |-> o[id].tok, lu |-> now - o[id].age, exp |-> o[id].exp]]
ObsF(o) == [p \in PNames |-> FilesOf(o[p])]
\* node state unknown: no node usage metric, or no node cpu info (cores = 0)
InOf(e) == [ns |-> NodeState(e.node.known /\ e.node.cores > 0, PoolUsed(e), PoolTotal(e), cfg.thr),
            thr |-> e.thr, use |-> e.use,
            tok0 |-> [id \in DOMAIN e.thr |-> IF id \in DOMAIN e.obs.lim THEN e.obs.lim[id].tok ELSE 0]]

RECURSIVE CacheReplay(_, _, _, _)
CacheReplay(c, ws, kind, n) == IF n = 0 THEN c
                               ELSE LET g == CacheReplay(c, ws, kind, n - 1)
                                        x == ws[n]
                                    IN IF x.kind = kind /\ x.eff THEN [g EXCEPT ![x.p][x.k] = x.v] ELSE g

TRound == /\ IsEvent("round")
          /\ fq' = ObsF(Ev.obs.fq) /\ fb' = ObsF(Ev.obs.fb) /\ lim' = ObsLim(Ev.obs.lim)
          /\ kq' = CacheReplay(kq, Ev.ws, "q", Len(Ev.ws)) /\ kb' = CacheReplay(kb, Ev.ws, "b", Len(Ev.ws))
          /\ step' = [op |-> "round", in |-> InOf(Ev), ws |-> Ev.ws]
          /\ spent' = SpentAfter(InOf(Ev))
          /\ UNCHANGED <<cfg, pods, now>>
          /\ Expect(~Ev.panic /\ RoundProp,
                    [clauses |-> ClauseVal, ns |-> step'.in.ns, fq |-> RoundResult(step'.in).fq, fb |-> RoundResult(step'.in).fb])

TCfg == IsEvent("cfg") /\ SetCfg(CfgOf(Ev.cfg))
TAddPod == IsEvent("addPod") /\ AddPod(Ev.p, PodRec(Ev), FilesOf(Ev.fq))
TDelPod == IsEvent("delPod") /\ DelPod(Ev.p)
TAnn == IsEvent("ann") /\ SetAnn(Ev.p, AnnOf(Ev.ann))
TRunning == IsEvent("running") /\ SetRunning(Ev.p, Ev.k, Ev.r)
TRestartCtr == IsEvent("restartCtr") /\ RestartCtr(Ev.p, Ev.k, Ev.id)
TResize == IsEvent("resize") /\ Resize(Ev.p, Ev.k, Ev.limit)
TTick == IsEvent("tick") /\ Tick(Ev.d)
TRestart == IsEvent("restart") /\ Restart
TExpire == IsEvent("expire") /\ Expire

TraceInit == \E i \in Starts : TraceStart(i) /\ InitWith(CfgOf(Trace[i].cfg))
TraceNext == \/ TRound
             \/ TCfg \/ TAddPod \/ TDelPod \/ TAnn \/ TRunning \/ TRestartCtr \/ TResize \/ TTick \/ TRestart \/ TExpire
             \/ (SegDone /\ UNCHANGED vars)
TraceSpec == TraceInit /\ [][TraceNext]_<<vars, tvars>>
=============================================================================
