\* as MC_two but with kubelet's in-place resize and cache expiry in the environment: decides the candidate PodFloor
\* (a managed pod's quota never below the sum of its containers' limits) and clause B under external writes.
\* NOT part of bin/check (see lib/props/G02.py: the candidate is reported, not demanded).
SPECIFICATION Spec
CONSTANTS
  PNames = {"p1"}
  POrder <- PO_1
  CNames <- CN_2
  Limits = {10, 20}
  Cfgs <- Cfg_one
  Anns <- Ann_one
  Ticks = {1}
  MaxNow = 1
  Uses = {200}
  Envs = {"resize"}
  NSs = {"idle", "overload"}
  MaxDepth = 7
CONSTRAINT Depth
VIEW View
INVARIANT TypeOK
INVARIANT PodFloor
PROPERTY StepOK
CHECK_DEADLOCK FALSE
