\* one pod with one container slot, three node configs, two annotations, every round input, clock 0..2;
\* environment: pod removal, container stop/start (no in-place resize: see MC_resize.cfg)
SPECIFICATION Spec
CONSTANTS
  PNames = {"p1"}
  POrder <- PO_1
  CNames <- CN_1
  Limits = {0, 10}
  Cfgs <- Cfg_quick
  Anns <- Ann_quick
  Ticks = {1}
  MaxNow = 2
  Uses = {200}
  Envs = {"del", "stop"}
  NSs = {"idle", "cooling", "overload", "unknown"}
  MaxDepth = 8
CONSTRAINT Depth
VIEW View
INVARIANT TypeOK
INVARIANT BudgetOK
INVARIANT TokensOK
INVARIANT PodFloor
PROPERTY StepOK
CHECK_DEADLOCK FALSE
