SPECIFICATION TraceSpec
CONSTANTS
  PNames = {"p1", "p2", "p3"}
  POrder <- TPOrder
  CNames <- TCNames
\* state invariants as CONSTRAINTs (before Report): a recorded state violating one is not explored further, so its segment
\* never reaches SegDone (= rejected); the step predicate RoundProp is conjoined to the round action in CpuBurstTrace
CONSTRAINT BudgetOK
CONSTRAINT TokensOK
CONSTRAINT Report
CHECK_DEADLOCK FALSE
