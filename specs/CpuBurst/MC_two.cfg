\* one pod with TWO container slots (pod-level quota = sum; write order between the writes of a round), one config (limiter period 1 s, 150%),
\* one clock step; environment: the clock only
SPECIFICATION Spec
CONSTANTS
  PNames = {"p1"}
  POrder <- PO_1
  CNames <- CN_2
  Limits = {10}
  Cfgs <- Cfg_one
  Anns <- Ann_one
  Ticks = {1}
  MaxNow = 1
  Uses = {200}
  Envs = {}
  NSs = {"idle", "overload"}
  MaxDepth = 7
CONSTRAINT Depth
VIEW View
INVARIANT TypeOK
INVARIANT BudgetOK
INVARIANT TokensOK
INVARIANT PodFloor
PROPERTY StepOK
CHECK_DEADLOCK FALSE
