---------------------------- MODULE MC_CpuBurst ----------------------------
(***************************************************************************)
(* Bounded exhaustive exploration of the CPU-burst design (CpuBurst.tla):  *)
(* every interleaving of rounds (all inputs) with the environment's moves  *)
(* over a small universe.  Decides the guarantees of section 3 on the      *)
(* model:  PROPERTY StepOK (clauses B U O F X H W S T R K of every round), *)
(* INVARIANT BudgetOK, TokensOK, TypeOK;  PodFloor is decided separately   *)
(* (MC_floor*.cfg).                                                        *)
(***************************************************************************)
EXTENDS CpuBurst

CONSTANTS Limits,      \* CPU limits a container may have (milli; 0 = unlimited)
          Cfgs,        \* node configs
          Anns,        \* pod annotations
          Ticks,       \* clock steps
          MaxNow,
          Uses,        \* usage percents fed to the limiter (-1 = no metric)
          Envs,        \* environment moves switched on
          NSs,         \* node states fed to a round
          MaxDepth     \* behaviours are explored up to this many steps (quotas reachable by mixed x1.2 / x0.8 chains are many)

Id(p, k) == <<p, k>>
Ctr(p, k, m) == [has |-> TRUE, id |-> Id(p, k), limit |-> m, running |-> TRUE]
\* pod shapes: one or two containers, burstable or not
Shapes(p) == {[st |-> "present", burstable |-> bu, active |-> TRUE, qos |-> "", req |-> 0, ann |-> NoAnn,
               ctr |-> [k \in CSet |-> IF k = CNames[1] THEN Ctr(p, k, m1) ELSE IF two THEN Ctr(p, k, m2) ELSE NoCtr]] :
              bu \in (IF "lsr" \in Envs THEN BOOLEAN ELSE {TRUE}), two \in (IF Len(CNames) > 1 THEN BOOLEAN ELSE {FALSE}),
              m1 \in Limits, m2 \in Limits}
KubeletFiles(rec) == [k \in FK |-> IF k = "pod" THEN KubeletPodQuota(rec.ctr)
                                   ELSE IF rec.ctr[k].has THEN Base(rec.ctr[k].limit) ELSE 0]

GovIds == {pods[pk[1]].ctr[pk[2]].id : pk \in GovSet}
AllIds == {Id(p, k) : p \in PNames, k \in CSet}
PodOf(id) == id[1]
CapOf(id) == LET pc == PodCfg(PodOf(id)) IN IF LimReached(pc) THEN pc.ps * (pc.qp - 100) ELSE 0
Tok0s(cap) == IF cap <= 2 THEN {0} ELSE {0, (cap - 1) \div 2}
\* [AllIds -> Nat] is not enumerable: build tok0 choices explicitly
T0s == LET RECURSIVE Build(_)
           Build(S) == IF S = {} THEN {<<>>}
                       ELSE LET id == CHOOSE x \in S : TRUE
                            IN {(id :> t) @@ f : t \in (IF id \in GovIds THEN Tok0s(CapOf(id)) ELSE {0}), f \in Build(S \ {id})}
       IN Build(AllIds)
Inputs == {[ns |-> ns, thr |-> th, use |-> us, tok0 |-> t0] :
          ns \in NSs,
          th \in {f \in [AllIds -> {"yes", "no", "none"}] : \A id \in AllIds \ GovIds : f[id] = "none"},
          us \in {f \in [AllIds -> Uses \cup {-1}] : \A id \in AllIds : (id \notin GovIds \/ ~LimReached(PodCfg(PodOf(id)))) => f[id] = -1},
          t0 \in T0s}

Init == \E c \in Cfgs : InitWith(c)
Next == \/ \E p \in PNames : \E rec \in Shapes(p) : AddPod(p, rec, KubeletFiles(rec))
        \/ "del" \in Envs /\ \E p \in PNames : DelPod(p)
        \/ \E c \in Cfgs : c # cfg /\ SetCfg(c)
        \/ \E p \in PNames : \E a \in Anns : a # pods[p].ann /\ SetAnn(p, a)
        \/ "stop" \in Envs /\ \E p \in PNames : \E k \in CSet : SetRunning(p, k, ~pods[p].ctr[k].running)
        \/ "resize" \in Envs /\ \E p \in PNames : \E k \in CSet : \E m \in Limits : m # pods[p].ctr[k].limit /\ Resize(p, k, m)
        \/ \E d \in Ticks : now + d <= MaxNow /\ Tick(d)
        \/ "restart" \in Envs /\ Restart
        \/ "expire" \in Envs /\ Expire
        \/ \E in \in Inputs : Round(in)
Spec == Init /\ [][Next]_vars

TypeOK == /\ \A p \in PNames : \A k \in FK : fq[p][k] \in Int /\ fb[p][k] \in Nat
          /\ \A id \in DOMAIN lim : lim[id].cap >= 0 /\ lim[id].lu <= now
          /\ DOMAIN spent = DOMAIN lim

\* candidate: a managed pod's quota is never below what kubelet gives it (sum of the container limits)
PodFloor == \A p \in PNames : (Managed(p) /\ fq[p]["pod"] > 0) => fq[p]["pod"] >= KubeletPodQuota(pods[p].ctr)
\* candidate: a governed container's quota is within [base, ceiling] at all times after the first round that saw it -- see ClauseB

Depth == TLCGet("level") <= MaxDepth

\* the history variable `step` is not part of the state's identity
View == <<cfg, pods, fq, fb, kq, kb, lim, now, spent>>

PO_1 == <<"p1">>
PO_2 == <<"p1", "p2">>
CN_1 == <<"a">>
CN_2 == <<"a", "b">>
C_auto == [policy |-> "auto", bp |-> 10, qp |-> 300, ps |-> -1, thr |-> 50]
C_lim  == [policy |-> "auto", bp |-> 10, qp |-> 200, ps |-> 2, thr |-> 50]
C_lim2 == [policy |-> "cfsQuotaBurstOnly", bp |-> 10, qp |-> 150, ps |-> 1, thr |-> 50]
C_none == [policy |-> "none", bp |-> 10, qp |-> 300, ps |-> -1, thr |-> 50]
C_bo   == [policy |-> "cpuBurstOnly", bp |-> 20, qp |-> 100, ps |-> 0, thr |-> 50]
Cfg_quick == {C_auto, C_lim, C_none}
Cfg_two == {C_auto, C_lim2}
Cfg_one == {C_lim2}
Cfg_all == {C_auto, C_lim, C_lim2, C_none, C_bo}
A_none == NoAnn
A_off  == [policy |-> "none", bp |-> Absent, qp |-> Absent, ps |-> Absent]
A_on   == [policy |-> "auto", bp |-> Absent, qp |-> 150, ps |-> 1]
Ann_quick == {A_none, A_off}
Ann_one == {A_none}
Ann_all == {A_none, A_off, A_on}
=============================================================================
