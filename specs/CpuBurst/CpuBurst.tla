------------------------------ MODULE CpuBurst ------------------------------
(***************************************************************************)
(* G02 (growth check).  The koordlet CPU-burst control loop                *)
(*   /repo/pkg/koordlet/qosmanager/plugins/cpuburst/cpu_burst.go           *)
(* one agent (cpuBurst object + its resource executor) on one node, round  *)
(* after round (cpuBurst.start()), between rounds the environment moves:   *)
(* the clock, the NodeSLO config, pods come and go, a pod annotation       *)
(* changes, kubelet resizes a container in place, a container stops or is  *)
(* restarted, the agent restarts.                                          *)
(*                                                                         *)
(* Units: a CPU limit is in milli-CPUs (0 = unlimited); a CFS quota is in  *)
(* microseconds per 100000us period, so  base quota = limit * 100  (at     *)
(* least 1000) and  cpu.cfs_burst_us = limit * cpuBurstPercent  (which is  *)
(* (limit/1000) * (percent/100) * 100000).  Time is in whole seconds.      *)
(*                                                                         *)
(* Section 1  state and vocabulary                                         *)
(* Section 2  what a round does (transcription of HOW the code does it:    *)
(*            applyCPUBurst, applyCFSQuotaBurst, genOperationByContainer,  *)
(*            changeOperationByNode, burstLimiter, applyContainerCFSQuota, *)
(*            the executor's write cache, Recycle)                         *)
(* Section 3  the guarantees (property level; each is a named clause over  *)
(*            one round  pre-state, inputs, the individual cgroup writes   *)
(*            in their order, post-state;  they are decided on the model   *)
(*            by TLC (MC_*.cfg) and checked on the real code by            *)
(*            CpuBurstTrace)                                               *)
(* Section 4  the environment and the next-state relation                  *)
(***************************************************************************)
EXTENDS Integers, Sequences, FiniteSets, TLC

CONSTANTS PNames,     \* pod names
          POrder,     \* the order in which the states informer lists the pods (a sequence over PNames)
          CNames      \* container slots of a pod in container-status order (a sequence of names)

VARIABLES cfg,    \* NodeSLO cpuBurstStrategy: [policy, bp (cpuBurstPercent), qp (cfsQuotaBurstPercent), ps (cfsQuotaBurstPeriodSeconds), thr]
          pods,   \* [PNames -> pod record]
          fq,     \* cpu.cfs_quota_us files   [PNames -> [FK -> Int]]   FK = "pod" + container slots
          fb,     \* cpu.cfs_burst_us files
          kq, kb, \* the executor's cache: last value written through it (None = no entry)
          lim,    \* the burst limiters: a function  container id -> [cap, tok, lu, exp]
          now,    \* clock (s)
          spent,  \* history: percent-seconds above 100% consumed in the current unbroken run of allowed rounds, per limiter
          step    \* the last step (what happened; for the step predicates)

vars == <<cfg, pods, fq, fb, kq, kb, lim, now, spent, step>>

(***************************************************************************)
(* 1. vocabulary                                                           *)
(***************************************************************************)
None   == -7          \* no cache entry
Absent == -9          \* field not set in the pod annotation
CSet == {CNames[i] : i \in 1..Len(CNames)}
FK   == {"pod"} \cup CSet

Min(a, b) == IF a < b THEN a ELSE b
Max(a, b) == IF a > b THEN a ELSE b

Policies == {"none", "cpuBurstOnly", "cfsQuotaBurstOnly", "auto"}
BurstOn(pol) == pol \in {"auto", "cpuBurstOnly"}          \* cpuBurstEnabled
QuotaOn(pol) == pol \in {"auto", "cfsQuotaBurstOnly"}     \* cfsQuotaBurstEnabled

Base(m) == IF m <= 0 THEN -1 ELSE Max(m * 100, 1000)      \* GetContainerBaseCFSQuota / MilliCPUToQuota

\* genPodBurstConfig: the annotation's fields override the node's
PodCfg(p) == LET a == pods[p].ann IN
  [policy |-> IF a.policy = "" THEN cfg.policy ELSE a.policy,
   bp |-> IF a.bp = Absent THEN cfg.bp ELSE a.bp,
   qp |-> IF a.qp = Absent THEN cfg.qp ELSE a.qp,
   ps |-> IF a.ps = Absent THEN cfg.ps ELSE a.ps]

Ceil(base, pc) == IF pc.qp > 100 THEN (base * pc.qp) \div 100 ELSE base

\* pods the loop looks at: listed, burstable QoS (not LSE/LSR/BE), phase Pending/Running
Managed(p) == pods[p].st = "present" /\ pods[p].burstable /\ pods[p].active
\* containers whose quota the loop governs
Governed(p, k) == Managed(p) /\ pods[p].ctr[k].has /\ pods[p].ctr[k].running /\ pods[p].ctr[k].limit > 0

\* getNodeStateForBurst on integers: used / total in milli-CPUs of the share pool
NodeState(known, usedM, totalM, thr) ==
  IF ~known THEN "unknown"
  ELSE IF totalM <= 0 THEN (IF 100 >= thr THEN "overload" ELSE IF 1000 >= thr * 9 THEN "cooling" ELSE "idle")
  ELSE IF usedM * 100 >= thr * totalM THEN "overload"
  ELSE IF usedM * 1000 >= thr * 9 * totalM THEN "cooling"
  ELSE "idle"

(***************************************************************************)
(* 2. one round                                                            *)
(*    a world  w = [fq, fb, kq, kb, lim, ws]  is threaded through the pods *)
(*    and containers in order; ws collects the executor calls in order:    *)
(*    [kind ("q"|"b"), p, k, v, eff]   eff = the file was written          *)
(*    inputs  in = [ns, thr : id -> "yes"|"no"|"none", use : id -> percent *)
(*    of the limit used (-1 = no metric), tok0 : id -> tokens a limiter    *)
(*    (re)initialised in this round starts with]                           *)
(***************************************************************************)
Wr(w, kind, p, k, v) ==
  IF kind = "q"
  THEN IF w.kq[p][k] = v
       THEN [w EXCEPT !.ws = Append(@, [kind |-> kind, p |-> p, k |-> k, v |-> v, eff |-> FALSE])]
       ELSE [w EXCEPT !.fq[p][k] = v, !.kq[p][k] = v,
                      !.ws = Append(@, [kind |-> kind, p |-> p, k |-> k, v |-> v, eff |-> TRUE])]
  ELSE IF w.kb[p][k] = v
       THEN [w EXCEPT !.ws = Append(@, [kind |-> kind, p |-> p, k |-> k, v |-> v, eff |-> FALSE])]
       ELSE [w EXCEPT !.fb[p][k] = v, !.kb[p][k] = v,
                      !.ws = Append(@, [kind |-> kind, p |-> p, k |-> k, v |-> v, eff |-> TRUE])]

\* calcStaticCPUBurstVal
BurstVal(c, pc) == IF BurstOn(pc.policy) /\ c.limit > 0 THEN c.limit * pc.bp ELSE 0
RECURSIVE SumBurst(_, _, _)
SumBurst(p, i, pc) == IF i > Len(CNames) THEN 0
                      ELSE (IF pods[p].ctr[CNames[i]].has THEN BurstVal(pods[p].ctr[CNames[i]], pc) ELSE 0) + SumBurst(p, i + 1, pc)
RECURSIVE BurstCtrs(_, _, _, _)
BurstCtrs(w, p, i, pc) ==
  IF i > Len(CNames) THEN w
  ELSE LET k == CNames[i]
           c == pods[p].ctr[k]
       IN IF ~c.has THEN BurstCtrs(w, p, i + 1, pc)
          ELSE BurstCtrs(Wr(w, "b", p, k, BurstVal(c, pc)), p, i + 1, pc)
\* applyCPUBurst: containers, then the pod
PodBurst(w, p, pc) == Wr(BurstCtrs(w, p, 1, pc), "b", p, "pod", SumBurst(p, 1, pc))

\* the token bucket
TokStep(tok, cap, u, dt) ==
  LET t1 == IF u >= 100 THEN tok - (u - 100) * dt ELSE IF u < 60 THEN tok + (100 - u) * dt ELSE tok
  IN Max(Min(t1, cap), 0 - cap)
Usage(in, id) == IF in.use[id] < 0 THEN 100 ELSE in.use[id]     \* no metric: the limit itself
LimReached(pc) == pc.ps >= 0 /\ pc.qp >= 100
\* cfsBurstAllowedByLimiter
LimAllow(l, id, pc, in) ==
  IF pc.ps < 0 THEN [allowed |-> TRUE, lim |-> l]
  ELSE IF pc.qp < 100 THEN [allowed |-> FALSE, lim |-> l]
  ELSE LET cap == pc.ps * (pc.qp - 100)
           fresh == [cap |-> cap, tok |-> in.tok0[id], lu |-> now, exp |-> 2 * pc.ps]
           l0 == IF id \notin DOMAIN l THEN fresh ELSE IF l[id].cap # cap THEN fresh ELSE l[id]
           t2 == TokStep(l0.tok, cap, Usage(in, id), now - l0.lu)
           l1 == [l0 EXCEPT !.tok = t2, !.lu = now]
       IN [allowed |-> t2 > 0, lim |-> (id :> l1) @@ l]

\* changeOperationByNode
ByNode(ns, op) == IF ns = "overload" /\ op \in {"up", "remain"} THEN "down"
                  ELSE IF ns \in {"cooling", "unknown"} /\ op = "up" THEN "remain"
                  ELSE op
ScaleUp(cur)   == (cur * 6) \div 5      \* int64(float64(cur) * 1.2)  (exact for 0 <= cur < 2^31)
ScaleDown(cur) == (cur * 4) \div 5      \* int64(float64(cur) * 0.8)
Target(cur, op, base, ceil) ==
  LET t0 == CASE op = "up" -> ScaleUp(cur) [] op = "down" -> ScaleDown(cur) [] op = "reset" -> base [] OTHER -> cur
  IN Max(base, Min(t0, ceil))

\* applyCFSQuotaBurst for one container (+ applyContainerCFSQuota)
QuotaCtr(w, p, k, pc, in) ==
  LET c == pods[p].ctr[k]
      base == Base(c.limit)
  IN IF ~c.has \/ ~c.running \/ base <= 0 THEN w
     ELSE LET cur == w.fq[p][k]
              la == LimAllow(w.lim, c.id, pc, in)
              op0 == IF ~QuotaOn(pc.policy) THEN "reset"
                     ELSE IF ~la.allowed THEN "down"
                     ELSE IF in.thr[c.id] = "yes" THEN "up" ELSE "remain"
              tgt == Target(cur, ByNode(in.ns, op0), base, Ceil(base, pc))
              w1 == [w EXCEPT !.lim = la.lim]
              d == tgt - cur
              podcur == w1.fq[p]["pod"]
              WP(x) == IF podcur <= 0 THEN x ELSE Wr(x, "q", p, "pod", podcur + d)
              WC(x) == Wr(x, "q", p, k, tgt)
          IN IF d = 0 THEN w1
             ELSE IF d > 0 THEN WC(WP(w1))      \* raise: pod, then container
             ELSE WP(WC(w1))                    \* lower: container, then pod
RECURSIVE QuotaCtrs(_, _, _, _, _)
QuotaCtrs(w, p, i, pc, in) == IF i > Len(CNames) THEN w ELSE QuotaCtrs(QuotaCtr(w, p, CNames[i], pc, in), p, i + 1, pc, in)

RoundPod(w, p, in) == IF ~Managed(p) THEN w ELSE QuotaCtrs(PodBurst(w, p, PodCfg(p)), p, 1, PodCfg(p), in)
RECURSIVE RoundPods(_, _, _)
RoundPods(w, i, in) == IF i > Len(POrder) THEN w ELSE RoundPods(RoundPod(w, POrder[i], in), i + 1, in)

World == [fq |-> fq, fb |-> fb, kq |-> kq, kb |-> kb, lim |-> lim, ws |-> <<>>]
RoundResult(in) == RoundPods(World, 1, in)

\* Recycle: limiters not updated for longer than their expire duration go (at the instant itself either way)
KeepSets(l) == {S \in SUBSET DOMAIN l : \A id \in DOMAIN l : /\ (now - l[id].lu > l[id].exp => id \notin S)
                                                              /\ (now - l[id].lu < l[id].exp => id \in S)}
Restrict(f, S) == [x \in S |-> f[x]]

(***************************************************************************)
(* 3. the guarantees.  Action level: unprimed = before the round, primed   *)
(*    = after it; step' = [op |-> "round", in, ws].  pods, cfg, now do not *)
(*    change in a round.                                                   *)
(***************************************************************************)
\* the limiter lets the container burst after this round's accounting
AllowedAfter(p, k) == LET pc == PodCfg(p)
                          id == pods[p].ctr[k].id
                      IN pc.ps < 0 \/ (pc.qp >= 100 /\ id \in DOMAIN lim' /\ lim'[id].tok > 0)

GovSet == {pk \in PNames \X CSet : Governed(pk[1], pk[2])}

\* B  a governed container's quota ends within [base, ceiling]
ClauseB == \A pk \in GovSet : LET p == pk[1] k == pk[2] base == Base(pods[p].ctr[k].limit)
                              IN fq'[p][k] >= base /\ fq'[p][k] <= Ceil(base, PodCfg(p))
\* U  raised only if throttled AND the node is idle AND the limiter allows AND the policy scales quotas (or it was below base)
ClauseU == \A pk \in GovSet : LET p == pk[1] k == pk[2] id == pods[p].ctr[k].id base == Base(pods[p].ctr[k].limit)
                              IN fq'[p][k] > fq[p][k] =>
                                   \/ fq[p][k] < base /\ fq'[p][k] = base
                                   \/ /\ QuotaOn(PodCfg(p).policy) /\ step'.in.thr[id] = "yes" /\ step'.in.ns = "idle"
                                      /\ AllowedAfter(p, k)
\* O  node overloaded, or the limiter says no: towards base, never up
ClauseO == \A pk \in GovSet : LET p == pk[1] k == pk[2] base == Base(pods[p].ctr[k].limit)
                              IN (QuotaOn(PodCfg(p).policy) /\ (step'.in.ns = "overload" \/ ~AllowedAfter(p, k))) =>
                                   /\ fq'[p][k] <= Max(fq[p][k], base)
                                   /\ (fq[p][k] > base => fq'[p][k] < fq[p][k])
\* F  policy without quota scaling, or percent <= 100: back to / left at base
ClauseF == \A pk \in GovSet : LET p == pk[1] k == pk[2]
                              IN (~QuotaOn(PodCfg(p).policy) \/ PodCfg(p).qp <= 100) => fq'[p][k] = Base(pods[p].ctr[k].limit)
\* X  everything else is left alone: quotas of containers that are not governed (unlimited, not running, pod not managed),
\*    pod-level quotas of pods that are not managed or are unlimited (<= 0)
ClauseX == /\ \A p \in PNames : \A k \in CSet : ~Governed(p, k) => fq'[p][k] = fq[p][k]
           /\ \A p \in PNames : ((~Managed(p) \/ fq[p]["pod"] <= 0) => fq'[p]["pod"] = fq[p]["pod"])
           /\ \A p \in PNames : (~Managed(p) => fb'[p] = fb[p])
\* H  the pod-level quota permits its containers' quotas, also between the individual writes; and it moves exactly with them
LimitedSum(f, p) == LET S == {k \in CSet : pods[p].ctr[k].has /\ pods[p].ctr[k].limit > 0}
                        RECURSIVE Sum(_)
                        Sum(T) == IF T = {} THEN 0 ELSE LET x == CHOOSE x \in T : TRUE IN f[p][x] + Sum(T \ {x})
                    IN Sum(S)
Slack(f, p) == f[p]["pod"] - LimitedSum(f, p)
RECURSIVE Replay(_, _, _)
Replay(f, ws, n) == IF n = 0 THEN f
                    ELSE LET g == Replay(f, ws, n - 1)
                             x == ws[n]
                         IN IF x.kind = "q" /\ x.eff THEN [g EXCEPT ![x.p][x.k] = x.v] ELSE g
ClauseH == \A p \in PNames : (Managed(p) /\ fq[p]["pod"] > 0 /\ Slack(fq, p) >= 0) =>
              /\ \A n \in 0..Len(step'.ws) : LET f == Replay(fq, step'.ws, n) IN f[p]["pod"] > 0 /\ Slack(f, p) >= 0
              /\ Slack(fq', p) = Slack(fq, p)
\* W  the files change by the logged writes and by nothing else (frame; on the real code: the recorder saw every write)
ClauseW == fq' = Replay(fq, step'.ws, Len(step'.ws))
\* S  static burst: cpu.cfs_burst_us = limit x cpuBurstPercent (0 when the policy has no cpu burst or the container is unlimited); pod = sum
ClauseS == \A p \in PNames : Managed(p) =>
              /\ \A k \in CSet : pods[p].ctr[k].has => fb'[p][k] = BurstVal(pods[p].ctr[k], PodCfg(p))
              /\ fb'[p]["pod"] = SumBurst(p, 1, PodCfg(p))
\* T  the token bucket: a governed container's limiter is charged / refilled as configured; limiters of others do not move
TouchedIds == {pods[pk[1]].ctr[pk[2]].id : pk \in {x \in GovSet : LimReached(PodCfg(x[1]))}}
ClauseT == /\ \A pk \in GovSet : LET p == pk[1] k == pk[2] id == pods[p].ctr[k].id pc == PodCfg(p) IN
                 LimReached(pc) =>
                   LET want == LimAllow(lim, id, pc, step'.in).lim[id]
                       fresh == id \notin DOMAIN lim \/ lim[id].cap # want.cap
                   IN /\ (id \in DOMAIN lim' => lim'[id] = want)
                      /\ (id \notin DOMAIN lim' => want.exp = 0)            \* recycled at once only if period = 0
                      /\ (fresh => (step'.in.tok0[id] = 0 \/ (step'.in.tok0[id] > 0 /\ 2 * step'.in.tok0[id] < want.cap)))
                      /\ want.tok <= want.cap /\ want.tok >= 0 - want.cap
           /\ \A id \in DOMAIN lim' \ TouchedIds : id \in DOMAIN lim /\ lim'[id] = lim[id]
\* R  Recycle: exactly the limiters idle for longer than their expire duration (2 x period) are forgotten
ClauseR == /\ \A id \in DOMAIN lim \ (TouchedIds \cup DOMAIN lim') : now - lim[id].lu >= lim[id].exp
           /\ \A id \in (DOMAIN lim \cap DOMAIN lim') \ TouchedIds : now - lim[id].lu <= lim[id].exp
\* K  the transition itself (step factors 1.2 / 0.8, clamping, reset): files and limiters are the round's result
ClauseK == LET w == RoundResult(step'.in) IN fq' = w.fq /\ fb' = w.fb

ClauseNames == <<"B", "U", "O", "F", "X", "H", "W", "S", "T", "R", "K">>
ClauseVal == [B |-> ClauseB, U |-> ClauseU, O |-> ClauseO, F |-> ClauseF, X |-> ClauseX, H |-> ClauseH, W |-> ClauseW,
              S |-> ClauseS, T |-> ClauseT, R |-> ClauseR, K |-> ClauseK]
RoundProp == step'.op = "round" => (ClauseB /\ ClauseU /\ ClauseO /\ ClauseF /\ ClauseX /\ ClauseH /\ ClauseW /\ ClauseS
                                    /\ ClauseT /\ ClauseR /\ ClauseK)
StepOK == [][RoundProp]_vars

\* L  (state) burst budget: in an unbroken run of allowed rounds a container consumes less than
\*    period x (percent - 100) percent-seconds above its limit
BudgetOK == \A id \in DOMAIN lim : spent[id] = 0 \/ spent[id] < lim[id].cap
TokensOK == \A id \in DOMAIN lim : lim[id].tok <= lim[id].cap /\ lim[id].tok >= 0 - lim[id].cap

\* bookkeeping of `spent` for a round (lim -> lim')
SpentAfter(in) == [id \in DOMAIN lim' |->
   IF id \notin DOMAIN lim \/ lim[id].cap # lim'[id].cap THEN 0
   ELSE IF id \notin TouchedIds THEN spent[id]
   ELSE IF lim'[id].tok > 0 /\ Usage(in, id) >= 100 THEN spent[id] + (Usage(in, id) - 100) * (now - lim[id].lu)
   ELSE 0]

(***************************************************************************)
(* 4. environment and next-state relation                                  *)
(***************************************************************************)
NoCtr == [has |-> FALSE, id |-> "", limit |-> 0, running |-> FALSE]
NoAnn == [policy |-> "", bp |-> Absent, qp |-> Absent, ps |-> Absent]
NoPod(st) == [st |-> st, burstable |-> FALSE, active |-> FALSE, qos |-> "", req |-> 0, ann |-> NoAnn, ctr |-> [k \in CSet |-> NoCtr]]
ZeroFiles == [p \in PNames |-> [k \in FK |-> 0]]
NoCache == [p \in PNames |-> [k \in FK |-> None]]

InitWith(c) == /\ cfg = c
               /\ pods = [p \in PNames |-> NoPod("future")]
               /\ fq = ZeroFiles /\ fb = ZeroFiles /\ kq = NoCache /\ kb = NoCache
               /\ lim = <<>> /\ spent = <<>> /\ now = 0
               /\ step = [op |-> "init"]

\* kubelet's values for a pod: container = base quota, pod = sum of them (or -1 if a container is unlimited)
KubeletPodQuota(ctr) == IF \E k \in CSet : ctr[k].has /\ ctr[k].limit <= 0 THEN -1
                        ELSE LET RECURSIVE Sum(_)
                                 Sum(T) == IF T = {} THEN 0 ELSE LET x == CHOOSE x \in T : TRUE IN Base(ctr[x].limit) + Sum(T \ {x})
                             IN Sum({k \in CSet : ctr[k].has})

\* a pod appears (q = the quota files as they are then: kubelet's, or what an earlier agent life left)
AddPod(p, rec, q) == /\ pods[p].st = "future"
                     /\ pods' = [pods EXCEPT ![p] = rec]
                     /\ fq' = [fq EXCEPT ![p] = q]
                     /\ step' = [op |-> "addPod"]
                     /\ UNCHANGED <<cfg, fb, kq, kb, lim, now, spent>>
DelPod(p) == /\ pods[p].st = "present"
             /\ pods' = [pods EXCEPT ![p] = NoPod("gone")]
             /\ step' = [op |-> "delPod"]
             /\ UNCHANGED <<cfg, fq, fb, kq, kb, lim, now, spent>>
SetCfg(c) == /\ cfg' = c /\ step' = [op |-> "cfg"]
             /\ UNCHANGED <<pods, fq, fb, kq, kb, lim, now, spent>>
SetAnn(p, a) == /\ pods[p].st = "present"
                /\ pods' = [pods EXCEPT ![p].ann = a] /\ step' = [op |-> "ann"]
                /\ UNCHANGED <<cfg, fq, fb, kq, kb, lim, now, spent>>
SetRunning(p, k, r) == /\ pods[p].st = "present" /\ pods[p].ctr[k].has
                       /\ pods' = [pods EXCEPT ![p].ctr[k].running = r] /\ step' = [op |-> "running"]
                       /\ UNCHANGED <<cfg, fq, fb, kq, kb, lim, now, spent>>
\* a container is restarted: new id, new cgroup directory with kubelet's quota (the pod-level files stay as they are)
RestartCtr(p, k, id) == /\ pods[p].st = "present" /\ pods[p].ctr[k].has
                        /\ pods' = [pods EXCEPT ![p].ctr[k].id = id, ![p].ctr[k].running = TRUE]
                        /\ fq' = [fq EXCEPT ![p][k] = Base(pods[p].ctr[k].limit)]
                        /\ fb' = [fb EXCEPT ![p][k] = 0]
                        /\ kq' = [kq EXCEPT ![p][k] = None] /\ kb' = [kb EXCEPT ![p][k] = None]
                        /\ step' = [op |-> "restartCtr"]
                        /\ UNCHANGED <<cfg, lim, now, spent>>
\* in-place resize by kubelet (limited -> limited): the container's file gets its new base, the pod's file the new sum
Resize(p, k, m) == /\ pods[p].st = "present" /\ pods[p].ctr[k].has /\ pods[p].ctr[k].limit > 0 /\ m > 0
                   /\ pods' = [pods EXCEPT ![p].ctr[k].limit = m]
                   /\ fq' = [fq EXCEPT ![p][k] = Base(m),
                                       ![p]["pod"] = IF @ <= 0 THEN @ ELSE KubeletPodQuota(pods'[p].ctr)]
                   /\ step' = [op |-> "resize"]
                   /\ UNCHANGED <<cfg, fb, kq, kb, lim, now, spent>>
Tick(d) == /\ now' = now + d /\ step' = [op |-> "tick"]
           /\ UNCHANGED <<cfg, pods, fq, fb, kq, kb, lim, spent>>
\* the agent restarts: limiters and the executor's cache are gone
Restart == /\ lim' = <<>> /\ spent' = <<>> /\ kq' = NoCache /\ kb' = NoCache /\ step' = [op |-> "restart"]
           /\ UNCHANGED <<cfg, pods, fq, fb, now>>
\* the executor's cache entries expire (2 min) / are overridden by the forced rewrite (60 s)
Expire == /\ kq' = NoCache /\ kb' = NoCache /\ step' = [op |-> "expire"]
          /\ UNCHANGED <<cfg, pods, fq, fb, lim, now, spent>>

Round(in) == LET w == RoundResult(in) IN
             \E S \in KeepSets(w.lim) :
               /\ fq' = w.fq /\ fb' = w.fb /\ kq' = w.kq /\ kb' = w.kb
               /\ lim' = Restrict(w.lim, S)
               /\ step' = [op |-> "round", in |-> in, ws |-> w.ws]
               /\ spent' = SpentAfter(in)
               /\ UNCHANGED <<cfg, pods, now>>
=============================================================================
