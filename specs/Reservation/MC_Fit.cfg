\* (F) on the model: the full small grid of (allocatable, reserved, allocated, preemptible, request), absent keys included
SPECIFICATION Spec
CONSTANTS
  Q = 3
INVARIANT ModelOK
