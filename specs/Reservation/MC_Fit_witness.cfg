\* non-vacuity of MC_Fit (not part of the pipeline): both invariants must be VIOLATED
SPECIFICATION Spec
CONSTANTS
  Q = 3
INVARIANT NeverFits
INVARIANT NeverRefuses
