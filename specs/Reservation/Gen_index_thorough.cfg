\* as Gen_index, one operation deeper
SPECIFICATION Spec
CONSTANTS
  Nodes = {"n1", "n2"}
  Uids = {"r1"}
  Pods = {"p1", "p2"}
  RSpecs <- IndexSpecs
  Reqs <- ReqsI
  PodAttr <- PA2
  TermPhases = {"Failed"}
  TermVals = {FALSE, TRUE}
  DeadVals = {FALSE, TRUE}
  FixLedger = TRUE
  FixNominate = TRUE
  FixOrphan = TRUE
  AllowMigrate = FALSE
  Recording = TRUE
  K = 6
VIEW MCView
CONSTRAINT GenBound
INVARIANT GenPrint
CHECK_DEADLOCK FALSE
