\* the code as shipped: UpdateReservation masks the allocated amounts instead of recomputing them -> InvL fails
SPECIFICATION Spec
CONSTANTS
  Nodes = {"n1"}
  Uids = {"r1"}
  Pods = {"p1", "p2"}
  RSpecs <- LedgerSpecs1
  Reqs <- ReqsL
  PodAttr <- PA2
  TermPhases = {"Failed"}
  TermVals = {FALSE, TRUE}
  DeadVals = {FALSE, TRUE}
  FixLedger = FALSE
  FixNominate = TRUE
  FixOrphan = TRUE
  AllowMigrate = FALSE
  Recording = FALSE
  K = 0
VIEW MCView
INVARIANT TypeOK
INVARIANT InvL
INVARIANT InvR
INVARIANT InvX1
INVARIANT InvX2
INVARIANT InvO
INVARIANT InvM
