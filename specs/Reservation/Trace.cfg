SPECIFICATION TraceSpec
\* (L) (X1) (X2) are conjoined to every trace action (ObsHolds), (F) (M) (O) to the query actions;
\* a segment whose event cannot be explained never reaches SegDone (= rejected)
CONSTRAINT TypeOK
CONSTRAINT Report
CHECK_DEADLOCK FALSE
