\* (X1) (X2) (O): two nodes, two reservations (allocate-once or not), one pod, with deletion timestamps and completed pods
SPECIFICATION Spec
CONSTANTS
  Nodes = {"n1", "n2"}
  Uids = {"r1", "r2"}
  Pods = {"p1"}
  RSpecs <- IndexSpecs
  Reqs <- ReqsI
  PodAttr <- PA2
  TermPhases = {"Failed"}
  TermVals = {FALSE, TRUE}
  DeadVals = {FALSE, TRUE}
  FixLedger = TRUE
  FixNominate = TRUE
  FixOrphan = TRUE
  AllowMigrate = FALSE
  Recording = FALSE
  K = 0
VIEW MCView
INVARIANT TypeOK
INVARIANT InvL
INVARIANT InvR
INVARIANT InvX1
INVARIANT InvX2
INVARIANT InvO
INVARIANT InvM
