\* witness histories of the ledger model (reserved dimension set changes under assigned pods)
SPECIFICATION Spec
CONSTANTS
  Nodes = {"n1"}
  Uids = {"r1"}
  Pods = {"p1", "p2"}
  RSpecs <- LedgerSpecs1
  Reqs <- ReqsL
  PodAttr <- PA2
  TermPhases = {"Failed"}
  TermVals = {FALSE}
  DeadVals = {FALSE}
  FixLedger = TRUE
  FixNominate = TRUE
  FixOrphan = TRUE
  AllowMigrate = FALSE
  Recording = TRUE
  K = 5
VIEW MCView
CONSTRAINT GenBound
INVARIANT GenPrint
CHECK_DEADLOCK FALSE
