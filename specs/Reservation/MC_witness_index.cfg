\* non-vacuity (not part of the pipeline; run with -continue): every invariant below must be VIOLATED
SPECIFICATION Spec
CONSTANTS
  Nodes = {"n1", "n2"}
  Uids = {"r1"}
  Pods = {"p1", "p2"}
  RSpecs <- IndexSpecs
  Reqs <- ReqsI
  PodAttr <- PA2
  TermPhases = {"Failed"}
  TermVals = {FALSE, TRUE}
  DeadVals = {FALSE, TRUE}
  FixLedger = TRUE
  FixNominate = TRUE
  FixOrphan = TRUE
  AllowMigrate = FALSE
  Recording = FALSE
  K = 0
VIEW MCView
INVARIANT NeverOnceBusyMatchable
INVARIANT NeverTwoPods
INVARIANT NeverStaleNodeDelete
