--------------------------- MODULE MC_Reservation ---------------------------
(***************************************************************************)
(* Decide C05 on the model, and generate behaviours for the real code.     *)
(*                                                                         *)
(* Three layers run in lock step:                                          *)
(*  environment  the API server's reservation / pod objects and the        *)
(*               scheduler's in-flight binding cycles: it only produces    *)
(*               histories the informer and the scheduler can deliver      *)
(*  abstract     res / assigned of module Reservation (what each entry     *)
(*               point MEANS)                                              *)
(*  cache        a transcription of HOW reservationCache / ReservationInfo *)
(*               keep the ledger (add, masked subtract, mask on update)    *)
(*               and the three per-node indexes, and of the match /        *)
(*               nominate code that reads them                             *)
(* Invariants = the property-level predicates of Reservation evaluated on  *)
(* the cache layer: InvL InvX1 InvX2 InvO InvM.                            *)
(*                                                                         *)
(* FixLedger / FixNominate / FixOrphan select the repaired behaviour       *)
(* (TRUE) or the behaviour of the code as shipped (FALSE) for the three    *)
(* places where the shipped code breaks the property; MC_bug_*.cfg show    *)
(* the model-level counterexamples, the registered configurations use TRUE.*)
(* FixOrphan: the cache remembers (orphanPods) a bound pod delivered       *)
(* before the reservation it is annotated with and hands it to the         *)
(* ReservationInfo when updateReservation creates it; as shipped the pod   *)
(* was dropped and the reservation reported nothing allocated (C19).       *)
(***************************************************************************)
EXTENDS Reservation, Json, SequencesExt

CONSTANTS Nodes, Uids, Pods,
          RSpecs,        \* menu of reservation specs [policy, once, alloc, ropts, reserved, owners, bad]
          Reqs,          \* menu of pod requests
          PodAttr,       \* pod -> [ns, app, ctrl]
          TermPhases,    \* terminal phases explored
          TermVals, DeadVals,   \* deletion-timestamp / completed-pod flags explored (BOOLEAN or {FALSE})
          FixLedger, FixNominate, FixOrphan,
          AllowMigrate,  \* extended multi-scheduler transition: an available reservation re-bound to another node
          Recording, K   \* Gen: record the operations in hist / bound on its length

VARIABLES api,      \* uid -> reservation object held by the API server
          asm,      \* uid -> node : reserve pod assumed, binding cycle pending
          papi,     \* pod -> pod object [pnode, ra, req, dead]
          pasm,     \* pod -> uid  : owner pod assumed on a reservation, binding cycle pending
          cinfo,    \* cache: uid -> [o, names, allocd, pods]
          orph,     \* cache: uid -> (pod -> request)  orphanPods: pods seen before their reservation
          onNode, matchable, allocIdx,   \* cache: node -> set of uids
          hist
evars == <<api, asm, papi, pasm>>
cvars == <<cinfo, orph, onNode, matchable, allocIdx>>
mvars == <<vars, evars, cvars>>

D3 == {"cpu", "memory", "pods"}
Mask(v, names) == [d \in D3 |-> IF d \in names THEN Val(v, d) ELSE 0]
AddV(a, b)  == [d \in D3 |-> a[d] + b[d]]
SubNN(a, b) == [d \in D3 |-> Max2(0, a[d] - b[d])]
ZeroV == [d \in D3 |-> 0]
Recompute(pods, names) == [d \in D3 |-> IF d \in names THEN SumOver(DOMAIN pods, LAMBDA p : Val(pods[p], d)) ELSE 0]

Obj(s, node, phase, term) == [node |-> node, phase |-> phase, policy |-> s.policy, once |-> s.once, term |-> term,
                              alloc |-> s.alloc, ropts |-> s.ropts, reserved |-> s.reserved, owners |-> s.owners, bad |-> s.bad]
WithSpec(o, s) == Obj(s, o.node, o.phase, o.term)

(******************************* the cache **********************************)
CC == [cinfo |-> cinfo, orph |-> orph, onNode |-> onNode, matchable |-> matchable, allocIdx |-> allocIdx]
CBecomes(C) == cinfo' = C.cinfo /\ orph' = C.orph /\ onNode' = C.onNode /\ matchable' = C.matchable /\ allocIdx' = C.allocIdx

\* ReservationInfo.IsMatchable
IsMatchable(i) == /\ i.o.node # "" /\ i.o.phase = "Available"
                  /\ ~i.o.bad
                  /\ ~(i.o.once /\ DOMAIN i.pods # {})
NewInfo(o) == [o |-> o, names |-> Names(o), allocd |-> ZeroV, pods |-> <<>>]
\* updateReservation creating the info: AddAssignedPod for every orphan pod (masked adds, in any order = the sum)
Orphans(C, u) == IF u \in DOMAIN C.orph THEN C.orph[u] ELSE <<>>
NewInfoAdopting(o, pods) == [o |-> o, names |-> Names(o), allocd |-> Recompute(pods, Names(o)), pods |-> pods]
\* forgetOrphanPod
ForgetOrphan(C, u, p) ==
    IF u \in DOMAIN C.orph
    THEN LET rest == Without(C.orph[u], p)
         IN [C EXCEPT !.orph = IF DOMAIN rest = {} THEN Without(@, u) ELSE WithKey(@, u, rest)]
    ELSE C
\* ReservationInfo.UpdateReservation: the shipped code masks the old amounts with the new dimension set
UpdInfo(i, o) == [o |-> o, names |-> Names(o), pods |-> i.pods,
                  allocd |-> IF FixLedger THEN Recompute(i.pods, Names(o)) ELSE Mask(i.allocd, Names(o))]

\* the "refresh matchable and allocated" block, keyed by the node of the PASSED object
Refresh(C, u, n) ==
    IF n = "" THEN C
    ELSE IF IsMatchable(C.cinfo[u])
         THEN [C EXCEPT !.matchable[n] = @ \cup {u},
                        !.allocIdx[n] = IF DOMAIN C.cinfo[u].pods # {} THEN @ \cup {u} ELSE @ \ {u}]
         ELSE [C EXCEPT !.matchable[n] = @ \ {u}, !.allocIdx[n] = @ \ {u}]
cUpsert(C, u, o) ==
    LET i  == IF u \in DOMAIN C.cinfo THEN UpdInfo(C.cinfo[u], o)
              ELSE IF FixOrphan THEN NewInfoAdopting(o, Orphans(C, u)) ELSE NewInfo(o)
        C1 == [C EXCEPT !.cinfo = WithKey(@, u, i), !.orph = IF u \in DOMAIN C.cinfo THEN @ ELSE Without(@, u)]
        C2 == IF o.node # "" THEN [C1 EXCEPT !.onNode[o.node] = @ \cup {u}] ELSE C1
    IN Refresh(C2, u, o.node)
cIfExists(C, u, o) == IF u \in DOMAIN C.cinfo THEN Refresh([C EXCEPT !.cinfo[u] = UpdInfo(@, o)], u, o.node) ELSE C
\* DeleteReservation cleans the indexes of the node named by the PASSED object
cDelete(C, u, n) == LET C1 == [C EXCEPT !.cinfo = Without(@, u)]
                    IN IF n = "" THEN C1
                       ELSE [C1 EXCEPT !.onNode[n] = @ \ {u}, !.matchable[n] = @ \ {u}, !.allocIdx[n] = @ \ {u}]
\* AddAssignedPod + the "update allocated cache" block
AddPod(C, u, p, req) ==
    LET i  == C.cinfo[u]
        i2 == IF p \in DOMAIN i.pods THEN i
              ELSE [i EXCEPT !.allocd = AddV(@, Mask(req, i.names)), !.pods = WithKey(@, p, req)]
        C1 == [C EXCEPT !.cinfo[u] = i2]
        n  == i2.o.node
    IN IF IsMatchable(i2) /\ DOMAIN i2.pods # {} /\ n # "" THEN [C1 EXCEPT !.allocIdx[n] = @ \cup {u}] ELSE C1
\* RemoveAssignedPod (masked, clamped subtraction) + index block
RemovePod(C, u, p) ==
    LET i  == C.cinfo[u]
        i2 == IF p \in DOMAIN i.pods
              THEN [i EXCEPT !.allocd = SubNN(@, Mask(i.pods[p], i.names)), !.pods = Without(@, p)] ELSE i
        C1 == [C EXCEPT !.cinfo[u] = i2]
        n  == i2.o.node
    IN IF DOMAIN i2.pods = {} /\ n # "" THEN [C1 EXCEPT !.allocIdx[n] = @ \ {u}] ELSE C1
cAddPods(C, u, p, req) == AddPod(C, u, p, req)                                     \* caller checks known / terminating
cDeletePods(C, u, p)   == LET C0 == ForgetOrphan(C, u, p) IN IF u \in DOMAIN C0.cinfo THEN RemovePod(C0, u, p) ELSE C0
\* (the old object is removed by ITS uid, the new one added by its own: they differ when the update replaces a pod)
cUpdatePod(C, oldU, newU, hasOld, oldP, p, req) ==
    LET C1 == IF hasOld /\ oldU \in DOMAIN C.cinfo THEN RemovePod(C, oldU, oldP) ELSE C
        C2 == IF hasOld THEN ForgetOrphan(C1, oldU, oldP) ELSE C1
    IN IF newU \in DOMAIN C2.cinfo THEN AddPod(C2, newU, p, req)
       ELSE IF newU # "" /\ FixOrphan THEN [C2 EXCEPT !.orph = WithKey(@, newU, WithKey(Orphans(C2, newU), p, req))]
       ELSE C2

\* the plugin's informer handlers
hROnAdd(C, u, o)    == IF Active(o) THEN cUpsert(C, u, o) ELSE C
hROnUpdate(C, u, o) == IF Active(o) THEN cUpsert(C, u, o) ELSE IF Terminated(o) THEN cIfExists(C, u, o) ELSE C
hROnDelete(C, u, o) == cIfExists(C, u, IF o.node # "" /\ o.phase = "Available" THEN [o EXCEPT !.phase = "Failed"] ELSE o)
hPodGone(C, po) == IF po.ra # "" THEN cDeletePods(C, po.ra, po.pod) ELSE C
\* (terminated branch: when the update replaces the pod by a re-created one, the old pod is released too)
hPodSet(C, hasOld, old, new) ==
    IF new.dead THEN hPodGone(IF hasOld /\ old.pod # new.pod /\ old.pnode # "" THEN hPodGone(C, old) ELSE C, new)
    ELSE IF new.pnode = "" THEN (IF hasOld /\ old.pnode # "" THEN hPodGone(C, old) ELSE C)
    ELSE IF (hasOld /\ old.ra # "") \/ new.ra # ""
         THEN cUpdatePod(C, IF hasOld THEN old.ra ELSE "", new.ra, hasOld, old.pod, new.pod, new.req) ELSE C

\* match (BeforePreFilter walks matchableOnNode) and nominate (NominateReservation)
QPod(p) == [pod |-> p, name |-> p, ns |-> PodAttr[p].ns, app |-> PodAttr[p].app, ctrl |-> PodAttr[p].ctrl]
AffOK(aff, u) == aff \in {"", "sel"} \/ aff = u          \* aff = a uid: affinity by reservation name
MatchSet(p, n, aff) == {u \in matchable[n] \cap DOMAIN cinfo : OwnerSat(cinfo[u].o, QPod(p)) /\ AffOK(aff, u)}
OnceGate(u) == cinfo[u].o.once /\ DOMAIN cinfo[u].pods # {}                        \* FilterNominateReservation
NominateSet(p, n, aff) ==
    LET M == MatchSet(p, n, aff)
    IN IF Cardinality(M) = 1 /\ aff # "" /\ ~FixNominate THEN M     \* single match + affinity: returned unfiltered
       ELSE {u \in M : ~OnceGate(u)}                               \* (the resource gates only remove candidates)

(**************************** environment steps *****************************)
Emit(evs) == hist' = IF Recording THEN hist \o evs ELSE hist
REv(op, u, o) == [op |-> op, r |-> u, node |-> o.node, phase |-> o.phase, policy |-> o.policy, once |-> o.once,
                  term |-> o.term, alloc |-> o.alloc, ropts |-> o.ropts, reserved |-> o.reserved,
                  owners |-> o.owners, bad |-> o.bad]
PFields(p, po) == [pod |-> p, ns |-> PodAttr[p].ns, app |-> PodAttr[p].app, ctrl |-> PodAttr[p].ctrl,
                   pnode |-> po.pnode, ra |-> po.ra, req |-> po.req, dead |-> po.dead]
PEv(op, p, po) == [op |-> op] @@ PFields(p, po)
PEvR(op, u, p, po) == [op |-> op, r |-> u] @@ PFields(p, po)
PUpd(p, old, new) == [op |-> "podUpdate", old |-> PFields(p, old)] @@ PFields(p, new)
PO(p, po) == [pod |-> p, pnode |-> po.pnode, ra |-> po.ra, req |-> po.req, dead |-> po.dead]

\* both layers take the step
Both(S, C) == Becomes(S) /\ CBecomes(C)

\* a reservation is created (pending: nothing reaches the cache) or first seen already available
ApiCreate(u, s) == /\ u \notin DOMAIN api /\ u \notin DOMAIN asm
                   /\ api' = WithKey(api, u, Obj(s, "", "Pending", FALSE))
                   /\ Both(ROnAddF(Cur, u, api'[u]), hROnAdd(CC, u, api'[u]))
                   /\ Emit(<<REv("rAdd", u, api'[u])>>) /\ UNCHANGED <<asm, papi, pasm>>
ApiCreateAvail(u, s, n) == /\ u \notin DOMAIN api /\ u \notin DOMAIN asm
                           /\ api' = WithKey(api, u, Obj(s, n, "Available", FALSE))
                           /\ Both(ROnAddF(Cur, u, api'[u]), hROnAdd(CC, u, api'[u]))
                           /\ Emit(<<REv("rAdd", u, api'[u])>>) /\ UNCHANGED <<asm, papi, pasm>>
\* Reserve of the reserve pod, then the binding cycle ends one way or the other
SchedAssume(u, n) == /\ u \in DOMAIN api /\ api[u].phase = "Pending" /\ u \notin DOMAIN asm
                     /\ LET o == [api[u] EXCEPT !.node = n]
                        IN Both(UpsertF(Cur, u, o), cUpsert(CC, u, o)) /\ Emit(<<REv("rAssume", u, o)>>)
                     /\ asm' = WithKey(asm, u, n) /\ UNCHANGED <<api, papi, pasm>>
BindOK(u) == /\ u \in DOMAIN asm /\ u \in DOMAIN api /\ api[u].phase = "Pending"
             /\ api' = [api EXCEPT ![u].phase = "Available", ![u].node = asm[u]]
             /\ Both(ROnUpdateF(Cur, u, api'[u]), hROnUpdate(CC, u, api'[u]))
             /\ Emit(<<REv("rUpdate", u, api'[u])>>)
             /\ asm' = Without(asm, u) /\ UNCHANGED <<papi, pasm>>
BindFail(u, s) == /\ u \in DOMAIN asm
                  /\ LET o == IF u \in DOMAIN api THEN [api[u] EXCEPT !.node = asm[u]] ELSE Obj(s, asm[u], "Pending", FALSE)
                     IN Both(DeleteF(Cur, u), cDelete(CC, u, asm[u])) /\ Emit(<<REv("rForget", u, o)>>)
                  /\ asm' = Without(asm, u) /\ UNCHANGED <<api, papi, pasm>>
\* spec / annotation / status.allocatable edited, deletion timestamp set, resync
ApiEdit(u, s, term) == /\ u \in DOMAIN api /\ (api[u].term => term)
                       /\ api' = [api EXCEPT ![u] = [WithSpec(@, s) EXCEPT !.term = term]]
                       /\ Both(ROnUpdateF(Cur, u, api'[u]), hROnUpdate(CC, u, api'[u]))
                       /\ Emit(<<REv("rUpdate", u, api'[u])>>) /\ UNCHANGED <<asm, papi, pasm>>
\* the plugin's handler and the scheduler-wide handler (which calls DeleteReservation with the OLD object) are two
\* listeners of one informer: per event they run in either order
TwoListeners(u, new, old, gdel, pluginF(_, _, _), pluginC(_, _, _), opname) ==
    \/ /\ Both(IF gdel THEN DeleteF(pluginF(Cur, u, new), u) ELSE pluginF(Cur, u, new),
               IF gdel THEN cDelete(pluginC(CC, u, new), u, old.node) ELSE pluginC(CC, u, new))
       /\ Emit(IF gdel THEN <<REv(opname, u, new), REv("rCacheDelete", u, old)>> ELSE <<REv(opname, u, new)>>)
    \/ /\ gdel
       /\ Both(pluginF(DeleteF(Cur, u), u, new), pluginC(cDelete(CC, u, old.node), u, new))
       /\ Emit(<<REv("rCacheDelete", u, old), REv(opname, u, new)>>)
ApiTerminate(u, ph) == /\ u \in DOMAIN api /\ api[u].phase \in {"Pending", "Available"}
                       /\ api' = [api EXCEPT ![u].phase = ph]
                       /\ TwoListeners(u, api'[u], api[u], api[u].phase = "Available", ROnUpdateF, hROnUpdate, "rUpdate")
                       /\ UNCHANGED <<asm, papi, pasm>>
ApiDelete(u) == /\ u \in DOMAIN api
                /\ api' = Without(api, u)
                /\ TwoListeners(u, api[u], api[u], api[u].node # "", ROnDeleteF, hROnDelete, "rDelete")
                /\ UNCHANGED <<asm, papi, pasm>>
ApiMigrate(u, n) == /\ AllowMigrate /\ u \in DOMAIN api /\ api[u].phase = "Available" /\ api[u].node # n
                    /\ api' = [api EXCEPT ![u].node = n]
                    /\ TwoListeners(u, api'[u], api[u], TRUE, ROnUpdateF, hROnUpdate, "rUpdate")
                    /\ UNCHANGED <<asm, papi, pasm>>

\* pods: created pending, or first seen bound (other scheduler / restart) maybe holding a reservation
PodCreate(p, req, n, ra) == /\ p \notin DOMAIN papi /\ p \notin DOMAIN pasm
                            /\ n = "" => ra = ""
                            /\ papi' = WithKey(papi, p, [pnode |-> n, ra |-> ra, req |-> req, dead |-> FALSE])
                            /\ Both(PodSetF(Cur, FALSE, PO(p, papi'[p]), PO(p, papi'[p])), hPodSet(CC, FALSE, PO(p, papi'[p]), PO(p, papi'[p])))
                            /\ Emit(<<PEv("podAdd", p, papi'[p])>>) /\ UNCHANGED <<api, asm, pasm>>
\* Reserve of an owner pod on a reservation the cache accepts (known, not terminating)
Assume(p, u) == /\ p \in DOMAIN papi /\ papi[p].pnode = "" /\ ~papi[p].dead /\ p \notin DOMAIN pasm
                /\ u \in DOMAIN cinfo /\ ~cinfo[u].o.term
                /\ Both(AssignF(Cur, u, p, papi[p].req), cAddPods(CC, u, p, papi[p].req))
                /\ Emit(<<PEvR("assume", u, p, papi[p])>>)
                /\ pasm' = WithKey(pasm, p, u) /\ UNCHANGED <<api, asm, papi>>
NodeOfR(u) == IF u \in DOMAIN cinfo /\ cinfo[u].o.node # "" THEN cinfo[u].o.node ELSE CHOOSE n \in Nodes : TRUE
PBindOK(p) == /\ p \in DOMAIN pasm /\ p \in DOMAIN papi
              /\ papi' = [papi EXCEPT ![p].pnode = NodeOfR(pasm[p]), ![p].ra = pasm[p]]
              /\ Both(PodSetF(Cur, TRUE, PO(p, papi[p]), PO(p, papi'[p])), hPodSet(CC, TRUE, PO(p, papi[p]), PO(p, papi'[p])))
              /\ Emit(<<PUpd(p, papi[p], papi'[p])>>)
              /\ pasm' = Without(pasm, p) /\ UNCHANGED <<api, asm>>
PBindFail(p, req) == /\ p \in DOMAIN pasm
                     /\ LET po == IF p \in DOMAIN papi THEN papi[p] ELSE [pnode |-> "", ra |-> "", req |-> req, dead |-> FALSE]
                        IN Both(UnassignF(Cur, pasm[p], p), cDeletePods(CC, pasm[p], p)) /\ Emit(<<PEvR("forget", pasm[p], p, po)>>)
                     /\ pasm' = Without(pasm, p) /\ UNCHANGED <<api, asm, papi>>
\* bound pod: resize, annotation re-pointed, completes, resync
PodEdit(p, req, ra, dead) == /\ p \in DOMAIN papi /\ papi[p].pnode # "" /\ (papi[p].dead => dead)
                             /\ papi' = [papi EXCEPT ![p].req = req, ![p].ra = ra, ![p].dead = dead]
                             /\ Both(PodSetF(Cur, TRUE, PO(p, papi[p]), PO(p, papi'[p])), hPodSet(CC, TRUE, PO(p, papi[p]), PO(p, papi'[p])))
                             /\ Emit(<<PUpd(p, papi[p], papi'[p])>>) /\ UNCHANGED <<api, asm, pasm>>
\* a bound pod is deleted and re-created (bound; running or already terminated) and a re-list merges both into ONE update
\* event whose old and new objects are different pods; the cache keys on uids only, so the re-created pod is simply
\* another pod id here
PodReplace(p, q, req, ra, dead) ==
                             /\ p \in DOMAIN papi /\ papi[p].pnode # "" /\ ~papi[p].dead
                             /\ q # p /\ q \notin DOMAIN papi /\ q \notin DOMAIN pasm
                             /\ LET new == [pnode |-> papi[p].pnode, ra |-> ra, req |-> req, dead |-> dead]
                                IN /\ papi' = WithKey(Without(papi, p), q, new)
                                   /\ Both(PodSetF(Cur, TRUE, PO(p, papi[p]), PO(q, new)), hPodSet(CC, TRUE, PO(p, papi[p]), PO(q, new)))
                                   /\ Emit(<<[op |-> "podUpdate", old |-> PFields(p, papi[p])] @@ PFields(q, new)>>)
                             /\ UNCHANGED <<api, asm, pasm>>
PodDelete(p) == /\ p \in DOMAIN papi
                /\ papi' = Without(papi, p)
                /\ Both(PodGoneF(Cur, PO(p, papi[p])), hPodGone(CC, PO(p, papi[p])))
                /\ Emit(<<PEv("podDelete", p, papi[p])>>) /\ UNCHANGED <<api, asm, pasm>>

Init0 == /\ Init /\ api = <<>> /\ asm = <<>> /\ papi = <<>> /\ pasm = <<>>
         /\ cinfo = <<>> /\ orph = <<>> /\ onNode = [n \in Nodes |-> {}] /\ matchable = [n \in Nodes |-> {}] /\ allocIdx = [n \in Nodes |-> {}]
         /\ hist = <<[op |-> "reset"]>>
NextR == \E u \in Uids :
            \/ \E s \in RSpecs : \/ ApiCreate(u, s)
                                  \/ BindFail(u, s)
                                  \/ \E n \in Nodes : ApiCreateAvail(u, s, n)
                                  \/ \E t \in TermVals : ApiEdit(u, s, t)
            \/ \E n2 \in Nodes : SchedAssume(u, n2) \/ ApiMigrate(u, n2)
            \/ BindOK(u)
            \/ ApiDelete(u)
            \/ \E ph \in TermPhases : ApiTerminate(u, ph)
NextP == \E p \in Pods :
            \/ \E req \in Reqs : \/ PBindFail(p, req)
                                  \/ \E n \in Nodes \cup {""}, ra \in Uids \cup {""} : PodCreate(p, req, n, ra)
                                  \/ \E ra2 \in Uids \cup {""}, dead \in DeadVals : PodEdit(p, req, ra2, dead)
                                  \/ \E q \in Pods, ra3 \in Uids \cup {""}, dead3 \in BOOLEAN : PodReplace(p, q, req, ra3, dead3)
            \/ \E u \in Uids : Assume(p, u)
            \/ PBindOK(p)
            \/ PodDelete(p)
Next == NextR \/ NextP
Spec == Init0 /\ [][Next]_<<mvars, hist>>


(********************************** menus ***********************************)
Own(sel, obj, ctrl) == [sel |-> sel, obj |-> obj, objNs |-> "", ctrl |-> ctrl, ctrlNs |-> ""]
OwnCtrlNs(ctrl, ns) == [Own("", "", ctrl) EXCEPT !.ctrlNs = ns]      \* a controller of ONE namespace
Anyone == <<Own("", "", "")>>
SpecOf(policy, once, alloc, ropts, reserved, owners, bad) ==
    [policy |-> policy, once |-> once, alloc |-> alloc, ropts |-> ropts, reserved |-> reserved, owners |-> owners, bad |-> bad]
\* ledger: the reserved dimension set changes through status.allocatable, the restricted options and the policy
LedgerSpecs == {SpecOf(pol, FALSE, a, ro, <<>>, Anyone, FALSE) :
                   pol \in {"Aligned", "Restricted"}, a \in {[cpu |-> 2], [cpu |-> 2, memory |-> 2]}, ro \in {<<>>, <<"cpu">>}}
LedgerSpecs1 == {SpecOf("Restricted", FALSE, a, ro, <<>>, Anyone, FALSE) :
                   a \in {[cpu |-> 2], [cpu |-> 2, memory |-> 2]}, ro \in {<<>>, <<"cpu">>}}
\* indexes / allocate-once
IndexSpecs == {SpecOf("Aligned", once, [cpu |-> 2], <<>>, <<>>, Anyone, FALSE) : once \in BOOLEAN}
\* owners
MatchSpecs == {SpecOf("Aligned", FALSE, [cpu |-> 2], <<>>, <<>>, ow, FALSE) :
                   ow \in {<<Own("a", "", "")>>, <<Own("", "p2", "")>>, <<Own("b", "", "rs1")>>, <<>>,
                           <<OwnCtrlNs("rs1", "ns1")>>, <<OwnCtrlNs("rs1", "ns2")>>}}
              \cup {SpecOf("Aligned", FALSE, [cpu |-> 2], <<>>, <<>>, Anyone, TRUE),
                    SpecOf("Aligned", TRUE, [cpu |-> 2], <<>>, <<>>, <<Own("a", "", ""), Own("", "p2", "")>>, FALSE)}
MatchSpecsQ == {SpecOf("Aligned", FALSE, [cpu |-> 2], <<>>, <<>>, ow, FALSE) :
                    ow \in {<<Own("a", "", "")>>, <<Own("b", "", "rs1")>>, <<>>, <<OwnCtrlNs("rs1", "ns1")>>}}
               \cup {SpecOf("Aligned", TRUE, [cpu |-> 2], <<>>, <<>>, <<Own("a", "", ""), Own("", "p2", "")>>, FALSE)}
\* simulation: everything together, plus inner-reserved amounts and pod slots
SimSpecs == LedgerSpecs \cup IndexSpecs \cup MatchSpecs
            \cup {SpecOf("Restricted", once, [cpu |-> 3, memory |-> 1, pods |-> 2], ro, [cpu |-> 1], Anyone, FALSE) :
                      once \in BOOLEAN, ro \in {<<>>, <<"memory">>}}
ReqsS == {[cpu |-> 1, memory |-> 1], [cpu |-> 2], [memory |-> 3], [cpu |-> 0]}
PA2 == [p1 |-> [ns |-> "ns1", app |-> "a", ctrl |-> ""], p2 |-> [ns |-> "ns2", app |-> "b", ctrl |-> "rs1"]]
PA3 == [p1 |-> [ns |-> "ns1", app |-> "a", ctrl |-> ""], p2 |-> [ns |-> "ns2", app |-> "b", ctrl |-> "rs1"],
        p3 |-> [ns |-> "ns1", app |-> "a", ctrl |-> "rs1"]]
ReqsL == {[cpu |-> 1, memory |-> 1], [cpu |-> 2]}
ReqsI == {[cpu |-> 1]}

(******************************** invariants ********************************)
\* (L) the cache knows the reservations and assignments of the abstract state and reports the from-scratch sums
InvL == /\ DOMAIN cinfo = DOMAIN res
        /\ \A u \in DOMAIN cinfo : /\ DOMAIN cinfo[u].pods = DOMAIN assigned[u]
                                   /\ \A d \in D3 : cinfo[u].allocd[d] = FromScratch(Cur, u, d)
\* the pods the cache remembers for unknown reservations are the remembered pods of the abstract state
InvR == /\ DOMAIN orph = DOMAIN assigned \ DOMAIN res
        /\ \A u \in DOMAIN orph : /\ DOMAIN orph[u] = DOMAIN assigned[u]
                                  /\ \A p \in DOMAIN orph[u] : orph[u][p] = assigned[u][p]
InvX1 == NoDangling(Cur, onNode) /\ NoDangling(Cur, matchable) /\ NoDangling(Cur, allocIdx)
InvX2 == AllListed(Cur, onNode)
Affs == {"", "sel"} \cup Uids
InvO == \A p \in Pods, n \in Nodes, aff \in Affs : \A u \in NominateSet(p, n, aff) : ~OnceBusy(Cur, u, p)
InvM == \A p \in Pods, n \in Nodes, aff \in Affs : \A u \in MatchSet(p, n, aff) :
            u \in DOMAIN res /\ OwnerSat(res[u], QPod(p))
\* non-vacuity witnesses (checked to be REACHABLE by MC_witness.cfg: each must be violated)
NeverOnceBusyMatchable == ~\E u \in DOMAIN cinfo, n \in Nodes : u \in matchable[n] /\ cinfo[u].o.once /\ DOMAIN cinfo[u].pods # {}
NeverNamesNarrowed == ~\E u \in DOMAIN cinfo : cinfo[u].names # DOMAIN cinfo[u].o.alloc /\ DOMAIN cinfo[u].pods # {}
NeverStaleNodeDelete == ~\E u \in DOMAIN cinfo : cinfo[u].o.node = "" /\ \E n \in Nodes : u \in onNode[n]
NeverOwnerMismatch == ~\E u \in DOMAIN cinfo, n \in Nodes, p \in Pods : u \in matchable[n] /\ ~OwnerSat(cinfo[u].o, QPod(p))
NeverTwoPods == ~\E u \in DOMAIN cinfo : Cardinality(DOMAIN cinfo[u].pods) >= 2

(******************************** generation ********************************)
MCView == mvars
GenBound == Len(hist) <= K
\* every witness history ends with a battery of queries on the state it reached
DefReq == CHOOSE r \in Reqs : TRUE
QFields(p) == [pod |-> p, ns |-> PodAttr[p].ns, app |-> PodAttr[p].app, ctrl |-> PodAttr[p].ctrl,
               pnode |-> "", ra |-> "", req |-> DefReq, dead |-> FALSE]
AffStr(a) == IF a \in Uids THEN "name:" \o a ELSE a
Battery == LET noms == {[op |-> "nominate", aff |-> AffStr(a), node |-> n] @@ QFields(p) : p \in Pods, n \in Nodes, a \in Affs}
               fits == {[op |-> "fit", r |-> u, pre |-> pre] @@ [QFields(p) EXCEPT !.req = rq] :
                            u \in Uids, p \in {CHOOSE x \in Pods : TRUE}, rq \in Reqs, pre \in {<<>>} \cup Reqs}
           IN SetToSeq(noms) \o SetToSeq(fits)
\* BFS (VIEW MCView, CONSTRAINT GenBound): one witness per distinct model state within the bound - states beyond the
\* bound are not in the model and would be reported once per PATH, so they are not printed
GenPrint == Len(hist) <= K => PrintT(ToJson(hist \o Battery))
\* simulation: print complete histories only
GenPrintEnd == Len(hist) \in {K, K + 1} => PrintT(ToJson(hist \o Battery))
=============================================================================
