------------------------- MODULE ReservationTrace -------------------------
(* Trace validation for C05.  Every event is one call into the real code    *)
(* (reservationCache methods, reservation / pod event handlers, the fit /   *)
(* match / nominate code of the plugin) followed by the projection `obs` of *)
(* the real cache read under its lock:                                      *)
(*   obs.res[uid] = [alloc |-> reported Allocated per dimension,            *)
(*                   pods  |-> uids of the assigned pods, node]             *)
(*   obs.onNode / obs.matchable / obs.allocated : node -> uids (indexes)    *)
(* After EVERY operation the observation must satisfy (L) (X1) (X2); the    *)
(* answers of fit / match / nominate must satisfy (F) (M) (O).              *)
(* C19 (harness zz_verif_c19_test.go, TestVerifC19Reservation) adds the     *)
(* event `restart`: obs is then the projection of a FRESH cache rebuilt     *)
(* from the persisted objects only (TRestart).                              *)
EXTENDS Reservation, TraceCommon

ObsDims == {"cpu", "memory", "pods"}

RObj(e) == [node |-> e.node, phase |-> e.phase, policy |-> e.policy, once |-> e.once, term |-> e.term,
            alloc |-> e.alloc, ropts |-> e.ropts, reserved |-> e.reserved, owners |-> e.owners, bad |-> e.bad]
PObj(e) == [pod |-> e.pod, name |-> Get(e, "name", e.pod), ns |-> e.ns, app |-> e.app, ctrl |-> e.ctrl, pnode |-> e.pnode, ra |-> e.ra, req |-> e.req, dead |-> e.dead]

IdxOf(m) == [n \in DOMAIN m |-> SeqSet(m[n])]
AllIdx(o) == {IdxOf(o.onNode), IdxOf(o.matchable), IdxOf(o.allocated)}

\* what the specification expects of the observation in state S (explain mode prints it)
ExpectedObs(S) == [res |-> [u \in DOMAIN S.res |-> [alloc |-> [d \in ObsDims |-> FromScratch(S, u, d)],
                                                    pods |-> DOMAIN S.assigned[u]]]]

\* (L): the cache knows exactly the reservations of S, holds exactly the assigned pods of S, and reports for each
\*      reservation the from-scratch sum;  (X1) (X2) on the three logged indexes
ObsHolds(S, o) ==
    /\ DOMAIN o.res = DOMAIN S.res
    /\ \A u \in DOMAIN S.res :
          /\ SeqSet(o.res[u].pods) = DOMAIN S.assigned[u]
          /\ \A d \in ObsDims : o.res[u].alloc[d] = FromScratch(S, u, d)
    /\ \A idx \in AllIdx(o) : NoDangling(S, idx)
    /\ AllListed(S, IdxOf(o.onNode))

\* the operation turns the current state into S and the observation logged after it fits S
Step(S) == Becomes(S) /\ Expect(ObsHolds(S, Ev.obs), ExpectedObs(S))
\* a query changes nothing; its answer must satisfy `cond` (explain mode prints `answer`)
Query(cond, answer) == UNCHANGED vars /\ Expect(ObsHolds(Cur, Ev.obs) /\ cond, [res |-> ExpectedObs(Cur).res, answer |-> answer])

TRAdd    == IsEvent("rAdd")    /\ Step(ROnAddF(Cur, Ev.r, RObj(Ev)))
TRUpdate == IsEvent("rUpdate") /\ Step(ROnUpdateF(Cur, Ev.r, RObj(Ev)))
TRDelete == IsEvent("rDelete") /\ Step(ROnDeleteF(Cur, Ev.r, RObj(Ev)))
TRAssume == IsEvent("rAssume") /\ Step(UpsertF(Cur, Ev.r, RObj(Ev)))
TRForget == IsEvent("rForget") /\ Step(DeleteF(Cur, Ev.r))
TRCacheDelete == IsEvent("rCacheDelete") /\ Step(DeleteF(Cur, Ev.r))

\* Reserve of an owner pod: the cache may refuse (answer logged); when it accepts the pod is assigned
TAssume == IsEvent("assume") /\ (Ev.ok => Ev.r \in DOMAIN res)
                             /\ Step(IF Ev.ok THEN AssignF(Cur, Ev.r, Ev.pod, Ev.req) ELSE Cur)
TForget == IsEvent("forget") /\ Step(UnassignF(Cur, Ev.r, Ev.pod))

TPodAdd    == IsEvent("podAdd")    /\ Step(PodSetF(Cur, FALSE, PObj(Ev), PObj(Ev)))
TPodUpdate == IsEvent("podUpdate") /\ Step(PodSetF(Cur, TRUE, PObj(Ev.old), PObj(Ev)))
TPodDelete == IsEvent("podDelete") /\ Step(PodGoneF(Cur, PObj(Ev)))

\* (F): for a Restricted reservation the verdict of the fit check is exactly FitOK on the from-scratch sums
SumVec(S, u) == [d \in ObsDims |-> FromScratch(S, u, d)]
FitExpected(e) == FitOK(res[e.r], SumVec(Cur, e.r), Cardinality(DOMAIN assigned[e.r]), e.pre, e.req)
Restricted(e) == e.r \in DOMAIN res /\ res[e.r].policy = "Restricted"
TFit == /\ IsEvent("fit")
        /\ Ev.known = (Ev.r \in DOMAIN res)
        /\ Query(Restricted(Ev) => Ev.fits = FitExpected(Ev),
                 IF Restricted(Ev) THEN [fits |-> FitExpected(Ev)] ELSE [fits |-> "any"])

\* (M): every reservation matched to the pod is known and its owner specification is satisfied by the pod
MatchedOK(e) == \A n \in DOMAIN e.matched : \A u \in SeqSet(e.matched[n]) :
                    u \in DOMAIN res /\ OwnerSat(res[u], PObj(e))
TMatch == IsEvent("match") /\ Ev.ok /\ Query(MatchedOK(Ev), "matched: known reservations whose owners the pod satisfies")

\* (O) (M): the nominated reservation is known, is not an allocate-once reservation that already holds another
\*          pod, and its owner specification is satisfied by the pod
\* (F) at nomination: the nominated reservation is what Reserve assumes the pod on, so a pod is only nominated a
\*     Restricted reservation that has room for it in the state of the query (nothing is preempted on this path)
NominatedOK(e) == e.nominated # "" =>
                     /\ e.nominated \in DOMAIN res
                     /\ ~OnceBusy(Cur, e.nominated, e.pod)
                     /\ OwnerSat(res[e.nominated], PObj(e))
                     /\ res[e.nominated].policy = "Restricted" =>
                           FitOK(res[e.nominated], SumVec(Cur, e.nominated), Cardinality(DOMAIN assigned[e.nominated]), <<>>, e.req)
TNominate == IsEvent("nominate") /\ Ev.ok /\ Query(MatchedOK(Ev) /\ NominatedOK(Ev),
                   "nominated: known, owners satisfied, not an allocate-once reservation holding another pod, a Restricted one has room for the request")

(***************************** C19: restart *********************************)
\* The scheduler restarts.  What survives is what the API server holds.  An informer event delivers the current API
\* object, so the API server's copy of a reservation / pod is the object carried by the LAST informer event about it
\* in this segment (gone after rDelete / podDelete); Reserve / Unreserve (rAssume rForget assume forget) and the
\* cache-only deletion (rCacheDelete) never touch the API server.  These are read off the recorded history itself:
RInformer == {"rAdd", "rUpdate", "rDelete"}
PInformer == {"podAdd", "podUpdate", "podDelete"}
Past      == (seg + 1)..(l - 1)
LastOf(J) == CHOOSE j \in J : \A k \in J : k <= j
ApiRes  == LET J == {j \in Past : Trace[j].op \in RInformer}
               last(u) == LastOf({j \in J : Trace[j].r = u})
               U == {u \in {Trace[j].r : j \in J} : Trace[last(u)].op # "rDelete"}
           IN [u \in U |-> RObj(Trace[last(u)])]
\* (an update that replaces a pod by a re-created one - old.pod # pod - is the last word about the OLD pod too: it is gone)
ApiPods == LET J == {j \in Past : Trace[j].op \in PInformer}
               About(j) == IF Trace[j].op = "podUpdate" THEN {Trace[j].pod, Trace[j].old.pod} ELSE {Trace[j].pod}
               last(p) == LastOf({j \in J : p \in About(j)})
               P == {p \in UNION {About(j) : j \in J} : Trace[last(p)].op # "podDelete" /\ Trace[last(p)].pod = p}
           IN [p \in P |-> PObj(Trace[last(p)])]
\* The state a freshly started scheduler must hold, whatever the order in which its informers deliver the surviving
\* objects: the reservations that are usable according to their persisted status, each holding exactly the pods that
\* were BOUND with the assignment persisted on them (annotation written at pre-bind) and are still running; the bound,
\* running pods annotated with a reservation that is not usable (yet) are remembered for it, as in steady state.
\* Dropped, explicitly: reservations whose reserve pod was only assumed (status never written), assignments that
\* were only assumed (pod never bound), reservations the old scheduler merely kept as unusable until their removal.
\* Everything else is identical: (L) then demands allocated = sum over the persisted assigned pods in the reserved
\* dimensions - no reserved amount taken before the restart is free after it.
RestartF == LET R == ApiRes
                P == ApiPods
                K == {u \in DOMAIN R : Active(R[u])}
                H == {p \in DOMAIN P : P[p].ra # "" /\ P[p].pnode # "" /\ ~P[p].dead}      \* pods holding a persisted assignment
            IN [res      |-> [u \in K |-> R[u]],
                assigned |-> [u \in K \cup {P[p].ra : p \in H} |-> LET A == {p \in H : P[p].ra = u} IN [p \in A |-> P[p].req]]]
TRestart == IsEvent("restart") /\ Step(RestartF)

TraceInit == \E i \in Starts : TraceStart(i) /\ Init
TraceNext == \/ TRAdd \/ TRUpdate \/ TRDelete \/ TRAssume \/ TRForget \/ TRCacheDelete
             \/ TAssume \/ TForget \/ TPodAdd \/ TPodUpdate \/ TPodDelete
             \/ TFit \/ TMatch \/ TNominate \/ TRestart
             \/ (SegDone /\ UNCHANGED vars)
TraceSpec == TraceInit /\ [][TraceNext]_<<vars, tvars>>
=============================================================================
