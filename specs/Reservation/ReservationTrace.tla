------------------------- MODULE ReservationTrace -------------------------
(* Trace validation for C05.  Every event is one call into the real code    *)
(* (reservationCache methods, reservation / pod event handlers, the fit /   *)
(* match / nominate code of the plugin) followed by the projection `obs` of *)
(* the real cache read under its lock:                                      *)
(*   obs.res[uid] = [alloc |-> reported Allocated per dimension,            *)
(*                   pods  |-> uids of the assigned pods, node]             *)
(*   obs.onNode / obs.matchable / obs.allocated : node -> uids (indexes)    *)
(* After EVERY operation the observation must satisfy (L) (X1) (X2); the    *)
(* answers of fit / match / nominate must satisfy (F) (M) (O).              *)
EXTENDS Reservation, TraceCommon

ObsDims == {"cpu", "memory", "pods"}

RObj(e) == [node |-> e.node, phase |-> e.phase, policy |-> e.policy, once |-> e.once, term |-> e.term,
            alloc |-> e.alloc, ropts |-> e.ropts, reserved |-> e.reserved, owners |-> e.owners, bad |-> e.bad]
PObj(e) == [pod |-> e.pod, ns |-> e.ns, app |-> e.app, ctrl |-> e.ctrl, pnode |-> e.pnode, ra |-> e.ra, req |-> e.req, dead |-> e.dead]

IdxOf(m) == [n \in DOMAIN m |-> SeqSet(m[n])]
AllIdx(o) == {IdxOf(o.onNode), IdxOf(o.matchable), IdxOf(o.allocated)}

\* what the specification expects of the observation in state S (explain mode prints it)
ExpectedObs(S) == [res |-> [u \in DOMAIN S.res |-> [alloc |-> [d \in ObsDims |-> FromScratch(S, u, d)],
                                                    pods |-> DOMAIN S.assigned[u]]]]

\* (L): the cache knows exactly the reservations of S, holds exactly the assigned pods of S, and reports for each
\*      reservation the from-scratch sum;  (X1) (X2) on the three logged indexes
ObsHolds(S, o) ==
    /\ DOMAIN o.res = DOMAIN S.res
    /\ \A u \in DOMAIN S.res :
          /\ SeqSet(o.res[u].pods) = DOMAIN S.assigned[u]
          /\ \A d \in ObsDims : o.res[u].alloc[d] = FromScratch(S, u, d)
    /\ \A idx \in AllIdx(o) : NoDangling(S, idx)
    /\ AllListed(S, IdxOf(o.onNode))

\* the operation turns the current state into S and the observation logged after it fits S
Step(S) == Becomes(S) /\ Expect(ObsHolds(S, Ev.obs), ExpectedObs(S))
\* a query changes nothing; its answer must satisfy `cond` (explain mode prints `answer`)
Query(cond, answer) == UNCHANGED vars /\ Expect(ObsHolds(Cur, Ev.obs) /\ cond, [res |-> ExpectedObs(Cur).res, answer |-> answer])

TRAdd    == IsEvent("rAdd")    /\ Step(ROnAddF(Cur, Ev.r, RObj(Ev)))
TRUpdate == IsEvent("rUpdate") /\ Step(ROnUpdateF(Cur, Ev.r, RObj(Ev)))
TRDelete == IsEvent("rDelete") /\ Step(ROnDeleteF(Cur, Ev.r, RObj(Ev)))
TRAssume == IsEvent("rAssume") /\ Step(UpsertF(Cur, Ev.r, RObj(Ev)))
TRForget == IsEvent("rForget") /\ Step(DeleteF(Cur, Ev.r))
TRCacheDelete == IsEvent("rCacheDelete") /\ Step(DeleteF(Cur, Ev.r))

\* Reserve of an owner pod: the cache may refuse (answer logged); when it accepts the pod is assigned
TAssume == IsEvent("assume") /\ (Ev.ok => Ev.r \in DOMAIN res)
                             /\ Step(IF Ev.ok THEN AssignF(Cur, Ev.r, Ev.pod, Ev.req) ELSE Cur)
TForget == IsEvent("forget") /\ Step(UnassignF(Cur, Ev.r, Ev.pod))

TPodAdd    == IsEvent("podAdd")    /\ Step(PodSetF(Cur, FALSE, PObj(Ev), PObj(Ev)))
TPodUpdate == IsEvent("podUpdate") /\ Step(PodSetF(Cur, TRUE, PObj(Ev.old), PObj(Ev)))
TPodDelete == IsEvent("podDelete") /\ Step(PodGoneF(Cur, PObj(Ev)))

\* (F): for a Restricted reservation the verdict of the fit check is exactly FitOK on the from-scratch sums
SumVec(S, u) == [d \in ObsDims |-> FromScratch(S, u, d)]
FitExpected(e) == FitOK(res[e.r], SumVec(Cur, e.r), Cardinality(DOMAIN assigned[e.r]), e.pre, e.req)
Restricted(e) == e.r \in DOMAIN res /\ res[e.r].policy = "Restricted"
TFit == /\ IsEvent("fit")
        /\ Ev.known = (Ev.r \in DOMAIN res)
        /\ Query(Restricted(Ev) => Ev.fits = FitExpected(Ev),
                 IF Restricted(Ev) THEN [fits |-> FitExpected(Ev)] ELSE [fits |-> "any"])

\* (M): every reservation matched to the pod is known and its owner specification is satisfied by the pod
MatchedOK(e) == \A n \in DOMAIN e.matched : \A u \in SeqSet(e.matched[n]) :
                    u \in DOMAIN res /\ OwnerSat(res[u], PObj(e))
TMatch == IsEvent("match") /\ Ev.ok /\ Query(MatchedOK(Ev), "matched: known reservations whose owners the pod satisfies")

\* (O) (M): the nominated reservation is known, is not an allocate-once reservation that already holds another
\*          pod, and its owner specification is satisfied by the pod
NominatedOK(e) == e.nominated # "" =>
                     /\ e.nominated \in DOMAIN res
                     /\ ~OnceBusy(Cur, e.nominated, e.pod)
                     /\ OwnerSat(res[e.nominated], PObj(e))
TNominate == IsEvent("nominate") /\ Ev.ok /\ Query(MatchedOK(Ev) /\ NominatedOK(Ev),
                   "nominated: known, owners satisfied, not an allocate-once reservation holding another pod")

TraceInit == \E i \in Starts : TraceStart(i) /\ Init
TraceNext == \/ TRAdd \/ TRUpdate \/ TRDelete \/ TRAssume \/ TRForget \/ TRCacheDelete
             \/ TAssume \/ TForget \/ TPodAdd \/ TPodUpdate \/ TPodDelete
             \/ TFit \/ TMatch \/ TNominate
             \/ (SegDone /\ UNCHANGED vars)
TraceSpec == TraceInit /\ [][TraceNext]_<<vars, tvars>>
=============================================================================
