\* simulation: long random deliverable histories over the full small universe (2 nodes, 3 reservations, 3 pods)
SPECIFICATION Spec
CONSTANTS
  Nodes = {"n1", "n2"}
  Uids = {"r1", "r2", "r3"}
  Pods = {"p1", "p2", "p3"}
  RSpecs <- SimSpecs
  Reqs <- ReqsS
  PodAttr <- PA3
  TermPhases = {"Failed", "Succeeded"}
  TermVals = {FALSE, TRUE}
  DeadVals = {FALSE, TRUE}
  FixLedger = TRUE
  FixNominate = TRUE
  FixOrphan = TRUE
  AllowMigrate = FALSE
  Recording = TRUE
  K = 30
INVARIANT GenPrintEnd
CHECK_DEADLOCK FALSE
