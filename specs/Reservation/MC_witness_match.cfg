\* non-vacuity (not part of the pipeline; run with -continue): every invariant below must be VIOLATED
SPECIFICATION Spec
CONSTANTS
  Nodes = {"n1"}
  Uids = {"r1", "r2"}
  Pods = {"p2"}
  RSpecs <- MatchSpecsQ
  Reqs <- ReqsI
  PodAttr <- PA2
  TermPhases = {"Failed"}
  TermVals = {FALSE}
  DeadVals = {FALSE}
  FixLedger = TRUE
  FixNominate = TRUE
  FixOrphan = TRUE
  AllowMigrate = FALSE
  Recording = FALSE
  K = 0
VIEW MCView
INVARIANT NeverOwnerMismatch
INVARIANT NeverOnceBusyMatchable
