\* one witness history (plus the query battery) for every state of the index model reachable within K operations
SPECIFICATION Spec
CONSTANTS
  Nodes = {"n1", "n2"}
  Uids = {"r1"}
  Pods = {"p1", "p2"}
  RSpecs <- IndexSpecs
  Reqs <- ReqsI
  PodAttr <- PA2
  TermPhases = {"Failed"}
  TermVals = {FALSE, TRUE}
  DeadVals = {FALSE, TRUE}
  FixLedger = TRUE
  FixNominate = TRUE
  FixOrphan = TRUE
  AllowMigrate = FALSE
  Recording = TRUE
  K = 5
VIEW MCView
CONSTRAINT GenBound
INVARIANT GenPrint
CHECK_DEADLOCK FALSE
