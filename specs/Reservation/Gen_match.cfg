\* witness histories of the owner-matching model
SPECIFICATION Spec
CONSTANTS
  Nodes = {"n1"}
  Uids = {"r1", "r2"}
  Pods = {"p2"}
  RSpecs <- MatchSpecs
  Reqs <- ReqsI
  PodAttr <- PA2
  TermPhases = {"Failed"}
  TermVals = {FALSE}
  DeadVals = {FALSE}
  FixLedger = TRUE
  FixNominate = TRUE
  FixOrphan = TRUE
  AllowMigrate = FALSE
  Recording = TRUE
  K = 4
VIEW MCView
CONSTRAINT GenBound
INVARIANT GenPrint
CHECK_DEADLOCK FALSE
