------------------------------- MODULE MC_Fit -------------------------------
(* Decide (F) on the model: every input of the bounded grid is an initial     *)
(* state; the invariant says that the transcription of fitsReservation (the   *)
(* per-resource loop with its found / not-found branches, the clamp of the    *)
(* used amount, the inner-reserved deduction and the pod-count rule) gives    *)
(* exactly the property-level verdict FitOK of module Reservation.            *)
EXTENDS Reservation
CONSTANTS Q          \* quantities 0..Q ; -1 stands for "key absent from the resource list"
VARIABLES o,         \* reservation object (Restricted)
          allocd,    \* the ledger's Allocated list (absent keys allowed)
          npods, pre, req
fvars == <<o, allocd, npods, pre, req>>

Opt == -1 .. Q
\* a resource list from optional amounts: only the keys whose amount is not -1
RL(c, m, p) == LET f == [cpu |-> c, memory |-> m, pods |-> p] IN [d \in {x \in DOMAIN f : f[x] # -1} |-> f[d]]
RObjOf(alloc, reserved, ropts) == [node |-> "n1", phase |-> "Available", policy |-> "Restricted", once |-> FALSE, term |-> FALSE,
                                   alloc |-> alloc, ropts |-> ropts, reserved |-> reserved, owners |-> <<>>, bad |-> FALSE]

\* fitsReservation, step by step
Found(l, d) == d \in DOMAIN l
ImplDim(d) ==
    IF ~Found(req, d) \/ req[d] = 0 THEN TRUE
    ELSE LET capacity == o.alloc[d]
             used0    == IF Found(allocd, d) THEN (IF Found(pre, d) THEN allocd[d] - pre[d] ELSE allocd[d]) ELSE 0
             used     == IF used0 < 0 THEN 0 ELSE used0
             cap2     == IF Found(o.reserved, d) THEN capacity - o.reserved[d] ELSE capacity
         IN req[d] <= cap2 - used
ImplPods == IF Found(o.alloc, "pods")
            THEN LET n == IF Found(pre, "pods") THEN npods - pre["pods"] ELSE npods IN ~(n + 1 > o.alloc["pods"])
            ELSE TRUE
FitImpl == ImplPods /\ \A d \in Names(o) : ImplDim(d)

\* the ledger holds, for the reserved dimensions, the summed requests (L); an absent key is a zero amount
Sum == [d \in {"cpu", "memory", "pods"} |-> IF d \in Names(o) THEN Val(allocd, d) ELSE 0]

FInit == \/ \* one dimension over the full grid, the other one fixed; no pod slots
           /\ \E a \in Opt, r \in Opt, u \in Opt, p \in Opt, q \in Opt, swap \in BOOLEAN, other \in {0, 1, 2}, ro \in {<<>>, <<"cpu">>, <<"memory">>} :
                 LET a2 == CASE other = 0 -> -1 [] other = 1 -> 1 [] OTHER -> 2
                     u2 == CASE other = 0 -> -1 [] other = 1 -> 1 [] OTHER -> 3
                     q2 == CASE other = 0 -> -1 [] other = 1 -> 0 [] OTHER -> 1
                 IN /\ o = IF swap THEN RObjOf(RL(a2, a, -1), RL(-1, r, -1), ro) ELSE RObjOf(RL(a, a2, -1), RL(r, -1, -1), ro)
                    /\ allocd = IF swap THEN RL(u2, u, -1) ELSE RL(u, u2, -1)
                    /\ pre = IF swap THEN RL(-1, p, -1) ELSE RL(p, -1, -1)
                    /\ req = IF swap THEN RL(q2, q, -1) ELSE RL(q, q2, -1)
           /\ npods = 1
        \/ \* the pod-count rule
           /\ \E m \in Opt, k \in 0 .. Q, j \in Opt, q \in {0, 1} :
                 /\ o = RObjOf(RL(2, -1, m), <<>>, <<>>) /\ npods = k /\ pre = RL(-1, -1, j) /\ req = RL(q, -1, -1)
           /\ allocd = RL(1, -1, -1)
Next == UNCHANGED <<fvars, vars>>
Spec == (Init /\ FInit) /\ [][Next]_<<fvars, vars>>

\* allocated amounts outside the reserved dimensions never occur (the ledger masks them): skip those inputs
Relevant == \A d \in DOMAIN allocd : d \in Names(o) \/ allocd[d] = 0
ModelOK == Relevant => (FitImpl = FitOK(o, Sum, npods, pre, req))
\* non-vacuity: both verdicts occur (checked by MC_Fit_witness.cfg: each must be VIOLATED)
NeverFits == ~(Relevant /\ FitImpl)
NeverRefuses == ~(Relevant /\ ~FitImpl)
=============================================================================
