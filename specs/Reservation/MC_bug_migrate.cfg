\* extended (not deliverable by this code base): same uid re-bound to another node -> InvX1 fails
SPECIFICATION Spec
CONSTANTS
  Nodes = {"n1", "n2"}
  Uids = {"r1"}
  Pods = {"p1", "p2"}
  RSpecs <- IndexSpecs
  Reqs <- ReqsI
  PodAttr <- PA2
  TermPhases = {"Failed"}
  TermVals = {FALSE, TRUE}
  DeadVals = {FALSE, TRUE}
  FixLedger = TRUE
  FixNominate = TRUE
  FixOrphan = TRUE
  AllowMigrate = TRUE
  Recording = FALSE
  K = 0
VIEW MCView
INVARIANT TypeOK
INVARIANT InvL
INVARIANT InvR
INVARIANT InvX1
INVARIANT InvX2
INVARIANT InvO
INVARIANT InvM
