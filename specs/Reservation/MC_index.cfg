\* (X1) (X2) (O): two nodes, two reservations (allocate-once or not), two pods; no deletion timestamps / completed pods (MC_index2 has them)
SPECIFICATION Spec
CONSTANTS
  Nodes = {"n1", "n2"}
  Uids = {"r1", "r2"}
  Pods = {"p1", "p2"}
  RSpecs <- IndexSpecs
  Reqs <- ReqsI
  PodAttr <- PA2
  TermPhases = {"Failed"}
  TermVals = {FALSE}
  DeadVals = {FALSE}
  FixLedger = TRUE
  FixNominate = TRUE
  FixOrphan = TRUE
  AllowMigrate = FALSE
  Recording = FALSE
  K = 0
VIEW MCView
INVARIANT TypeOK
INVARIANT InvL
INVARIANT InvR
INVARIANT InvX1
INVARIANT InvX2
INVARIANT InvO
INVARIANT InvM
