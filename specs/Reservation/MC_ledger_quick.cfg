\* (L): one reservation whose reserved dimension set changes while two pods come and go
SPECIFICATION Spec
CONSTANTS
  Nodes = {"n1"}
  Uids = {"r1"}
  Pods = {"p1", "p2"}
  RSpecs <- LedgerSpecs1
  Reqs <- ReqsL
  PodAttr <- PA2
  TermPhases = {"Failed"}
  TermVals = {FALSE}
  DeadVals = {FALSE}
  FixLedger = TRUE
  FixNominate = TRUE
  FixOrphan = TRUE
  AllowMigrate = FALSE
  Recording = FALSE
  K = 0
VIEW MCView
INVARIANT TypeOK
INVARIANT InvL
INVARIANT InvR
INVARIANT InvX1
INVARIANT InvX2
INVARIANT InvO
INVARIANT InvM
