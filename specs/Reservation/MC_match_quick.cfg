\* (M) (O): owner vocabulary, one node, two reservations, two pods
SPECIFICATION Spec
CONSTANTS
  Nodes = {"n1"}
  Uids = {"r1", "r2"}
  Pods = {"p2"}
  RSpecs <- MatchSpecsQ
  Reqs <- ReqsI
  PodAttr <- PA2
  TermPhases = {"Failed"}
  TermVals = {FALSE}
  DeadVals = {FALSE}
  FixLedger = TRUE
  FixNominate = TRUE
  FixOrphan = TRUE
  AllowMigrate = FALSE
  Recording = FALSE
  K = 0
VIEW MCView
INVARIANT TypeOK
INVARIANT InvL
INVARIANT InvR
INVARIANT InvX1
INVARIANT InvX2
INVARIANT InvO
INVARIANT InvM
