\* as Gen_ledger, with the policy switch and one operation deeper
SPECIFICATION Spec
CONSTANTS
  Nodes = {"n1"}
  Uids = {"r1"}
  Pods = {"p1", "p2"}
  RSpecs <- LedgerSpecs
  Reqs <- ReqsL
  PodAttr <- PA2
  TermPhases = {"Failed"}
  TermVals = {FALSE}
  DeadVals = {FALSE}
  FixLedger = TRUE
  FixNominate = TRUE
  FixOrphan = TRUE
  AllowMigrate = FALSE
  Recording = TRUE
  K = 6
VIEW MCView
CONSTRAINT GenBound
INVARIANT GenPrint
CHECK_DEADLOCK FALSE
