\* the code as shipped: a bound pod delivered before the reservation it is annotated with is dropped (no orphanPods) -> the reservation that arrives later reports nothing allocated: InvL fails
SPECIFICATION Spec
CONSTANTS
  Nodes = {"n1"}
  Uids = {"r1"}
  Pods = {"p1", "p2"}
  RSpecs <- LedgerSpecs1
  Reqs <- ReqsL
  PodAttr <- PA2
  TermPhases = {"Failed"}
  TermVals = {FALSE, TRUE}
  DeadVals = {FALSE, TRUE}
  FixLedger = TRUE
  FixNominate = TRUE
  FixOrphan = FALSE
  AllowMigrate = FALSE
  Recording = FALSE
  K = 0
VIEW MCView
INVARIANT TypeOK
INVARIANT InvL
INVARIANT InvX1
INVARIANT InvX2
INVARIANT InvO
INVARIANT InvM
