\* (X1) (X2) (O): two nodes, one reservation (allocate-once or not), two pods
SPECIFICATION Spec
CONSTANTS
  Nodes = {"n1", "n2"}
  Uids = {"r1"}
  Pods = {"p1", "p2"}
  RSpecs <- IndexSpecs
  Reqs <- ReqsI
  PodAttr <- PA2
  TermPhases = {"Failed"}
  TermVals = {FALSE, TRUE}
  DeadVals = {FALSE, TRUE}
  FixLedger = TRUE
  FixNominate = TRUE
  FixOrphan = TRUE
  AllowMigrate = FALSE
  Recording = FALSE
  K = 0
VIEW MCView
INVARIANT TypeOK
INVARIANT InvL
INVARIANT InvR
INVARIANT InvX1
INVARIANT InvX2
INVARIANT InvO
INVARIANT InvM
