\* the code as shipped: single match + affinity is returned without the allocate-once gate -> InvO fails
SPECIFICATION Spec
CONSTANTS
  Nodes = {"n1"}
  Uids = {"r1"}
  Pods = {"p1", "p2"}
  RSpecs <- IndexSpecs
  Reqs <- ReqsI
  PodAttr <- PA2
  TermPhases = {"Failed"}
  TermVals = {FALSE, TRUE}
  DeadVals = {FALSE, TRUE}
  FixLedger = TRUE
  FixNominate = FALSE
  FixOrphan = TRUE
  AllowMigrate = FALSE
  Recording = FALSE
  K = 0
VIEW MCView
INVARIANT TypeOK
INVARIANT InvL
INVARIANT InvR
INVARIANT InvX1
INVARIANT InvX2
INVARIANT InvO
INVARIANT InvM
