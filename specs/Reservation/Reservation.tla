---------------------------- MODULE Reservation ----------------------------
(***************************************************************************)
(* C05 - reservations are never over-allocated and only serve their owners *)
(*                                                                         *)
(* Abstract state = the OBJECTS the scheduler's reservation cache          *)
(* currently knows and which pods are currently assigned to them:          *)
(*                                                                         *)
(*   res       uid -> reservation object as last delivered                 *)
(*               [node, phase, policy, once, term, alloc, ropts, reserved, *)
(*                owners, bad]                                             *)
(*               alloc     dimension -> amount the reservation reserves    *)
(*                         (only the dimensions it declares; may hold      *)
(*                         "pods", a number of pod slots)                  *)
(*               ropts     restricted-options resources (a sequence)       *)
(*               reserved  dimension -> amount set aside INSIDE the        *)
(*                         reservation (node-reservation annotation)       *)
(*               owners    sequence of owner terms (ORed); a term ANDs a   *)
(*                         label selector app=sel, an object reference     *)
(*                         (pod name / namespace) and a controller         *)
(*                         reference (name / namespace); "" = not set      *)
(*               bad       an owner term that cannot be parsed             *)
(*   assigned  uid -> (pod -> request)  request : dimension -> amount      *)
(*             For a uid in DOMAIN res: the pods assigned to the           *)
(*             reservation.  For a uid NOT in DOMAIN res: the bound,       *)
(*             running pods whose reservation-allocated annotation names   *)
(*             that uid and that the pod informer delivered while the      *)
(*             reservation was not (yet) known - REMEMBERED, they hold     *)
(*             nothing yet.  A pod object that is bound, alive and         *)
(*             annotated with uid U is assigned to U from the moment both  *)
(*             the pod and an active reservation U are known, in either    *)
(*             arrival order (the two informers deliver independently, in  *)
(*             particular after a restart of the scheduler).               *)
(*                                                                         *)
(* What the cache REPORTS (allocated amounts, per-node indexes, fit /      *)
(* match / nominate answers) is not state of this module: it is observed   *)
(* and must satisfy the property-level predicates below                    *)
(*   (L) Ledger      (F) FitOK      (O) OnceOK      (M) OwnerSat           *)
(*   (X1) NoDangling (X2) AllListed                                        *)
(* in every recorded state (ReservationTrace) and in every reachable state *)
(* of the transcription of the cache (MC_Reservation).                     *)
(***************************************************************************)
EXTENDS Integers, FiniteSets, Sequences, FiniteSetsExt, TLC

VARIABLES res, assigned
vars == <<res, assigned>>

Max2(a, b) == IF a >= b THEN a ELSE b
Val(m, d) == IF d \in DOMAIN m THEN m[d] ELSE 0          \* an absent dimension counts as 0
SumOver(S, f(_)) == FoldSet(LAMBDA x, acc : acc + f(x), 0, S)
SeqSet(s) == {s[i] : i \in DOMAIN s}

(*************************** reserved dimensions ****************************)
\* the dimensions a reservation reserves: what it declares, narrowed for a Restricted reservation
\* to the restricted-options resources when those name at least one declared dimension
Names(o) == LET D == DOMAIN o.alloc
                R == SeqSet(o.ropts) \cap D
            IN IF o.policy = "Restricted" /\ R # {} THEN R ELSE D

(****************************** (L) the ledger ******************************)
\* summed requests, in the reserved dimensions, of the pods currently assigned - from scratch
FromScratch(S, u, d) == IF d \in Names(S.res[u])
                        THEN SumOver(DOMAIN S.assigned[u], LAMBDA p : Val(S.assigned[u][p], d))
                        ELSE 0

(***************************** (F) the fit check ****************************)
\* a pod (request req) may be let into reservation object o, which currently holds `sum` (per dimension) in
\* `npods` pods, `pre` of which a preemption would free, iff in every reserved dimension the pod asks for
\* what remains of the sum plus the request stays within what is reserved (minus what is set aside inside),
\* and a declared number of pod slots is not exceeded
FitDim(o, sum, pre, req, d) ==
    Val(req, d) > 0 => Val(req, d) + Max2(0, sum[d] - Val(pre, d)) <= o.alloc[d] - Val(o.reserved, d)
FitPods(o, npods, pre) == "pods" \in DOMAIN o.alloc => (npods - Val(pre, "pods")) + 1 <= o.alloc["pods"]
FitOK(o, sum, npods, pre, req) == FitPods(o, npods, pre) /\ \A d \in Names(o) : FitDim(o, sum, pre, req, d)

(***************************** (M) owner matching ***************************)
\* pod = [pod (identity = uid), name, ns, app (label), ctrl (name of its controller, "" = none)]; an object reference
\* names the pod object, a controller reference with a namespace only owns pods of that namespace
TermSat(t, pod) == /\ t.sel = ""    \/ pod.app = t.sel
                   /\ t.obj = ""    \/ pod.name = t.obj
                   /\ t.objNs = ""  \/ pod.ns = t.objNs
                   /\ t.ctrl = ""   \/ (pod.ctrl = t.ctrl /\ (t.ctrlNs = "" \/ pod.ns = t.ctrlNs))
\* an owner specification that cannot be parsed is satisfied by nobody
OwnerSat(o, pod) == ~o.bad /\ \E i \in DOMAIN o.owners : TermSat(o.owners[i], pod)

(**************************** (O) allocate-once *****************************)
\* an allocate-once reservation that already has an assigned pod (other than the one asking)
OnceBusy(S, u, p) == S.res[u].once /\ (DOMAIN S.assigned[u]) \ {p} # {}

(**************************** (X) per-node indexes **************************)
\* idx : node -> set of uids
NoDangling(S, idx) == \A n \in DOMAIN idx : idx[n] \subseteq DOMAIN S.res
AllListed(S, onNode) == \A u \in DOMAIN S.res :
                            S.res[u].node # "" => (S.res[u].node \in DOMAIN onNode /\ u \in onNode[S.res[u].node])

(********************************** operations ******************************)
\* Operations are state transformers  S -> S  (S = [res, assigned]); they say what each entry point of the
\* cache MEANS for the set of known reservations and for who is assigned where - nothing about amounts.
Active(o)     == o.node # "" /\ o.phase \in {"Available", "Waiting"}
Terminated(o) == o.phase \in {"Failed", "Succeeded"}

WithKey(f, k, v) == [x \in (DOMAIN f) \cup {k} |-> IF x = k THEN v ELSE f[x]]
Without(f, k)    == [x \in (DOMAIN f) \ {k} |-> f[x]]

\* the pods remembered for a reservation that is not known (none: no entry)
Held(S, u) == IF u \in DOMAIN S.assigned THEN S.assigned[u] ELSE <<>>
\* the cache learns / refreshes a reservation (assume of the reserve pod, add / update of an active object); a
\* reservation that becomes known starts with the pods that were seen before it
UpsertF(S, u, o) == [res      |-> WithKey(S.res, u, o),
                     assigned |-> IF u \in DOMAIN S.res THEN S.assigned ELSE WithKey(S.assigned, u, Held(S, u))]
\* an object that is no longer usable only refreshes what is known
IfExistsF(S, u, o) == IF u \in DOMAIN S.res THEN [S EXCEPT !.res = WithKey(S.res, u, o)] ELSE S
\* the reservation leaves the cache, together with its assignments (what is remembered for an unknown uid stays)
DeleteF(S, u) == IF u \in DOMAIN S.res THEN [res |-> Without(S.res, u), assigned |-> Without(S.assigned, u)] ELSE S

\* Reserve: a pod can only be assumed on a reservation that is known; a second assignment of the same pod changes nothing
AssignF(S, u, p, req) == IF u \in DOMAIN S.res /\ p \notin DOMAIN S.assigned[u]
                         THEN [S EXCEPT !.assigned[u] = WithKey(S.assigned[u], p, req)] ELSE S
\* the pod informer delivers a bound, running pod annotated with u: assigned when u is known, else remembered (the
\* object delivered last counts)
AssignSeenF(S, u, p, req) == IF u \in DOMAIN S.res THEN AssignF(S, u, p, req)
                             ELSE [S EXCEPT !.assigned = WithKey(S.assigned, u, WithKey(Held(S, u), p, req))]
\* released / forgotten, whether assigned or remembered
UnassignF(S, u, p) == IF u \in DOMAIN S.res THEN [S EXCEPT !.assigned[u] = Without(S.assigned[u], p)]
                      ELSE IF u \in DOMAIN S.assigned
                           THEN LET rest == Without(S.assigned[u], p)
                                IN [S EXCEPT !.assigned = IF DOMAIN rest = {} THEN Without(S.assigned, u) ELSE WithKey(S.assigned, u, rest)]
                           ELSE S

\* the reservation informer's handler of the plugin
ROnAddF(S, u, o)    == IF Active(o) THEN UpsertF(S, u, o) ELSE S
ROnUpdateF(S, u, o) == IF Active(o) THEN UpsertF(S, u, o) ELSE IF Terminated(o) THEN IfExistsF(S, u, o) ELSE S
\* a deleted reservation is only marked unusable; the scheduler-wide handler removes it (DeleteF)
ROnDeleteF(S, u, o) == IfExistsF(S, u, IF Active(o) /\ o.phase = "Available" THEN [o EXCEPT !.phase = "Failed"] ELSE o)

\* the pod informer's handler: a pod object po = [pod, pnode, ra (uid it is annotated with, "" none), req, dead]
PodGoneF(S, po) == IF po.ra # "" THEN UnassignF(S, po.ra, po.pod) ELSE S
\* hasOld = FALSE for an add event
PodSameF(S, hasOld, old, new) ==
    IF new.dead THEN PodGoneF(S, new)
    ELSE IF new.pnode = "" THEN (IF hasOld /\ old.pnode # "" THEN PodGoneF(S, old) ELSE S)
    ELSE LET S1 == IF hasOld /\ old.ra # "" THEN UnassignF(S, old.ra, old.pod) ELSE S
         IN IF new.ra # "" THEN AssignSeenF(S1, new.ra, new.pod, new.req) ELSE S1
\* An update whose old and new objects are DIFFERENT pods (same namespace / name, another uid: the pod was deleted and
\* re-created and a re-list merged both into one event): the old pod is gone, the new one is seen for the first time.
PodSetF(S, hasOld, old, new) ==
    IF hasOld /\ old.pod # new.pod
    THEN PodSameF(IF old.pnode # "" THEN PodGoneF(S, old) ELSE S, FALSE, new, new)
    ELSE PodSameF(S, hasOld, old, new)

Cur == [res |-> res, assigned |-> assigned]
Becomes(S) == res' = S.res /\ assigned' = S.assigned
Init == res = <<>> /\ assigned = <<>>

(********************************* invariants *******************************)
\* every known reservation has its (possibly empty) set of assigned pods; an unknown uid has an entry only while
\* pods are remembered for it
TypeOK == /\ DOMAIN res \subseteq DOMAIN assigned
          /\ \A u \in DOMAIN assigned \ DOMAIN res : DOMAIN assigned[u] # {}
=============================================================================
