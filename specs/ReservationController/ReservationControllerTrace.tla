--------------------- MODULE ReservationControllerTrace ---------------------
(***************************************************************************)
(* Trace validation for G01.  One segment = one world (API server, clock,  *)
(* REAL reservation controller) driven by harness zz_verif_g01_test.go.    *)
(* Every event carries obs = reservations, pods, nodes AS READ FROM THE    *)
(* API SERVER after the step, and enq = the keys the controller's real     *)
(* event handlers put into its real work queue during the step; a sync     *)
(* event also carries err / timer (requeueAfter or requeue) / nw (API      *)
(* writes attempted) / hit, nhit (injected failures that fired).           *)
(*                                                                         *)
(* CHECKED on the real code (nothing but section 1 of the design spec):    *)
(*   StepProp      T terminal frozen, S sync post-condition, C clean-up,   *)
(*                 G garbage collection, I idempotence, frame clauses      *)
(*   NoLostWakeup  W                                                       *)
(*   PhaseShape    O                                                       *)
(* The state after a controller step is TAKEN from the observation.        *)
(* Environment events must be legal and have exactly the modelled effect   *)
(* (the harness's own discipline; a rejection there is not a controller    *)
(* defect and is signed clause=env).                                       *)
(***************************************************************************)
EXTENDS ReservationController, TraceCommon

ToSet(s) == {s[i] : i \in 1..Len(s)}
AbsR(x) == IF ~x.exists THEN NoR
           ELSE [exists |-> TRUE, gen |-> x.gen, created |-> x.created, hasTtl |-> x.hasTtl, ttl |-> x.ttl,
                 hasExp |-> x.hasExp, exp |-> x.exp, once |-> x.once, dims |-> ToSet(x.dims),
                 phase |-> x.phase, node |-> x.node, owners |-> ToSet(x.owners), alloc |-> [d \in Dims |-> x.alloc[d]],
                 ready |-> x.ready, nready |-> x.nready, rtt |-> x.rtt, rpt |-> x.rpt, sched |-> x.sched]
AbsP(x) == IF ~x.exists THEN NoP ELSE [exists |-> TRUE, gen |-> x.gen, node |-> x.node, term |-> x.term, ra |-> x.ra]
ObsRs(e) == [r \in RNames |-> AbsR(e.obs.rs[r])]
ObsPods(e) == [p \in PNames |-> AbsP(e.obs.pods[p])]
ObsNodes(e) == ToSet(e.obs.nodes)
Enq == ToSet(Ev.enq)

\* which clauses hold in the step just taken (explain mode / diagnostics)
Clauses == [step |-> StepProp, W |-> NoLostWakeup', O |-> PhaseShape',
            S |-> IF step'.op = "sync" /\ ~step'.err THEN SyncPost(step'.r, rs[step'.r], rs'[step'.r], pods, nodes, now) ELSE TRUE,
            stale |-> {r \in RNames : StatusStale(r)'}, armed |-> armed']

\* an environment event: legal, and the API server shows exactly the modelled effect
EnvOK == Expect(/\ rs' = ObsRs(Ev) /\ pods' = ObsPods(Ev) /\ nodes' = ObsNodes(Ev) /\ now' = Ev.obs.now
                /\ StepProp,
                [rs |-> rs', pods |-> pods', nodes |-> nodes', now |-> now', clauses |-> Clauses])
Env(op, label, A) == IsEvent(op) /\ A /\ EnvBook(label, Enq) /\ EnvOK

TCreateR == Env("createR", "env", ApiCreateR(Ev.r, [hasTtl |-> Ev.hasTtl, ttl |-> Ev.ttl, hasExp |-> Ev.hasExp, exp |-> Ev.exp,
                                                   once |-> Ev.once, dims |-> ToSet(Ev.dims)]))
TUnsched == Env("unsched", "env", ApiUnsched(Ev.r))
TSchedule == Env("schedule", "env", ApiSchedule(Ev.r, Ev.n))
TDeleteR == Env("deleteR", "deleteR", ApiDeleteR(Ev.r))
TAddPod == Env("addPod", "env", ApiAddPod(Ev.p, Ev.n, Ev.k))
TBindPod == Env("bindPod", "env", ApiBindPod(Ev.p, Ev.n, Ev.k))
TTermPod == Env("termPod", "env", ApiTermPod(Ev.p))
TDelPod == Env("delPod", "env", ApiDelPod(Ev.p))
TDelNode == Env("delNode", "env", ApiDelNode(Ev.n))
TAddNode == Env("addNode", "env", ApiAddNode(Ev.n))
TTick == Env("tick", "env", ApiTick)
TSkip == IsEvent("skip") /\ UNCHANGED vars

\* controller steps: the next state is what the API server shows; the step predicate judges it
TSync == /\ IsEvent("sync")
         /\ rs' = ObsRs(Ev) /\ pods' = ObsPods(Ev)
         /\ SyncBook(Ev.r, Ev.g, Ev.err, Ev.timer, Ev.nw, Ev.hit, Ev.nhit, Enq)
         /\ Expect(~Ev.panic /\ nodes = ObsNodes(Ev) /\ now = Ev.obs.now /\ StepProp, Clauses)
TGC == /\ IsEvent("gc")
       /\ rs' = ObsRs(Ev)
       /\ GCBook(Ev.nhit, Enq)
       /\ Expect(~Ev.panic /\ pods = ObsPods(Ev) /\ nodes = ObsNodes(Ev) /\ now = Ev.obs.now /\ StepProp, Clauses)
TRestart == /\ IsEvent("restart")
            /\ RestartBook(Enq)
            /\ Expect(rs = ObsRs(Ev) /\ pods = ObsPods(Ev) /\ nodes = ObsNodes(Ev) /\ now = Ev.obs.now /\ StepProp, Clauses)

TraceInit == \E i \in Starts :
                /\ TraceStart(i)
                /\ InitWith([gate |-> Trace[i].gate, gcd |-> Trace[i].gcd,
                             preq |-> [p \in PNames |-> [cpu |-> Trace[i].preq[p].cpu, mem |-> Trace[i].preq[p].mem]]],
                            ToSet(Trace[i].nodes))
TraceNext == \/ TSync \/ TGC \/ TRestart
             \/ TCreateR \/ TUnsched \/ TSchedule \/ TDeleteR
             \/ TAddPod \/ TBindPod \/ TTermPod \/ TDelPod \/ TDelNode \/ TAddNode \/ TTick \/ TSkip
             \/ (SegDone /\ UNCHANGED vars)
TraceSpec == TraceInit /\ [][TraceNext]_<<vars, tvars>>
=============================================================================
