\* the controller AS FOUND (TLC must report a violation of StepOK: a pending reservation past its expiry is not failed); small universe: one reservation (one incarnation), two pods, clock 0..3,
\* GC duration 0 ticks (collect at the first tick after the terminal transition), feature gate on
SPECIFICATION Spec
CONSTANTS
  Nodes = {"n1", "n2"}
  RNames = {"r1"}
  PNames = {"p1", "p2"}
  MaxGen = 1
  MaxPGen = 1
  Repairs = {}
  MaxNow = 3
  RParams <- RP_quick
  Cfgs <- Cfg_quick
  NodeSets <- NS_both
VIEW View
INVARIANT TypeOK
INVARIANT NoLostWakeup
INVARIANT PhaseShape
PROPERTY StepOK
CHECK_DEADLOCK FALSE
