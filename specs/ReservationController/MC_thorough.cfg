\* the design with the proposed repair; one reservation name with two incarnations (stale annotations of the first), two pods,
\* clock 0..3, feature gate on
SPECIFICATION Spec
CONSTANTS
  Nodes = {"n1", "n2"}
  RNames = {"r1"}
  PNames = {"p1", "p2"}
  MaxGen = 2
  MaxPGen = 1
  Repairs = {"pending-expiry"}
  MaxNow = 3
  RParams <- RP_quick
  Cfgs <- Cfg_quick
  NodeSets <- NS_both
VIEW View
INVARIANT TypeOK
INVARIANT NoLostWakeup
INVARIANT PhaseShape
PROPERTY StepOK
CHECK_DEADLOCK FALSE
