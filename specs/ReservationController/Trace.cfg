SPECIFICATION TraceSpec
CONSTANTS
  Nodes = {"n1", "n2"}
  RNames = {"r1", "r2"}
  PNames = {"p1", "p2", "p3"}
  MaxGen = 2
  MaxPGen = 2
  Repairs = {}
\* the state invariants are CONSTRAINTs (before Report): a recorded state that violates one is not explored further, so its
\* segment never reaches SegDone (= rejected) while TLC goes on with the other segments.  The step predicate StepProp is
\* conjoined to every trace action in ReservationControllerTrace.
CONSTRAINT NoLostWakeup
CONSTRAINT PhaseShape
CONSTRAINT Report
CHECK_DEADLOCK FALSE
