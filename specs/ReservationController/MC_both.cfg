\* the design with the proposed repair; reservations with BOTH ttl and expires set (the two readings of the API comment differ),
\* feature gate off, GC duration 1 tick, clock 0..4
SPECIFICATION Spec
CONSTANTS
  Nodes = {"n1", "n2"}
  RNames = {"r1"}
  PNames = {"p1", "p2"}
  MaxGen = 1
  MaxPGen = 1
  Repairs = {"pending-expiry"}
  MaxNow = 4
  RParams <- RP_both
  Cfgs <- Cfg_nogate
  NodeSets <- NS_both
VIEW View
INVARIANT TypeOK
INVARIANT NoLostWakeup
INVARIANT PhaseShape
PROPERTY StepOK
CHECK_DEADLOCK FALSE
