------------------------ MODULE ReservationController ------------------------
(***************************************************************************)
(* G01 (growth check)  The reservation CONTROLLER's phase machine          *)
(*   /repo/pkg/scheduler/plugins/reservation/controller  (controller.go,   *)
(*   garbage_collection.go, *_eventhandler.go) and the status setters in   *)
(*   pkg/util/reservation it calls.                                        *)
(*                                                                         *)
(* World: the API server (Reservations, Pods, Nodes), a clock, the         *)
(* environment (users creating / deleting reservations, koord-scheduler    *)
(* scheduling reservations and assigning owner pods, kubelet terminating   *)
(* pods, nodes disappearing), and the controller: sync(key), the periodic  *)
(* garbage collection, restarts (its memory is rebuilt from the API        *)
(* objects only), API write faults.                                        *)
(*                                                                         *)
(*  rs[r]    NoR or the Reservation named r:                               *)
(*             gen        incarnation (uid = r-gen)                        *)
(*             created, hasTtl/ttl, hasExp/exp   (ticks; exp is absolute)  *)
(*             once       spec.allocateOnce                                *)
(*             dims       resource names of status.allocatable             *)
(*             phase      Pending | Available | Succeeded | Failed         *)
(*             node       status.nodeName ("" = not scheduled)             *)
(*             owners     uids in status.currentOwners                     *)
(*             alloc      status.allocated (0 where absent)                *)
(*             ready      Ready condition "none" | "<Status>:<Reason>",    *)
(*             nready     how many Ready conditions, rtt/rpt its           *)
(*                        lastTransitionTime / lastProbeTime (ticks)       *)
(*             sched      Scheduled condition "none" | "True" | "False"    *)
(*  pods[p]  NoP or the pod named p: gen (uid = p-gen), node ("" unbound), *)
(*           term (phase Succeeded/Failed), ra ("" or the uid in the       *)
(*           reservation-allocated annotation); requests cfg.preq[p]       *)
(*  nodes    existing Node objects;  now  the clock                        *)
(*  cfg      gate (feature CleanExpiredReservationAllocated), gcd (GC      *)
(*           duration, ticks), preq                                        *)
(*  rgen, pgen, used   environment bookkeeping: uid numbering; uids of     *)
(*           allocate-once reservations the scheduler has already handed   *)
(*           to a pod (it hands such a reservation out once)               *)
(* History variables of the specification:                                 *)
(*  termAt[r]  the tick at which the current incarnation of r was SEEN to  *)
(*             become terminal (-1: not terminal)                          *)
(*  armed    keys (uids) that sit in the controller's work queue or have a *)
(*           retry / requeue-after timer pending                           *)
(*  quiet    keys synced successfully with no environment change since     *)
(*  step     what the last step was (op, key, err, timer, nw, hit)         *)
(*                                                                         *)
(* The PROPERTY-LEVEL part (section 1) is what a user of the Reservation   *)
(* API relies on; every clause cites the documentation it is derived from. *)
(* Section 3 transcribes HOW controller.go does it (SyncCode / GCCode /     *)
(* the event handlers' enqueue rules); it serves model checking and        *)
(* schedule generation.  Verdicts on the real code come only from the      *)
(* property-level predicates evaluated on recorded executions              *)
(* (ReservationControllerTrace).                                           *)
(*                                                                         *)
(* Sources (D = /repo/docs/proposals/scheduling/20220609-resource-         *)
(* reservation.md, A = apis/scheduling/v1alpha1/reservation_types.go,      *)
(* C = pkg/scheduler/apis/config/types.go ReservationArgs,                 *)
(* F = pkg/features/scheduler_features.go):                                *)
(*  [D-sync]   "When a pod assigned with one specified Reservation, the    *)
(*             reservaton controller reconciles the reservation to update  *)
(*             the status.currentOwners and status.allocated.  If the      *)
(*             Reservation enables spec.allocateOnce, the controller will  *)
(*             mark the reservation to Succeeded that the reservation      *)
(*             cannot be allocated anymore, even if the assigned Pod has   *)
(*             been deleted."                                              *)
(*  [D-exp]    "When a reservation has been created for a long time        *)
(*             exceeding the TTL or Expires, the scheduler updates its     *)
(*             status as Expired.  For expired reservations, the scheduler *)
(*             will cleanup them with a custom garbage collection period." *)
(*  [D-node]   "When a node is deleted, the available and waiting          *)
(*             reservations on the node should be marked as Expired since  *)
(*             they are not allocatable any more."                         *)
(*  [A-ttl]    "Time-to-Live period for the reservation. expires and ttl   *)
(*             are mutually exclusive. Defaults to 24h. Set 0 to disable   *)
(*             expiration."  [A-exp] "If both expires and ttl are set,     *)
(*             expires is checked first."                                  *)
(*  [A-once]   "the reserved resources are only available for the first    *)
(*             owner who allocates successfully and are not allocatable to *)
(*             other owners anymore"                                       *)
(*  [A-status] currentOwners "Current resource owners which allocated the  *)
(*             reservation resources", allocatable "Resource reserved and  *)
(*             allocatable for owners", allocated "Resource allocated by   *)
(*             current owners"                                             *)
(*  [A-phase]  Succeeded "scheduled and allocated for a owner, but not     *)
(*             allocatable anymore"; Failed "failed to reserve resources,  *)
(*             due to expiration or marked as unavailable, which the       *)
(*             object is not available to allocate and will get cleaned in *)
(*             the future"                                                 *)
(*  [C-gc]     "GCDurationSeconds is the duration in seconds after which   *)
(*             expired or succeeded reservations will be garbage           *)
(*             collected."                                                 *)
(*  [F-clean]  "CleanExpiredReservationAllocated is used to clean expired  *)
(*             reservation allocated annotations of pods" + controller.go  *)
(*             "Clean the reservation-allocated annotation for owner pods  *)
(*             when a reservation is deleted."                             *)
(***************************************************************************)
EXTENDS Integers, FiniteSets, Sequences, TLC

CONSTANTS Nodes, RNames, PNames,
          MaxGen,     \* incarnations per reservation name
          MaxPGen,    \* incarnations per pod name
          Repairs     \* {} = controller as found; "pending-expiry" = with the proposed repair (section 3)

Dims == {"cpu", "mem"}

VARIABLES cfg, now, nodes, rs, pods, rgen, pgen, used, termAt, armed, quiet, step
apivars == <<now, nodes, rs, pods>>
envvars == <<rgen, pgen, used>>
vars == <<cfg, now, nodes, rs, pods, rgen, pgen, used, termAt, armed, quiet, step>>

NoR == [exists |-> FALSE]
NoP == [exists |-> FALSE]
Uid(n, g) == n \o "-" \o ToString(g)
Gens == 1..MaxGen
KeysOf(r) == {Uid(r, g) : g \in Gens}

-----------------------------------------------------------------------------
(* 1. Property-level predicates                                            *)

Terminal(x) == x.exists /\ x.phase \in {"Succeeded", "Failed"}
NodeGone(x, N) == x.node # "" /\ x.node \notin N
SameSpec(x, y) == /\ x.gen = y.gen /\ x.created = y.created /\ x.hasTtl = y.hasTtl /\ x.ttl = y.ttl
                  /\ x.hasExp = y.hasExp /\ x.exp = y.exp /\ x.once = y.once /\ x.dims = y.dims

\* ---- expiry.  [A-ttl] + [A-exp] leave the case "both set" open: `expires` "is checked first" can mean that it
\* takes precedence (reading Doc; nextSyncTime in controller.go reads it so) or only that both are checked
\* (reading Code = isReservationNeedExpiration; ttl = 0 then disables `expires` as well).  The specification demands
\* only what BOTH readings demand and allows what EITHER allows; with at most one of the two set they coincide.
ExpCode(x, t) == ~(x.hasTtl /\ x.ttl = 0) /\ ((x.hasExp /\ t > x.exp) \/ (x.hasTtl /\ t - x.created > x.ttl))
ExpDoc(x, t) == IF x.hasExp THEN t > x.exp ELSE x.hasTtl /\ x.ttl > 0 /\ t - x.created > x.ttl
MustExpire(x, t) == ExpCode(x, t) /\ ExpDoc(x, t)
MayExpire(x, t) == ExpCode(x, t) \/ ExpDoc(x, t)
WillExpire(x) == ~(x.hasTtl /\ x.ttl = 0) /\ (x.hasExp \/ (x.hasTtl /\ x.ttl > 0))  \* at some future time under both readings

\* ---- owners / allocated  [D-sync] [A-status]
PUidOf(P, p) == Uid(p, P[p].gen)
UidsOf(P, S) == {PUidOf(P, p) : p \in S}
\* pods assigned to incarnation x of reservation r: they exist, are bound to its node and carry its uid in the annotation
Annotated(r, x, P) == {p \in PNames : P[p].exists /\ x.node # "" /\ P[p].node = x.node /\ P[p].ra = Uid(r, x.gen)}
Live(r, x, P) == {p \in Annotated(r, x, P) : ~P[p].term}
OwnerPods(P, o) == {p \in PNames : P[p].exists /\ PUidOf(P, p) \in o}
RECURSIVE SumReq(_, _)
SumReq(S, d) == IF S = {} THEN 0 ELSE LET p == CHOOSE q \in S : TRUE IN cfg.preq[p][d] + SumReq(S \ {p}, d)
AllocOf(S, dims) == [d \in Dims |-> IF d \in dims THEN SumReq(S, d) ELSE 0]
\* READING DECISION: the documentation does not say whether a TERMINATED (phase Succeeded/Failed) but not yet deleted pod
\* is still a "current owner" (the scheduler's cache drops it, controller.go keeps it).  The specification accepts both:
\* every live assigned pod must be listed, nothing but assigned pods may be listed, and `allocated` must be the sum of
\* the requests of exactly the LISTED owners in the reserved dimensions.
OwnersSynced(r, x, o, a, P) == /\ UidsOf(P, Live(r, x, P)) \subseteq o
                               /\ o \subseteq UidsOf(P, Annotated(r, x, P))
                               /\ \A d \in Dims : a[d] = AllocOf(OwnerPods(P, o), x.dims)[d]

FailShape(y) == y.phase = "Failed" /\ y.ready = "False:Expired" /\ y.nready = 1       \* [D-exp] [D-node]: "marked as Expired"
SuccShape(y) == y.phase = "Succeeded" /\ y.ready = "False:Succeeded" /\ y.nready = 1

\* what a successful sync leaves behind for a reservation that neither expired nor lost its node
NormalPost(r, x, y, P) ==
    IF x.node = "" THEN y = x
    ELSE /\ OwnersSynced(r, x, y.owners, y.alloc, P)                                                   \* [D-sync]
         /\ IF x.once /\ y.owners # {} THEN SuccShape(y)                                              \* [D-sync] [A-once]
            ELSE y.phase = x.phase /\ y.ready = x.ready /\ y.nready = x.nready

\* (S) post-condition of a SUCCESSFUL sync of name r: x before, y after, pods P, nodes N, time t
SyncPost(r, x, y, P, N, t) ==
    IF ~x.exists \/ Terminal(x) THEN y = x                               \* terminal reservations are left alone [A-phase]
    ELSE /\ y.exists /\ SameSpec(x, y) /\ y.node = x.node /\ y.sched = x.sched /\ y.nready <= 1
         /\ IF MustExpire(x, t) \/ NodeGone(x, N)
            THEN FailShape(y) \/ (NormalPost(r, x, y, P) /\ Terminal(y))  \* [D-exp] [D-node]; expired AND consumed: either terminal phase
            ELSE IF MayExpire(x, t) THEN FailShape(y) \/ NormalPost(r, x, y, P)
            ELSE NormalPost(r, x, y, P)                                  \* never Failed before the expiry [A-ttl]

\* (C) [F-clean]: after a successful sync of the key of a DELETED reservation no bound pod carries its annotation
Cleanable(k, P) == {p \in PNames : P[p].exists /\ P[p].node # "" /\ P[p].ra = k}
CleanPost(k, P, P2, gate, missing, err) ==
    IF gate /\ missing
    THEN /\ \A p \in PNames : IF p \in Cleanable(k, P) THEN P2[p] = P[p] \/ P2[p] = [P[p] EXCEPT !.ra = ""] ELSE P2[p] = P[p]
         /\ (~err => Cleanable(k, P2) = {})         \* (after an error anything may be left: the key is re-queued, see (W))
    ELSE P2 = P

\* (G) garbage collection [C-gc] [D-exp].  READING DECISION: garbage_collection.go also deletes a terminal reservation whose
\* node is gone without waiting (its unit test expects that); the documentation does not mention it: allowed, not demanded.
Collectable(x) == Terminal(x) /\ (x.phase = "Succeeded" \/ x.ready = "False:Expired")
GCMust(x, ta, t, gcd) == Collectable(x) /\ t - ta > gcd
GCMay(x, ta, N, t, gcd) == Collectable(x) /\ (t - ta > gcd \/ NodeGone(x, N))
GCPost(R, R2, TA, N, t, gcd, nhit) ==
    /\ \A r \in RNames : IF R[r].exists /\ GCMay(R[r], TA[r], N, t, gcd) THEN R2[r] = NoR \/ R2[r] = R[r] ELSE R2[r] = R[r]
    /\ Cardinality({r \in RNames : R[r].exists /\ GCMust(R[r], TA[r], t, gcd) /\ R2[r] # NoR}) <= nhit
    /\ Cardinality({r \in RNames : R[r].exists /\ GCMay(R[r], TA[r], N, t, gcd) /\ R2[r] # NoR}) >= nhit

\* ---- the step predicate: every step of every behaviour (MC: of the model; Trace: of the real controller)
IsCtl(s) == s.op \in {"sync", "gc", "restart"}
StepProp ==
    \* (T) terminal phases are absorbing and frozen: nothing but deletion happens to a terminal reservation  [A-phase]
    /\ \A r \in RNames : Terminal(rs[r]) => rs'[r] = rs[r] \/ rs'[r] = NoR
    \* reservations disappear only through GC or a user's delete
    /\ \A r \in RNames : (rs[r].exists /\ ~rs'[r].exists) => step'.op \in {"gc", "deleteR"}
    \* the controller owns neither the clock, nor nodes, nor (gate aside) pods
    /\ IsCtl(step') => now' = now /\ nodes' = nodes
    /\ step'.op \in {"gc", "restart"} => pods' = pods
    /\ step'.op = "restart" => rs' = rs
    /\ step'.op = "sync" =>
         LET r == step'.r
             k == Uid(r, step'.g)
         IN  /\ \A q \in RNames \ {r} : rs'[q] = rs[q]
             /\ step'.hit => step'.err                                        \* a failed write is reported (=> requeue)
             /\ step'.err => rs' = rs                                         \* ... and a failed status update is not applied
             /\ CleanPost(k, pods, pods', cfg.gate, ~rs[r].exists, step'.err)
             /\ ~step'.err => SyncPost(r, rs[r], rs'[r], pods, nodes, now)    \* (S)
             /\ k \in quiet => step'.nw = 0                                   \* (I) a second sync without change writes nothing
    /\ step'.op = "gc" => GCPost(rs, rs', termAt, nodes, now, cfg.gcd, step'.nhit)   \* (G)

\* ---- state invariants
\* (W) no lost wake-up: whatever a sync would have to repair (or, for a reservation that expires, the clock alone will make
\* it have to) has a key in the work queue or a timer pending; otherwise "at the next sync" never comes.
StatusStale(r) == LET x == rs[r] IN
    x.exists /\ ~Terminal(x) /\
      (WillExpire(x) \/ (x.node # "" /\ (NodeGone(x, nodes) \/ ~OwnersSynced(r, x, x.owners, x.alloc, pods) \/ (x.once /\ x.owners # {}))))
NeedsClean(r, g) == cfg.gate /\ ~rs[r].exists /\ g = rgen[r] /\ Cleanable(Uid(r, g), pods) # {}
NoLostWakeup == \A r \in RNames : /\ StatusStale(r) => KeysOf(r) \cap armed # {}
                                  /\ \A g \in Gens : NeedsClean(r, g) => Uid(r, g) \in armed
\* (O) Succeeded means: allocate-once and consumed [A-phase] [A-once]; Failed carries the Expired condition GC looks for;
\* an allocate-once reservation never shows two owners (the environment hands it out once)
PhaseShape == \A r \in RNames : rs[r].exists =>
                 /\ rs[r].phase = "Succeeded" => rs[r].once /\ rs[r].owners # {} /\ SuccShape(rs[r])
                 /\ rs[r].phase = "Failed" => FailShape(rs[r])
                 /\ rs[r].once => Cardinality(rs[r].owners) <= 1
                 /\ rs[r].nready <= 1

-----------------------------------------------------------------------------
(* 2. Environment actions (effect on the API objects) and the bookkeeping  *)
(*    every step does on the history variables.                            *)

NewR(g, prm, t) == [exists |-> TRUE, gen |-> g, created |-> t, hasTtl |-> prm.hasTtl, ttl |-> prm.ttl,
                    hasExp |-> prm.hasExp, exp |-> prm.exp, once |-> prm.once, dims |-> prm.dims,
                    phase |-> "Pending", node |-> "", owners |-> {}, alloc |-> [d \in Dims |-> 0],
                    ready |-> "none", nready |-> 0, rtt |-> 0, rpt |-> 0, sched |-> "none"]
NewP(g, n, k) == [exists |-> TRUE, gen |-> g, node |-> n, term |-> FALSE, ra |-> k]

\* the scheduler may assign a pod bound to node n to incarnation x of r: x is scheduled on n (possibly already terminal:
\* the scheduler's view lags) and, if allocate-once, has not been handed out before
Assignable(r, n) == rs[r].exists /\ n # "" /\ rs[r].node = n /\ (rs[r].once => Uid(r, rs[r].gen) \notin used)
RaChoice(n) == {""} \cup {Uid(r, rs[r].gen) : r \in {q \in RNames : Assignable(q, n)}}
IsOnceKey(k) == \E r \in RNames : rs[r].exists /\ rs[r].once /\ k = Uid(r, rs[r].gen)

ApiCreateR(r, prm) == /\ ~rs[r].exists /\ rgen[r] < MaxGen
                      /\ rs' = [rs EXCEPT ![r] = NewR(rgen[r] + 1, prm, now)]
                      /\ rgen' = [rgen EXCEPT ![r] = @ + 1]
                      /\ UNCHANGED <<now, nodes, pods, pgen, used>>
ApiUnsched(r) == /\ rs[r].exists /\ rs[r].phase = "Pending" /\ rs[r].node = ""          \* SetReservationUnschedulable
                 /\ rs' = [rs EXCEPT ![r].sched = "False"]
                 /\ UNCHANGED <<now, nodes, pods, envvars>>
ApiSchedule(r, n) == /\ rs[r].exists /\ rs[r].phase = "Pending" /\ rs[r].node = "" /\ n \in nodes   \* SetReservationAvailable (Bind)
                     /\ rs' = [rs EXCEPT ![r].phase = "Available", ![r].node = n, ![r].ready = "True:Available",
                                         ![r].nready = 1, ![r].rtt = now, ![r].rpt = now, ![r].sched = "True"]
                     /\ UNCHANGED <<now, nodes, pods, envvars>>
ApiDeleteR(r) == /\ rs[r].exists
                 /\ rs' = [rs EXCEPT ![r] = NoR]
                 /\ UNCHANGED <<now, nodes, pods, envvars>>
ApiAddPod(p, n, k) == /\ ~pods[p].exists /\ pgen[p] < MaxPGen
                      /\ n \in nodes \cup {""} /\ k \in RaChoice(n)
                      /\ pods' = [pods EXCEPT ![p] = NewP(pgen[p] + 1, n, k)]
                      /\ pgen' = [pgen EXCEPT ![p] = @ + 1]
                      /\ used' = IF k # "" /\ IsOnceKey(k) THEN used \cup {k} ELSE used
                      /\ UNCHANGED <<now, nodes, rs, rgen>>
ApiBindPod(p, n, k) == /\ pods[p].exists /\ pods[p].node = "" /\ n \in nodes /\ k \in RaChoice(n)
                       /\ pods' = [pods EXCEPT ![p].node = n, ![p].ra = k]
                       /\ used' = IF k # "" /\ IsOnceKey(k) THEN used \cup {k} ELSE used
                       /\ UNCHANGED <<now, nodes, rs, rgen, pgen>>
ApiTermPod(p) == /\ pods[p].exists /\ pods[p].node # "" /\ ~pods[p].term
                 /\ pods' = [pods EXCEPT ![p].term = TRUE]
                 /\ UNCHANGED <<now, nodes, rs, envvars>>
ApiDelPod(p) == /\ pods[p].exists
                /\ pods' = [pods EXCEPT ![p] = NoP]
                /\ UNCHANGED <<now, nodes, rs, envvars>>
ApiDelNode(n) == n \in nodes /\ nodes' = nodes \ {n} /\ UNCHANGED <<now, rs, pods, envvars>>
ApiAddNode(n) == n \in Nodes \ nodes /\ nodes' = nodes \cup {n} /\ UNCHANGED <<now, rs, pods, envvars>>
ApiTick == now' = now + 1 /\ UNCHANGED <<nodes, rs, pods, envvars>>

TermAtNext == [r \in RNames |->
                 IF ~Terminal(rs'[r]) THEN 0 - 1
                 ELSE IF Terminal(rs[r]) /\ rs[r].gen = rs'[r].gen THEN termAt[r] ELSE now']

\* bookkeeping of an environment step; enq = keys its informer events put into the work queue
EnvBook(op, enq) == /\ step' = [op |-> op]
                    /\ armed' = armed \cup enq
                    /\ quiet' = {}
                    /\ termAt' = TermAtNext
                    /\ UNCHANGED cfg
\* a sync of key (r, g): processNextWorkItem re-queues on error or requeueAfter, forgets the key otherwise
SyncBook(r, g, err, timer, nw, hit, nhit, enq) ==
    LET k == Uid(r, g) IN
    /\ UNCHANGED <<cfg, now, nodes, envvars>>
    /\ step' = [op |-> "sync", r |-> r, g |-> g, err |-> err, timer |-> timer, nw |-> nw, hit |-> hit, nhit |-> nhit]
    /\ armed' = ((armed \ {k}) \cup (IF err \/ timer THEN {k} ELSE {})) \cup enq
    /\ quiet' = IF err THEN quiet \ {k} ELSE quiet \cup {k}
    /\ termAt' = TermAtNext
GCBook(nhit, enq) == /\ UNCHANGED <<cfg, now, nodes, pods, envvars>>
                     /\ step' = [op |-> "gc", nhit |-> nhit]
                     /\ armed' = armed \cup enq
                     /\ quiet' = {}
                     /\ termAt' = TermAtNext
\* a restart loses queue and timers; the informers' initial list re-delivers every object.  `quiet` survives: the
\* controller's state is rebuilt from the API objects only, so a restart is no reason to write.
RestartBook(enq) == /\ step' = [op |-> "restart"]
                    /\ armed' = enq
                    /\ UNCHANGED <<cfg, apivars, envvars, termAt, quiet>>

-----------------------------------------------------------------------------
(* 3. The controller as written (transcription of controller.go,           *)
(*    garbage_collection.go and the event handlers' enqueue rules).        *)

\* --- event handlers: keys enqueued for the change (R, P, N) -> (R2, P2, N2) of the informer caches
EnqDiff(R, P, N, R2, P2, N2) ==
       {Uid(r, R2[r].gen) : r \in {q \in RNames : R2[q].exists /\ (~R[q].exists \/ R[q].gen # R2[q].gen
                                                     \/ R[q].phase # R2[q].phase \/ R[q].node # R2[q].node)}}  \* onReservationAdd/Update
  \cup {Uid(r, R[r].gen) : r \in {q \in RNames : R[q].exists /\ (~R2[q].exists \/ R[q].gen # R2[q].gen)}}       \* onReservationDelete
  \cup {P2[p].ra : p \in {q \in PNames : P2[q].exists /\ P2[q] # P[q] /\ P2[q].node # "" /\ P2[q].ra # ""}}     \* onPodAdd/Update
  \cup {P[p].ra : p \in {q \in PNames : P[q].exists /\ ~P2[q].exists /\ P[q].node # "" /\ P[q].ra # ""}}        \* onPodDelete
  \cup {Uid(r, R[r].gen) : r \in {q \in RNames : R[q].exists /\ R[q].node \in N \ N2}}                          \* onNodeDelete (index status.nodeName)
EnqNow == EnqDiff(rs, pods, nodes, rs', pods', nodes')
EnqAll == {Uid(r, rs[r].gen) : r \in {q \in RNames : rs[q].exists}}
          \cup {pods[p].ra : p \in {q \in PNames : pods[q].exists /\ pods[q].node # "" /\ pods[q].ra # ""}}

\* --- SetReservationExpired / SetReservationSucceeded (pkg/util/reservation)
Expired(x, t) == IF x.ready = "none" \/ x.ready = "True:Available"
                 THEN [x EXCEPT !.phase = "Failed", !.ready = "False:Expired", !.nready = 1, !.rtt = t, !.rpt = t]
                 ELSE [x EXCEPT !.phase = "Failed", !.ready = "False:Expired", !.rpt = t]
Succeeded(x, t) == IF x.ready = "none"
                   THEN [x EXCEPT !.phase = "Succeeded", !.ready = "False:Succeeded", !.nready = 1, !.rtt = t, !.rpt = t]
                   ELSE [x EXCEPT !.phase = "Succeeded", !.ready = "False:Succeeded", !.rpt = t]
NextSyncTimer(y) == ~Terminal(y) /\ (y.hasExp \/ (y.hasTtl /\ y.ttl > 0))      \* nextSyncTime(..) > 0

\* --- sync(key) for an existing reservation: the object it would write (or x itself: no write)
\* As found, syncAssignedReservation returns before the expiry check when status.nodeName is empty.
Wanted(r, x) ==
    IF Terminal(x) THEN x
    ELSE IF x.node = "" /\ "pending-expiry" \notin Repairs THEN x
    ELSE IF ExpCode(x, now) \/ NodeGone(x, nodes) THEN Expired(x, now)
    ELSE IF x.node = "" THEN x
    ELSE LET act == Annotated(r, x, pods)                 \* getPodsOnNode + annotation uid match (terminated pods included)
             o == UidsOf(pods, act)
             a == AllocOf(act, x.dims)
         IN  IF o = x.owners /\ a = x.alloc THEN x
             ELSE LET y == [x EXCEPT !.owners = o, !.alloc = a] IN IF x.once THEN Succeeded(y, now) ELSE y

\* fail = TRUE: the (first) API write of this call fails
Sync(r, g, fail) ==
    LET k == Uid(r, g)
        x == rs[r]
    IN  IF ~x.exists
        THEN \* syncPodsForTerminatedReservation (feature gate): one patch per pod in rToPod[uid]; errors are aggregated
             LET cl == IF cfg.gate THEN Cleanable(k, pods) ELSE {} IN
             \E bad \in (IF fail /\ cl # {} THEN {{p} : p \in cl} ELSE {{}}) :
                /\ pods' = [p \in PNames |-> IF p \in cl \ bad THEN [pods[p] EXCEPT !.ra = ""] ELSE pods[p]]
                /\ rs' = rs
                /\ SyncBook(r, g, bad # {}, FALSE, Cardinality(cl), bad # {}, Cardinality(bad), EnqNow)
        ELSE LET y == Wanted(r, x)
                 w == y # x
                 hit == w /\ fail
             IN  /\ rs' = IF w /\ ~hit THEN [rs EXCEPT ![r] = y] ELSE rs
                 /\ pods' = pods
                 /\ SyncBook(r, g, hit, ~hit /\ NextSyncTimer(y), IF w THEN 1 ELSE 0, hit, IF hit THEN 1 ELSE 0, EnqNow)

\* --- gcReservations: IsReservationExpired || Succeeded, then isReservationNeedCleanup (lastTransitionTime of the Expired
\* condition / lastProbeTime of the Succeeded one) || missingNode; a failed Delete is logged and skipped
GCWants(x) == /\ x.exists
              /\ (x.phase = "Failed" /\ x.ready = "False:Expired") \/ x.phase = "Succeeded"
              /\ \/ (IF x.phase = "Failed" THEN now - x.rtt > cfg.gcd ELSE now - x.rpt > cfg.gcd)
                 \/ NodeGone(x, nodes)
GC(fail) ==
    LET D == {r \in RNames : GCWants(rs[r])} IN
    \E bad \in (IF fail /\ D # {} THEN {{r} : r \in D} ELSE {{}}) :
       /\ rs' = [r \in RNames |-> IF r \in D \ bad THEN NoR ELSE rs[r]]
       /\ GCBook(Cardinality(bad), EnqNow)

Restart == RestartBook(EnqAll)

\* --- environment steps of the model (the informers deliver at once; enqueue per the handlers' rules)
CreateR(r, prm) == ApiCreateR(r, prm) /\ EnvBook("env", EnqNow)
Unsched(r) == ApiUnsched(r) /\ EnvBook("env", EnqNow)
Schedule(r, n) == ApiSchedule(r, n) /\ EnvBook("env", EnqNow)
DeleteR(r) == ApiDeleteR(r) /\ EnvBook("deleteR", EnqNow)
AddPod(p, n, k) == ApiAddPod(p, n, k) /\ EnvBook("env", EnqNow)
BindPod(p, n, k) == ApiBindPod(p, n, k) /\ EnvBook("env", EnqNow)
TermPod(p) == ApiTermPod(p) /\ EnvBook("env", EnqNow)
DelPod(p) == ApiDelPod(p) /\ EnvBook("env", EnqNow)
DelNode(n) == ApiDelNode(n) /\ EnvBook("env", EnqNow)
AddNode(n) == ApiAddNode(n) /\ EnvBook("env", EnqNow)
Tick == ApiTick /\ EnvBook("env", {})

InitWith(c, N0) == /\ cfg = c /\ now = 0 /\ nodes = N0
                   /\ rs = [r \in RNames |-> NoR] /\ pods = [p \in PNames |-> NoP]
                   /\ rgen = [r \in RNames |-> 0] /\ pgen = [p \in PNames |-> 0] /\ used = {}
                   /\ termAt = [r \in RNames |-> 0 - 1] /\ armed = {} /\ quiet = {}
                   /\ step = [op |-> "init"]
=============================================================================
