\* non-vacuity witnesses: every invariant below must be VIOLATED (run by hand with -continue; not part of bin/check):
\* the model reaches Succeeded, Failed by node loss, a GC deletion, two owners, an annotation clean-up, an injected
\* write failure and the window in which the two readings of ttl+expires differ
SPECIFICATION Spec
CONSTANTS
  Nodes = {"n1", "n2"}
  RNames = {"r1"}
  PNames = {"p1", "p2"}
  MaxGen = 1
  MaxPGen = 1
  Repairs = {"pending-expiry"}
  MaxNow = 3
  RParams <- RP_wit
  Cfgs <- Cfg_quick
  NodeSets <- NS_both
VIEW View
INVARIANT NeverSucceeded
INVARIANT NeverFailedByNode
INVARIANT NeverCollected
INVARIANT NeverTwoOwners
INVARIANT NeverAmbiguous
PROPERTY NeverCleaned
PROPERTY NeverFaulted
PROPERTY NeverGCFault
CHECK_DEADLOCK FALSE
