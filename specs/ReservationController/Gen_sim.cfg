\* random walks of K steps through the model as found (two reservations, three pods, all parameter combinations)
SPECIFICATION GenSpec
CONSTANTS
  Nodes = {"n1", "n2"}
  RNames = {"r1", "r2"}
  PNames = {"p1", "p2", "p3"}
  MaxGen = 2
  MaxPGen = 2
  Repairs = {}
  MaxNow = 6
  K = 40
  RParams <- RP_thorough
  Cfgs <- Cfg_all
  NodeSets <- NS_both
INVARIANT SimPrint
CHECK_DEADLOCK FALSE
