\* non-vacuity: tiny universe run with -coverage; every action of Next must be taken (bin/check fails otherwise)
SPECIFICATION Spec
CONSTANTS
  Nodes = {"n1"}
  RNames = {"r1"}
  PNames = {"p1"}
  MaxGen = 1
  MaxPGen = 1
  Repairs = {"pending-expiry"}
  MaxNow = 2
  RParams <- RP_two
  Cfgs <- Cfg_quick
  NodeSets <- NS_one
VIEW View
INVARIANT TypeOK
INVARIANT NoLostWakeup
INVARIANT PhaseShape
PROPERTY StepOK
CHECK_DEADLOCK FALSE
