--------------------- MODULE MC_ReservationController ---------------------
(* Exhaustive bounded model checking of the reservation controller's design: every interleaving of sync (any key,    *)
(* with and without a failing write), garbage collection, restart and the environment events over a small universe.  *)
(* Checked: the step predicate StepProp (T, S, C, G, I and the frame clauses) as an action property, the invariants   *)
(* NoLostWakeup (W) and PhaseShape (O).  Repairs = {} is the controller as found (MC_asfound.cfg: TLC shows the       *)
(* counterexample for (S) on a pending reservation); the pipeline checks the design with the proposed repair.        *)
EXTENDS ReservationController
CONSTANTS MaxNow,     \* the clock runs 0..MaxNow
          RParams,    \* reservation specs the user may create
          Cfgs,       \* controller configurations
          NodeSets    \* initial node sets
\* requests per pod name (cpu, mem)
PReq == [p \in PNames |-> IF p = "p1" THEN [cpu |-> 1, mem |-> 1] ELSE IF p = "p2" THEN [cpu |-> 2, mem |-> 0] ELSE [cpu |-> 1, mem |-> 2]]
Prm(ht, t, he, e, o, d) == [hasTtl |-> ht, ttl |-> t, hasExp |-> he, exp |-> e, once |-> o, dims |-> d]
C(gate, gcd) == [gate |-> gate, gcd |-> gcd, preq |-> PReq]

\* universes
RP_quick == {Prm(TRUE, 1, FALSE, 0, TRUE, {"cpu"}), Prm(TRUE, 0, FALSE, 0, FALSE, {"cpu", "mem"}), Prm(FALSE, 0, TRUE, 2, FALSE, {"cpu"})}
RP_both == {Prm(TRUE, 2, TRUE, 1, FALSE, {"cpu"}), Prm(TRUE, 1, TRUE, 2, TRUE, {"cpu", "mem"}), Prm(TRUE, 0, TRUE, 1, FALSE, {"cpu"})}
RP_thorough == RP_quick \cup RP_both \cup {Prm(TRUE, 2, FALSE, 0, FALSE, {"cpu", "mem"}), Prm(TRUE, 0, FALSE, 0, TRUE, {"cpu"})}
Cfg_quick == {C(TRUE, 0)}
Cfg_all == {C(TRUE, 1), C(FALSE, 1), C(FALSE, 2)}
NS_both == {{"n1", "n2"}}
NS_one == {{"n1"}}
RP_two == {Prm(TRUE, 1, FALSE, 0, TRUE, {"cpu"}), Prm(TRUE, 0, FALSE, 0, FALSE, {"cpu", "mem"})}
RP_wit == RP_quick \cup {Prm(TRUE, 1, TRUE, 2, FALSE, {"cpu"})}
Cfg_nogate == {C(FALSE, 1)}

Init == \E c \in Cfgs, N0 \in NodeSets : InitWith(c, N0)

ACreateR == \E r \in RNames, prm \in RParams : CreateR(r, prm)
AUnsched == \E r \in RNames : Unsched(r)
ASchedule == \E r \in RNames, n \in Nodes : Schedule(r, n)
ADeleteR == \E r \in RNames : DeleteR(r)
AllKeys == {""} \cup UNION {KeysOf(r) : r \in RNames}
AAddPod == \E p \in PNames, n \in Nodes \cup {""}, k \in AllKeys : AddPod(p, n, k)      \* (AddPod guards k \in RaChoice(n))
ABindPod == \E p \in PNames, n \in Nodes, k \in AllKeys : BindPod(p, n, k)
ATermPod == \E p \in PNames : TermPod(p)
ADelPod == \E p \in PNames : DelPod(p)
ADelNode == \E n \in Nodes : DelNode(n)
AAddNode == \E n \in Nodes : AddNode(n)
ATick == now < MaxNow /\ Tick
DoSync(r, g, f) == g <= rgen[r] /\ Sync(r, g, f)
ASync == \E r \in RNames, g \in Gens, f \in BOOLEAN : DoSync(r, g, f)
AGC == \E f \in BOOLEAN : GC(f)
ARestart == Restart

Next == \/ ACreateR \/ AUnsched \/ ASchedule \/ ADeleteR
        \/ AAddPod \/ ABindPod \/ ATermPod \/ ADelPod
        \/ ADelNode \/ AAddNode \/ ATick
        \/ ASync \/ AGC \/ ARestart
Spec == Init /\ [][Next]_vars

StepOK == [][StepProp]_vars
\* `step` only labels the last transition (StepProp reads step'): states are identified without it
View == <<cfg, now, nodes, rs, pods, rgen, pgen, used, termAt, armed, quiet>>

TypeOK == /\ now \in 0..MaxNow /\ nodes \subseteq Nodes
          /\ \A r \in RNames : rs[r].exists => /\ rs[r].phase \in {"Pending", "Available", "Succeeded", "Failed"}
                                               /\ rs[r].gen \in Gens /\ rs[r].node \in Nodes \cup {""}
                                               /\ rs[r].ready \in {"none", "True:Available", "False:Expired", "False:Succeeded"}
          /\ armed \subseteq UNION {KeysOf(r) : r \in RNames}

\* non-vacuity witnesses (MC_witness.cfg: each must be VIOLATED, i.e. the situation is reachable in the model)
NeverSucceeded == \A r \in RNames : rs[r].exists => rs[r].phase # "Succeeded"
NeverFailedByNode == \A r \in RNames : (rs[r].exists /\ rs[r].phase = "Failed") => ExpCode(rs[r], now)
NeverCollected == step.op = "gc" => \A r \in RNames : rgen[r] = 0 \/ rs[r].exists
NeverTwoOwners == \A r \in RNames : rs[r].exists => Cardinality(rs[r].owners) < 2
\* (these two read the step label, which the VIEW leaves out of the state: stated on transitions)
NeverCleaned == [][~(step'.op = "sync" /\ step'.nw > 0 /\ ~rs[step'.r].exists)]_vars
NeverFaulted == [][~(step'.op = "sync" /\ step'.hit)]_vars
NeverGCFault == [][~(step'.op = "gc" /\ step'.nhit > 0)]_vars
NeverAmbiguous == \A r \in RNames : rs[r].exists => (MayExpire(rs[r], now) => MustExpire(rs[r], now))
=============================================================================
