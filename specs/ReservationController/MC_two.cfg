\* the design with the proposed repair; TWO reservations (interference: a sync of one never touches the other), one pod
SPECIFICATION Spec
CONSTANTS
  Nodes = {"n1", "n2"}
  RNames = {"r1", "r2"}
  PNames = {"p1"}
  MaxGen = 1
  MaxPGen = 1
  Repairs = {"pending-expiry"}
  MaxNow = 2
  RParams <- RP_two
  Cfgs <- Cfg_quick
  NodeSets <- NS_both
VIEW View
INVARIANT TypeOK
INVARIANT NoLostWakeup
INVARIANT PhaseShape
PROPERTY StepOK
CHECK_DEADLOCK FALSE
