--------------------- MODULE Gen_ReservationController ---------------------
(* Schedule generation for the G01 harness: random walks (-simulate) through the MODEL (environment + controller     *)
(* transcription); the walk is printed as a script {reset, steps} the harness executes on the REAL controller.  What  *)
(* the real controller does with a schedule is observed by the harness, not predicted here; a step that is not legal   *)
(* in the real state is recorded as skipped.  Simulation picks uniformly among successor states, so rare events        *)
(* (deletes, restarts, node changes) are only offered at every third step.                                             *)
EXTENDS MC_ReservationController, Json, SequencesExt
CONSTANTS K
VARIABLES hist
gvars == <<vars, hist>>
H(rec) == hist' = Append(hist, rec)
GenInit == \E c \in Cfgs, N0 \in NodeSets :
              /\ InitWith(c, N0)
              /\ hist = <<[op |-> "reset", gate |-> c.gate, gcd |-> c.gcd, preq |-> c.preq, nodes |-> SetToSeq(N0)]>>
Rare == Len(hist) % 3 = 0
F(f) == IF f THEN 1 ELSE 0
GenNext ==
  \/ \E r \in RNames, prm \in RParams :
        CreateR(r, prm) /\ H([op |-> "createR", r |-> r, hasTtl |-> prm.hasTtl, ttl |-> prm.ttl, hasExp |-> prm.hasExp,
                              exp |-> prm.exp, once |-> prm.once, dims |-> SetToSeq(prm.dims)])
  \/ Rare /\ \E r \in RNames : Unsched(r) /\ H([op |-> "unsched", r |-> r])
  \/ \E r \in RNames, n \in Nodes : Schedule(r, n) /\ H([op |-> "schedule", r |-> r, n |-> n])
  \/ Rare /\ \E r \in RNames : DeleteR(r) /\ H([op |-> "deleteR", r |-> r])
  \/ \E p \in PNames, n \in Nodes \cup {""} : \E k \in RaChoice(n) :
        (k # "" \/ Rare) /\ AddPod(p, n, k) /\ H([op |-> "addPod", p |-> p, n |-> n, k |-> k])
  \/ \E p \in PNames, n \in Nodes : \E k \in RaChoice(n) : BindPod(p, n, k) /\ H([op |-> "bindPod", p |-> p, n |-> n, k |-> k])
  \/ \E p \in PNames : TermPod(p) /\ H([op |-> "termPod", p |-> p, how |-> "succeeded"])
  \/ Rare /\ \E p \in PNames : DelPod(p) /\ H([op |-> "delPod", p |-> p])
  \/ Rare /\ \E n \in Nodes : DelNode(n) /\ H([op |-> "delNode", n |-> n])
  \/ \E n \in Nodes : AddNode(n) /\ H([op |-> "addNode", n |-> n])
  \/ now < MaxNow /\ Tick /\ H([op |-> "tick"])
  \/ \E r \in RNames, g \in Gens, f \in BOOLEAN :
        g <= rgen[r] /\ (rs[r].exists => g = rs[r].gen \/ Rare) /\ Sync(r, g, f)
        /\ H([op |-> "sync", r |-> r, g |-> g, fail |-> F(f), ek |-> IF Len(hist) % 2 = 0 THEN "conflict" ELSE "timeout"])
  \/ \E f \in BOOLEAN : GC(f) /\ H([op |-> "gc", fail |-> F(f), ek |-> "timeout"])
  \/ Rare /\ Restart /\ H([op |-> "restart"])
GenSpec == GenInit /\ [][GenNext]_gvars
SimPrint == Len(hist) = K + 1 => PrintT(ToJson(hist))
=============================================================================
