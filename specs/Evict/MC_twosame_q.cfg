\* two tasks, same target, 2 pods, all second lists (quick)
SPECIFICATION MCSpec
CONSTANTS
  SkipUseless = TRUE
  MaxPods = 2
  CVals = {0, 1, 2}
  Needs = {0, 1, 2, 3}
  Universe = "twosame"
INVARIANT NoViolation
INVARIANT AccountExact
INVARIANT ReturnOK
CHECK_DEADLOCK FALSE
