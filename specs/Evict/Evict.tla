------------------------------- MODULE Evict -------------------------------
(***************************************************************************)
(* C11 - node-pressure eviction takes only eligible victims, in order, and *)
(* only as needed.                                                         *)
(*                                                                         *)
(* One run of the koordlet eviction loop                                   *)
(*   pkg/koordlet/qosmanager/plugins/util/evict.go  KillAndEvictPods       *)
(* is described by a CASE (its inputs) and by the sequence of calls it     *)
(* makes on the EvictionExecutor.                                          *)
(*                                                                         *)
(* CASE  C  (a record; in traces it is the reset event itself):            *)
(*   C.pods   pod name -> [already, fails (+ attributes, see below)]       *)
(*            already  the pod was evicted in an earlier round and is      *)
(*                     still present (IsPodEvicted = TRUE)                 *)
(*            fails    an Evict call on this pod fails                     *)
(*   C.tasks  sequence of tasks (the strategies that fired this round):    *)
(*            tt    release target type ("podUsed", "podResourceRequest"…) *)
(*            need  resource name -> amount to release (the target)        *)
(*            list  the candidates, in the order handed to the loop        *)
(*            kind  which published order / eligibility rule applies:      *)
(*                  "list"       the order IS the list (loop in isolation) *)
(*                  "prio_used"  priority-threshold strategy, by usage     *)
(*                  "prio_req"   priority-threshold strategy, by request   *)
(*                  "be_mem"     best-effort strategy, memory              *)
(*                  "be_cpu"     best-effort strategy, cpu satisfaction    *)
(*            feature, thr   strategy name (= eviction policy name) and    *)
(*                  configured priority threshold (kinds other than list)  *)
(*            c     pod -> resource -> amount returned by the task's own   *)
(*                  per-pod release function (absent = 0).  For kind       *)
(*                  "list" (the loop in isolation) these tables ARE the    *)
(*                  input: what a pod releases for a target is the largest *)
(*                  figure among the tasks with that target.  For the      *)
(*                  strategy kinds they are the code's own credit and are  *)
(*                  NOT trusted: see "what a victim releases" below        *)
(*   strategy cases also carry  usedRes  (resource of the usage target:    *)
(*            "cpu" / "memory") and  unit  (target units per unit of the   *)
(*            pod usage metric: cores -> milli-cores = 1000)               *)
(*   pod attributes (strategy kinds), as set on the pod object:            *)
(*            qos, prio, evictLabel (value of the eviction-enabled label,  *)
(*            "" = absent), hasPolicy/policy (eviction-policy annotation:  *)
(*            sequence of allowed policy names), hasEp/ep (eviction-       *)
(*            priority annotation), hasLp/lp (priority label), used (pod   *)
(*            usage metric, 0 if none), req (request in the resource of    *)
(*            the pod's priority class), breq (its batch-cpu request),     *)
(*            reqRes (the resource name the request is declared under),    *)
(*            hasMetric (a usage sample exists)                            *)
(*   Several rounds of the entry point (cpuEvict / memoryEvict) on the     *)
(*   same pods are a sequence of such cases: EvictTrace.tla replaces       *)
(*   C.tasks at every round, drops the pods that are gone and derives      *)
(*   `already` from the history (an eviction accepted in an earlier round) *)
(*                                                                         *)
(* Two layers:                                                             *)
(*  property level  PropSeen / PropEvict / PropRet : what every call on    *)
(*      the executor and the returned ReleaseList must satisfy, whatever   *)
(*      the loop's algorithm is.  State: victims (pods whose resources     *)
(*      count as released: successfully evicted in this run, or seen by    *)
(*      the loop to be already evicted) and tried (pods Evict was called   *)
(*      on).  Used by the trace specification - verdicts come from here.   *)
(*        (El) the victim is eligible for the task's strategy              *)
(*        (Tw) it is not already a victim (this run or an earlier round)   *)
(*        (St) the task's target is not yet covered by the victims - what  *)
(*             they REALLY free according to the input - together with the *)
(*             pending release of every already-evicted, still present     *)
(*             candidate that strictly precedes the new victim in the      *)
(*             published order (the loop must have come across it)         *)
(*        (Us) the victim releases something of what is still short        *)
(*        (Or) no candidate that strictly precedes it in the published     *)
(*             order has been passed over without reason (reason = tried,  *)
(*             already a victim, or useless for what is still short); the  *)
(*             candidates are the pods of the INPUT the strategy's rule    *)
(*             admits, not only those the code put on its list             *)
(*        (Rl) the returned ReleaseList is the sum over the victims        *)
(*        (Pr) on return a task is left uncovered only if no remaining     *)
(*             candidate could still help it (no premature stop)           *)
(*  design level    a transcription of the loop of KillAndEvictPods as a   *)
(*      process (Next); TLC checks over a bounded universe of cases that   *)
(*      every call it makes is allowed by the property level (MC).         *)
(*      SkipUseless = TRUE is the repaired loop, FALSE the loop as found   *)
(*      at the pinned commit (it never looks at the victim's contribution: *)
(*      MC_asfound.cfg shows the resulting violation of (Us)).             *)
(***************************************************************************)
EXTENDS Integers, Sequences, FiniteSets, FiniteSetsExt, TLC, IOUtils

CONSTANT SkipUseless

VARIABLES cs,        \* the case (fixed during a run of the loop; EvictTrace replaces tasks / pods when a new round begins)
          victims,   \* pods whose release counts: evicted successfully in this run, or seen to be already evicted
          tried,     \* pods on which Evict has been called in this run
          ti, pi,    \* design level: current task, current position in its list (0 = task entry check pending)
          rel,       \* design level: the loop's own running account  target type -> resource -> amount
          viol,      \* design level: some call of the modelled loop was not allowed by the property level
          violS      \* design level: some call was made although ALL already-evicted candidates cover the target (StStrict)
pvars == <<victims, tried>>
mvars == <<ti, pi, rel, viol, violS>>
vars  == <<cs, victims, tried, ti, pi, rel, viol, violS>>

Rng(s)  == {s[i] : i \in DOMAIN s}
Val(f, k) == IF k \in DOMAIN f THEN f[k] ELSE 0
Pos(s, x) == CHOOSE i \in DOMAIN s : s[i] = x

(******************************* case access *******************************)
TaskIds(C)   == 1..Len(C.tasks)
TT(C, t)     == C.tasks[t].tt
Need(C, t)   == C.tasks[t].need
List(C, t)   == C.tasks[t].list
Kind(C, t)   == C.tasks[t].kind
\* What the removal of pod p releases in terms of target type T.
\*  - loop in isolation (kind "list", no pod attributes): the tasks' tables are the input.  Every task with that target
\*    carries its own function pod -> resource -> amount (absent = 0); tasks with the same target describe the same
\*    content, possibly under different resource names, which counts once (the largest figure), not once per task
\*  - strategy cases (pod attributes present): computed from the INPUT - the usage sample in the metric cache and the
\*    request declared on the pod object - never from the figures the code reports (a victim whose usage the code forgot
\*    to look up still frees that usage)
TaskContrib(C, u, p, r) == IF p \in DOMAIN C.tasks[u].c THEN Val(C.tasks[u].c[p], r) ELSE 0
TableContrib(C, T, p, r) == Max({0} \cup {TaskContrib(C, u, p, r) : u \in {v \in TaskIds(C) : TT(C, v) = T}})
HasAttrs(C) == "usedRes" \in DOMAIN C
AttrContrib(C, T, p, r) ==
  IF p \notin DOMAIN C.pods THEN 0
  ELSE LET a == C.pods[p]
       IN  CASE T = "podUsed"            -> IF r = C.usedRes THEN a.used * C.unit ELSE 0
             [] T = "podResourceRequest" -> IF r = a.reqRes THEN a.req ELSE 0
             [] OTHER                    -> 0
Contrib(C, T, p, r) == IF HasAttrs(C) THEN AttrContrib(C, T, p, r) ELSE TableContrib(C, T, p, r)
Needed(C, t) == {r \in DOMAIN Need(C, t) : Need(C, t)[r] > 0}

\* resources released by a set of victims, in terms of target type T
Released(C, T, r, V) == FoldSet(LAMBDA p, acc : acc + Contrib(C, T, p, r), 0, V)
\* what task t is still short of, given the victims V
Short(C, t, V)   == {r \in Needed(C, t) : Released(C, TT(C, t), r, V) < Need(C, t)[r]}
Covered(C, t, V) == Short(C, t, V) = {}
\* removing p frees something of what task t is still short of
Useful(C, t, p, V) == \E r \in Short(C, t, V) : Contrib(C, TT(C, t), p, r) > 0

(***************************** published order *****************************)
\* effective values: no eviction-priority annotation = 0; no priority label = the pod's priority
EP(a) == IF a.hasEp THEN a.ep ELSE 0
LP(a) == IF a.hasLp THEN a.lp ELSE a.prio
Enabled(a) == a.evictLabel = "true"

LexLess(a, b) == \E i \in 1..Len(a) : a[i] < b[i] /\ \A j \in 1..(i - 1) : a[j] = b[j]

\* usage/request ratio of the best-effort cpu strategy (request = the pod's batch-cpu request; ratio 0 when there
\* is none), compared exactly
RatioGreater(a, b) ==
  LET na == IF a.breq > 0 THEN a.used ELSE 0
      da == IF a.breq > 0 THEN a.breq ELSE 1
      nb == IF b.breq > 0 THEN b.used ELSE 0
      db == IF b.breq > 0 THEN b.breq ELSE 1
  IN  na * db > nb * da

\* x strictly precedes y in the published order of task t
Before(C, t, x, y) ==
  LET k == Kind(C, t)
      a == C.pods[x]
      b == C.pods[y]
  IN  CASE k = "list"      -> IF x \in Rng(List(C, t)) /\ y \in Rng(List(C, t))
                              THEN Pos(List(C, t), x) < Pos(List(C, t), y) ELSE FALSE
        [] k = "prio_used" -> LexLess(<<EP(a), a.prio, LP(a), 0 - a.used>>, <<EP(b), b.prio, LP(b), 0 - b.used>>)
        [] k = "prio_req"  -> LexLess(<<EP(a), a.prio, LP(a), 0 - a.req>>, <<EP(b), b.prio, LP(b), 0 - b.req>>)
        [] k = "be_mem"    -> LexLess(<<a.prio, 0 - a.used>>, <<b.prio, 0 - b.used>>)
        [] k = "be_cpu"    -> a.prio < b.prio \/ (a.prio = b.prio /\ RatioGreater(a, b))

(******************************* eligibility *******************************)
PolicyAllowed(a, feature) == (~a.hasPolicy) \/ (feature \in Rng(a.policy))

Eligible(C, t, p) ==
  IF p \notin DOMAIN C.pods THEN FALSE
  ELSE LET k == Kind(C, t)
           a == C.pods[p]
       IN  CASE k = "list" -> p \in Rng(List(C, t))
             [] k \in {"be_mem", "be_cpu"} ->
                    a.qos = "BE" /\ PolicyAllowed(a, C.tasks[t].feature)
             [] k \in {"prio_used", "prio_req"} ->
                    a.prio <= C.tasks[t].thr /\ Enabled(a) /\ PolicyAllowed(a, C.tasks[t].feature)

\* the candidates of task t according to the INPUT: the pods its strategy's rule admits (the priority strategies rank
\* by a usage sample and take no pod without one); for the loop in isolation the list handed in
Cand(C, t, p) ==
  IF p \notin DOMAIN C.pods THEN FALSE
  ELSE CASE Kind(C, t) = "list" -> p \in Rng(List(C, t))
         [] Kind(C, t) \in {"be_mem", "be_cpu"} -> Eligible(C, t, p)
         [] Kind(C, t) \in {"prio_used", "prio_req"} -> Eligible(C, t, p) /\ C.pods[p].hasMetric
CandSet(C, t) == {p \in DOMAIN C.pods : Cand(C, t, p)}
\* ... together with whatever else the code put on its list
OrSet(C, t)   == CandSet(C, t) \cup Rng(List(C, t))
\* already-evicted, still present candidates that strictly precede p in the published order of task t: whatever the
\* code did with them, their pending release counts when p is taken ("including pods already evicted but still terminating")
PendingBefore(C, t, p) == {x \in CandSet(C, t) : x # p /\ C.pods[x].already /\ Before(C, t, x, p)}

(***************************** property level ******************************)
\* second validation pass of segments that were rejected for the recorded finding "victims that free nothing of what is
\* short" (known_findings.json): the clause is switched off so that the REST of such a segment is judged too
TolerateUs == "VERIF_TOLERATE_C11_US" \in DOMAIN IOEnv
El(C, t, p)        == Eligible(C, t, p)
Tw(C, V, p)        == p \notin V /\ ~C.pods[p].already
St(C, V, t, p)     == ~Covered(C, t, V \cup PendingBefore(C, t, p))
Us(C, V, t, p)     == Useful(C, t, p, V)
Or(C, V, Tr, t, p) == \A x \in OrSet(C, t) :
                         (x # p /\ Before(C, t, x, p)) =>
                            (x \in Tr \/ x \in V \/ C.pods[x].already \/ ~Useful(C, t, x, V))

\* Evict(p) issued on behalf of task t, with victims V and tried pods Tr so far
EvictAllowed(C, V, Tr, p, t) ==
  IF t \notin TaskIds(C) \/ p \notin DOMAIN C.pods THEN FALSE
  ELSE El(C, t, p) /\ Tw(C, V, p) /\ St(C, V, t, p) /\ (Us(C, V, t, p) \/ TolerateUs) /\ Or(C, V, Tr, t, p)

\* the same, clause by clause (explain mode / diagnostics)
Clauses(C, V, Tr, p, t) ==
  IF t \notin TaskIds(C) \/ p \notin DOMAIN C.pods THEN [known |-> FALSE]
  ELSE [known |-> TRUE, El |-> El(C, t, p), Tw |-> Tw(C, V, p), St |-> St(C, V, t, p),
        Us |-> Us(C, V, t, p), Or |-> Or(C, V, Tr, t, p),
        short |-> Short(C, t, V), pendingBefore |-> PendingBefore(C, t, p)]

\* the loop learned (IsPodEvicted = TRUE) that p was evicted in an earlier round: its release counts from now on
PropSeen(C, p) == /\ p \in DOMAIN C.pods
                  /\ C.pods[p].already
                  /\ victims' = victims \cup {p}
                  /\ UNCHANGED tried

\* (the guards are written  = TRUE  so that TLC evaluates them as values; as action formulas their disjunctions
\* would be split into exponentially many identical successor computations - EvictTrace does the same via Holds)
PropEvict(C, p, t, ok) == /\ EvictAllowed(C, victims, tried, p, t) = TRUE
                          /\ tried' = tried \cup {p}
                          /\ victims' = IF ok THEN victims \cup {p} ELSE victims

\* returned ReleaseList (target type -> resource -> amount): for everything some task needs, the sum over the victims
RetOK(C, V, released) ==
  \A t \in TaskIds(C) : \A r \in Needed(C, t) :
     (IF TT(C, t) \in DOMAIN released THEN Val(released[TT(C, t)], r) ELSE 0) = Released(C, TT(C, t), r, V)
\* when the loop returns, a task is left uncovered only if no candidate could still help it: every candidate has
\* been tried, is a victim, or frees nothing of what the task is still short of  ("stops as soon as", not before)
PrOK(C, V, Tr) ==
  \A t \in TaskIds(C) :
     Covered(C, t, V) \/ \A x \in OrSet(C, t) :
                            x \in Tr \/ x \in V \/ C.pods[x].already \/ ~Useful(C, t, x, V)
PropRet(C, released) == (RetOK(C, victims, released) /\ PrOK(C, victims, tried)) = TRUE /\ UNCHANGED pvars

\* stronger reading of (St), NOT used for verdicts (see proposed_fixes/C11/README.md): the release of EVERY
\* already-evicted candidate counts from the start, not only of those the loop has come across (MC_strict.cfg)
AllAlready(C) == {p \in DOMAIN C.pods : C.pods[p].already /\ \E t \in TaskIds(C) : p \in Rng(List(C, t))}
StStrict(C, V, t) == ~Covered(C, t, V \cup AllAlready(C))

(****************************** design level *******************************)
\* transcription of KillAndEvictPods
TargetTypes(C) == {TT(C, t) : t \in {u \in TaskIds(C) : Needed(C, u) # {}}}     \* "releaseTypes"
ResOf(C, T)    == UNION {UNION {DOMAIN C.tasks[u].c[p] : p \in DOMAIN C.tasks[u].c} : u \in {v \in TaskIds(C) : TT(C, v) = T}}
\* len(subReleaseListNoNegative(task.ToReleaseResource, releasedAll[target])) == 0
CodeShort(C, t, R)   == {r \in DOMAIN Need(C, t) :
                            Need(C, t)[r] > (IF TT(C, t) \in DOMAIN R THEN Val(R[TT(C, t)], r) ELSE 0)}
CodeCovered(C, t, R) == CodeShort(C, t, R) = {}
\* addResource(releasedAll, aggregateReleaseFunc(info))
Add(C, R, p) == [T \in DOMAIN R |-> [r \in DOMAIN R[T] |-> R[T][r] + Contrib(C, T, p, r)]]
\* repaired loop: the pod's aggregated release for this target touches nothing of what is still short
CodeUseful(C, t, R, p) == \E r \in CodeShort(C, t, R) : Contrib(C, TT(C, t), p, r) > 0

InitCase(C) ==
  /\ cs = C
  /\ victims = {} /\ tried = {}
  /\ ti = 1 /\ pi = 0
  /\ rel = [T \in TargetTypes(cs) |-> [r \in ResOf(cs, T) |-> 0]]
  /\ viol = FALSE /\ violS = FALSE

Running == ti <= Len(cs.tasks)

NextTask == ti' = ti + 1 /\ pi' = 0

\* task entry: skip the task when the accumulated release already covers its target
Enter == /\ Running /\ pi = 0
         /\ IF CodeCovered(cs, ti, rel) THEN NextTask ELSE (ti' = ti /\ pi' = 1)
         /\ UNCHANGED <<cs, victims, tried, rel, viol, violS>>

ListEnd == /\ Running /\ pi > Len(List(cs, ti))
           /\ NextTask
           /\ UNCHANGED <<cs, victims, tried, rel, viol, violS>>

Cur == List(cs, ti)[pi]
AtPod == Running /\ pi >= 1 /\ pi <= Len(List(cs, ti))

\* evictedPodsMp[podKey]
SkipVictim == /\ AtPod /\ Cur \in victims
              /\ pi' = pi + 1
              /\ UNCHANGED <<cs, victims, tried, ti, rel, viol, violS>>

\* IsPodEvicted(pod): pending release
Pending == /\ AtPod /\ Cur \notin victims /\ cs.pods[Cur].already
           /\ victims' = victims \cup {Cur}
           /\ rel' = Add(cs, rel, Cur)
           /\ IF CodeCovered(cs, ti, rel') THEN NextTask ELSE (ti' = ti /\ pi' = pi + 1)
           /\ UNCHANGED <<cs, tried, viol, violS>>

\* repaired loop only: nothing of what is short would be freed
SkipUselessPod == /\ SkipUseless
                  /\ AtPod /\ Cur \notin victims /\ ~cs.pods[Cur].already
                  /\ ~CodeUseful(cs, ti, rel, Cur)
                  /\ pi' = pi + 1
                  /\ UNCHANGED <<cs, victims, tried, ti, rel, viol, violS>>

DoEvict == /\ AtPod /\ Cur \notin victims /\ ~cs.pods[Cur].already
           /\ (SkipUseless => CodeUseful(cs, ti, rel, Cur))
           /\ viol' = (viol \/ ~EvictAllowed(cs, victims, tried, Cur, ti))
           /\ violS' = (violS \/ ~StStrict(cs, victims, ti))
           /\ tried' = tried \cup {Cur}
           /\ IF cs.pods[Cur].fails
              THEN /\ UNCHANGED <<victims, rel, ti>>
                   /\ pi' = pi + 1
              ELSE /\ victims' = victims \cup {Cur}
                   /\ rel' = Add(cs, rel, Cur)
                   /\ IF CodeCovered(cs, ti, rel') THEN NextTask ELSE (ti' = ti /\ pi' = pi + 1)
           /\ UNCHANGED cs

Next == Enter \/ ListEnd \/ SkipVictim \/ Pending \/ SkipUselessPod \/ DoEvict

\* what TLC checks on the model
NoViolation == ~viol
\* the loop's own account equals the sum over the victims (so the returned list satisfies (Rl))
AccountExact == \A T \in DOMAIN rel : \A r \in DOMAIN rel[T] : rel[T][r] = Released(cs, T, r, victims)
ReturnOK == (~Running) => (RetOK(cs, victims, rel) /\ PrOK(cs, victims, tried))
\* the stronger reading of (St) (informational only, MC_strict.cfg; it does NOT hold for the loop, repaired or not)
NoStrictViolation == ~violS
=============================================================================
