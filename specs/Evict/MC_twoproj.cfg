\* two tasks, same target, different resource names known (batch-cpu / batch-cpu + mid-cpu), 2 pods, all second lists
SPECIFICATION MCSpec
CONSTANTS
  SkipUseless = TRUE
  MaxPods = 2
  CVals = {0, 1}
  Needs = {0, 1, 2}
  Universe = "twoproj"
INVARIANT NoViolation
INVARIANT AccountExact
INVARIANT ReturnOK
CHECK_DEADLOCK FALSE
