\* the loop AS FOUND at the pinned commit (no look at the victim's contribution): TLC reports NoViolation violated,
\* shortest counterexample = one useless pod in front of the target (clause Us). Not run by bin/check (documentation).
SPECIFICATION MCSpec
CONSTANTS
  SkipUseless = FALSE
  MaxPods = 2
  CVals = {0, 1, 2}
  Needs = {0, 1, 2}
  Universe = "one"
INVARIANT NoViolation
CHECK_DEADLOCK FALSE
