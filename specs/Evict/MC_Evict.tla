------------------------------ MODULE MC_Evict ------------------------------
(* Bounded universes of cases for exhaustive model checking of the loop model.  *)
(* Pods are interchangeable, so the first task's list is p1..pk in that order;  *)
(* every pod ranges over all (already, fails, contribution) combinations.       *)
EXTENDS Evict

CONSTANTS MaxPods,    \* 1 task: lists of 0..MaxPods pods
          CVals,      \* per-pod contribution values
          Needs,      \* target values (0 = nothing to release)
          Universe    \* which set of cases: "one" | "twores" | "twosame" | "twodiff"

PodName == <<"p1", "p2", "p3", "p4">>
PodsK(k) == {PodName[i] : i \in 1..k}
Flags    == [already : BOOLEAN, fails : BOOLEAN]

\* duplicate-free sequences over a set
RECURSIVE SeqsOver(_)
SeqsOver(S) == {<<>>} \cup UNION {{<<x>> \o s : s \in SeqsOver(S \ {x})} : x \in S}

\* one task, one resource
CasesOne ==
  UNION {{[pods  |-> pa,
           tasks |-> <<[tt |-> "U", need |-> [m |-> n], list |-> SubSeq(PodName, 1, k), kind |-> "list"]>>,
           c     |-> [U |-> ca]]
          : pa \in [PodsK(k) -> Flags], ca \in [PodsK(k) -> [m : CVals]], n \in Needs}
         : k \in 0..MaxPods}

\* one task short of two resources (e.g. batch-cpu and mid-cpu of the allocatable strategies)
CasesTwoRes ==
  UNION {{[pods  |-> pa,
           tasks |-> <<[tt |-> "R", need |-> [b |-> nb, m |-> nm], list |-> SubSeq(PodName, 1, k), kind |-> "list"]>>,
           c     |-> [R |-> ca]]
          : pa \in [PodsK(k) -> Flags], ca \in [PodsK(k) -> [b : CVals, m : CVals]], nb \in Needs, nm \in Needs}
         : k \in 0..MaxPods}

\* two simultaneous tasks over the same target (their releases are one account), overlapping candidate lists
CasesTwoSame ==
  UNION {{[pods  |-> pa,
           tasks |-> <<[tt |-> "U", need |-> [m |-> n1], list |-> SubSeq(PodName, 1, k), kind |-> "list"],
                       [tt |-> "U", need |-> [m |-> n2], list |-> l2, kind |-> "list"]>>,
           c     |-> [U |-> ca]]
          : pa \in [PodsK(MaxPods) -> Flags], ca \in [PodsK(MaxPods) -> [m : CVals]],
            n1 \in Needs, n2 \in Needs, l2 \in SeqsOver(PodsK(MaxPods))}
         : k \in 0..MaxPods}

\* two simultaneous tasks over different targets (a victim of one also releases for the other)
CasesTwoDiff ==
  UNION {{[pods  |-> pa,
           tasks |-> <<[tt |-> "U", need |-> [m |-> n1], list |-> SubSeq(PodName, 1, k), kind |-> "list"],
                       [tt |-> "R", need |-> [b |-> n2], list |-> l2, kind |-> "list"]>>,
           c     |-> [U |-> ca, R |-> cb]]
          : pa \in [PodsK(MaxPods) -> Flags], ca \in [PodsK(MaxPods) -> [m : CVals]],
            cb \in [PodsK(MaxPods) -> [b : CVals]],
            n1 \in Needs, n2 \in Needs, l2 \in SeqsOver(PodsK(MaxPods))}
         : k \in 0..MaxPods}

Cases == CASE Universe = "one"     -> CasesOne
           [] Universe = "twores"  -> CasesTwoRes
           [] Universe = "twosame" -> CasesTwoSame
           [] Universe = "twodiff" -> CasesTwoDiff

MCInit == Init(Cases)
MCSpec == MCInit /\ [][Next]_vars
=============================================================================
