\* two tasks, same target, 3 pods, all second lists (thorough; ~10M states)
SPECIFICATION MCSpec
CONSTANTS
  SkipUseless = TRUE
  MaxPods = 3
  CVals = {0, 1, 2}
  Needs = {0, 1, 2, 3}
  Universe = "twosame"
INVARIANT NoViolation
INVARIANT AccountExact
INVARIANT ReturnOK
CHECK_DEADLOCK FALSE
