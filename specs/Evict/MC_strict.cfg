\* Informational, not run by bin/check: the STRONGER reading of (St) - every already-evicted candidate counts from the
\* start - does not hold for the loop (repaired or as found): list <<p1, p2>>, p2 already evicted and covering the
\* target alone, p1 useful => Evict(p1). TLC reports NoStrictViolation violated.
SPECIFICATION MCSpec
CONSTANTS
  SkipUseless = TRUE
  MaxPods = 2
  CVals = {0, 1, 2}
  Needs = {0, 1, 2}
  Universe = "one"
INVARIANT NoStrictViolation
CHECK_DEADLOCK FALSE
