\* two tasks, different targets, 2 pods (quick)
SPECIFICATION MCSpec
CONSTANTS
  SkipUseless = TRUE
  MaxPods = 2
  CVals = {0, 1}
  Needs = {0, 1, 2}
  Universe = "twodiff"
INVARIANT NoViolation
INVARIANT AccountExact
INVARIANT ReturnOK
CHECK_DEADLOCK FALSE
