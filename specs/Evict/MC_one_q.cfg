\* one task, one resource: <=3 pods, contributions 0..2, targets 0..4, all already/fails patterns (repaired loop; quick)
SPECIFICATION MCSpec
CONSTANTS
  SkipUseless = TRUE
  MaxPods = 3
  CVals = {0, 1, 2}
  Needs = {0, 1, 2, 3, 4}
  Universe = "one"
INVARIANT NoViolation
INVARIANT AccountExact
INVARIANT ReturnOK
CHECK_DEADLOCK FALSE
