SPECIFICATION TraceSpec
CONSTANTS
  SkipUseless = TRUE
CONSTRAINT Report
CHECK_DEADLOCK FALSE
