\* two tasks, different targets, 3 pods (thorough; ~14M states)
SPECIFICATION MCSpec
CONSTANTS
  SkipUseless = TRUE
  MaxPods = 3
  CVals = {0, 1}
  Needs = {0, 1, 2}
  Universe = "twodiff"
INVARIANT NoViolation
INVARIANT AccountExact
INVARIANT ReturnOK
CHECK_DEADLOCK FALSE
