----------------------------- MODULE EvictTrace -----------------------------
(* Trace validation for C11.  One segment = one run of the real eviction loop:      *)
(*   reset   the case (inputs; for the strategy harnesses also the candidate lists, *)
(*           targets and per-pod contributions produced by the real strategy code)  *)
(*   seen    IsPodEvicted(pod) answered TRUE  (the loop learned of a pending release) *)
(*   evict   Evict(pod) received by the recording executor on behalf of task `task`, *)
(*           with the executor's answer `ok`                                        *)
(*   ret     the returned ReleaseList                                               *)
(* Several ROUNDS of the real entry point (cpuEvict / memoryEvict with the real      *)
(* Evictor on a fake API server) in one segment:                                     *)
(*   reset   the pods (attributes), no tasks yet                                     *)
(*   round   a round begins: the pods still present, the tasks that fire (targets,   *)
(*           candidate lists as built by the real strategy code for this state)      *)
(*   seen / evict   as above                                                         *)
(*   end     the entry point returned (its ReleaseList is not observable)            *)
(* A pod counts as already evicted in a round iff an Evict call on it succeeded in   *)
(* an earlier round of the segment (or the loop was told so then) and it is still    *)
(* present - derived HERE from the history, not reported by the harness.             *)
(* Every event must be a step the PROPERTY level of Evict.tla allows.               *)
EXTENDS Evict, TraceCommon

\* evaluate a property-level predicate as a VALUE: inside an action TLC would otherwise split every disjunction of
\* the predicate into separate (identical) successor computations - exponentially many for nested quantifiers
Holds(b) == b = TRUE

ExpectedRelease(C, V) ==
  [T \in {TT(C, t) : t \in TaskIds(C)} |->
     [r \in UNION {Needed(C, t) : t \in {u \in TaskIds(C) : TT(C, u) = T}} |-> Released(C, T, r, V)]]

TSeen  == /\ IsEvent("seen")
          /\ PropSeen(cs, Ev.pod)
          /\ UNCHANGED <<cs, mvars>>

TEvict == /\ IsEvent("evict")
          /\ Expect(Holds(EvictAllowed(cs, victims, tried, Ev.pod, Ev.task)),
                    Clauses(cs, victims, tried, Ev.pod, Ev.task))
          /\ tried' = tried \cup {Ev.pod}
          /\ victims' = IF Ev.ok THEN victims \cup {Ev.pod} ELSE victims
          /\ UNCHANGED <<cs, mvars>>

TRet   == /\ IsEvent("ret")
          /\ Expect(Holds(RetOK(cs, victims, Ev.released) /\ PrOK(cs, victims, tried)),
                    [Rl |-> RetOK(cs, victims, Ev.released), Pr |-> PrOK(cs, victims, tried),
                     released |-> ExpectedRelease(cs, victims)])
          /\ UNCHANGED vars

\* a new round: victims of the rounds so far that are still present are "already evicted, still terminating"
NextPods(C, present, V) ==
  [p \in {q \in DOMAIN C.pods : q \in present} |-> [C.pods[p] EXCEPT !.already = (@ \/ p \in V)]]
TRound == /\ IsEvent("round")
          /\ cs' = [[cs EXCEPT !.tasks = Ev.tasks] EXCEPT !.pods = NextPods(cs, Rng(Ev.present), victims)]
          /\ victims' = {} /\ tried' = {}
          /\ UNCHANGED mvars

\* the entry point returned: no premature stop (the ReleaseList stays inside the entry point)
TEnd   == /\ IsEvent("end")
          /\ Expect(Holds(PrOK(cs, victims, tried)), [Pr |-> PrOK(cs, victims, tried)])
          /\ UNCHANGED vars

TraceInit == \E i \in Starts :
                /\ TraceStart(i)
                /\ cs = Trace[i]
                /\ victims = {} /\ tried = {}
                /\ ti = 0 /\ pi = 0 /\ rel = <<>> /\ viol = FALSE /\ violS = FALSE
TraceNext == TSeen \/ TEvict \/ TRet \/ TRound \/ TEnd \/ (SegDone /\ UNCHANGED vars)
TraceSpec == TraceInit /\ [][TraceNext]_<<vars, tvars>>
=============================================================================
