\* one task short of two resources, <=3 pods (thorough; ~1.8M states)
SPECIFICATION MCSpec
CONSTANTS
  SkipUseless = TRUE
  MaxPods = 3
  CVals = {0, 1, 2}
  Needs = {0, 1, 2}
  Universe = "twores"
INVARIANT NoViolation
INVARIANT AccountExact
INVARIANT ReturnOK
CHECK_DEADLOCK FALSE
