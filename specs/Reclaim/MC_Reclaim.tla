----------------------------- MODULE MC_Reclaim -----------------------------
(***************************************************************************)
(* Decide C09 (batch tier) on the model: over a small exhaustive input     *)
(* domain the algorithm transcription BatchImpl satisfies every            *)
(* property-level predicate (invariant ImplOK), and every single-step      *)
(* raise of a consumption input never raises a published amount (action    *)
(* property Mono).  The state is one input; Init enumerates the            *)
(* configurations with every consumption input at its minimum, Next raises *)
(* one consumption input by one step, so the reachable states are the      *)
(* whole input domain and the transitions are all neighbouring pairs.      *)
(* cpu and memory carry the same numbers (the two resources are computed   *)
(* independently); they differ by policy and by the LSE rule.              *)
(***************************************************************************)
EXTENDS Reclaim

CONSTANTS
  Caps,            \* node capacities
  ThrStep, MinThr, \* reclaim threshold starts at 100 (no margin) and is lowered by ThrStep down to MinThr
  Pcts,            \* percentage caps (-1 = none)
  PolC, PolM,      \* cpu / memory policies
  Ages,            \* metric ages in seconds (degrade time is 1 minute); not part of the state: the
                   \* predicates are evaluated for every age at every state (a stale input makes the rest irrelevant)
  MaxSys, MaxKRes, MaxAnno, MaxApp, MaxReq, MaxUse, MaxDang,
  Scenarios        \* set of [pods: sequence of pod shapes [prio, qos, phase, metric, numa],
                   \*         dang: sequence of dangling-metric priorities, apps: sequence of host-app priorities,
                   \*         zones: sequence of zone capacities]

VARIABLE inp
vars == <<inp>>

RR(v) == [cpu |-> v, mem |-> v]

MkPod(s)  == [prio |-> s.prio, qos |-> s.qos, phase |-> s.phase, metric |-> s.metric, numa |-> s.numa,
              req |-> RR(0), use |-> RR(0)]
MkUse(pr) == [prio |-> pr, use |-> RR(0)]

Init ==
  \E c \in Caps, pc \in PolC, pm \in PolM, pct \in Pcts, sc \in Scenarios :
    LET ps == sc.pods  ds == sc.dang  hs == sc.apps  zc == sc.zones IN
    inp = [cap |-> RR(c), alloc |-> RR(c), anno |-> RR(0), thr |-> RR(100),
           pol |-> [cpu |-> pc, mem |-> pm], pct |-> RR(pct), degrade |-> 1, age |-> 0, sys |-> RR(0),
           apps |-> [k \in 1..Len(hs) |-> MkUse(hs[k])],
           pods |-> [k \in 1..Len(ps) |-> MkPod(ps[k])],
           dangling |-> [k \in 1..Len(ds) |-> MkUse(ds[k])],
           zones |-> [k \in 1..Len(zc) |-> RR(zc[k])]]

Inc(rl) == RR(rl.cpu + 1)

RaiseSys  == inp.sys.cpu < MaxSys /\ inp' = [inp EXCEPT !.sys = Inc(@)]
RaiseKRes == inp.cap.cpu - inp.alloc.cpu < MaxKRes /\ inp.alloc.cpu > 0 /\ inp' = [inp EXCEPT !.alloc = RR(@.cpu - 1)]
RaiseAnno == inp.anno.cpu < MaxAnno /\ inp' = [inp EXCEPT !.anno = Inc(@)]
RaiseMargin == inp.thr.cpu - ThrStep >= MinThr /\ inp' = [inp EXCEPT !.thr = RR(@.cpu - ThrStep)]
RaiseApp(k) == inp.apps[k].use.cpu < MaxApp /\ inp' = [inp EXCEPT !.apps[k].use = Inc(@)]
RaiseReq(k) == inp.pods[k].req.cpu < MaxReq /\ inp' = [inp EXCEPT !.pods[k].req = Inc(@)]
RaiseUse(k) == inp.pods[k].metric /\ inp.pods[k].use.cpu < MaxUse /\ inp' = [inp EXCEPT !.pods[k].use = Inc(@)]
RaiseDang(k) == inp.dangling[k].use.cpu < MaxDang /\ inp' = [inp EXCEPT !.dangling[k].use = Inc(@)]

Next ==
  \/ RaiseSys \/ RaiseKRes \/ RaiseAnno \/ RaiseMargin
  \/ \E k \in 1..Len(inp.apps) : RaiseApp(k)
  \/ \E k \in 1..Len(inp.pods) : RaiseReq(k) \/ RaiseUse(k)
  \/ \E k \in 1..Len(inp.dangling) : RaiseDang(k)

Spec == Init /\ [][Next]_vars

Aged(i, a) == [i EXCEPT !.age = a]
ImplOK == \A a \in Ages : BatchOutOK(Aged(inp, a), BatchImpl(Aged(inp, a)))
\* every raise the model takes is a raise in the sense of the property
RaiseIsRaise == [][Dominates(inp', inp)]_vars
Mono == [][MonoOK(BatchImpl(inp), BatchImpl(inp'))]_vars     \* (with a stale metric both sides are withdrawn)

\* ---------------------------------------------------------------- menus
Shape(pr, q, ph, m, n) == [prio |-> pr, qos |-> q, phase |-> ph, metric |-> m, numa |-> n]
KindsSmall == {<<"prod", "LS">>, <<"prod", "LSE">>, <<"batch", "BE">>, <<"none", "BE">>}
KindsAll   == KindsSmall \cup {<<"mid", "LS">>, <<"none", "LS">>, <<"free", "BE">>, <<"mid", "BE">>}
ShapesOf(kinds, phases, numas) ==
  {Shape(k[1], k[2], ph, m, n) : k \in kinds, ph \in phases, m \in BOOLEAN, n \in numas}

Scen(P, D, A, Zs) == [pods : P, dang : D, apps : A, zones : Zs]
ProdLSm == Shape("prod", "LS", "Running", TRUE, <<>>)

\* quick: (A) one pod of a few kinds, no zones; (B) two zones, pods bound / unbound; (C) a dangling metric next to
\* no pod or an ordinary one; (D) a host application
ScenQuick ==
  Scen({<<>>} \cup {<<s>> : s \in ShapesOf(KindsSmall, {"Running", "Succeeded"}, {<<>>})}, {<<>>}, {<<>>}, {<<>>})
  \cup Scen({<<s>> : s \in ShapesOf({<<"prod", "LS">>, <<"prod", "LSE">>}, {"Running"}, {<<>>, <<0>>})
                       \cup {Shape("prod", "LS", "Succeeded", TRUE, <<0>>)}}, {<<>>}, {<<>>}, {<<3, 3>>})
  \cup Scen({<<>>, <<ProdLSm>>}, {<<"prod">>, <<"batch">>}, {<<>>}, {<<>>, <<3, 3>>})
  \cup Scen({<<>>}, {<<>>}, {<<"prod">>, <<"batch">>}, {<<>>})

\* thorough: every kind / phase / binding alone over 0, 1 (uneven: one zone = whole node) and 2 zones; pairs of pods;
\* dangling metrics and host applications of every priority next to a pod
ScenThorough ==
  Scen({<<>>} \cup {<<s>> : s \in ShapesOf(KindsAll, {"Running", "Pending", "Succeeded"}, {<<>>})}, {<<>>}, {<<>>}, {<<>>, <<6>>})
  \cup Scen({<<s>> : s \in ShapesOf(KindsAll, {"Running", "Succeeded"}, {<<>>, <<0>>, <<1>>, <<0, 1>>})}, {<<>>}, {<<>>}, {<<4, 2>>})
  \cup Scen({<<s, t>> : s \in ShapesOf({<<"prod", "LS">>, <<"prod", "LSE">>}, {"Running"}, {<<>>, <<0>>}),
                         t \in ShapesOf({<<"prod", "LS">>, <<"mid", "LS">>, <<"batch", "BE">>}, {"Running", "Succeeded"}, {<<>>})},
          {<<>>}, {<<>>}, {<<>>, <<3, 3>>})
  \cup Scen({<<>>, <<ProdLSm>>}, {<<"prod">>, <<"batch">>, <<"none">>, <<"mid">>, <<"free">>, <<"prod", "batch">>},
          {<<>>, <<"prod">>}, {<<>>, <<3, 3>>})
  \cup Scen({<<>>, <<ProdLSm>>}, {<<>>}, {<<"prod">>, <<"mid">>, <<"batch">>, <<"prod", "batch">>}, {<<>>, <<3, 3>>})

AgesAll == {0, 60, 61, -1}
PctsQuick == {-1, 50}
PctsAll == {-1, 0, 50, 100}
=============================================================================
