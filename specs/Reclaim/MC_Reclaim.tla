----------------------------- MODULE MC_Reclaim -----------------------------
(***************************************************************************)
(* Decide C09 (batch tier) on the model: over a small exhaustive input     *)
(* domain the algorithm transcription BatchImpl satisfies every            *)
(* property-level predicate (invariant ImplOK), and every single-step      *)
(* raise of a consumption input never raises a published amount (action    *)
(* property Mono).  The state is one input; Init enumerates the            *)
(* configurations with every consumption input at its minimum, Next raises *)
(* one consumption input by one step, so the reachable states are the      *)
(* whole input domain and the transitions are all neighbouring pairs.      *)
(* cpu and memory carry the same numbers (the two resources are computed   *)
(* independently); they differ by policy and by the LSE rule.              *)
(***************************************************************************)
EXTENDS Reclaim

CONSTANTS
  Caps,            \* node capacities
  ThrStep, MinThr, \* reclaim threshold starts at 100 (no margin) and is lowered by ThrStep down to MinThr
  Pcts,            \* percentage caps (-1 = none)
  PolC, PolM,      \* cpu / memory policies
  Ages,            \* metric ages in seconds (degrade time is 1 minute); not part of the state: the
                   \* predicates are evaluated for every age at every state (a stale input makes the rest irrelevant)
  MaxSys, MaxKRes, MaxAnno, MaxApp, MaxReq, MaxUse, MaxDang,
  Scenarios        \* set of [pods: sequence of pod shapes [prio, qos, phase, term, metric, numa],
                   \*         dang: sequence of dangling-metric priorities, apps: sequence of host-app priorities,
                   \*         zones: sequence of zone capacities]

VARIABLE inp
vars == <<inp>>

RR(v) == [cpu |-> v, mem |-> v]

MkPod(s)  == [prio |-> s.prio, qos |-> s.qos, phase |-> s.phase, term |-> s.term, metric |-> s.metric, numa |-> s.numa,
              req |-> RR(0), use |-> RR(0)]
MkUse(pr) == [prio |-> pr, use |-> RR(0)]

Init ==
  \E c \in Caps, pc \in PolC, pm \in PolM, pct \in Pcts, sc \in Scenarios :
    LET ps == sc.pods  ds == sc.dang  hs == sc.apps  zc == sc.zones IN
    inp = [cap |-> RR(c), alloc |-> RR(c), anno |-> RR(0), thr |-> RR(100),
           pol |-> [cpu |-> pc, mem |-> pm], pct |-> RR(pct), degrade |-> 1, age |-> 0, sys |-> RR(0),
           apps |-> [k \in 1..Len(hs) |-> MkUse(hs[k])],
           pods |-> [k \in 1..Len(ps) |-> MkPod(ps[k])],
           dangling |-> [k \in 1..Len(ds) |-> MkUse(ds[k])],
           zones |-> [k \in 1..Len(zc) |-> RR(zc[k])]]

\* the raise steps of the trace vocabulary (Reclaim!ApplyRaise), one unit (ThrStep for the margin) at a time
Ev(w, k, d) == [what |-> w, k |-> k, by |-> RR(d)]
Allowed(e) ==
  CASE e.what = "sys"      -> inp.sys.cpu < MaxSys
    [] e.what = "kres"     -> inp.cap.cpu - inp.alloc.cpu < MaxKRes
    [] e.what = "anno"     -> inp.anno.cpu < MaxAnno
    [] e.what = "margin"   -> inp.thr.cpu - ThrStep >= MinThr
    [] e.what = "app"      -> inp.apps[e.k].use.cpu < MaxApp
    [] e.what = "req"      -> inp.pods[e.k].req.cpu < MaxReq
    [] e.what = "use"      -> inp.pods[e.k].use.cpu < MaxUse
    [] e.what = "dangling" -> inp.dangling[e.k].use.cpu < MaxDang
Steps ==
  {Ev("sys", 0, 1), Ev("kres", 0, 1), Ev("anno", 0, 1), Ev("margin", 0, ThrStep)}
  \cup {Ev("app", k, 1) : k \in 1..Len(inp.apps)}
  \cup {Ev(w, k, 1) : w \in {"req", "use"}, k \in 1..Len(inp.pods)}
  \cup {Ev("dangling", k, 1) : k \in 1..Len(inp.dangling)}

Next == \E e \in Steps : RaiseOK(inp, e) /\ Allowed(e) /\ inp' = ApplyRaise(inp, e)

Spec == Init /\ [][Next]_vars

Aged(i, a) == [i EXCEPT !.age = a]
ImplOK == \A a \in Ages : BatchOutOK(Aged(inp, a), BatchImpl(Aged(inp, a)))
\* every raise the model takes is a raise in the sense of the property
RaiseIsRaise == [][Dominates(inp', inp)]_vars
Mono == [][MonoOK(BatchImpl(inp), BatchImpl(inp'))]_vars     \* (with a stale metric both sides are withdrawn)

\* ---------------------------------------------------------------- menus
Shape(pr, q, ph, m, n) == [prio |-> pr, qos |-> q, phase |-> ph, term |-> FALSE, metric |-> m, numa |-> n]
Terminating(S) == {[s EXCEPT !.term = TRUE] : s \in S}     \* the same pods while they are being deleted
KindsSmall == {<<"prod", "LS">>, <<"prod", "LSE">>, <<"batch", "BE">>, <<"none", "BE">>}
KindsAll   == KindsSmall \cup {<<"mid", "LS">>, <<"none", "LS">>, <<"free", "BE">>, <<"mid", "BE">>}
ShapesOf(kinds, phases, numas) ==
  {Shape(k[1], k[2], ph, m, n) : k \in kinds, ph \in phases, m \in BOOLEAN, n \in numas}

Scen(P, D, A, Zs) == [pods : P, dang : D, apps : A, zones : Zs]
ProdLSm == Shape("prod", "LS", "Running", TRUE, <<>>)

\* quick: (A) one pod of a few kinds, no zones; (B) two zones, pods bound / unbound; (C) a dangling metric next to
\* no pod or an ordinary one; (D) a host application; (E) pods that are being deleted, without / with zones;
\* (F) annotation ids that do not exist on the node (alone: the pod is unbound; next to an existing id)
ScenQuickBase ==
  Scen({<<>>} \cup {<<s>> : s \in ShapesOf(KindsSmall, {"Running", "Succeeded"}, {<<>>})}, {<<>>}, {<<>>}, {<<>>})
  \cup Scen({<<s>> : s \in ShapesOf({<<"prod", "LS">>, <<"prod", "LSE">>}, {"Running"}, {<<>>, <<0>>})
                       \cup {Shape("prod", "LS", "Succeeded", TRUE, <<0>>)}}, {<<>>}, {<<>>}, {<<3, 3>>})
  \cup Scen({<<>>, <<ProdLSm>>}, {<<"prod">>, <<"batch">>}, {<<>>}, {<<>>, <<3, 3>>})
  \cup Scen({<<>>}, {<<>>}, {<<"prod">>, <<"batch">>}, {<<>>})

ScenQuick ==
  ScenQuickBase
  \cup Scen({<<s>> : s \in Terminating(ShapesOf({<<"prod", "LS">>, <<"prod", "LSE">>, <<"batch", "BE">>}, {"Running", "Pending"}, {<<>>}))},
          {<<>>}, {<<>>}, {<<>>})
  \cup Scen({<<s>> : s \in Terminating(ShapesOf({<<"prod", "LS">>}, {"Running"}, {<<>>, <<0>>}))}, {<<>>}, {<<>>}, {<<3, 3>>})
  \cup Scen({<<s>> : s \in ShapesOf({<<"prod", "LS">>}, {"Running"}, {<<2>>, <<0, 2>>, <<-1, 1>>, <<5, -1>>})}, {<<>>}, {<<>>}, {<<3, 3>>})

\* thorough (MC_thorough.cfg): every kind / phase alone over 0 and 1 zone (one zone = whole node); kinds bound to
\* zones of uneven size; dangling metrics and host applications of every priority next to no pod or an ordinary one
ScenSingles ==
  Scen({<<>>} \cup {<<s>> : s \in ShapesOf(KindsAll, {"Running", "Pending", "Succeeded"}, {<<>>})}, {<<>>}, {<<>>}, {<<>>, <<6>>})
  \cup Scen({<<s>> : s \in ShapesOf(KindsSmall, {"Running", "Succeeded"}, {<<>>, <<0>>, <<1>>, <<0, 1>>})}, {<<>>}, {<<>>}, {<<4, 2>>})
  \cup Scen({<<>>, <<ProdLSm>>}, {<<"prod">>, <<"batch">>, <<"none">>, <<"mid">>, <<"free">>, <<"prod", "batch">>},
          {<<>>, <<"prod">>}, {<<>>, <<3, 3>>})
  \cup Scen({<<>>, <<ProdLSm>>}, {<<>>}, {<<"prod">>, <<"mid">>, <<"batch">>, <<"prod", "batch">>}, {<<>>, <<3, 3>>})
  \cup Scen({<<s>> : s \in Terminating(ShapesOf(KindsAll, {"Running", "Pending"}, {<<>>}))}, {<<>>}, {<<>>}, {<<>>, <<6>>})
  \cup Scen({<<s>> : s \in ShapesOf({<<"prod", "LS">>, <<"prod", "LSE">>}, {"Running"}, {<<2>>, <<0, 2>>, <<-1>>, <<1, 7>>})
                       \cup Terminating(ShapesOf({<<"prod", "LS">>}, {"Running"}, {<<1>>, <<1, 2>>}))}, {<<>>}, {<<>>}, {<<4, 2>>})
\* thorough (MC_pairs.cfg): two pods, interaction of the sums
ScenPairs ==
  Scen({<<s, t>> : s \in ShapesOf({<<"prod", "LS">>, <<"prod", "LSE">>}, {"Running"}, {<<>>}),
                   t \in ShapesOf({<<"prod", "LS">>, <<"mid", "LS">>, <<"batch", "BE">>}, {"Running"}, {<<>>})
                          \cup {Shape("prod", "LS", "Succeeded", TRUE, <<>>)}},
       {<<>>}, {<<>>}, {<<>>, <<3, 3>>})

AgesAll == {0, 60, 61, -1}
PctsQuick == {-1, 50}
PctsAll == {-1, 0, 50}
=============================================================================
