\* C09 batch tier, quick: at most one pod, one optional dangling metric, none or two NUMA zones
SPECIFICATION Spec
CONSTANTS
  ChargeNoMetricInMaxUR = TRUE
  ReqPolicySysUsage = FALSE
  Caps = {6}
  ThrStep = 50
  MinThr = 50
  Pcts <- PctsQuick
  PolC = {"", "maxUsageRequest"}
  PolM = {"usage", "request", "maxUsageRequest"}
  Ages <- AgesAll
  MaxSys = 2
  MaxKRes = 1
  MaxAnno = 1
  MaxApp = 1
  MaxReq = 2
  MaxUse = 2
  MaxDang = 1
  PodSets <- Pods1Small
  DangSets <- DangSmall
  AppSets <- AppsNone
  ZoneCfgs <- Zones02
INVARIANT ImplOK
PROPERTY Mono
PROPERTY RaiseIsRaise
CHECK_DEADLOCK FALSE
