\* C09 reconciler level (node writer with hysteresis; NodeMetric missing / never updated / expired / fresh)
SPECIFICATION Spec
CONSTANTS
  ChargeNoMetricInMaxUR = TRUE
  ReqPolicySysUsage = FALSE
  Cap = 6
  Pols <- PolsQuick
  Pcts <- PctsQuick
  Diffs = {0, 30}
  Ages <- AgesAll
  MaxSys = 1
  MaxUse = 2
  Pres <- PresQuick
INVARIANT ReconOK
CHECK_DEADLOCK FALSE
