\* calculateOnNode as found at the pinned commit (a pod without metrics is not added to the max(usage,request) sum): TLC finds BoundOK broken. Documentation only, not run by bin/check.
SPECIFICATION Spec
CONSTANTS
  ChargeNoMetricInMaxUR = FALSE
  ReqPolicySysUsage = FALSE
  Caps = {6}
  ThrStep = 50
  MinThr = 50
  Pcts <- PctsQuick
  PolC = {"", "maxUsageRequest"}
  PolM = {"usage", "request", "maxUsageRequest"}
  Ages <- AgesAll
  MaxSys = 2
  MaxKRes = 1
  MaxAnno = 1
  MaxApp = 1
  MaxReq = 2
  MaxUse = 2
  MaxDang = 1
  Scenarios <- ScenQuick
INVARIANT ImplOK
PROPERTY Mono
PROPERTY RaiseIsRaise
CHECK_DEADLOCK FALSE
