\* C09 batch tier, thorough, single pods (see ScenSingles in MC_Reclaim.tla)
SPECIFICATION Spec
CONSTANTS
  ChargeNoMetricInMaxUR = TRUE
  ReqPolicySysUsage = FALSE
  Caps = {6}
  ThrStep = 25
  MinThr = 50
  Pcts <- PctsAll
  PolC = {"", "maxUsageRequest"}
  PolM = {"usage", "request", "maxUsageRequest"}
  Ages <- AgesAll
  MaxSys = 2
  MaxKRes = 1
  MaxAnno = 1
  MaxApp = 1
  MaxReq = 2
  MaxUse = 2
  MaxDang = 1
  Scenarios <- ScenSingles
INVARIANT ImplOK
PROPERTY Mono
PROPERTY RaiseIsRaise
CHECK_DEADLOCK FALSE
