\* C09 batch tier, thorough (see ScenThorough in MC_Reclaim.tla)
SPECIFICATION Spec
CONSTANTS
  ChargeNoMetricInMaxUR = TRUE
  ReqPolicySysUsage = FALSE
  Caps = {6}
  ThrStep = 25
  MinThr = 50
  Pcts <- PctsAll
  PolC = {"", "usage", "maxUsageRequest"}
  PolM = {"", "usage", "request", "maxUsageRequest"}
  Ages <- AgesAll
  MaxSys = 2
  MaxKRes = 1
  MaxAnno = 2
  MaxApp = 1
  MaxReq = 2
  MaxUse = 3
  MaxDang = 1
  Scenarios <- ScenThorough
INVARIANT ImplOK
PROPERTY Mono
PROPERTY RaiseIsRaise
CHECK_DEADLOCK FALSE
