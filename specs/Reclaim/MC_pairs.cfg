\* C09 batch tier, thorough, pairs of pods (see ScenPairs in MC_Reclaim.tla)
SPECIFICATION Spec
CONSTANTS
  ChargeNoMetricInMaxUR = TRUE
  ReqPolicySysUsage = FALSE
  Caps = {6}
  ThrStep = 50
  MinThr = 50
  Pcts <- PctsQuick
  PolC = {"", "maxUsageRequest"}
  PolM = {"usage", "request", "maxUsageRequest"}
  Ages <- AgesAll
  MaxSys = 1
  MaxKRes = 1
  MaxAnno = 0
  MaxApp = 1
  MaxReq = 2
  MaxUse = 2
  MaxDang = 1
  Scenarios <- ScenPairs
INVARIANT ImplOK
PROPERTY Mono
PROPERTY RaiseIsRaise
CHECK_DEADLOCK FALSE
