SPECIFICATION TraceSpec
CONSTANTS
  ChargeNoMetricInMaxUR = TRUE
  ReqPolicySysUsage = TRUE
\* property invariants as CONSTRAINTs before Report (docs/FAMILY_GUIDE.md): a violating recorded state cuts only its own segment
CONSTRAINT TypeOK
CONSTRAINT Report
CHECK_DEADLOCK FALSE
