SPECIFICATION TraceSpec
CONSTANTS
  ChargeNoMetricInMaxUR = TRUE
  ReqPolicySysUsage = TRUE
INVARIANT TypeOK
CONSTRAINT Report
CHECK_DEADLOCK FALSE
