SPECIFICATION TraceSpec
CONSTANTS
  ChargeNoMetricInMaxUR = TRUE
  ReqPolicySysUsage = FALSE
INVARIANT TypeOK
CONSTRAINT Report
CHECK_DEADLOCK FALSE
