\* C09 mid tier, quick
SPECIFICATION Spec
CONSTANTS
  ChargeNoMetricInMaxUR = TRUE
  ReqPolicySysUsage = FALSE
  Caps = {6}
  MThrs = {50, 100}
  UPcts = {0, 50}
  Modes <- ModesQuick
  ProdRecs <- RecQuick
  UsageHas = {TRUE, FALSE}
  UsageStep = 2
  MaxUsage = 8
  MaxSys = 2
  MaxKRes = 1
  MaxAnno = 1
  MaxApp = 1
  MaxReq = 2
  Ages <- AgesAll
  PodSets <- PodsQuick
  AppSets <- AppsQuick
INVARIANT ImplOK
PROPERTY Mono
PROPERTY RaiseIsRaise
CHECK_DEADLOCK FALSE
