---------------------------- MODULE ReclaimTrace ----------------------------
(***************************************************************************)
(* Trace validation for C09.  A segment is a chain of calculations on the  *)
(* REAL code (batchresource.Plugin.Calculate / midresource.Plugin.Calculate)*)
(*                                                                         *)
(*   reset                                                                 *)
(*   calc   {inp, out}     first calculation: out must satisfy BatchOutOK  *)
(*   raise  {what,k,by,out} one consumption input raised by by[r] >= 0 and  *)
(*                         the calculation repeated: out must satisfy      *)
(*                         BatchOutOK for the raised input and must not    *)
(*                         exceed the previous out                         *)
(*   mcalc / mraise        the same for the mid tier                       *)
(*   recon  {inp, t, out}  reconciler level (NodeResourceReconciler.Reconcile *)
(*                         on a fake API server): the world was brought to *)
(*                         inp (pods, NodeMetric present / missing / age), *)
(*                         the node reconciled; out = batch-cpu / -memory  *)
(*                         found in node.status.allocatable / capacity     *)
(*                         afterwards.  out must satisfy PubOK: withdrawn  *)
(*                         when the NodeMetric is missing / stale, bounded *)
(*                         as in calc when it is fresh and the node must   *)
(*                         carry the last calculation                      *)
(*                                                                         *)
(* Every check is a property-level predicate of Reclaim.tla evaluated on   *)
(* the recorded input/output; the algorithm transcription (BatchImpl) is   *)
(* not used here.  An event the predicates do not allow has no successor,  *)
(* so the segment never reaches SegDone and is reported as rejected.       *)
(* (The predicates are action guards rather than cfg INVARIANTs on         *)
(* purpose: a violated INVARIANT stops TLC at the first bad segment, the   *)
(* guards let every other segment of the batch still be validated.  In the *)
(* verbose second pass the rejected event prints <<"WHY", seg, l, names>>  *)
(* with the names of the failed predicates.)                               *)
(***************************************************************************)
EXTENDS Reclaim, TraceCommon

VARIABLES inp, outp, n     \* previous input, previous output, calculations so far in this segment
vars == <<inp, outp, n>>

Init == inp = <<>> /\ outp = <<>> /\ n = 0

Take(i) == inp' = i /\ outp' = Ev.out /\ n' = n + 1
Step == [what |-> Ev.what, k |-> Ev.k, by |-> Ev.by]

\* diagnostics for the verbose second pass only (never enables anything)
Verbose == "VERIF_VERBOSE" \in DOMAIN IOEnv
Mark(ok, name) == IF ok THEN {} ELSE {name}
WhyBatch(i, o) == Mark(NonNegOK(i, o), "NonNeg") \cup Mark(BoundOK(i, o), "Bound") \cup Mark(CapOK(i, o), "Cap")
                  \cup Mark(StaleOK(i, o), "Stale") \cup Mark(ZoneOK(i, o), "Zone")
Explain(ok, what) == IF Verbose THEN (IF ~ok THEN PrintT(<<"WHY", seg, l, what>>) ELSE TRUE) ELSE TRUE

TCalc ==
  /\ IsEvent("calc")
  /\ Explain(BatchOutOK(Ev.inp, Ev.out), WhyBatch(Ev.inp, Ev.out))
  /\ BatchOutOK(Ev.inp, Ev.out)
  /\ Take(Ev.inp)

TRaise ==
  /\ IsEvent("raise")
  /\ n > 0
  /\ Explain(RaiseOK(inp, Step), {"NotARaise"})
  /\ RaiseOK(inp, Step)
  /\ LET j == ApplyRaise(inp, Step) IN
       /\ Explain(BatchOutOK(j, Ev.out), WhyBatch(j, Ev.out))
       /\ BatchOutOK(j, Ev.out)
       /\ Explain(MonoOK(outp, Ev.out), {"Mono"})
       /\ MonoOK(outp, Ev.out)
       /\ Take(j)

TMCalc ==
  /\ IsEvent("mcalc")
  /\ Explain(MidOutOK(Ev.inp, Ev.out), {"MidOut"})
  /\ MidOutOK(Ev.inp, Ev.out)
  /\ Take(Ev.inp)

TMRaise ==
  /\ IsEvent("mraise")
  /\ n > 0
  /\ Explain(MidRaiseOK(inp, Step), {"NotARaise"})
  /\ MidRaiseOK(inp, Step)
  /\ LET j == MidApplyRaise(inp, Step) IN
       /\ Explain(MidOutOK(j, Ev.out), {"MidOut"})
       /\ MidOutOK(j, Ev.out)
       /\ Explain(MidMonoOK(outp, Ev.out), {"MidMono"})
       /\ MidMonoOK(outp, Ev.out)
       /\ Take(j)

\* reconciler level.  outp = what the node carried after the previous reconcile of this segment (n > 0).
\* exact: the node object must carry this reconcile's calculation - first reconcile of the controller instance
\* (nothing synced yet), no hysteresis configured, or nothing was published before (see Reclaim!PubOK).
WhyPub(i, o, exact) == Mark(PubNonNegOK(o), "PubNonNeg") \cup Mark(PubStaleOK(i, o), "StaleNotWithdrawn")
                       \cup Mark((~RStale(i) /\ exact) => PubBoundOK(i, o), "PubBound")
TRecon ==
  /\ IsEvent("recon")
  /\ LET i == Ev.inp
         exact == IF n = 0 THEN TRUE ELSE IF i.diff = 0 THEN TRUE ELSE PubWithdrawn(outp)   \* IF: outp = <<>> while n = 0
     IN /\ Explain(PubOK(i, Ev.out, exact), WhyPub(i, Ev.out, exact))
        /\ PubOK(i, Ev.out, exact)
        /\ Take(i)

TypeOK == n >= 0

TraceInit == \E i \in Starts : TraceStart(i) /\ Init
TraceNext == TCalc \/ TRaise \/ TMCalc \/ TMRaise \/ TRecon \/ (SegDone /\ UNCHANGED vars)
TraceSpec == TraceInit /\ [][TraceNext]_<<vars, tvars>>
=============================================================================
