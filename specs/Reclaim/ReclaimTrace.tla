---------------------------- MODULE ReclaimTrace ----------------------------
(***************************************************************************)
(* Trace validation for C09.  A segment is a chain of calculations on the  *)
(* REAL code (batchresource.Plugin.Calculate / midresource.Plugin.Calculate)*)
(*                                                                         *)
(*   reset                                                                 *)
(*   calc   {inp, out}     first calculation: out must satisfy BatchOutOK  *)
(*   raise  {inp, out}     inp must dominate the previous input (only      *)
(*                         consumption inputs raised); out must satisfy    *)
(*                         BatchOutOK and must not exceed the previous out *)
(*   mcalc / mraise        the same for the mid tier                       *)
(*                                                                         *)
(* Every check is a property-level predicate of Reclaim.tla evaluated on   *)
(* the recorded input/output; the algorithm transcription (BatchImpl) is   *)
(* not used here.  An event the predicates do not allow has no successor,  *)
(* so the segment never reaches SegDone and is reported as rejected.       *)
(***************************************************************************)
EXTENDS Reclaim, TraceCommon

VARIABLES inp, outp, n     \* previous input, previous output, calculations so far in this segment
vars == <<inp, outp, n>>

Init == inp = <<>> /\ outp = <<>> /\ n = 0

Take == inp' = Ev.inp /\ outp' = Ev.out /\ n' = n + 1

\* diagnostics for the verbose second pass only (never enables anything)
Verbose == "VERIF_VERBOSE" \in DOMAIN IOEnv
Mark(ok, name) == IF ok THEN {} ELSE {name}
WhyBatch(i, o) == Mark(NonNegOK(i, o), "NonNeg") \cup Mark(BoundOK(i, o), "Bound") \cup Mark(CapOK(i, o), "Cap")
                  \cup Mark(StaleOK(i, o), "Stale") \cup Mark(ZoneOK(i, o), "Zone")
Explain(ok, what) == IF ~ok /\ Verbose THEN PrintT(<<"WHY", seg, l, what>>) ELSE TRUE

TCalc ==
  /\ IsEvent("calc")
  /\ Explain(BatchOutOK(Ev.inp, Ev.out), WhyBatch(Ev.inp, Ev.out))
  /\ BatchOutOK(Ev.inp, Ev.out)
  /\ Take

TRaise ==
  /\ IsEvent("raise")
  /\ n > 0
  /\ Explain(Dominates(Ev.inp, inp), {"NotARaise"})
  /\ Dominates(Ev.inp, inp)
  /\ Explain(BatchOutOK(Ev.inp, Ev.out), WhyBatch(Ev.inp, Ev.out))
  /\ BatchOutOK(Ev.inp, Ev.out)
  /\ Explain(MonoOK(outp, Ev.out), {"Mono"})
  /\ MonoOK(outp, Ev.out)
  /\ Take

TMCalc ==
  /\ IsEvent("mcalc")
  /\ Explain(MidOutOK(Ev.inp, Ev.out), {"MidOut"})
  /\ MidOutOK(Ev.inp, Ev.out)
  /\ Take

TMRaise ==
  /\ IsEvent("mraise")
  /\ n > 0
  /\ Explain(MidDominates(Ev.inp, inp), {"NotARaise"})
  /\ MidDominates(Ev.inp, inp)
  /\ Explain(MidOutOK(Ev.inp, Ev.out), {"MidOut"})
  /\ MidOutOK(Ev.inp, Ev.out)
  /\ Explain(MidMonoOK(outp, Ev.out), {"MidMono"})
  /\ MidMonoOK(outp, Ev.out)
  /\ Take

TypeOK == n >= 0

TraceInit == \E i \in Starts : TraceStart(i) /\ Init
TraceNext == TCalc \/ TRaise \/ TMCalc \/ TMRaise \/ (SegDone /\ UNCHANGED vars)
TraceSpec == TraceInit /\ [][TraceNext]_<<vars, tvars>>
=============================================================================
