------------------------------- MODULE Reclaim -------------------------------
(***************************************************************************)
(* C09  "Reclaimed (batch/mid) capacity is never over-promised".           *)
(*                                                                         *)
(* Pure-function family.  An INPUT is a record (the abstraction of what    *)
(* Plugin.Calculate is given: node, strategy, pod list, node metric, NRT   *)
(* zones); an OUTPUT is what it returns (ResourceItems).                   *)
(*                                                                         *)
(* Part 1  property-level predicates (decide verdicts, see ReclaimTrace):  *)
(*           BatchOutOK(i, o)   non-negative, below the bound of the       *)
(*                              statement, below the percentage cap,       *)
(*                              stale => withdrawn, same per NUMA zone     *)
(*           Dominates(j, i)    j raises consumption inputs of i only      *)
(*           MonoOK(prev, new)  the published amounts did not rise         *)
(*           MidOutOK / MidDominates   mid-tier counterparts               *)
(* Part 2  BatchImpl / MidImpl: transcription of HOW the code computes the *)
(*         amounts (model only; checked against part 1 by MC_Reclaim,      *)
(*         never used for a verdict).                                      *)
(*                                                                         *)
(* Units: cpu in milli-cores, memory in (scaled) bytes; every number and   *)
(* every intermediate sum stays below 2^31 (TLC integers).  The memory     *)
(* amount of a NUMA zone is in 1/1000 units (the code publishes a milli    *)
(* quantity there).                                                        *)
(*                                                                         *)
(* Batch input record i:                                                   *)
(*   cap[r]      node capacity                     r \in {"cpu","mem"}     *)
(*   alloc[r]    kubelet allocatable (kubelet reservation = cap - alloc)   *)
(*   anno[r]     reservation from the node annotation (0 = none)           *)
(*   thr[r]      reclaim threshold percent; safety margin = cap*(100-thr)% *)
(*   pol[r]      "" | "usage" | "request" | "maxUsageRequest"              *)
(*   pct[r]      batch percentage cap of capacity, -1 = not configured     *)
(*   degrade     degrade time (minutes); age = seconds since the node      *)
(*               metric was updated, -1 = never updated                    *)
(*   sys[r]      system usage reported by the node metric                  *)
(*   apps        << [prio, use[r]] >>  host applications                   *)
(*   pods        << [prio, qos, phase, term, req[r], metric, use[r], numa] >>*)
(*               term = TRUE: the pod is being deleted (deletionTimestamp  *)
(*               set, still Running/Pending during its grace period).  The *)
(*               statement counts every pod that has not terminated: NO    *)
(*               predicate below reads term (Active is decided by the      *)
(*               phase alone); the attribute exists so that the drivers    *)
(*               produce such pods and Dominates keeps it fixed.           *)
(*               numa = NUMA ids of the pod's resource-status annotation;  *)
(*               ids that do not exist on the node (< 0 or >= number of    *)
(*               zones) bind the pod nowhere and are ignored (NumaOf).     *)
(*   dangling    << [prio, use[r]] >>  metrics of pods not in the list     *)
(*   zones       << [cpu, mem] >>      NUMA zone capacities (<<>> = none)  *)
(*                                                                         *)
(* Part 1d  reconciler level (what is PUBLISHED on the Node object):       *)
(*   input = batch input + nm ("present" | "missing": the NodeMetric       *)
(*   object does not exist) + diff (resourceDiffThreshold in percent);     *)
(*   PubOK(i, pub, exact): missing / stale metric => withdrawn; otherwise  *)
(*   (when the node object must carry the last calculation) the same       *)
(*   bounds as BatchOutOK.  ReconImpl: transcription of the node writer.   *)
(***************************************************************************)
EXTENDS Integers, Sequences, FiniteSets, IOUtils

CONSTANTS
  ChargeNoMetricInMaxUR,  \* Impl only. TRUE: a pod without metrics is added to the max(usage,request) sum
                          \* (intended). FALSE: transcription of calculateOnNode as found (MC_bug.cfg).
  ReqPolicySysUsage       \* interpretation switch for policy "request", see SystemTerm. FALSE in all cfgs.

Res == {"cpu", "mem"}
Max2(a, b) == IF a >= b THEN a ELSE b
Min2(a, b) == IF a <= b THEN a ELSE b
Pos(a) == Max2(a, 0)
CeilDiv(a, k) == (a + k - 1) \div k          \* a >= 0, k > 0
PctFloor(v, p) == (v * p) \div 100           \* v, p >= 0

RECURSIVE SumUpTo(_, _)
SumUpTo(f, n) == IF n = 0 THEN 0 ELSE f[n] + SumUpTo(f, n - 1)
SumOver(s, F(_)) == SumUpTo([k \in 1..Len(s) |-> F(s[k])], Len(s))
RangeOf(s) == {s[k] : k \in 1..Len(s)}

(***************************************************************************)
(* Part 1a.  Batch: vocabulary of the statement                            *)
(***************************************************************************)
\* priority class in effect: explicit class, else derived from the QoS class (BE -> batch, others -> prod)
EffPrio(p) == IF p.prio # "none" THEN p.prio ELSE IF p.qos = "BE" THEN "batch" ELSE "prod"
IsHP(prio) == prio \notin {"batch", "free"}          \* high priority w.r.t. batch = not batch / free
\* a pod counts until it has terminated (phase Succeeded / Failed); a pod that is being deleted (p.term) still
\* holds its resources during its grace period and counts like any other
Active(p)  == p.phase \in {"Running", "Pending"}
EffPol(i, r) == IF i.pol[r] = "" THEN "usage" ELSE i.pol[r]

Reserved(i, r) == Max2(Pos(i.cap[r] - i.alloc[r]), i.anno[r])                 \* node reservation
HostHP(i, r, classes) == SumOver(i.apps, LAMBDA a : IF a.prio \in classes THEN a.use[r] ELSE 0)
SysUsed(i, r)  == i.sys[r] + HostHP(i, r, {"prod", "mid"})                    \* system usage incl. HP host apps

\* second validation pass of the segments rejected for the recorded finding on policy "request" (known_findings.json):
\* the documented formula is accepted there, so that the rest of such a segment is judged too
TolerateReqPolicy == "VERIF_TOLERATE_C09_REQPOLICY" \in DOMAIN IOEnv

\* "the larger of system usage and node reservation".  Under policy "request" the documented formula
\* (comment in CalculateBatchResourceByPolicy, pinned by batchresource/plugin_test.go) counts the node
\* reservation only; ReqPolicySysUsage = TRUE would demand the literal reading for that policy too.
SystemTerm(i, r) ==
  IF EffPol(i, r) = "request" /\ (~ReqPolicySysUsage \/ TolerateReqPolicy) THEN Reserved(i, r)
  ELSE Max2(SysUsed(i, r), Reserved(i, r))

\* what one listed pod is charged:  usage / request / the larger of both per the policy;
\* a pod that has not reported metrics is charged at its request; LSE pods do not lend CPU (charged at request);
\* a terminated pod that still reports usage is charged like a dangling metric.
Charge(i, p, r) ==
  LET pol == EffPol(i, r) IN
  IF ~IsHP(EffPrio(p)) THEN 0
  ELSE IF ~Active(p) THEN (IF p.metric /\ pol # "request" THEN p.use[r] ELSE 0)
  ELSE IF pol = "request" \/ ~p.metric THEN p.req[r]
  ELSE IF pol = "maxUsageRequest" THEN Max2(p.use[r], p.req[r])
  ELSE IF p.qos = "LSE" /\ r = "cpu" THEN p.req[r]
  ELSE p.use[r]
DanglingCharge(i, d, r) == IF IsHP(d.prio) /\ EffPol(i, r) # "request" THEN d.use[r] ELSE 0

\* Safety margin.  The code computes int64(float64(v) * (float64(100-t)/100)).  For v < 2^31 the float product
\* differs from the exact rational by < 2^-21, so truncation yields Floor(exact) unless the exact product is an
\* integer and the ratio is not a dyadic rational - then the float may land just below and truncate to exact-1.
\* MarginLo is the smallest margin a correct implementation may subtract (tolerance: 1 unit, only in that case).
Dyadic(t) == (100 - t) \in {0, 25, 50, 75, 100}
MarginLo(v, t) ==
  LET x == v * (100 - t) IN
  IF x > 0 /\ x % 100 = 0 /\ ~Dyadic(t) THEN (x \div 100) - 1 ELSE x \div 100

Bound(i, r) ==
  Pos(i.cap[r] - MarginLo(i.cap[r], i.thr[r]) - SystemTerm(i, r)
      - SumOver(i.pods, LAMBDA p : Charge(i, p, r))
      - SumOver(i.dangling, LAMBDA d : DanglingCharge(i, d, r)))

Stale(i) == i.age < 0 \/ i.age > i.degrade * 60

\* ---- NUMA zones.  A pod bound to k zones is charged 1/k in each of them, an unbound pod (and system usage,
\* reservation, dangling metrics) 1/Z in every zone.  Only zones that exist on the node count: an annotation id
\* outside 0..Z-1 binds the pod nowhere, so k is the number of EXISTING zones listed and a pod listing only
\* non-existing ids is unbound - whatever the annotation says, the pod's whole charge is distributed over the
\* node's zones (nothing vanishes).  To stay in the integers both sides are multiplied by L = lcm(1..Z).
Lcm(Z) == CASE Z = 1 -> 1 [] Z = 2 -> 2 [] Z = 3 -> 6 [] Z = 4 -> 12
NumaOf(p, Z) == {n \in RangeOf(p.numa) : n >= 0 /\ n < Z}
InZone(p, z, Z) == NumaOf(p, Z) = {} \/ (z - 1) \in NumaOf(p, Z)
KOf(p, Z) == IF NumaOf(p, Z) = {} THEN Z ELSE Cardinality(NumaOf(p, Z))
ZoneBoundL(i, r, z) ==       \* L * (bound of zone z)
  LET Z == Len(i.zones)  L == Lcm(Z)  zc == i.zones[z][r] IN
  Pos(L * (zc - MarginLo(zc, i.thr[r])) - (L \div Z) * SystemTerm(i, r)
      - SumOver(i.pods, LAMBDA p : IF ~Active(p) THEN (L \div Z) * Charge(i, p, r)    \* like a dangling metric
                                   ELSE IF InZone(p, z, Z) THEN (L \div KOf(p, Z)) * Charge(i, p, r) ELSE 0)
      - SumOver(i.dangling, LAMBDA d : (L \div Z) * DanglingCharge(i, d, r)))
Scale(r) == IF r = "mem" THEN 1000 ELSE 1    \* zone memory amounts are in 1/1000 units

(***************************************************************************)
(* Part 1b.  Batch: what the statement demands of an output                *)
(*   o = [cpu |-> [reset, has, q], mem |-> [reset, has, q],                *)
(*        zones |-> << [cpu |-> milli-cpu, mem |-> milli-units] >>]        *)
(***************************************************************************)
Withdrawn(o, r) == o[r].reset \/ ~o[r].has
Amount(o, r) == IF Withdrawn(o, r) THEN 0 ELSE o[r].q

NonNegOK(i, o)  == \A r \in Res : ~Withdrawn(o, r) => o[r].q >= 0
BoundOK(i, o)   == \A r \in Res : ~Withdrawn(o, r) => o[r].q <= Bound(i, r)
CapOK(i, o)     == \A r \in Res : (~Withdrawn(o, r) /\ i.pct[r] >= 0) => o[r].q <= PctFloor(i.cap[r], i.pct[r])
StaleOK(i, o)   == Stale(i) => (Len(o.zones) = 0 /\ \A r \in Res : Withdrawn(o, r))
ZoneOK(i, o) ==
  /\ Len(o.zones) \in {0, Len(i.zones)}
  /\ \A z \in 1..Len(o.zones) : \A r \in Res :
       /\ o.zones[z][r] >= 0
       /\ Lcm(Len(i.zones)) * o.zones[z][r] <= Scale(r) * ZoneBoundL(i, r, z)
       /\ i.pct[r] >= 0 => o.zones[z][r] <= Scale(r) * PctFloor(i.zones[z][r], i.pct[r])

BatchOutOK(i, o) == NonNegOK(i, o) /\ BoundOK(i, o) /\ CapOK(i, o) /\ StaleOK(i, o) /\ ZoneOK(i, o)

\* j is i with consumption inputs raised (or equal): system usage, host-app usage, reservation (kubelet: lower
\* allocatable; annotation), margin (lower threshold), pod request / usage, dangling usage.  Nothing else differs.
GeAll(a, b) == \A r \in Res : a[r] >= b[r]
Dominates(j, i) ==
  /\ j.cap = i.cap /\ j.pol = i.pol /\ j.pct = i.pct /\ j.degrade = i.degrade /\ j.age = i.age /\ j.zones = i.zones
  /\ GeAll(i.alloc, j.alloc) /\ GeAll(j.anno, i.anno) /\ GeAll(i.thr, j.thr) /\ GeAll(j.sys, i.sys)
  /\ Len(j.apps) = Len(i.apps)
  /\ \A k \in 1..Len(i.apps) : j.apps[k].prio = i.apps[k].prio /\ GeAll(j.apps[k].use, i.apps[k].use)
  /\ Len(j.pods) = Len(i.pods)
  /\ \A k \in 1..Len(i.pods) :
       /\ j.pods[k].prio = i.pods[k].prio /\ j.pods[k].qos = i.pods[k].qos /\ j.pods[k].phase = i.pods[k].phase
       /\ j.pods[k].term = i.pods[k].term
       /\ j.pods[k].metric = i.pods[k].metric /\ j.pods[k].numa = i.pods[k].numa
       /\ GeAll(j.pods[k].req, i.pods[k].req) /\ GeAll(j.pods[k].use, i.pods[k].use)
  /\ Len(j.dangling) = Len(i.dangling)
  /\ \A k \in 1..Len(i.dangling) : j.dangling[k].prio = i.dangling[k].prio /\ GeAll(j.dangling[k].use, i.dangling[k].use)

\* One raise step as recorded in a trace: e = [what, k, by] raises consumption input `what` (of pod / app / dangling
\* metric number k) by by[r] >= 0.  RaiseOK says the step is meaningful, ApplyRaise gives the new input
\* (MC_Reclaim checks that it always Dominates the old one).
AddRL(a, b) == [a EXCEPT !.cpu = @ + b.cpu, !.mem = @ + b.mem]
SubRL(a, b) == [a EXCEPT !.cpu = @ - b.cpu, !.mem = @ - b.mem]
RaiseOK(i, e) ==
  /\ e.by.cpu >= 0 /\ e.by.mem >= 0
  /\ e.what \in {"sys", "anno", "kres", "margin", "req", "use", "dangling", "app"}
  /\ e.what = "kres" => GeAll(i.alloc, e.by)
  /\ e.what = "margin" => GeAll(i.thr, e.by)
  /\ e.what = "req" => e.k \in 1..Len(i.pods)
  /\ e.what = "use" => (e.k \in 1..Len(i.pods) /\ i.pods[e.k].metric)
  /\ e.what = "dangling" => e.k \in 1..Len(i.dangling)
  /\ e.what = "app" => e.k \in 1..Len(i.apps)
ApplyRaise(i, e) ==
  CASE e.what = "sys"      -> [i EXCEPT !.sys = AddRL(@, e.by)]
    [] e.what = "anno"     -> [i EXCEPT !.anno = AddRL(@, e.by)]
    [] e.what = "kres"     -> [i EXCEPT !.alloc = SubRL(@, e.by)]
    [] e.what = "margin"   -> [i EXCEPT !.thr = SubRL(@, e.by)]
    [] e.what = "req"      -> [i EXCEPT !.pods[e.k].req = AddRL(@, e.by)]
    [] e.what = "use"      -> [i EXCEPT !.pods[e.k].use = AddRL(@, e.by)]
    [] e.what = "dangling" -> [i EXCEPT !.dangling[e.k].use = AddRL(@, e.by)]
    [] e.what = "app"      -> [i EXCEPT !.apps[e.k].use = AddRL(@, e.by)]

\* raising consumption never raises what is published (node level and every zone)
MonoOK(prev, new) ==
  /\ \A r \in Res : Amount(new, r) <= Amount(prev, r)
  /\ Len(new.zones) = Len(prev.zones) => \A z \in 1..Len(new.zones) : \A r \in Res : new.zones[z][r] <= prev.zones[z][r]
  /\ Len(new.zones) # Len(prev.zones) => Len(new.zones) = 0

(***************************************************************************)
(* Part 1c.  Mid tier.  Input record m:                                    *)
(*   cap, alloc, anno, sys, apps, degrade, age  as above                   *)
(*   usage  [has, cpu, mem]   node usage (has = FALSE: not reported)       *)
(*   prodrec [has, cpu, mem]  prod-reclaimable metric                      *)
(*   pods   << [prio, qos, phase, term, req[r]] >>   (term: see above)     *)
(*   mthr[r] mid threshold percent, upct unallocated percent,              *)
(*   mode "" | "static", spct[r] static reserved percent                   *)
(* Bounds: 0 <= mid <= cap*mthr%;  static: <= cap*spct%;  otherwise        *)
(*   <= Max(0, Min(prodReclaimable, cap - nodeUsage)) + unallocated*upct%  *)
(*   unallocated = Max(0, cap - Max(system usage, reservation) - requests  *)
(*                 of prod pods)                                           *)
(***************************************************************************)
IsProd(prio) == prio \notin {"mid", "batch", "free"}
MidUnallocated(m, r) ==
  Pos(m.cap[r] - Max2(m.sys[r] + HostHP(m, r, {"prod"}), Reserved(m, r))
      - SumOver(m.pods, LAMBDA p : IF IsProd(EffPrio(p)) /\ Active(p) THEN p.req[r] ELSE 0))
MidUnused(m, r) == IF m.usage.has THEN m.cap[r] - m.usage[r] ELSE 0
MidReclaimable(m, r) == IF m.prodrec.has THEN m.prodrec[r] ELSE 0
MidBound(m, r) ==
  IF m.mode = "static" THEN PctFloor(m.cap[r], m.spct[r])
  ELSE Pos(Min2(MidReclaimable(m, r), MidUnused(m, r))) + PctFloor(MidUnallocated(m, r), m.upct)

MidOutOK(m, o) ==
  /\ Stale(m) => \A r \in Res : Withdrawn(o, r)
  /\ \A r \in Res : ~Withdrawn(o, r) =>
        /\ o[r].q >= 0
        /\ o[r].q <= PctFloor(m.cap[r], m.mthr[r])
        /\ o[r].q <= MidBound(m, r)

MidDominates(j, i) ==
  /\ j.cap = i.cap /\ j.mthr = i.mthr /\ j.upct = i.upct /\ j.mode = i.mode /\ j.spct = i.spct
  /\ j.degrade = i.degrade /\ j.age = i.age /\ j.prodrec = i.prodrec /\ j.usage.has = i.usage.has
  /\ GeAll(j.usage, i.usage)
  /\ GeAll(i.alloc, j.alloc) /\ GeAll(j.anno, i.anno) /\ GeAll(j.sys, i.sys)
  /\ Len(j.apps) = Len(i.apps)
  /\ \A k \in 1..Len(i.apps) : j.apps[k].prio = i.apps[k].prio /\ GeAll(j.apps[k].use, i.apps[k].use)
  /\ Len(j.pods) = Len(i.pods)
  /\ \A k \in 1..Len(i.pods) :
       /\ j.pods[k].prio = i.pods[k].prio /\ j.pods[k].qos = i.pods[k].qos /\ j.pods[k].phase = i.pods[k].phase
       /\ j.pods[k].term = i.pods[k].term
       /\ GeAll(j.pods[k].req, i.pods[k].req)
MidRaiseOK(m, e) ==
  /\ e.by.cpu >= 0 /\ e.by.mem >= 0
  /\ e.what \in {"sys", "anno", "kres", "req", "app", "usage"}
  /\ e.what = "kres" => GeAll(m.alloc, e.by)
  /\ e.what = "req" => e.k \in 1..Len(m.pods)
  /\ e.what = "app" => e.k \in 1..Len(m.apps)
  /\ e.what = "usage" => m.usage.has
MidApplyRaise(m, e) ==
  CASE e.what = "sys"   -> [m EXCEPT !.sys = AddRL(@, e.by)]
    [] e.what = "anno"  -> [m EXCEPT !.anno = AddRL(@, e.by)]
    [] e.what = "kres"  -> [m EXCEPT !.alloc = SubRL(@, e.by)]
    [] e.what = "req"   -> [m EXCEPT !.pods[e.k].req = AddRL(@, e.by)]
    [] e.what = "app"   -> [m EXCEPT !.apps[e.k].use = AddRL(@, e.by)]
    [] e.what = "usage" -> [m EXCEPT !.usage = AddRL(@, e.by)]
MidMonoOK(prev, new) == \A r \in Res : Amount(new, r) <= Amount(prev, r)

(***************************************************************************)
(* Part 1d.  Reconciler level: what the node object carries after one      *)
(* NodeResourceReconciler.Reconcile.                                       *)
(*   i   = batch input record + nm ("present" | "missing") + diff (0..100) *)
(*   pub = [alloc |-> [cpu |-> n, mem |-> n], cap |-> [cpu |-> n, mem |-> n]]*)
(*         batch-cpu / batch-memory in node.status.allocatable / capacity, *)
(*         n = 0 when the resource is absent from the node ("withdrawn" =  *)
(*         absent or zero: either way nothing can be scheduled on it)      *)
(* "stale node metrics withdraw the resource instead of freezing an old    *)
(* value": after a reconcile that found no NodeMetric object, one that was *)
(* never updated or one older than the degrade time, the node publishes    *)
(* nothing (resource absent, or zero).  With a fresh metric the published  *)
(* amounts obey the bounds of part 1b whenever the node object must carry  *)
(* the last calculation (exact): first reconcile of this controller, no    *)
(* hysteresis configured (diff = 0), or nothing was published before (a    *)
(* resource that appears is always written).  In between the node writer   *)
(* may keep a value that differs by at most diff percent - the statement   *)
(* says nothing about that hysteresis, so only non-negativity is demanded. *)
(***************************************************************************)
Sides == {"alloc", "cap"}
RStale(i) == i.nm = "missing" \/ Stale(i)
PubAbsent(pub, r) == \A sd \in Sides : pub[sd][r] = 0
PubWithdrawn(pub) == \A r \in Res : PubAbsent(pub, r)
PubNonNegOK(pub)  == \A sd \in Sides, r \in Res : pub[sd][r] >= 0
PubStaleOK(i, pub) == RStale(i) => PubWithdrawn(pub)
PubBoundOK(i, pub) ==
  \A sd \in Sides, r \in Res :
     /\ pub[sd][r] <= Bound(i, r)
     /\ i.pct[r] >= 0 => pub[sd][r] <= PctFloor(i.cap[r], i.pct[r])
PubOK(i, pub, exact) ==
  /\ PubNonNegOK(pub)
  /\ PubStaleOK(i, pub)
  /\ (~RStale(i) /\ exact) => PubBoundOK(i, pub)

(***************************************************************************)
(* Part 2.  Algorithm transcription (model only).                          *)
(* calculateOnNode / calculateOnNUMALevel aggregate three sums over the    *)
(* listed pods and hand them to CalculateBatchResourceByPolicy.            *)
(***************************************************************************)
HPListed(p) == Active(p) /\ IsHP(EffPrio(p))
\* metric entries that are not matched by an active listed pod (dangling + terminated pods still reporting)
LeftoverUse(i, r) ==
  SumOver(i.dangling, LAMBDA d : IF IsHP(d.prio) THEN d.use[r] ELSE 0)
  + SumOver(i.pods, LAMBDA p : IF ~Active(p) /\ p.metric /\ IsHP(EffPrio(p)) THEN p.use[r] ELSE 0)

PodReq(p, r) == IF HPListed(p) THEN p.req[r] ELSE 0
PodUsed(p, r) ==
  IF ~HPListed(p) THEN 0
  ELSE IF ~p.metric THEN p.req[r]
  ELSE IF p.qos = "LSE" /\ r = "cpu" THEN p.req[r]
  ELSE p.use[r]
PodMaxUR(p, r, chargeNoMetric) ==
  IF ~HPListed(p) THEN 0
  ELSE IF ~p.metric THEN (IF chargeNoMetric THEN p.req[r] ELSE 0)
  ELSE Max2(p.use[r], p.req[r])

MarginExact(v, t) == (v * (100 - t)) \div 100

\* CalculateBatchResourceByPolicy for one resource
ByPolicy(pol, pct, cap, margin, reserved, sysUsed, hpReq, hpUsed, hpMaxUR, capLimit) ==
  LET sysOrRes == Max2(sysUsed, reserved)
      byUsage  == Pos(cap - margin - sysOrRes - hpUsed)
      byReq    == Pos(cap - margin - reserved - hpReq)
      byMaxUR  == Pos(cap - margin - sysOrRes - hpMaxUR)
      chosen   == IF pol = "request" THEN byReq ELSE IF pol = "maxUsageRequest" THEN byMaxUR ELSE byUsage
  IN IF pct < 0 THEN chosen ELSE Min2(chosen, capLimit)

ImplNode(i, r) ==
  ByPolicy(EffPol(i, r), i.pct[r], i.cap[r], MarginExact(i.cap[r], i.thr[r]), Reserved(i, r), SysUsed(i, r),
           SumOver(i.pods, LAMBDA p : PodReq(p, r)),
           SumOver(i.pods, LAMBDA p : PodUsed(p, r)) + LeftoverUse(i, r),
           SumOver(i.pods, LAMBDA p : PodMaxUR(p, r, ChargeNoMetricInMaxUR)) + LeftoverUse(i, r),
           PctFloor(i.cap[r], i.pct[r]))

\* zone path: every share is Ceil(milli / k); the NUMA path does charge pods without metrics in all three sums
ImplZone(i, r, z) ==
  LET Z == Len(i.zones)  S == Scale(r)  zc == i.zones[z][r]
      Share(p, v) == IF InZone(p, z, Z) THEN CeilDiv(S * v, KOf(p, Z)) ELSE 0
      left == SumOver(i.dangling, LAMBDA d : IF IsHP(d.prio) THEN CeilDiv(S * d.use[r], Z) ELSE 0)
              + SumOver(i.pods, LAMBDA p : IF ~Active(p) /\ p.metric /\ IsHP(EffPrio(p)) THEN CeilDiv(S * p.use[r], Z) ELSE 0)
  IN ByPolicy(EffPol(i, r), i.pct[r], S * zc, S * MarginExact(zc, i.thr[r]),
              CeilDiv(S * Reserved(i, r), Z), CeilDiv(S * SysUsed(i, r), Z),
              SumOver(i.pods, LAMBDA p : Share(p, PodReq(p, r))),
              SumOver(i.pods, LAMBDA p : IF HPListed(p) /\ p.metric /\ ~(p.qos = "LSE" /\ r = "cpu")
                                          THEN Share(p, p.use[r]) ELSE Share(p, PodReq(p, r))) + left,
              SumOver(i.pods, LAMBDA p : IF HPListed(p) /\ p.metric
                                          THEN Max2(Share(p, p.use[r]), Share(p, p.req[r])) ELSE Share(p, PodReq(p, r))) + left,
              S * PctFloor(zc, i.pct[r]))

BatchImpl(i) ==
  IF Stale(i) THEN [cpu |-> [reset |-> TRUE, has |-> FALSE, q |-> 0], mem |-> [reset |-> TRUE, has |-> FALSE, q |-> 0],
                    zones |-> <<>>]
  ELSE [cpu |-> [reset |-> FALSE, has |-> TRUE, q |-> ImplNode(i, "cpu")],
        mem |-> [reset |-> FALSE, has |-> TRUE, q |-> ImplNode(i, "mem")],
        zones |-> [z \in 1..Len(i.zones) |-> [cpu |-> ImplZone(i, "cpu", z), mem |-> ImplZone(i, "mem", z)]]]

\* reconciler (Reconcile -> calculateNodeResource -> updateNodeResource) for the batch resources.
\* A missing NodeMetric object is handed to the plugins as an empty one (never updated): they degrade.
\* item = result of Plugin.Calculate for one resource; prev = [has, q] on the node before;
\* expired = the last successful sync of this controller is unknown or older than updateTimeThresholdSeconds
ReconItems(i) == BatchImpl(IF i.nm = "missing" THEN [i EXCEPT !.age = -1] ELSE i)
Prepared(item) == IF item.reset \/ ~item.has THEN [has |-> FALSE, q |-> 0] ELSE [has |-> TRUE, q |-> item.q]
Abs(x) == IF x >= 0 THEN x ELSE -x
QDiff(old, new, diff) ==        \* util.IsResourceDiff
  \/ old.has # new.has
  \/ old.has /\ 100 * Abs(new.q - old.q) > old.q * diff
ReconImpl(i, prev, expired) ==  \* prev, result: [cpu |-> [has, q], mem |-> [has, q]] (allocatable = capacity)
  LET items == ReconItems(i)
      want  == [r \in Res |-> Prepared(items[r])]
      sync  == expired \/ \E r \in Res : QDiff(prev[r], want[r], i.diff)
  IN IF sync THEN want ELSE prev
PubOf(n) == LET amt == [r \in Res |-> IF n[r].has THEN n[r].q ELSE 0] IN [alloc |-> amt, cap |-> amt]

\* mid tier (CalculateMidResourceByStaticMode / CalculateMidResourceByPolicy)
MidImplRes(m, r) ==
  LET capLimit == PctFloor(m.cap[r], m.mthr[r])
      raw == IF m.mode = "static" THEN PctFloor(m.cap[r], m.spct[r])
             ELSE Pos(Min2(MidReclaimable(m, r), MidUnused(m, r))) + PctFloor(MidUnallocated(m, r), m.upct)
  IN Min2(raw, capLimit)
MidImpl(m) ==
  IF Stale(m) THEN [cpu |-> [reset |-> TRUE, has |-> FALSE, q |-> 0], mem |-> [reset |-> TRUE, has |-> FALSE, q |-> 0]]
  ELSE [cpu |-> [reset |-> FALSE, has |-> TRUE, q |-> MidImplRes(m, "cpu")],
        mem |-> [reset |-> FALSE, has |-> TRUE, q |-> MidImplRes(m, "mem")]]
=============================================================================
