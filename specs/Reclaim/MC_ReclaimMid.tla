---------------------------- MODULE MC_ReclaimMid ----------------------------
(***************************************************************************)
(* Decide the mid-tier clauses of C09 on the model: MidImpl satisfies      *)
(* MidOutOK on every input of a small exhaustive domain and every          *)
(* single-step raise of a consumption input (node usage, system usage,     *)
(* host-app usage, reservation, prod pod request) never raises the         *)
(* published mid amount.  Same structure as MC_Reclaim.                    *)
(***************************************************************************)
EXTENDS Reclaim

CONSTANTS
  Caps, MThrs, UPcts, Modes,   \* Modes: set of <<mode, static percent>>
  ProdRecs,                    \* set of <<has, value>>
  UsageHas,                    \* subset of BOOLEAN
  UsageStep, MaxUsage, MaxSys, MaxKRes, MaxAnno, MaxApp, MaxReq,
  Ages,
  PodSets,                     \* set of sequences of [prio, qos, phase, term]
  AppSets

VARIABLE inp
vars == <<inp>>

RR(v) == [cpu |-> v, mem |-> v]

Init ==
  \E c \in Caps, mt \in MThrs, up \in UPcts, md \in Modes, pr \in ProdRecs, uh \in UsageHas, ps \in PodSets, hs \in AppSets :
    inp = [cap |-> RR(c), alloc |-> RR(c), anno |-> RR(0), sys |-> RR(0), degrade |-> 1, age |-> 0,
           apps |-> [k \in 1..Len(hs) |-> [prio |-> hs[k], use |-> RR(0)]],
           usage |-> [has |-> uh, cpu |-> 0, mem |-> 0],
           prodrec |-> [has |-> pr[1], cpu |-> pr[2], mem |-> pr[2]],
           pods |-> [k \in 1..Len(ps) |-> [prio |-> ps[k].prio, qos |-> ps[k].qos, phase |-> ps[k].phase, term |-> ps[k].term,
                                            req |-> RR(0)]],
           mthr |-> RR(mt), upct |-> up, mode |-> md[1], spct |-> RR(md[2])]

Ev(w, k, d) == [what |-> w, k |-> k, by |-> RR(d)]
Allowed(e) ==
  CASE e.what = "sys"   -> inp.sys.cpu < MaxSys
    [] e.what = "kres"  -> inp.cap.cpu - inp.alloc.cpu < MaxKRes
    [] e.what = "anno"  -> inp.anno.cpu < MaxAnno
    [] e.what = "app"   -> inp.apps[e.k].use.cpu < MaxApp
    [] e.what = "req"   -> inp.pods[e.k].req.cpu < MaxReq
    [] e.what = "usage" -> inp.usage.cpu + UsageStep <= MaxUsage
Steps ==
  {Ev("sys", 0, 1), Ev("kres", 0, 1), Ev("anno", 0, 1), Ev("usage", 0, UsageStep)}
  \cup {Ev("app", k, 1) : k \in 1..Len(inp.apps)}
  \cup {Ev("req", k, 1) : k \in 1..Len(inp.pods)}

Next == \E e \in Steps : MidRaiseOK(inp, e) /\ Allowed(e) /\ inp' = MidApplyRaise(inp, e)
Spec == Init /\ [][Next]_vars

Aged(i, a) == [i EXCEPT !.age = a]
ImplOK == \A a \in Ages : MidOutOK(Aged(inp, a), MidImpl(Aged(inp, a)))
RaiseIsRaise == [][MidDominates(inp', inp)]_vars
Mono == [][MidMonoOK(MidImpl(inp), MidImpl(inp'))]_vars

\* ---------------------------------------------------------------- menus
P(pr, q, ph) == [prio |-> pr, qos |-> q, phase |-> ph, term |-> FALSE]
PT(pr, q, ph) == [prio |-> pr, qos |-> q, phase |-> ph, term |-> TRUE]      \* being deleted
PodsQuick == {<<>>, <<P("prod", "LS", "Running")>>, <<P("mid", "LS", "Running")>>, <<P("batch", "BE", "Running")>>,
              <<P("prod", "LS", "Succeeded")>>, <<PT("prod", "LS", "Running")>>}
PodsAll == PodsQuick \cup {<<P("none", "LS", "Running")>>, <<P("none", "BE", "Running")>>, <<P("free", "BE", "Running")>>,
                           <<P("prod", "LSE", "Pending")>>, <<P("prod", "LS", "Failed")>>,
                           <<P("prod", "LS", "Running"), P("prod", "LSR", "Running")>>,
                           <<P("prod", "LS", "Running"), P("mid", "LS", "Running")>>,
                           <<PT("prod", "LS", "Pending")>>, <<P("prod", "LS", "Running"), PT("prod", "LSR", "Running")>>}
AppsQuick == {<<>>, <<"prod">>, <<"mid">>}
AppsAll == {<<>>, <<"prod">>, <<"mid">>, <<"batch">>}
ModesQuick == {<<"", 0>>, <<"static", 50>>}
ModesAll == {<<"", 0>>, <<"static", 50>>, <<"static", 100>>}
RecQuick == {<<FALSE, 0>>, <<TRUE, 2>>, <<TRUE, 8>>}
RecAll == {<<FALSE, 0>>, <<TRUE, 0>>, <<TRUE, 3>>, <<TRUE, 8>>}
AgesAll == {0, 60, 61, -1}
=============================================================================
