--------------------------- MODULE MC_ReclaimRecon ---------------------------
(***************************************************************************)
(* Decide the reconciler-level clause of C09 on the model ("stale node     *)
(* metrics withdraw the resource instead of freezing an old value"):       *)
(* a node whose environment changes arbitrarily between reconciles (the    *)
(* NodeMetric object appears / disappears / ages / is never updated,       *)
(* system and pod usage move up and down) and whose node writer has a      *)
(* hysteresis (resourceDiffThreshold, update-time threshold).  After every *)
(* reconcile the published amounts satisfy PubOK.  The state is the        *)
(* environment of the LAST reconcile and what the node carries after it.   *)
(***************************************************************************)
EXTENDS Reclaim

CONSTANTS Cap, Pols, Pcts, Diffs, Ages, MaxSys, MaxUse, Pres

VARIABLES inp, pub, exact
vars == <<inp, pub, exact>>

RR(v) == [cpu |-> v, mem |-> v]
Pod(u) == [prio |-> "prod", qos |-> "LS", phase |-> "Running", term |-> FALSE, metric |-> TRUE, numa |-> <<>>,
           req |-> RR(1), use |-> RR(u)]
Envs == [nm : {"present", "missing"}, age : Ages, sys : 0..MaxSys, use : 0..MaxUse]
Mk(cfg, e) ==
  [cap |-> RR(Cap), alloc |-> RR(Cap), anno |-> RR(0), thr |-> RR(100), pol |-> cfg.pol, pct |-> RR(cfg.pct),
   degrade |-> 1, age |-> e.age, sys |-> RR(e.sys), apps |-> <<>>, pods |-> <<Pod(e.use)>>, dangling |-> <<>>,
   zones |-> <<>>, nm |-> e.nm, diff |-> cfg.diff]
Absent == [has |-> FALSE, q |-> 0]
PreOf(v) == IF v < 0 THEN RR(Absent) ELSE RR([has |-> TRUE, q |-> v])

\* the first reconcile of a controller instance always writes (no sync recorded yet)
Init ==
  \E pol \in Pols, pct \in Pcts, d \in Diffs, e \in Envs, pre \in Pres :
    /\ inp = Mk([pol |-> pol, pct |-> pct, diff |-> d], e)
    /\ pub = ReconImpl(inp, PreOf(pre), TRUE)
    /\ exact = TRUE

\* the environment changes, then the node is reconciled again; expired: the update-time threshold has passed
Next ==
  \E e \in Envs, expired \in BOOLEAN :
    /\ inp' = Mk([pol |-> inp.pol, pct |-> inp.pct.cpu, diff |-> inp.diff], e)
    /\ pub' = ReconImpl(inp', pub, expired)
    /\ exact' = (expired \/ inp.diff = 0 \/ PubWithdrawn(PubOf(pub)))

Spec == Init /\ [][Next]_vars

PolsQuick == {[cpu |-> "", mem |-> "usage"], [cpu |-> "maxUsageRequest", mem |-> "request"]}
PctsQuick == {-1, 50}
AgesAll == {0, 60, 61, -1}
PresQuick == {-1, 5}            \* what the node carried before this controller's first reconcile (-1: nothing)
ReconOK == PubOK(inp, PubOf(pub), exact)
\* not vacuous: something is published in some state, and withdrawn again in a later one
Published == ~PubWithdrawn(PubOf(pub))
=============================================================================
