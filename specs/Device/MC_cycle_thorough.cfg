\* as MC_cycle_quick.cfg with requests and foreign allocations of 50 and 100 percent (thorough tier)
SPECIFICATION CSpec
CONSTANTS
  Types = {"gpu"}
  Minors = {0, 1}
  Pods = {"p0", "p1", "p2", "p3"}
  MaxCnt = 1
  Amounts = {50, 100}
  DupCheck = TRUE
  KnownCheck = TRUE
  ResetFree = TRUE
  CmpOK = TRUE
  ByteReqs = {}
  DerivedCheck = FALSE
  KeepFilterResult = FALSE
  CyclePods = {"p0"}
  AliasAppend = FALSE
INVARIANT TypeOK
INVARIANT InvC
INVARIANT InvF
INVARIANT InvU
INVARIANT InvAK
CHECK_DEADLOCK FALSE
