\* MUST FAIL (InvAK): self-check of the model checking, not run by bin/check
\* one device type x 3 minors (totals 0 / 100), 2 pods, requests 50 / 100 percent of 1..2 devices; complete state space
SPECIFICATION MSpec
CONSTANTS
  Types = {"gpu"}
  Minors = {0, 1, 2}
  Pods = {"p0", "p1"}
  MaxCnt = 2
  Amounts = {50, 100}
  DupCheck = TRUE
  KnownCheck = TRUE
  ResetFree = TRUE
  CmpOK = FALSE
  ByteReqs = {}
  DerivedCheck = FALSE
INVARIANT TypeOK
INVARIANT InvC
INVARIANT InvF
INVARIANT InvU
INVARIANT InvAK
CHECK_DEADLOCK FALSE
