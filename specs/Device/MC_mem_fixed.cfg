\* the same universe as MC_bug_mem.cfg with the repaired allocator (the derived amount must be free too): every invariant holds
SPECIFICATION MSpec
CONSTANTS
  Types = {"gpu"}
  Minors = {0}
  Pods = {"p0", "p1", "p2"}
  MaxCnt = 1
  Amounts = {26, 50}
  DupCheck = TRUE
  KnownCheck = TRUE
  ResetFree = TRUE
  CmpOK = TRUE
  ByteReqs = {3000}
  DerivedCheck = TRUE
INVARIANT TypeOK
INVARIANT InvC
INVARIANT InvF
INVARIANT InvU
INVARIANT InvAK
CHECK_DEADLOCK FALSE
