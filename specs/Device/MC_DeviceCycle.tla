--------------------------- MODULE MC_DeviceCycle ---------------------------
(***************************************************************************)
(* C07, the scheduling CYCLE decided on the model (one node).  On top of   *)
(* the transcription of the ledger updates in MC_Device, one scheduling    *)
(* cycle is taken apart the way the plugin runs it (plugin.go):            *)
(*   CBegin   PreFilter: request + optionally a DESIGNATED set of minors   *)
(*   CRemove  PreFilterExtensions.RemovePod on the what-if copy of the     *)
(*            cycle state: the victim's recorded per-device lists are      *)
(*            accumulated (appendAllocated / deviceResources.append) -     *)
(*            nodeDevice.getUsed hands out the cache's OWN lists           *)
(*   CFilter  Filter: for a designated allocation the allocator runs and   *)
(*            the result is DISCARDED (state.allocationResult = nil)       *)
(*   CReserve Reserve: allocates on the ledgers AS THEY ARE NOW unless the *)
(*            cycle state already holds a result, then commits             *)
(* with the environment (inventory refresh, pods of other schedulers,      *)
(* deletes, binds, roll-backs of earlier cycles) moving between the steps. *)
(* Checked in every reachable state: InvC InvF InvU InvAK of MC_Device -   *)
(* what-if steps and Filter leave the ledgers alone, what Reserve commits  *)
(* satisfies (A) on the state at Reserve time.                             *)
(* Mutation switches (FALSE = the code as read):                           *)
(*   KeepFilterResult  Filter keeps the designated what-if result          *)
(*                     (MC_cycle_bug_stale.cfg must FAIL InvU)             *)
(*   AliasAppend       append stores the incoming list by reference        *)
(*                     (MC_cycle_bug_alias.cfg must FAIL InvC)             *)
(***************************************************************************)
EXTENDS MC_Device

CONSTANTS KeepFilterResult, AliasAppend,
          CyclePods   \* the pods that run scheduling cycles (the pods are interchangeable); the others are the environment's

VARIABLES cyc   \* the scheduling cycle in progress (the scheduler runs one at a time)
cvars == <<mvars, cyc>>

NoCycle == [on |-> FALSE]
NoRes   == [ok |-> FALSE, result |-> <<>>]
\* cyc.pre, the what-if accumulator (state.preemptibleDevices[node][type]):
\*   minor -> [amt : resource vector, ref : the pod whose recorded list this entry IS ("" = a copy of it)]

(* PreFilter *)
CBegin(p, t, req, cnt, des) ==
    /\ ~cyc.on /\ api[p].exists /\ ~api[p].node /\ resv[p] = {}
    /\ cyc' = [on |-> TRUE, pod |-> p, t |-> t, req |-> req, cnt |-> cnt, des |-> des,
               kept |-> NoRes,           \* state.allocationResult
               typed |-> FALSE,          \* the what-if accumulator already has an entry for the device type
               pre |-> <<>>,             \* minor -> [amt, ref]
               removed |-> {}]
    /\ UNCHANGED <<vars, usedL, freeL, setL>> /\ akOK' = TRUE

(* RemovePod(v) on the what-if copy: v records exactly one device (t, m) with amounts a *)
CRemove(v) ==
    /\ cyc.on /\ v # cyc.pod /\ v \notin cyc.removed
    /\ \E e \in setL[v] :
         /\ setL[v] = {e} /\ e.t = cyc.t
         /\ LET m == e.m IN
            IF ~cyc.typed
              THEN \* appendAllocated: first entry of the type is a DeepCopy
                   /\ cyc' = [cyc EXCEPT !.typed = TRUE, !.pre = (m :> [amt |-> e.res, ref |-> ""]), !.removed = @ \cup {v}]
                   /\ UNCHANGED setL
              ELSE IF m \notin DOMAIN cyc.pre
                THEN \* deviceResources.append, minor not present yet: the incoming list is stored (copied / by reference)
                     /\ cyc' = [cyc EXCEPT !.pre = @ @@ (m :> [amt |-> e.res, ref |-> IF AliasAppend THEN v ELSE ""]), !.removed = @ \cup {v}]
                     /\ UNCHANGED setL
                ELSE \* util.AddResourceList(device, resources): IN PLACE on whatever list the accumulator holds
                     LET sum == [r \in ResOf(cyc.t) |-> cyc.pre[m].amt[r] + e.res[r]]
                         b   == cyc.pre[m].ref
                     IN /\ cyc' = [cyc EXCEPT !.pre[m].amt = sum, !.removed = @ \cup {v}]
                        /\ setL' = IF b = "" THEN setL
                                   ELSE [setL EXCEPT ![b] = {IF x.t = cyc.t /\ x.m = m THEN [x EXCEPT !.res = sum] ELSE x : x \in @}]
    /\ UNCHANGED <<vars, usedL, freeL>> /\ akOK' = TRUE

(* Filter on the node (designated branch: allocate, then discard) *)
CFilter ==
    /\ cyc.on /\ cyc.des # {}
    /\ LET out == AllocImpl(cyc.t, cyc.req, cyc.cnt, (cyc.t :> cyc.des), {})
       IN cyc' = [cyc EXCEPT !.kept = IF ~cyc.kept.ok /\ out.ok /\ KeepFilterResult THEN out ELSE @]
    /\ UNCHANGED <<vars, usedL, freeL, setL>> /\ akOK' = TRUE

(* Reserve *)
CReserve ==
    /\ cyc.on /\ ~api[cyc.pod].node /\ resv[cyc.pod] = {}
    /\ LET p    == cyc.pod
           out  == IF cyc.kept.ok THEN cyc.kept ELSE AllocImpl(cyc.t, cyc.req, cyc.cnt, (cyc.t :> cyc.des), {})
           reqs == (cyc.t :> [req |-> cyc.req, cnt |-> cyc.cnt])
       IN /\ akOK' = AllocOutcomeOK(reqs, (cyc.t :> cyc.des), out.ok, out.result)
          /\ IF out.ok
               THEN /\ resv' = [resv EXCEPT ![p] = EntriesOf(out.result)]
                    /\ Becomes(UCU(Cur, total, EntriesOf(out.result), p, TRUE))
               ELSE UNCHANGED <<resv, usedL, freeL, setL>>
          /\ UNCHANGED <<total, api, lost>> /\ KeepExempt
    /\ cyc' = NoCycle

(* the cycle is given up *)
CEnd == cyc.on /\ cyc' = NoCycle /\ UNCHANGED mvars

CycleStep == \/ \E p \in CyclePods, t \in Types, cnt \in 1..MaxCnt, des \in SUBSET Minors : \E req \in ReqMenu(t) : CBegin(p, t, req, cnt, des)
             \/ \E v \in Pods : CRemove(v)
             \/ CFilter \/ CReserve \/ CEnd
\* what the environment and the binding cycle of the reserved pod do meanwhile (no second scheduling cycle at the same
\* time: the scheduler runs one; MAlloc is not a step)
EnvStep == /\ \/ MInventory
              \/ \E p \in CyclePods : PCreate(p) \/ PBind(p) \/ PUnreserve(p)
              \/ \E p \in Pods \ CyclePods, e \in ForeignMenu : PAdd(p, e)
              \/ MDelete
           /\ UNCHANGED cyc

CInit == MInit /\ cyc = NoCycle
CNext == CycleStep \/ EnvStep
CSpec == CInit /\ [][CNext]_cvars
=============================================================================
