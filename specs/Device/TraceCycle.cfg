\* plugin-level cycles on several nodes (TestVerifC07Plugin): one segment per (history, node), see DeviceTrace!CycleSpec
SPECIFICATION CycleSpec
CONSTANTS
  Types = {"gpu", "rdma", "fpga"}
  Minors = {0, 1, 2, 3}
  Pods = {"p0", "p1", "p2", "p3", "p4", "p5", "p6", "p7"}
\* property invariants are listed as CONSTRAINTs (before Report): a recorded state that violates one is not
\* explored further, so its segment never reaches SegDone (= rejected) while TLC goes on with the other segments
CONSTRAINT InvU
CONSTRAINT TypeOK
CONSTRAINT Report
CHECK_DEADLOCK FALSE
