\* one device type x 2 minors, 3 pods, requests 25 / 50 / 100 percent of 1..2 devices; complete state space
SPECIFICATION MSpec
CONSTANTS
  Types = {"rdma"}
  Minors = {0, 1}
  Pods = {"p0", "p1", "p2"}
  MaxCnt = 2
  Amounts = {25, 50, 100}
  DupCheck = TRUE
  KnownCheck = TRUE
  ResetFree = TRUE
  CmpOK = TRUE
  ByteReqs = {}
  DerivedCheck = FALSE
INVARIANT TypeOK
INVARIANT InvC
INVARIANT InvF
INVARIANT InvU
INVARIANT InvAK
CHECK_DEADLOCK FALSE
