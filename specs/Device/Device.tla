------------------------------- MODULE Device -------------------------------
(***************************************************************************)
(* C07 - device-share ledgers of ONE node (scheduler plugin deviceshare).  *)
(*                                                                         *)
(* Abstract state = the OBJECTS that determine what the ledgers must hold: *)
(*   total  [Types -> [Minors -> [ResOf(t) -> Nat]]]  the device inventory *)
(*          last delivered (0 everywhere for an absent, removed or         *)
(*          unhealthy device)                                              *)
(*   api    [Pods -> object]  the pod object last delivered by the pod     *)
(*          informer: exists, node (assigned to this node), term           *)
(*          (Succeeded / Failed), alloc (device-allocation annotation, a   *)
(*          set of entries [t, m, res])                                    *)
(*   resv   [Pods -> set of entries]  allocation held by a scheduling      *)
(*          cycle between Reserve and bind / Unreserve                     *)
(*   exempt set of devices <<t, m>> that the ENVIRONMENT over-committed    *)
(*          (an inventory refresh shrank the total below the amount in use,*)
(*          or an informer event carried an allocation that does not fit); *)
(*          a device leaves the set as soon as its usage falls back        *)
(*                                                                         *)
(* The allocation set of the live pods is DERIVED from these objects       *)
(* (Holds / AllocSet), and so are in-use and free of every device and      *)
(* resource (Used / Free) - computed from scratch, never incrementally.    *)
(* The trace specification demands that the ledgers reported by the real   *)
(* nodeDevice after EVERY operation equal these operators:                 *)
(*   (C) in-use = sum of the live pods' allocations on the device          *)
(*   (F) free   = max(0, total - in-use)                                   *)
(*   (U) in-use <= total except on exempt devices            (InvU)        *)
(* and that every outcome of the allocator is one the property allows:     *)
(*   (A) success: per requested type exactly cnt DISTINCT minors among the *)
(*       devices the pod may use, each with free >= request at that moment *)
(*   (K) failure only if for some requested type fewer than cnt such       *)
(*       devices exist (counting what the request amounts to on the device,*)
(*       see EffReq)                                       (AllocOutcomeOK)*)
(* WHICH devices are chosen is left open (nondeterministic): scoring,      *)
(* preferred minors, GPU topology scopes only select among allowed sets.   *)
(* Not modelled: GPU partition tables, VF bookkeeping, reservations        *)
(* (restore states), joint allocation.  The steps of ONE scheduling cycle  *)
(* (PreFilter, preemption what-if, Filter, Reserve) on SEVERAL nodes: see  *)
(* CycleRead / Reserve / Elsewhere below.                                  *)
(***************************************************************************)
EXTENDS Integers, FiniteSets, Sequences, FiniteSetsExt, TLC

CONSTANTS Types,    \* device types (strings, subset of {"gpu", "rdma", "fpga"})
          Minors,   \* device minors (integers)
          Pods      \* pod names

VARIABLES total, api, resv, exempt,
          lost    \* assigned pods whose ledger entry a LATE Unreserve removed (the bind was persisted and the informer had
                  \* delivered the bound pod, but the bind call reported an error to the scheduler, which rolled back):
                  \* the node's ledgers do not count them until the informer delivers the pod again (named deviation)
vars == <<total, api, resv, exempt, lost>>

\* resources a device of type t exposes ("mem" is derived from "ratio" by the plugin when a GPU is granted)
ResOf(t) == CASE t = "gpu"  -> {"core", "ratio", "mem"}
              [] t = "rdma" -> {"rdma"}
              [] t = "fpga" -> {"fpga"}

ZeroRes(t) == [r \in ResOf(t) |-> 0]
Devs       == Types \X Minors
NoDevices  == [t \in Types |-> [m \in Minors |-> ZeroRes(t)]]
NoPod      == [exists |-> FALSE, node |-> FALSE, term |-> FALSE, alloc |-> {}]
Max0(x)    == IF x > 0 THEN x ELSE 0
\* a resource map (possibly partial, possibly with foreign keys) as a vector over the type's resources
Norm(t, res) == [r \in ResOf(t) |-> IF r \in DOMAIN res THEN res[r] ELSE 0]

(************************* derived: who holds what **************************)
\* the device allocation of pod p that the node's ledgers must account for
Holds(p) == IF api[p].exists /\ api[p].node
              THEN (IF api[p].term \/ p \in lost THEN {} ELSE api[p].alloc)   \* assigned: the annotation of a running pod counts
              ELSE resv[p]                                      \* not (yet) assigned: what Reserve assumed
AllocSet == [p \in Pods |-> Holds(p)]

EntriesAt(t, m) == UNION {{<<p, e>> : e \in {x \in Holds(p) : x.t = t /\ x.m = m}} : p \in Pods}
Used(t, m, r)   == FoldSet(LAMBDA x, acc : acc + x[2].res[r], 0, EntriesAt(t, m))
Free(t, m, r)   == Max0(total[t][m][r] - Used(t, m, r))
Over(t, m)      == \E r \in ResOf(t) : Used(t, m, r) > total[t][m][r]
OverSet         == {d \in Devs : Over(d[1], d[2])}
\* the same with the pods a late roll-back dropped counted too (they come back with their next informer event)
HoldsAll(p)       == IF api[p].exists /\ api[p].node THEN (IF api[p].term THEN {} ELSE api[p].alloc) ELSE resv[p]
EntriesAtAll(t, m) == UNION {{<<p, e>> : e \in {x \in HoldsAll(p) : x.t = t /\ x.m = m}} : p \in Pods}
UsedAll(t, m, r)  == FoldSet(LAMBDA x, acc : acc + x[2].res[r], 0, EntriesAtAll(t, m))
OverSetAll        == {d \in Devs : \E r \in ResOf(d[1]) : UsedAll(d[1], d[2], r) > total[d[1]][d[2]][r]}

(****************************** invariants **********************************)
\* (U) no device is over-committed unless the environment did it
InvU == OverSet \subseteq exempt
TypeOK == /\ \A t \in Types, m \in Minors : \A r \in ResOf(t) : total[t][m][r] >= 0
          /\ \A p \in Pods : ~(api[p].exists /\ api[p].node) \/ resv[p] = {}

(********************** property of one allocation **************************)
\* reqs     : [requested types -> [req : [resources -> Nat], cnt : Nat]]   per-instance request and device count
\* required : [types -> set of minors]   the devices the pod may use (absent / empty: any device of the type)
MayUse(t, required) == IF t \in DOMAIN required /\ required[t] # {} THEN required[t] \cap Minors ELSE Minors
Fits(t, m, req)     == \A r \in DOMAIN req : r \in ResOf(t) /\ Free(t, m, r) >= req[r]
\* GPU memory can be asked for in percent ("ratio") or in bytes ("mem"); a grant on device m charges BOTH, the one not
\* asked for being derived from the device's memory size.  What a request amounts to on device m:
EffReq(t, m, req) ==
    IF t = "gpu" /\ "ratio" \in DOMAIN req /\ "mem" \notin DOMAIN req
      THEN [r \in DOMAIN req \cup {"mem"} |-> IF r = "mem" THEN (req["ratio"] * total[t][m]["mem"]) \div 100 ELSE req[r]]
    ELSE IF t = "gpu" /\ "mem" \in DOMAIN req /\ "ratio" \notin DOMAIN req /\ total[t][m]["mem"] > 0
      THEN [r \in DOMAIN req \cup {"ratio"} |-> IF r = "ratio" THEN (req["mem"] * 100) \div total[t][m]["mem"] ELSE req[r]]
    ELSE req
\* (A) is taken literally (the amounts asked for are free); that the derived amount is free as well is demanded by (U)
\* at the commit.  (K) excuses a failure when the request INCLUDING what it amounts to does not fit often enough.
Cands(t, req, required)    == {m \in MayUse(t, required) : Fits(t, m, req)}
CandsEff(t, req, required) == {m \in MayUse(t, required) : Fits(t, m, EffReq(t, m, req))}
Feasible(reqs, required) ==
    \A t \in DOMAIN reqs : t \in Types /\ Cardinality(CandsEff(t, reqs[t].req, required)) >= reqs[t].cnt
\* (A)  result : [types -> sequence of [m, res]]
GrantOK(reqs, required, result) ==
    \A t \in DOMAIN reqs :
       /\ t \in Types /\ t \in DOMAIN result
       /\ Len(result[t]) = reqs[t].cnt
       /\ Cardinality({result[t][i].m : i \in DOMAIN result[t]}) = Len(result[t])
       /\ \A i \in DOMAIN result[t] : result[t][i].m \in Cands(t, reqs[t].req, required)
\* (A) + (K)
AllocOutcomeOK(reqs, required, ok, result) ==
    IF ok THEN GrantOK(reqs, required, result) ELSE ~Feasible(reqs, required)

EntriesOf(result) ==
    UNION {{[t |-> t, m |-> result[t][i].m, res |-> Norm(t, result[t][i].res)] : i \in DOMAIN result[t]} : t \in DOMAIN result}

(******************************** actions ***********************************)
\* steps of the scheduler / of pods going away cannot excuse an over-commit; steps by which the environment
\* dictates totals or allocations can
\* devices held by pods a late roll-back dropped: granting them again is the roll-back's doing, not the allocator's
LostDevs   == {d \in Devs : \E p \in lost : \E e \in HoldsAll(p) : e.t = d[1] /\ e.m = d[2]}
KeepExempt == exempt' = exempt \cap (OverSetAll' \cup LostDevs')
EnvExempt  == exempt' = OverSetAll' \cup (exempt \cap LostDevs')

\* device inventory refresh (Device object added / updated); inv has the shape of total
Inventory(inv) == total' = inv /\ UNCHANGED <<api, resv, lost>> /\ EnvExempt
\* the Device object is deleted: every device counts as unhealthy until it is reported again
Invalidate == Inventory(NoDevices)

\* an unassigned pod appears
Create(p) == /\ ~api[p].exists
             /\ api' = [api EXCEPT ![p] = [NoPod EXCEPT !.exists = TRUE]]
             /\ UNCHANGED <<total, resv, lost>> /\ KeepExempt

\* one scheduling attempt for p on this node: allocate and - on success, if the node is chosen - Reserve.
\* The outcome (ok, result) is whatever the allocator returned; the property says which outcomes are allowed.
Alloc(p, reqs, required, ok, result, commit) ==
    /\ ~api[p].node /\ resv[p] = {}
    /\ AllocOutcomeOK(reqs, required, ok, result)
    /\ api' = [api EXCEPT ![p].exists = TRUE]
    /\ resv' = IF ok /\ commit THEN [resv EXCEPT ![p] = EntriesOf(result)] ELSE resv
    /\ UNCHANGED <<total, lost>> /\ KeepExempt

Unreserve(p) == /\ ~api[p].node /\ resv[p] # {}
                /\ resv' = [resv EXCEPT ![p] = {}]
                /\ UNCHANGED <<total, api, lost>> /\ KeepExempt

\* the scheduler rolls back a pod whose bind WAS persisted and already delivered by the informer (the bind call returned an
\* error): Unreserve subtracts the allocation it reserved and drops the pod from the node's ledgers although the pod
\* object is assigned; the next informer event for the pod puts it back
LateUnreserve(p) == /\ api[p].exists /\ api[p].node /\ ~api[p].term /\ api[p].alloc # {} /\ p \notin lost
                    /\ lost' = lost \cup {p}
                    /\ UNCHANGED <<total, api, resv>>
                    /\ exempt' = exempt \cup {d \in Devs : \E e \in api[p].alloc : e.t = d[1] /\ e.m = d[2]}

\* the pod is bound with the allocation written to its annotation; the informer delivers the update
Bind(p) == /\ api[p].exists /\ ~api[p].node /\ resv[p] # {}
           /\ api' = [api EXCEPT ![p] = [exists |-> TRUE, node |-> TRUE, term |-> FALSE, alloc |-> resv[p]]]
           /\ resv' = [resv EXCEPT ![p] = {}]
           /\ UNCHANGED <<total, lost>> /\ KeepExempt

\* events that do not change the object: update without change, duplicate add, duplicate delete of a gone pod
Touch(p)    == api[p].exists /\ UNCHANGED <<total, api, resv>> /\ lost' = lost \ {p} /\ KeepExempt   \* the informer delivered p again
ReAdd(p)    == Touch(p)
ReDelete(p) == ~api[p].exists /\ resv[p] = {} /\ UNCHANGED <<total, api, resv, lost>> /\ KeepExempt

\* an update that changes the allocation annotation of an assigned running pod (A : set of entries)
Annotate(p, A) == /\ api[p].exists /\ api[p].node /\ ~api[p].term
                  /\ api' = [api EXCEPT ![p].alloc = A]
                  /\ UNCHANGED <<total, resv>> /\ lost' = lost \ {p} /\ EnvExempt
Terminate(p) == /\ api[p].exists /\ api[p].node /\ ~api[p].term
                /\ api' = [api EXCEPT ![p].term = TRUE]
                /\ UNCHANGED <<total, resv>> /\ lost' = lost \ {p} /\ KeepExempt
\* the pod object becomes unassigned again (multi-scheduler); what an unassigned object carries in its annotation is
\* irrelevant to the node's ledgers, so the abstraction forgets it
Unassign(p) == /\ api[p].exists /\ api[p].node
               /\ api' = [api EXCEPT ![p] = [NoPod EXCEPT !.exists = TRUE]]
               /\ UNCHANGED <<total, resv>> /\ lost' = lost \ {p} /\ KeepExempt
Delete(p) == /\ api[p].exists
             /\ api' = [api EXCEPT ![p] = NoPod]
             /\ UNCHANGED <<total, resv>> /\ lost' = lost \ {p} /\ KeepExempt
\* an already assigned pod appears (fail-over, another scheduler)
AddAssigned(p, A) == /\ ~api[p].exists /\ resv[p] = {}
                     /\ api' = [api EXCEPT ![p] = [exists |-> TRUE, node |-> TRUE, term |-> FALSE, alloc |-> A]]
                     /\ UNCHANGED <<total, resv, lost>> /\ EnvExempt

(*********************** one scheduling cycle, step by step ************************)
\* The plugin-level driver (TestVerifC07Plugin) runs whole scheduling cycles through the real Plugin methods on TWO
\* nodes.  Every node has its own ledgers; the state above is the state of ONE node (the VIEW of a trace segment, see
\* DeviceTrace!CycleSpec), and a history on several nodes is validated once per node.
\*
\* What the scheduler does for a pod between PreFilter and Reserve only READS a node's ledgers: PreFilter, the what-if
\* steps of preemption / nominated pods (PreFilterExtensions.RemovePod / AddPod on a copy of the cycle state), Filter on
\* any node.  Nothing was allocated or released: the inventory, every pod's recorded allocation and therefore in-use
\* and free of every device stay what they are - on every node.
CycleRead == UNCHANGED vars
\* Reserve on THIS node: what it commits must satisfy (A) against the node's state at THIS moment - whatever an earlier
\* Filter of the cycle saw on this or on another node, whatever happened since -, and a failure must be excused by (K)
\* at this moment; the commit itself is the allocate+commit step of the property
Reserve(p, reqs, required, ok, result) == Alloc(p, reqs, required, ok, result, TRUE)
\* A step that concerns ANOTHER node (its inventory, a pod assigned to it, Reserve / Unreserve / bind on it): this
\* node's ledgers do not move.  A pod object delivered as assigned elsewhere is, for this node, an object that exists
\* and is not assigned here (what = "exists"), a deleted one is gone ("gone"); Reserve / Unreserve on another node
\* deliver no object ("same").
Elsewhere(p, what) == /\ ~api[p].node /\ resv[p] = {}
                      /\ api' = [api EXCEPT ![p] = IF what = "gone" THEN NoPod
                                                   ELSE IF what = "exists" THEN [NoPod EXCEPT !.exists = TRUE] ELSE @]
                      /\ UNCHANGED <<total, resv, lost>> /\ KeepExempt

\* C19: the scheduler restarts.  The inventory (Device object) and the pod objects - with the allocation the binding
\* cycle persisted in their annotation - survive in the API server; what a scheduling cycle held between Reserve and
\* bind lived only in the scheduler's memory, nothing was persisted for it, and it is lost with the process (the pod
\* is still unassigned and will be scheduled again).  Everything else the node's ledgers must account for is the same
\* before and after: no device share taken by a bound pod is free after the restart.
Restart == /\ resv' = [p \in Pods |-> {}] /\ lost' = {}
           /\ UNCHANGED <<total, api>> /\ KeepExempt

Init == /\ total = NoDevices
        /\ api = [p \in Pods |-> NoPod]
        /\ resv = [p \in Pods |-> {}]
        /\ exempt = {}
        /\ lost = {}
=============================================================================
