\* two device types x 2 minors, 2 pods, requests 50 / 100 percent of 1..2 devices; complete state space
SPECIFICATION MSpec
CONSTANTS
  Types = {"gpu", "rdma"}
  Minors = {0, 1}
  Pods = {"p0", "p1"}
  MaxCnt = 2
  Amounts = {50, 100}
  DupCheck = TRUE
  KnownCheck = TRUE
  ResetFree = TRUE
  CmpOK = TRUE
  ByteReqs = {}
  DerivedCheck = FALSE
INVARIANT TypeOK
INVARIANT InvC
INVARIANT InvF
INVARIANT InvU
INVARIANT InvAK
CHECK_DEADLOCK FALSE
