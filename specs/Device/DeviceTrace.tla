---------------------------- MODULE DeviceTrace ----------------------------
(* Trace validation for C07.  One segment = one history executed on a REAL   *)
(* nodeDeviceCache (harness zz_verif_c07_test.go): device inventory events,  *)
(* scheduling attempts (AutopilotAllocator.Allocate + the ledger update of   *)
(* Reserve), Unreserve, and pod informer events incl. duplicates.  Every     *)
(* event carries its arguments, the allocator's outcome where there is one   *)
(* (result) and obs = projection of getNodeDeviceSummary() AFTER the         *)
(* operation:                                                                *)
(*   obs.dev   [t, m, total, used, free]  for every (type, minor) that is a  *)
(*             key of any of the three ledgers (resource maps as they are)   *)
(*   obs.alloc [pod, t, m, res]           the allocateSet                    *)
(* Demanded after every event (ObsOK): total = inventory, (C) used = sum of  *)
(* the live pods' allocations and allocateSet = the live pods' allocations,  *)
(* (F) free = max(0, total - used); per alloc event (A)/(K) via              *)
(* AllocOutcomeOK evaluated on the state BEFORE the event; (U) = InvU as a   *)
(* CONSTRAINT in Trace.cfg.  A recovered panic is recorded as event `panic`: *)
(* there is no such action, the segment is rejected.                         *)
(* C19 (harness zz_verif_c19_test.go, TestVerifC19Device) adds the event     *)
(* `restart`: obs is then the projection of a FRESH cache rebuilt from the   *)
(* persisted objects only (TRestart).                                        *)
EXTENDS Device, TraceCommon

(****************************** reading events ******************************)
InvOf(devices) ==
  [t \in Types |-> [m \in Minors |->
     IF \E i \in DOMAIN devices : devices[i].t = t /\ devices[i].m = m /\ devices[i].h
       THEN LET k == CHOOSE j \in DOMAIN devices : devices[j].t = t /\ devices[j].m = m /\ devices[j].h
            IN Norm(t, devices[k].res)
       ELSE ZeroRes(t)]]
\* the inventory must stay inside the universe the specification quantifies over
InvInUniverse(devices) == \A i \in DOMAIN devices :
    /\ devices[i].t \in Types /\ devices[i].m \in Minors
    /\ DOMAIN devices[i].res \subseteq ResOf(devices[i].t)
    /\ \A j \in DOMAIN devices : (devices[j].t = devices[i].t /\ devices[j].m = devices[i].m) => j = i

SetsOf(f)  == [t \in DOMAIN f |-> {f[t][i] : i \in DOMAIN f[t]}]      \* {"gpu": [0, 1]} -> [gpu |-> {0, 1}]
EntriesIn(a) == EntriesOf(a)                                          \* {"gpu": [{m, res}]} -> set of entries
AllocInUniverse(a) == \A t \in DOMAIN a : t \in Types /\ \A i \in DOMAIN a[t] :
                         a[t][i].m \in Minors /\ DOMAIN a[t][i].res \subseteq ResOf(t)

(************************** observation predicates **************************)
NonZero(t, m) == \E r \in ResOf(t) : total[t][m][r] # 0 \/ Used(t, m, r) # 0
ExpectedDev == {[t |-> d[1], m |-> d[2],
                 total |-> total[d[1]][d[2]],
                 used  |-> [r \in ResOf(d[1]) |-> Used(d[1], d[2], r)],
                 free  |-> [r \in ResOf(d[1]) |-> Free(d[1], d[2], r)]] : d \in {x \in Devs : NonZero(x[1], x[2])}}
ExpectedAlloc == UNION {{[pod |-> p, t |-> e.t, m |-> e.m, res |-> e.res] : e \in Holds(p)} : p \in Pods}
Expected == [dev |-> ExpectedDev, alloc |-> ExpectedAlloc]

\* o = e.obs of the event being consumed; evaluated in the NEXT state
DevOK(o) ==
  /\ \A i \in DOMAIN o.dev :
       LET d == o.dev[i] IN
       /\ d.t \in Types /\ d.m \in Minors
       /\ DOMAIN d.total \subseteq ResOf(d.t) /\ DOMAIN d.used \subseteq ResOf(d.t) /\ DOMAIN d.free \subseteq ResOf(d.t)
       /\ \A r \in ResOf(d.t) :
            /\ Norm(d.t, d.total)[r] = total[d.t][d.m][r]                    \* the device's total is what the inventory says
            /\ Norm(d.t, d.used)[r]  = Used(d.t, d.m, r)                     \* (C)
            /\ Norm(d.t, d.free)[r]  = Free(d.t, d.m, r)                     \* (F)
       /\ \A j \in DOMAIN o.dev : (o.dev[j].t = d.t /\ o.dev[j].m = d.m) => j = i
  /\ \A d \in Devs : NonZero(d[1], d[2]) => \E i \in DOMAIN o.dev : o.dev[i].t = d[1] /\ o.dev[i].m = d[2]
AllocSetOK(o) ==
  /\ \A i \in DOMAIN o.alloc : o.alloc[i].pod \in Pods /\ o.alloc[i].t \in Types /\ o.alloc[i].m \in Minors
                               /\ DOMAIN o.alloc[i].res \subseteq ResOf(o.alloc[i].t)
  /\ {[pod |-> o.alloc[i].pod, t |-> o.alloc[i].t, m |-> o.alloc[i].m, res |-> Norm(o.alloc[i].t, o.alloc[i].res)] : i \in DOMAIN o.alloc}
       = ExpectedAlloc
  /\ \A i, j \in DOMAIN o.alloc : (o.alloc[i].pod = o.alloc[j].pod /\ o.alloc[i].t = o.alloc[j].t /\ o.alloc[i].m = o.alloc[j].m) => i = j

\* priming an operator application primes its arguments too, so the event is bound first
ObsOK == \E o \in {Ev.obs} : Expect(DevOK(o)' /\ AllocSetOK(o)', Expected')

(********************************* actions **********************************)
TInventory  == /\ IsEvent("inventory") /\ InvInUniverse(Ev.devices)
               /\ Inventory(InvOf(Ev.devices)) /\ ObsOK
TInvalidate == IsEvent("invalidate") /\ Invalidate /\ ObsOK
TCreate     == IsEvent("create") /\ Ev.pod \in Pods /\ Create(Ev.pod) /\ ObsOK

AllocExpect(reqs, required) ==
  [feasible |-> Feasible(reqs, required),
   candidates |-> [t \in DOMAIN reqs |-> IF t \in Types THEN Cands(t, reqs[t].req, required) ELSE {}],
   candidatesCountingDerived |-> [t \in DOMAIN reqs |-> IF t \in Types THEN CandsEff(t, reqs[t].req, required) ELSE {}]]
TAlloc ==
  /\ IsEvent("alloc") /\ Ev.pod \in Pods
  /\ AllocInUniverse(Ev.result.alloc)
  /\ LET reqs == Ev.reqs
         required == SetsOf(Ev.required)
     IN IF Explaining
          THEN /\ api' = [api EXCEPT ![Ev.pod].exists = TRUE]
               /\ resv' = IF Ev.result.ok /\ Ev.commit THEN [resv EXCEPT ![Ev.pod] = EntriesOf(Ev.result.alloc)] ELSE resv
               /\ UNCHANGED <<total, lost>> /\ KeepExempt
               /\ Expect(TRUE, [allocator |-> AllocExpect(reqs, required), obs |-> Expected'])
          ELSE Alloc(Ev.pod, reqs, required, Ev.result.ok, Ev.result.alloc, Ev.commit) /\ ObsOK

TUnreserve == IsEvent("unreserve") /\ Ev.pod \in Pods /\ Unreserve(Ev.pod) /\ ObsOK
TLateUnreserve == IsEvent("lateUnreserve") /\ Ev.pod \in Pods /\ LateUnreserve(Ev.pod) /\ ObsOK
TBind      == IsEvent("bind")      /\ Ev.pod \in Pods /\ Bind(Ev.pod) /\ ObsOK
TTouch     == IsEvent("touch")     /\ Ev.pod \in Pods /\ Touch(Ev.pod) /\ ObsOK
TReAdd     == IsEvent("readd")     /\ Ev.pod \in Pods /\ ReAdd(Ev.pod) /\ ObsOK
TReDelete  == IsEvent("redelete")  /\ Ev.pod \in Pods /\ ReDelete(Ev.pod) /\ ObsOK
TAnnotate  == /\ IsEvent("annotate") /\ Ev.pod \in Pods /\ AllocInUniverse(Ev.alloc)
              /\ Annotate(Ev.pod, EntriesIn(Ev.alloc)) /\ ObsOK
TTerminate == IsEvent("terminate") /\ Ev.pod \in Pods /\ Terminate(Ev.pod) /\ ObsOK
TUnassign  == IsEvent("unassign")  /\ Ev.pod \in Pods /\ Unassign(Ev.pod) /\ ObsOK
TDelete    == IsEvent("delete")    /\ Ev.pod \in Pods /\ Delete(Ev.pod) /\ ObsOK
TAdd       == /\ IsEvent("add") /\ Ev.pod \in Pods /\ AllocInUniverse(Ev.alloc)
              /\ AddAssigned(Ev.pod, EntriesIn(Ev.alloc)) /\ ObsOK

\* C19 (device part): the scheduler restarts.  The harness persisted every allocation held by a bound pod through the
\* real pre-bind code, dropped the live cache and rebuilt a fresh one only through the informer handlers from the
\* surviving Device / pod objects (any interleaving, duplicate adds, same-object updates).  obs is the projection of
\* the FRESH cache: it must be the ledgers of the scheduler that made the allocations, minus what was only reserved.
TRestart   == IsEvent("restart") /\ Restart /\ ObsOK

TraceInit == \E i \in Starts : TraceStart(i) /\ Init
TraceNext == \/ TInventory \/ TInvalidate \/ TCreate \/ TAlloc \/ TUnreserve \/ TBind \/ TTouch \/ TReAdd
             \/ TReDelete \/ TAnnotate \/ TTerminate \/ TUnassign \/ TDelete \/ TAdd \/ TRestart \/ TLateUnreserve
             \/ (SegDone /\ UNCHANGED vars)
TraceSpec == TraceInit /\ [][TraceNext]_<<vars, tvars>>

(********************* plugin-level cycles on several nodes ******************)
(* Harness zz_verif_c07b_test.go (TestVerifC07Plugin) drives the REAL Plugin:   *)
(* PreFilter, PreFilterExtensions.RemovePod / AddPod (what-if on a copy of the  *)
(* cycle state), Filter on two nodes, Reserve on the chosen node, Unreserve or  *)
(* PreBind + the bind delivery, with informer events anywhere in between.  One  *)
(* history is logged once per node: the reset event of a segment names the node *)
(* whose ledgers its obs are (view); every event echoes the whole operation     *)
(* incl. the node it concerns (absent: no particular node).  For the node of    *)
(* the view:                                                                   *)
(*   begin / whatifRemove / whatifAdd / filter / end  change NOTHING (TCycleRead)*)
(*   reserve on this node: (A)/(K) against the state at THIS moment, then the    *)
(*            commit; (U) by CONSTRAINT InvU                          (TReserve) *)
(*   every step that concerns another node changes nothing here    (TElsewhere) *)
(*   everything else as in TraceNext.  ObsOK after EVERY event.                 *)
View  == Trace[seg].view
Mine  == IF l > TLen THEN FALSE ELSE (IF "node" \in DOMAIN Trace[l] THEN Trace[l].node = View ELSE TRUE)
Other == IF l > TLen THEN FALSE ELSE (IF "node" \in DOMAIN Trace[l] THEN Trace[l].node # View ELSE FALSE)

CycleReadOps == {"begin", "whatifRemove", "whatifAdd", "filter", "end"}
TCycleRead == /\ ~done /\ l <= TLen /\ Ev.op \in CycleReadOps
              /\ l' = l + 1 /\ UNCHANGED <<seg, done>>
              /\ CycleRead /\ ObsOK

TReserve ==
  /\ IsEvent("reserve") /\ Ev.pod \in Pods
  /\ AllocInUniverse(Ev.result.alloc)
  /\ LET reqs == Ev.reqs
         required == SetsOf(Ev.required)
     IN IF Explaining
          THEN /\ api' = [api EXCEPT ![Ev.pod].exists = TRUE]
               /\ resv' = IF Ev.result.ok THEN [resv EXCEPT ![Ev.pod] = EntriesOf(Ev.result.alloc)] ELSE resv
               /\ UNCHANGED <<total, lost>> /\ KeepExempt
               /\ Expect(TRUE, [allocator |-> AllocExpect(reqs, required), obs |-> Expected'])
          ELSE Reserve(Ev.pod, reqs, required, Ev.result.ok, Ev.result.alloc) /\ ObsOK

ElsewhereOps == {"inventory", "invalidate", "add", "annotate", "terminate", "unassign", "delete", "redelete",
                 "touch", "readd", "reserve", "unreserve", "bind"}
TElsewhere == /\ ~done /\ l <= TLen /\ Ev.op \in ElsewhereOps
              /\ l' = l + 1 /\ UNCHANGED <<seg, done>>
              /\ IF "pod" \in DOMAIN Ev
                   THEN Ev.pod \in Pods /\ Elsewhere(Ev.pod, IF Ev.op \in {"delete", "redelete"} THEN "gone"
                                                               ELSE IF Ev.op \in {"reserve", "unreserve"} THEN "same" ELSE "exists")
                   ELSE UNCHANGED vars
              /\ ObsOK

CycleNext == \/ TCycleRead
             \/ (Mine /\ (\/ TInventory \/ TInvalidate \/ TCreate \/ TUnreserve \/ TBind \/ TTouch \/ TReAdd \/ TReDelete
                          \/ TAnnotate \/ TTerminate \/ TUnassign \/ TDelete \/ TAdd \/ TReserve))
             \/ (Other /\ TElsewhere)
             \/ (SegDone /\ UNCHANGED vars)
CycleSpec == TraceInit /\ [][CycleNext]_<<vars, tvars>>
=============================================================================
