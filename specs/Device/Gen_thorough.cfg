\* one witness history for every (reachable model state, last operation, length) of a tiny model, up to K - 1 operations
SPECIFICATION GenSpec
CONSTANTS
  Types = {"gpu"}
  Minors = {0, 1}
  Pods = {"p0", "p1"}
  MaxCnt = 2
  Amounts = {50, 100}
  DupCheck = TRUE
  KnownCheck = TRUE
  ResetFree = TRUE
  CmpOK = TRUE
  ByteReqs = {}
  DerivedCheck = FALSE
  K = 7
VIEW GenView
CONSTRAINT GenBound
INVARIANT GenPrint
CHECK_DEADLOCK FALSE
