---------------------------- MODULE Gen_Device ----------------------------
(* Behaviour generation for C07 from the model of MC_Device: histories are   *)
(* printed as JSON scripts for the Go harness (zz_verif_c07_test.go).  The   *)
(* VIEW is (model state, kind and pod of the last operation): TLC keeps ONE   *)
(* witness history for every reachable model state AND every operation that  *)
(* can be the last step into it - so events that do not change the state     *)
(* (duplicate add / delete, update without change, failed or uncommitted     *)
(* scheduling attempts) are executed in every state where they can occur.    *)
(* Scripts carry only operations and arguments; which devices the REAL       *)
(* allocator picks is decided when the script is executed.                   *)
EXTENDS MC_Device, Json
CONSTANT K
VARIABLES hist, last
gvars == <<mvars, hist, last>>

\* devices that are not healthy are reported unhealthy (even minor) or not reported at all (odd minor)
DevJson(healthy) == {[t |-> d[1], m |-> d[2], h |-> d \in healthy, res |-> Full(d[1])] :
                       d \in {x \in Devs : x \in healthy \/ x[2] % 2 = 0}}
GrantJson(e) == (e.t :> <<[m |-> e.m, res |-> e.res]>>)
Log(e) == hist' = Append(hist, e) /\ last' = <<e.op, IF "pod" \in DOMAIN e THEN e.pod ELSE "">>
PodOp(name, p) == [op |-> name, pod |-> p]

GenInit == MInit /\ hist = <<[op |-> "reset"]>> /\ last = <<"reset", "">>
GenNext ==
  \/ \E healthy \in SUBSET Devs : PInventory(healthy) /\ Log([op |-> "inventory", devices |-> DevJson(healthy), topo |-> FALSE])
  \/ \E p \in Pods, t \in Types, cnt \in 1..MaxCnt, required \in RequiredMenu, pref \in PrefMenu, commit \in BOOLEAN :
       \E req \in ReqMenu(t) :
         /\ PAlloc(p, t, req, cnt, required, pref, commit)
         /\ Log([op |-> "alloc", pod |-> p, reqs |-> (t :> [req |-> req, cnt |-> cnt]),
                 required |-> IF required = {} THEN <<>> ELSE (t :> required),
                 preferred |-> IF pref = {} THEN <<>> ELSE (t :> pref),
                 filter |-> (Len(hist) % 2 = 0), scorer |-> "", commit |-> commit])
  \/ \E p \in Pods : \/ PUnreserve(p) /\ Log(PodOp("unreserve", p))
                     \/ PCreate(p)    /\ Log(PodOp("create", p))
                     \/ PBind(p)      /\ Log(PodOp("bind", p))
                     \/ PTouch(p)     /\ Log(PodOp("touch", p))
                     \/ PReAdd(p)     /\ Log(PodOp("readd", p))
                     \/ PTerminate(p) /\ Log([op |-> "terminate", pod |-> p, phase |-> IF Len(hist) % 2 = 0 THEN "Succeeded" ELSE "Failed"])
                     \/ PUnassign(p)  /\ Log(PodOp("unassign", p))
                     \/ PDelete(p)    /\ Log([op |-> "delete", pod |-> p, tombstone |-> (Len(hist) % 2 = 0)])
  \/ \E p \in Pods, e \in ForeignMenu :
       \/ PAnnotate(p, e) /\ Log([op |-> "annotate", pod |-> p, alloc |-> GrantJson(e)])
       \/ PAdd(p, e)      /\ Log([op |-> "add", pod |-> p, alloc |-> GrantJson(e)])
  \* the duplicate delete re-delivers the object the harness saw go away: only after a delete of that pod
  \/ \E p \in Pods : /\ \E i \in DOMAIN hist : hist[i].op = "delete" /\ hist[i].pod = p
                     /\ \E e \in ForeignMenu : PReDelete(p, e)
                     /\ Log(PodOp("redelete", p))
GenSpec  == GenInit /\ [][GenNext]_gvars
GenView  == <<mvars, last, Len(hist)>>
GenBound == Len(hist) <= K
\* (TLC evaluates invariants also on successors that the CONSTRAINT then discards: print only inside the bound)
GenPrint == Len(hist) <= K => PrintT(ToJson(hist))
=============================================================================
