----------------------------- MODULE MC_Device -----------------------------
(***************************************************************************)
(* C07, decided on the model: a TRANSCRIPTION of how the plugin keeps its  *)
(* ledgers (device_cache.go: resetDeviceTotal, updateCacheUsed, isValid,   *)
(* updateDeviceUsed, resetDeviceFree, updateAllocateSet; eventhandler_pod  *)
(* .go: updatePod / deletePod; device_allocator.go: defaultAllocateDevices *)
(* + fillGPUTotalMem) runs next to the abstract objects of Device.tla over *)
(* every sequence of inventory refreshes, scheduling attempts, Unreserve   *)
(* and pod informer events (incl. duplicates, annotation changes).         *)
(* Checked in every reachable state:                                       *)
(*   InvC  ledger used = sum of the live pods' allocations, allocateSet =  *)
(*         the live pods' allocations                                      *)
(*   InvF  ledger free = max(0, total - used)                              *)
(*   InvU  no over-commit unless the environment did it     (Device.tla)   *)
(*   InvAK every outcome of the transcribed allocator satisfied (A)/(K)    *)
(* Mutation switches (DupCheck .. CmpOK TRUE = the code as read) show that  *)
(* the model checking is not vacuous: MC_bug_{dup,known,free,cmp,exempt}   *)
(* .cfg must FAIL.  With GPU memory requests in BYTES in the menu          *)
(* (ByteReqs) the transcription of the code as read violates InvU          *)
(* (MC_bug_mem.cfg - the defect reproduced on the real code, see           *)
(* proposed_fixes/C07); with DerivedCheck = TRUE (the repair) it holds     *)
(* (MC_mem_fixed.cfg).  bin/check runs MC_quick / MC_thorough_{a,c,b}.     *)
(***************************************************************************)
EXTENDS Device, SequencesExt

CONSTANTS MaxCnt,        \* largest device count of a request
          Amounts,       \* per-instance request amounts (percent)
          DupCheck,      \* isValid skips an add for a pod already in the allocateSet of the type
          KnownCheck,    \* isValid skips a delete for a pod that is not in the allocateSet of the type
          ResetFree,     \* resetDeviceFree is called after deviceUsed changed
          CmpOK,         \* the allocator compares request <= free (FALSE: reversed)
          ByteReqs,      \* GPU memory requests in bytes (with 10 percent of the cores); {} : percent requests only
          DerivedCheck   \* the allocator also requires the DERIVED GPU memory amount to be free (FALSE = the code as read,
                         \* TRUE = proposed_fixes/C07); only matters when ByteReqs # {}

VARIABLES usedL,   \* deviceUsed      [Types -> [Minors -> [ResOf(t) -> Nat]]]
          freeL,   \* deviceFree
          setL,    \* allocateSet     [Pods -> set of entries]  (per pod and type: minor -> resources)
          akOK     \* did the last scheduling attempt satisfy (A)/(K) ?
mvars == <<vars, usedL, freeL, setL, akOK>>

GpuMem == 8000                      \* memory of a healthy GPU in the model
Full(t) == IF t = "gpu" THEN [core |-> 100, ratio |-> 100, mem |-> GpuMem] ELSE [r \in ResOf(t) |-> 100]

(***************************** ledger updates *******************************)
HasType(S, p, t) == \E e \in S[p] : e.t = t
SumAt(A, t, m, r) == FoldSet(LAMBDA e, acc : acc + e.res[r], 0, {e \in A : e.t = t /\ e.m = m})

\* nodeDevice.updateCacheUsed(A, pod p, add) on the ledgers L = [used, free, set]; tot = deviceTotal
UCU(L, tot, A, p, add) ==
  LET V == {t \in {e.t : e \in A} : IF add THEN (~DupCheck \/ ~HasType(L.set, p, t))
                                            ELSE (~KnownCheck \/ HasType(L.set, p, t))}       \* isValid
      used2 == [t \in Types |-> [m \in Minors |-> [r \in ResOf(t) |->
                  IF t \notin V THEN L.used[t][m][r]
                  ELSE IF add THEN L.used[t][m][r] + SumAt(A, t, m, r)                         \* quotav1.Add
                  ELSE Max0(L.used[t][m][r] - SumAt(A, t, m, r))]]]                            \* SubtractWithNonNegativeResult
      free2 == [t \in Types |->
                  IF t \in V /\ ResetFree
                    THEN [m \in Minors |-> [r \in ResOf(t) |-> Max0(tot[t][m][r] - used2[t][m][r])]]   \* resetDeviceFree
                    ELSE L.free[t]]
      set2  == [L.set EXCEPT ![p] = IF add THEN {e \in @ : e.t \notin V} \cup {e \in A : e.t \in V}
                                           ELSE {e \in @ : e.t \notin V}]                      \* updateAllocateSet
  IN [used |-> used2, free |-> free2, set |-> set2]

\* nodeDeviceCache.deletePod(obj)
DeletePod(L, tot, p, o) == IF ~o.node \/ o.alloc = {} THEN L ELSE UCU(L, tot, o.alloc, p, FALSE)
\* nodeDeviceCache.updatePod(old, new); old = NoPod for an add event
UpdatePod(L, tot, p, old, new) ==
  IF ~new.node THEN (IF old.exists /\ old.node THEN DeletePod(L, tot, p, old) ELSE L)
  ELSE IF new.term THEN DeletePod(L, tot, p, new)
  ELSE IF (~old.exists \/ old.alloc = {}) /\ new.alloc = {} THEN L
  ELSE LET L1 == IF old.exists /\ old.node /\ old.alloc # {} THEN UCU(L, tot, old.alloc, p, FALSE) ELSE L
       IN IF new.alloc # {} THEN UCU(L1, tot, new.alloc, p, TRUE) ELSE L1

Cur == [used |-> usedL, free |-> freeL, set |-> setL]
Becomes(L) == usedL' = L.used /\ freeL' = L.free /\ setL' = L.set

(******************************* allocator **********************************)
\* defaultAllocateDevices on the ledger free: required filter, devices whose free is all zero skipped,
\* LessThanOrEqual(request, free); order = preferred first, then minor (no scorer); the first cnt are taken
IsZeroL(t, m) == \A r \in ResOf(t) : freeL[t][m][r] = 0
GoodL(t, req, required) == {m \in MayUse(t, required) :
                               /\ ~IsZeroL(t, m)
                               /\ \A r \in DOMAIN req : IF CmpOK THEN req[r] <= freeL[t][m][r] ELSE req[r] >= freeL[t][m][r]
                               /\ DerivedCheck => \A r \in DOMAIN EffReq(t, m, req) : EffReq(t, m, req)[r] <= freeL[t][m][r]}
Rank(m, pref) == IF m \in pref THEN m ELSE m + 1000
Granted(t, m, req) == [r \in ResOf(t) |->
    IF r \in DOMAIN req THEN req[r]
    ELSE IF t = "gpu" /\ r = "mem" /\ "ratio" \in DOMAIN req THEN (req["ratio"] * total[t][m]["mem"]) \div 100   \* fillGPUTotalMem
    ELSE IF t = "gpu" /\ r = "ratio" /\ "mem" \in DOMAIN req /\ total[t][m]["mem"] > 0 THEN (req["mem"] * 100) \div total[t][m]["mem"]
    ELSE 0]
AllocImpl(t, req, cnt, required, pref) ==
  LET s == SetToSortSeq(GoodL(t, req, required), LAMBDA a, b : Rank(a, pref) < Rank(b, pref))
  IN IF Len(s) < cnt THEN [ok |-> FALSE, result |-> <<>>]
     ELSE [ok |-> TRUE, result |-> (t :> [i \in 1..cnt |-> [m |-> s[i], res |-> Granted(t, s[i], req)]])]

(******************************** actions ***********************************)
ReqMenu(t) == IF t = "gpu" THEN {[core |-> a, ratio |-> a] : a \in Amounts} \cup {[core |-> 10, mem |-> b] : b \in ByteReqs}
              ELSE {[r \in ResOf(t) |-> a] : a \in Amounts}
\* a concrete allocation as an informer event may carry it (one device, one menu amount; GPU memory as for a healthy GPU)
ForeignMenu == {[t |-> t, m |-> m,
                 res |-> IF t = "gpu" THEN [core |-> a, ratio |-> a, mem |-> (a * GpuMem) \div 100] ELSE [r \in ResOf(t) |-> a]] :
                t \in Types, m \in Minors, a \in Amounts}

\* parameterised steps (Gen_Device logs the parameters), then the existential closures explored by MC
InvFor(healthy) == [t \in Types |-> [m \in Minors |-> IF <<t, m>> \in healthy THEN Full(t) ELSE ZeroRes(t)]]
PInventory(healthy) ==
    /\ Inventory(InvFor(healthy))
    /\ usedL' = usedL /\ setL' = setL
    /\ freeL' = [t \in Types |-> [m \in Minors |-> [r \in ResOf(t) |-> Max0(InvFor(healthy)[t][m][r] - usedL[t][m][r])]]]   \* resetDeviceTotal
    /\ akOK' = TRUE

PAlloc(p, t, req, cnt, required, pref, commit) ==
    LET out  == AllocImpl(t, req, cnt, (t :> required), pref)
        reqs == (t :> [req |-> req, cnt |-> cnt])
    IN /\ ~api[p].node /\ resv[p] = {}
       /\ akOK' = AllocOutcomeOK(reqs, (t :> required), out.ok, out.result)
       /\ api' = [api EXCEPT ![p].exists = TRUE]
       /\ IF out.ok /\ commit
            THEN /\ resv' = [resv EXCEPT ![p] = EntriesOf(out.result)]
                 /\ Becomes(UCU(Cur, total, EntriesOf(out.result), p, TRUE))          \* Reserve
            ELSE UNCHANGED <<resv, usedL, freeL, setL>>
       /\ UNCHANGED <<total, lost>> /\ KeepExempt

\* informer events: the handler sees (old, new); old is the object delivered last
Deliver(p, old, new) == Becomes(UpdatePod(Cur, total, p, old, new)) /\ akOK' = TRUE
PUnreserve(p) == Unreserve(p) /\ Becomes(UCU(Cur, total, resv[p], p, FALSE)) /\ akOK' = TRUE
\* a late roll-back: Plugin.Unreserve subtracts what Reserve assumed (= what the bound pod's annotation holds)
PLateUnreserve(p) == LateUnreserve(p) /\ Becomes(UCU(Cur, total, api[p].alloc, p, FALSE)) /\ akOK' = TRUE
PCreate(p)    == Create(p) /\ Deliver(p, NoPod, api'[p])
PBind(p)      == Bind(p) /\ Deliver(p, api[p], api'[p])
PTouch(p)     == Touch(p) /\ Deliver(p, api[p], api[p])
PReAdd(p)     == ReAdd(p) /\ Deliver(p, NoPod, api[p])
PAnnotate(p, e) == Annotate(p, {e}) /\ Deliver(p, api[p], api'[p])
PTerminate(p) == Terminate(p) /\ Deliver(p, api[p], api'[p])
PUnassign(p)  == Unassign(p) /\ Deliver(p, api[p], [api[p] EXCEPT !.node = FALSE])
PDelete(p)    == Delete(p) /\ Becomes(DeletePod(Cur, total, p, api[p])) /\ akOK' = TRUE
\* duplicate delete: the handler gets some object the pod had before it went away (any assigned object with a menu allocation)
PReDelete(p, e) == ReDelete(p) /\ Becomes(DeletePod(Cur, total, p, [exists |-> TRUE, node |-> TRUE, term |-> FALSE, alloc |-> {e}])) /\ akOK' = TRUE
PAdd(p, e)    == AddAssigned(p, {e}) /\ Deliver(p, NoPod, api'[p])

\* (a scheduling attempt that is not committed leaves the state unchanged and has the same outcome: commit = TRUE only;
\*  required = all minors is the same as no restriction)
RequiredMenu == (SUBSET Minors) \ {Minors}
PrefMenu     == {{}, {Max(Minors)}}
MInventory == \E healthy \in SUBSET Devs : PInventory(healthy)
MAlloc     == \E p \in Pods, t \in Types, cnt \in 1..MaxCnt, required \in RequiredMenu, pref \in PrefMenu :
                 \E req \in ReqMenu(t) : PAlloc(p, t, req, cnt, required, pref, TRUE)
MUnreserve == \E p \in Pods : PUnreserve(p)
MLateUnreserve == \E p \in Pods : PLateUnreserve(p)
MCreate    == \E p \in Pods : PCreate(p)
MBind      == \E p \in Pods : PBind(p)
MTouch     == \E p \in Pods : PTouch(p)
MReAdd     == \E p \in Pods : PReAdd(p)
MAnnotate  == \E p \in Pods, e \in ForeignMenu : PAnnotate(p, e)
MTerminate == \E p \in Pods : PTerminate(p)
MUnassign  == \E p \in Pods : PUnassign(p)
MDelete    == \E p \in Pods : PDelete(p)
MReDelete  == \E p \in Pods, e \in ForeignMenu : PReDelete(p, e)
MAdd       == \E p \in Pods, e \in ForeignMenu : PAdd(p, e)

MInit == /\ Init
         /\ usedL = NoDevices /\ freeL = NoDevices /\ setL = [p \in Pods |-> {}] /\ akOK = TRUE
MNext == \/ MInventory \/ MAlloc \/ MUnreserve \/ MCreate \/ MBind \/ MTouch \/ MReAdd \/ MAnnotate
         \/ MTerminate \/ MUnassign \/ MDelete \/ MReDelete \/ MAdd \/ MLateUnreserve
MSpec == MInit /\ [][MNext]_mvars

(****************************** invariants **********************************)
InvC  == /\ \A t \in Types, m \in Minors : \A r \in ResOf(t) : usedL[t][m][r] = Used(t, m, r)
         /\ setL = AllocSet
InvF  == \A t \in Types, m \in Minors : \A r \in ResOf(t) : freeL[t][m][r] = Max0(total[t][m][r] - usedL[t][m][r])
InvAK == akOK
\* non-vacuity probes (MC_bug_*.cfg): these must be VIOLATED, i.e. the situations are reached
NeverExempt == exempt = {}
=============================================================================
