\* MUST FAIL (InvU): the defect reported in proposed_fixes/C07, found on the model - one GPU (memory 8000), byte requests of 3000
\* mixed with percent requests: two byte pods are booked as 37 percent each, a 26 percent request then over-commits the memory.
\* Self-check, not run by bin/check.
SPECIFICATION MSpec
CONSTANTS
  Types = {"gpu"}
  Minors = {0}
  Pods = {"p0", "p1", "p2"}
  MaxCnt = 1
  Amounts = {26, 50}
  DupCheck = TRUE
  KnownCheck = TRUE
  ResetFree = TRUE
  CmpOK = TRUE
  ByteReqs = {3000}
  DerivedCheck = FALSE
INVARIANT TypeOK
INVARIANT InvC
INVARIANT InvF
INVARIANT InvU
INVARIANT InvAK
CHECK_DEADLOCK FALSE
