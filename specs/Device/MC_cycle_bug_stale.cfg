\* MUST FAIL (InvU): Filter keeps the designated what-if result, Reserve commits it stale; self-check, not run by bin/check
SPECIFICATION CSpec
CONSTANTS
  Types = {"gpu"}
  Minors = {0, 1}
  Pods = {"p0", "p1", "p2", "p3"}
  MaxCnt = 1
  Amounts = {50}
  DupCheck = TRUE
  KnownCheck = TRUE
  ResetFree = TRUE
  CmpOK = TRUE
  ByteReqs = {}
  DerivedCheck = FALSE
  KeepFilterResult = TRUE
  CyclePods = {"p0"}
  AliasAppend = FALSE
INVARIANT TypeOK
INVARIANT InvC
INVARIANT InvF
INVARIANT InvU
INVARIANT InvAK
CHECK_DEADLOCK FALSE
