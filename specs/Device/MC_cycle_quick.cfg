\* one scheduling cycle taken apart (PreFilter / what-if RemovePod / Filter / Reserve) with the environment moving in between:
\* one device type x 2 minors, the cycle's pod + three pods of the environment (what-if victims), requests / allocations of 50 percent
SPECIFICATION CSpec
CONSTANTS
  Types = {"gpu"}
  Minors = {0, 1}
  Pods = {"p0", "p1", "p2", "p3"}
  MaxCnt = 1
  Amounts = {50}
  DupCheck = TRUE
  KnownCheck = TRUE
  ResetFree = TRUE
  CmpOK = TRUE
  ByteReqs = {}
  DerivedCheck = FALSE
  KeepFilterResult = FALSE
  CyclePods = {"p0"}
  AliasAppend = FALSE
INVARIANT TypeOK
INVARIANT InvC
INVARIANT InvF
INVARIANT InvU
INVARIANT InvAK
CHECK_DEADLOCK FALSE
