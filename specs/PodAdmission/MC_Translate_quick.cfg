SPECIFICATION Spec
CONSTANTS
  QoSLabels = {"-", "BE"}
  ClassLabels = {"-", "koord-batch", "koord-mid", "koord-prod"}
  Prios = {5999, 7000}
  CpuPairs <- PairsCpuQ
  MemPairs <- PairsMemQ
  BCpuPairs <- PairsL
  BMemPairs <- PairsA
  MCpuPairs <- PairsB
  MMemPairs <- PairsA
  Cpu2Pairs <- PairsMemQ
  BCpu2Pairs <- PairsA
  OhCpu <- Amts1
  OhBCpu <- Amts0
  MaxC = 2
  MaxI = 1
INVARIANT LawsHold
INVARIANT Idempotent
INVARIANT TranslatedWhenAsked
INVARIANT UntouchedOtherwise
INVARIANT SummaryAlways
CHECK_DEADLOCK FALSE
