SPECIFICATION Spec
CONSTANTS
  QoSLabels = {"-", "LSE", "LSR", "LS", "BE", "SYSTEM", "bogus"}
  ClassLabels = {"-", "koord-prod", "koord-mid", "koord-batch", "koord-free", "bogus"}
  Prios = {2999, 3000, 3999, 4000, 4999, 5000, 5999, 6000, 6999, 7000, 7999, 8000, 8999, 9000, 9999, 10000}
  UpdQoS = {"-", "LSE", "LSR", "LS", "BE", "SYSTEM", "bogus"}
  UpdClass = {"-", "koord-prod", "koord-mid", "koord-batch", "koord-free", "bogus"}
  UpdPrios = {2999, 3000, 3999, 4000, 4999, 5000, 5999, 6000, 6999, 7000, 7999, 8000, 8999, 9000, 9999, 10000}
  CpuAmts = {0, 999500, 500000, 1000000}
  BCpuAmts = {0, 1000}
  BMemAmts = {1}
  InitCpuAmts = {2500000}
  InitBCpuAmts = {1}
  OhCpuAmts = {500000}
  OhBCpuAmts = {1}
  MaxC = 2
  MaxI = 1
INVARIANT ImplSound
INVARIANT ImplExact
CHECK_DEADLOCK FALSE
