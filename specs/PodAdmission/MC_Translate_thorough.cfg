SPECIFICATION Spec
CONSTANTS
  QoSLabels = {"-", "BE", "LS", "bogus"}
  ClassLabels = {"-", "koord-batch", "koord-mid", "koord-prod"}
  Prios = {5000, 5999, 7000, 7999}
  CpuPairs <- PairsCpuT
  MemPairs <- PairsMemT
  BCpuPairs <- PairsL
  BMemPairs <- PairsB
  MCpuPairs <- PairsL
  MMemPairs <- PairsB
  Cpu2Pairs <- PairsMemQ
  BCpu2Pairs <- PairsA
  OhCpu <- Amts1
  OhBCpu <- Amts0
  MaxC = 2
  MaxI = 1
INVARIANT LawsHold
INVARIANT Idempotent
INVARIANT TranslatedWhenAsked
INVARIANT UntouchedOtherwise
INVARIANT SummaryAlways
CHECK_DEADLOCK FALSE
