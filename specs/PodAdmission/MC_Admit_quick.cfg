SPECIFICATION Spec
CONSTANTS
  QoSLabels = {"-", "LSE", "LSR", "LS", "BE", "SYSTEM", "bogus"}
  ClassLabels = {"-", "koord-prod", "koord-mid", "koord-batch", "koord-free", "bogus"}
  Prios = {2999, 3000, 3999, 4000, 4999, 5000, 5999, 6000, 6999, 7000, 7999, 8000, 8999, 9000, 9999, 10000}
  UpdQoS = {"-", "LSR", "LS", "BE", "bogus"}
  UpdClass = {"-", "koord-prod", "koord-batch", "bogus"}
  UpdPrios = {4999, 5000, 5999, 6000, 8999, 9000, 9999, 10000}
  CpuAmts = {500000, 1000000, 1500000}
  BCpuAmts = {1000}
  BMemAmts = {}
  InitCpuAmts = {2000000, 2500000}
  InitBCpuAmts = {1}
  OhCpuAmts = {500000}
  OhBCpuAmts = {}
  MaxC = 2
  MaxI = 1
INVARIANT ImplSound
INVARIANT ImplExact
CHECK_DEADLOCK FALSE
