------------------------------ MODULE MC_Admit ------------------------------
(* Decide the ADMIT half of C13 on the model: every (operation, old pod, new pod) of the bounded     *)
(* abstract domain is an initial state; the invariants say that the transcription of the validating  *)
(* webhook's rules (AdmitImpl) admits only pods satisfying the property-level predicate (AdmitOK),   *)
(* and that the only pods it refuses beyond that are LSR/LSE pods declaring no CPU at all.           *)
EXTENDS PodAdmission, TLC
CONSTANTS QoSLabels, ClassLabels, Prios,       \* label / spec.priority menus for CREATE
          UpdQoS, UpdClass, UpdPrios,          \* (smaller) menus for both pods of an UPDATE
          CpuAmts, BCpuAmts, BMemAmts,         \* per-container request menus (cpu in micro-cores)
          InitCpuAmts, InitBCpuAmts,           \* init-container request menus
          OhCpuAmts, OhBCpuAmts,               \* overhead menus
          MaxC, MaxI
VARIABLES op, old, new, stage
vars == <<op, old, new, stage>>

RL(cpu, bcpu, bmem) == [EmptyRL EXCEPT !["cpu"] = cpu, !["batch-cpu"] = bcpu, !["batch-memory"] = bmem]
\* (a cfg file cannot hold negative numbers: "absent" and "nil" are added to every menu here)
Opt(S) == S \cup {NoVal}
ContMenu == {RL(a, b, c) : a \in Opt(CpuAmts), b \in Opt(BCpuAmts), c \in Opt(BMemAmts)}
InitMenu == {RL(a, b, NoVal) : a \in Opt(InitCpuAmts), b \in Opt(InitBCpuAmts)}
OhMenu   == {RL(a, b, NoVal) : a \in Opt(OhCpuAmts), b \in Opt(OhBCpuAmts)}
CName == <<"c1", "c2", "c3">>
IName == <<"i1", "i2">>
Named(f, names) == [i \in DOMAIN f |-> [n |-> names[i], req |-> f[i], lim |-> EmptyRL]]
Shapes == [cs  : UNION {[1..n -> ContMenu] : n \in 1..MaxC},
           ics : UNION {[1..n -> InitMenu] : n \in 0..MaxI},
           oh  : OhMenu]
MkPod(lb, sh) == [qos |-> lb.qos, pcl |-> lb.pcl, prio |-> lb.prio,
                  cs |-> Named(sh.cs, CName), ics |-> Named(sh.ics, IName), oh |-> sh.oh, ann |-> <<>>]
EmptyPod == [qos |-> NoLabel, pcl |-> NoLabel, prio |-> NoPrio, cs |-> <<>>, ics |-> <<>>, oh |-> EmptyRL, ann |-> <<>>]
OneWholeCPU == [cs |-> <<RL(1000000, NoVal, NoVal)>>, ics |-> <<>>, oh |-> EmptyRL]

Labels    == [qos : QoSLabels, pcl : ClassLabels, prio : Prios \cup {NoPrio}]
UpdLabels == [qos : UpdQoS, pcl : UpdClass, prio : UpdPrios \cup {NoPrio}]

\* Two stages so that TLC's workers share the enumeration: the initial states fix the operation and the
\* labels (of the old pod for an update), the single step completes the case; the invariants speak about stage 1.
LabelsOf(p) == [qos |-> p.qos, pcl |-> p.pcl, prio |-> p.prio]
Init == /\ stage = 0
        /\ \/ /\ op = "create" /\ old = EmptyPod /\ \E lb \in Labels : new = MkPod(lb, OneWholeCPU)
           \/ /\ op = "update" /\ new = EmptyPod /\ \E lo \in UpdLabels : old = MkPod(lo, OneWholeCPU)
Complete == /\ stage = 0 /\ stage' = 1 /\ UNCHANGED <<op, old>>
            /\ IF op = "create" THEN \E sh \in Shapes : new' = MkPod(LabelsOf(new), sh)
                                ELSE \E ln \in UpdLabels : new' = MkPod(ln, OneWholeCPU)
Next == Complete
Spec == Init /\ [][Next]_vars

\* the rules admit only what the property allows
ImplSound == stage = 1 => (AdmitImpl(op, old, new) => AdmitOK(op, old, new))
\* and refuse nothing else than LSR/LSE pods without any CPU
ImplExact == stage = 1 => ((AdmitOK(op, old, new) /\ ~ZeroCPUBound(new)) => AdmitImpl(op, old, new))

\* priority value -> class: the chain of comparisons against the band constants is the documented banding
ASSUME \A v \in -1..12000 : ClassImplOfPriority(v) = ClassOfPriority(v)
\* examples (documentation and a guard against typos in the predicates)
LP(q, c, v) == [qos |-> q, pcl |-> c, prio |-> v]
ASSUME ~PairOK(MkPod(LP("BE", NoLabel, 9000), OneWholeCPU)) /\ ~PairOK(MkPod(LP("BE", NoLabel, 8999), OneWholeCPU))
ASSUME PairOK(MkPod(LP("BE", NoLabel, 5999), OneWholeCPU)) /\ ~PairOK(MkPod(LP("BE", NoLabel, 6000), OneWholeCPU))
ASSUME PairOK(MkPod(LP("LSR", "koord-prod", 5000), OneWholeCPU)) /\ ~PairOK(MkPod(LP("LSR", "bogus", 9500), OneWholeCPU))
ASSUME PairOK(MkPod(LP("LS", NoLabel, NoPrio), OneWholeCPU)) /\ PairOK(MkPod(LP("LSE", NoLabel, 5000), OneWholeCPU))
ASSUME WholeCPU(MkPod(LP("LSR", NoLabel, 9000), OneWholeCPU))
ASSUME ~WholeCPU(MkPod(LP("LSE", NoLabel, 9000), [cs |-> <<RL(500000, NoVal, NoVal), RL(1000000, NoVal, NoVal)>>, ics |-> <<>>, oh |-> EmptyRL]))
ASSUME ~WholeCPU(MkPod(LP("LSR", NoLabel, 9000), [cs |-> <<RL(1000000, NoVal, NoVal)>>, ics |-> <<RL(1500000, NoVal, NoVal)>>, oh |-> EmptyRL]))
ASSUME ~BatchOnlyBE(MkPod(LP("LS", NoLabel, 5000), [cs |-> <<RL(NoVal, NoVal, 1)>>, ics |-> <<>>, oh |-> EmptyRL]))
ASSUME BatchOnlyBE(MkPod(LP("LS", NoLabel, 5000), [cs |-> <<RL(NoVal, 0, 0)>>, ics |-> <<>>, oh |-> EmptyRL]))
ASSUME ~Immutable(MkPod(LP(NoLabel, NoLabel, 5999), OneWholeCPU), MkPod(LP(NoLabel, NoLabel, 6000), OneWholeCPU))
ASSUME Immutable(MkPod(LP("bogus", NoLabel, 5999), OneWholeCPU), MkPod(LP(NoLabel, "koord-batch", 9000), OneWholeCPU))
=============================================================================
