---------------------------- MODULE MC_Translate ----------------------------
(* Decide the TRANSLATE half of C13 on the model: every abstract pod of the bounded domain (labels   *)
(* as left by the matching profiles) x "does the webhook translate" is an initial state; the         *)
(* invariants say that the transcription of the mutating webhook (MutateImpl) satisfies the          *)
(* property-level laws (MutateOK: amounts kept, natives removed, summary = final spec, idempotence). *)
EXTENDS PodAdmission, TLC
CONSTANTS QoSLabels, ClassLabels, Prios,
          CpuPairs, MemPairs, BCpuPairs, BMemPairs, MCpuPairs, MMemPairs,    \* first container: <<request, limit>> menus
          Cpu2Pairs, BCpu2Pairs,                                            \* second container / init container
          OhCpu, OhBCpu, MaxC, MaxI
VARIABLES pod, translate, stage
vars == <<pod, translate, stage>>

\* pair menus (a cfg file cannot hold tuples or negative numbers; N = absent)
N == NoVal
PairsA == {<<N, N>>}
PairsB == {<<N, N>>, <<7, 7>>}
PairsL == {<<N, N>>, <<N, 7>>, <<7, 7>>}                                   \* limit without request
PairsCpuQ == {<<N, N>>, <<N, 1500>>, <<500, 1000000>>, <<1000000, N>>}     \* 0.0005 / 1.5m / 1 CPU
PairsCpuT == {<<N, N>>, <<N, 1500>>, <<500, 1000000>>, <<1000000, N>>, <<0, 0>>, <<999500, 999500>>}
PairsMemQ == {<<N, N>>, <<1024, N>>}
PairsMemT == {<<N, N>>, <<1024, N>>, <<N, 1073741824>>, <<0, 1>>}
Amts0 == {N}
Amts1 == {N, 500}

MkCont(name, pc, pm, pbc, pbm, pmc, pmm) ==
    LET pr(k) == CASE k = "cpu" -> pc [] k = "memory" -> pm [] k = "batch-cpu" -> pbc
                   [] k = "batch-memory" -> pbm [] k = "mid-cpu" -> pmc [] k = "mid-memory" -> pmm
    IN  [n |-> name, req |-> [k \in Res |-> pr(k)[1]], lim |-> [k \in Res |-> pr(k)[2]]]
First  == {MkCont("c1", pc, pm, pbc, pbm, pmc, pmm) : pc \in CpuPairs, pm \in MemPairs, pbc \in BCpuPairs,
                                                        pbm \in BMemPairs, pmc \in MCpuPairs, pmm \in MMemPairs}
Second == {MkCont("c2", pc, <<N, N>>, pbc, <<N, N>>, <<N, N>>, <<N, N>>) : pc \in Cpu2Pairs, pbc \in BCpu2Pairs}
Inits  == {MkCont("i1", pc, <<N, N>>, pbc, <<N, N>>, <<N, N>>, <<N, N>>) : pc \in Cpu2Pairs, pbc \in BCpu2Pairs}
OhMenu == {[EmptyRL EXCEPT !["cpu"] = a, !["batch-cpu"] = b] : a \in OhCpu, b \in OhBCpu}
StaleAnn == [n \in {"c1", "gone"} |-> [req |-> [EmptyRL EXCEPT !["batch-cpu"] = 9], lim |-> EmptyRL]]
NoAnn == [n \in {} |-> 0]

\* Two stages so that TLC's workers share the enumeration: the initial states fix labels, translate flag and the
\* first container's cpu entries, the single step completes the pod; the invariants speak about stage 1.
Seed(lb, pc) == [qos |-> lb.qos, pcl |-> lb.pcl, prio |-> lb.prio,
                 cs |-> <<MkCont("c1", pc, <<N, N>>, <<N, N>>, <<N, N>>, <<N, N>>, <<N, N>>)>>,
                 ics |-> <<>>, oh |-> EmptyRL, ann |-> NoAnn]
Init == /\ stage = 0 /\ translate \in BOOLEAN
        /\ \E lb \in [qos : QoSLabels, pcl : ClassLabels, prio : Prios \cup {NoPrio}], pc \in CpuPairs : pod = Seed(lb, pc)
Complete ==
    /\ stage = 0 /\ stage' = 1 /\ UNCHANGED translate
    /\ \E c1 \in {c \in First : c.req["cpu"] = pod.cs[1].req["cpu"] /\ c.lim["cpu"] = pod.cs[1].lim["cpu"]},
          cs2 \in {<<>>} \cup (IF MaxC >= 2 THEN {<<c>> : c \in Second} ELSE {}),
          is \in {<<>>} \cup (IF MaxI >= 1 THEN {<<c>> : c \in Inits} ELSE {}),
          o \in OhMenu, a \in {NoAnn, StaleAnn} :
          pod' = [pod EXCEPT !.cs = <<c1>> \o cs2, !.ics = is, !.oh = o, !.ann = a]
Next == Complete
Spec == Init /\ [][Next]_vars

Out  == MutateImpl(pod, translate)
Out2 == MutateImpl(Out, translate)

\* the transcription satisfies the property-level laws
LawsHold == stage = 1 => MutateOK(pod, Out, Out2)
\* a second admission changes nothing, translated or not
Idempotent == stage = 1 => PodEq(Out2, Out)
\* the translated branch of MutateOK is the one that holds whenever the webhook translates a mid/batch pod (non-vacuity),
\* and the tier does not move under translation
TranslatedWhenAsked == (stage = 1 /\ translate /\ ClassWithDefault(pod) \in Tiers) =>
                          /\ TranslateOK(pod, Out, ClassWithDefault(pod))
                          /\ ClassWithDefault(Out) = ClassWithDefault(pod)
UntouchedOtherwise == (stage = 1 /\ ~(translate /\ ClassWithDefault(pod) \in Tiers)) => SameSpec(pod, Out)
SummaryAlways == stage = 1 => AnnotOK(Out)

\* examples
P1 == [qos |-> "BE", pcl |-> NoLabel, prio |-> 5999,
       cs |-> <<MkCont("c1", <<500, 1500>>, <<N, 1024>>, <<N, N>>, <<N, N>>, <<N, N>>, <<N, N>>)>>, ics |-> <<>>, oh |-> EmptyRL, ann |-> NoAnn]
ASSUME LET o == MutateImpl(P1, TRUE) IN
         /\ o.cs[1].req["batch-cpu"] = 1 /\ o.cs[1].lim["batch-cpu"] = 2 /\ o.cs[1].req["cpu"] = N
         /\ o.cs[1].req["batch-memory"] = 1024 /\ o.cs[1].lim["batch-memory"] = 1024
         /\ o.ann["c1"].req["batch-cpu"] = 1
         /\ MutateOK(P1, o, o) /\ ~MutateOK(P1, [o EXCEPT !.cs[1].lim["batch-cpu"] = 1], o)
         /\ ~MutateOK(P1, [o EXCEPT !.cs[1].lim["cpu"] = 1500], o)
         /\ ~MutateOK(P1, [o EXCEPT !.ann = NoAnn], o)
         /\ ~MutateOK(P1, o, P1)
         /\ MutateOK(P1, MutateImpl(P1, FALSE), MutateImpl(P1, FALSE))
ASSUME ClassWithDefault([P1 EXCEPT !.prio = 6000]) = "koord-batch"         \* no class: BE defaults to batch
ASSUME ClassWithDefault([P1 EXCEPT !.prio = 6000, !.qos = NoLabel]) = "koord-prod"    \* burstable -> LS -> prod
ASSUME ClassWithDefault([P1 EXCEPT !.prio = 7000, !.qos = NoLabel]) = "koord-mid"
=============================================================================
