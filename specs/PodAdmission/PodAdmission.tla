----------------------------- MODULE PodAdmission -----------------------------
(***************************************************************************)
(* C13 - admitted pods obey the QoS/priority protocol and keep their       *)
(* declared amounts.                                                       *)
(*                                                                         *)
(* ABSTRACT POD (what the harnesses project a real corev1.Pod onto, by     *)
(* field reads only):                                                      *)
(*   qos   value of label koordinator.sh/qosClass        ("-" = no label)  *)
(*   pcl   value of label koordinator.sh/priority-class  ("-" = no label)  *)
(*   prio  spec.priority                                 (-1 = nil)        *)
(*   cs    spec.containers      : sequence of [n, req, lim]                *)
(*   ics   spec.initContainers  : sequence of [n, req, lim] (not sidecars) *)
(*   oh    spec.overhead        : resource list                            *)
(*   ann   annotation node.koordinator.sh/extended-resource-spec, parsed:  *)
(*         container name -> [req, lim]       (no annotation = empty map)  *)
(* A resource list is a TOTAL function Res -> Int, NoVal = entry absent.   *)
(* Units: cpu in MICRO-cores (so that 0.0005 CPU is an integer), every     *)
(* other resource is the plain integer value of the quantity (bytes for    *)
(* memory, milli-cores for batch-cpu / mid-cpu as koordinator defines      *)
(* them).  "CPU in milli-cores" is Kubernetes' reading of a CPU quantity:  *)
(* Milli(u) = ceil(u / 1000).                                              *)
(*                                                                         *)
(* PROPERTY LEVEL (decides verdicts; says WHAT, not how):                  *)
(*   AdmitOK      what must be true of every admitted pod                  *)
(*   MutateOK     laws relating the pod given to the mutating webhook, the *)
(*                pod it returns and the pod a second admission returns    *)
(* DESIGN LEVEL (a transcription of HOW the code does it; MC_*.cfg check   *)
(* that it satisfies the property level over a bounded domain; in trace    *)
(* validation it only feeds the explanation of a rejected event):          *)
(*   AdmitImpl, MutateImpl                                                 *)
(***************************************************************************)
EXTENDS Integers, Sequences, FiniteSets

NoVal   == -1
NoPrio  == -1
NoLabel == "-"

Native   == {"cpu", "memory"}
BatchRes == {"batch-cpu", "batch-memory"}
MidRes   == {"mid-cpu", "mid-memory"}
Res      == Native \cup BatchRes \cup MidRes

Tiers == {"koord-batch", "koord-mid"}            \* the priority classes whose pods use extended resources
Ext(t, r) == IF t = "koord-batch" THEN (IF r = "cpu" THEN "batch-cpu" ELSE "batch-memory")
                                  ELSE (IF r = "cpu" THEN "mid-cpu" ELSE "mid-memory")
ExtSet(t) == {Ext(t, r) : r \in Native}
NativeOf(t, k) == CHOOSE r \in Native : Ext(t, r) = k          \* for k \in ExtSet(t)

Max2(a, b) == IF a >= b THEN a ELSE b
V0(x) == IF x < 0 THEN 0 ELSE x                    \* an absent entry counts as zero in sums
CeilDiv(a, b) == (a + b - 1) \div b
Milli(u) == CeilDiv(u, 1000)                       \* micro-cores -> milli-cores (Quantity.MilliValue rounds up)
Amt(r, x) == IF r = "cpu" THEN Milli(x) ELSE x     \* amount of native resource r in the unit of its extended resource

EmptyRL  == [k \in Res |-> NoVal]
Conts(p) == {p.cs[i] : i \in DOMAIN p.cs} \cup {p.ics[i] : i \in DOMAIN p.ics}

(************************* classes (property level) ************************)
KnownQoS   == {"LSE", "LSR", "LS", "BE", "SYSTEM"}
KnownClass == {"koord-prod", "koord-mid", "koord-batch", "koord-free"}

\* QoS class of a pod: its label, anything else is "no QoS class"
QoSOf(p) == IF p.qos \in KnownQoS THEN p.qos ELSE "none"

\* the documented priority bands (https://koordinator.sh/docs/architecture/priority)
ClassOfPriority(v) ==
    IF v = NoPrio THEN "none"
    ELSE IF v \in 9000..9999 THEN "koord-prod"
    ELSE IF v \in 7000..7999 THEN "koord-mid"
    ELSE IF v \in 5000..5999 THEN "koord-batch"
    ELSE IF v \in 3000..3999 THEN "koord-free"
    ELSE "none"
\* priority class of a pod: the label wins, otherwise the band of spec.priority
ClassOf(p) == IF p.pcl # NoLabel THEN (IF p.pcl \in KnownClass THEN p.pcl ELSE "none")
              ELSE ClassOfPriority(p.prio)

\* Kubernetes' own QoS class is BestEffort iff no (init) container declares a positive cpu/memory request or limit
KubeBestEffort(p) == \A c \in Conts(p) : \A r \in Native : c.req[r] <= 0 /\ c.lim[r] <= 0
\* the class a pod is treated as when it does not state one: derived from its QoS (which defaults from the Kubernetes QoS)
QoSWithDefault(p) == IF QoSOf(p) # "none" THEN QoSOf(p) ELSE IF KubeBestEffort(p) THEN "BE" ELSE "LS"
ClassWithDefault(p) == IF ClassOf(p) # "none" THEN ClassOf(p)
                       ELSE IF QoSWithDefault(p) = "BE" THEN "koord-batch" ELSE "koord-prod"

(********************* pod-level request (Kubernetes) **********************)
RECURSIVE SumReq(_, _, _)
SumReq(cs, r, n) == IF n = 0 THEN 0 ELSE V0(cs[n].req[r]) + SumReq(cs, r, n - 1)
RECURSIVE MaxReq(_, _, _)
MaxReq(cs, r, n) == IF n = 0 THEN 0 ELSE Max2(V0(cs[n].req[r]), MaxReq(cs, r, n - 1))
NumOf(s) == Cardinality(DOMAIN s)
\* max(sum of containers, largest init container) + overhead
PodReq(p, r) == Max2(SumReq(p.cs, r, NumOf(p.cs)), MaxReq(p.ics, r, NumOf(p.ics))) + V0(p.oh[r])

(***************************************************************************)
(* ADMIT rules (property level): a pod is admitted ONLY IF all of these    *)
(***************************************************************************)
\* BE never with prod or no priority; LSR only with prod
PairOK(p) == /\ QoSOf(p) = "BE"  => ClassOf(p) \notin {"koord-prod", "none"}
             /\ QoSOf(p) = "LSR" => ClassOf(p) = "koord-prod"
\* LSR/LSE pods request a whole number of CPUs
WholeCPU(p) == QoSOf(p) \in {"LSR", "LSE"} => Milli(PodReq(p, "cpu")) % 1000 = 0
\* reclaimed (batch) resources are only requested by BE pods.  "The pod requests r" = its pod-level request of r is
\* positive = some container, init container or the overhead declares a positive request of r (amounts are never negative)
Requests(p, r) == (\E c \in Conts(p) : c.req[r] > 0) \/ p.oh[r] > 0
BatchOnlyBE(p) == (Requests(p, "batch-cpu") \/ Requests(p, "batch-memory")) => QoSOf(p) = "BE"
\* QoS and priority class never change on update
Immutable(old, new) == QoSOf(old) = QoSOf(new) /\ ClassOf(old) = ClassOf(new)

AdmitOK(op, old, new) == /\ PairOK(new) /\ WholeCPU(new) /\ BatchOnlyBE(new)
                         /\ op = "update" => Immutable(old, new)

(***************************************************************************)
(* TRANSLATE laws (property level).  in = pod handed to the mutating       *)
(* webhook (with the labels/priority the matching profiles gave it),       *)
(* out = pod it returns, t = the pod's tier.                               *)
(***************************************************************************)
\* every declared cpu/memory amount reappears under the tier's extended resource, CPU in milli-cores
KeepsList(Lin, Lout, t) == \A r \in Native : Lin[r] # NoVal => Lout[Ext(t, r)] = Amt(r, Lin[r])
\* the native entries are removed
NoNative(L) == \A r \in Native : L[r] = NoVal
\* entries that are not the target of a translation stay as they were ...
RestList(Lin, Lout, t) == \A k \in Res \ Native :
    (k \notin ExtSet(t) \/ Lin[NativeOf(t, k)] = NoVal) => Lout[k] = Lin[k]
\* ... except that a container left with an extended limit and no request gets the limit as its request
\* (the Kubernetes meaning of "limit without request"), so the effective request keeps its amount too
ContOK(cin, cout, t) ==
    /\ cout.n = cin.n
    /\ KeepsList(cin.lim, cout.lim, t) /\ NoNative(cout.lim) /\ RestList(cin.lim, cout.lim, t)
    /\ NoNative(cout.req)
    /\ \A k \in Res \ Native :
         LET declared == IF k \in ExtSet(t) /\ cin.req[NativeOf(t, k)] # NoVal
                         THEN Amt(NativeOf(t, k), cin.req[NativeOf(t, k)]) ELSE cin.req[k]
         IN  cout.req[k] = IF k \in ExtSet(t) /\ declared = NoVal THEN cout.lim[k] ELSE declared
SeqOK(sin, sout, t) == DOMAIN sin = DOMAIN sout /\ \A i \in DOMAIN sin : ContOK(sin[i], sout[i], t)
TranslateOK(in, out, t) ==
    /\ SeqOK(in.cs, out.cs, t) /\ SeqOK(in.ics, out.ics, t)
    /\ KeepsList(in.oh, out.oh, t) /\ NoNative(out.oh) /\ RestList(in.oh, out.oh, t)

\* nothing declared was touched
SameSpec(in, out) == in.cs = out.cs /\ in.ics = out.ics /\ in.oh = out.oh

\* the per-container summary annotation matches the final spec.  The summary is defined over spec.containers and the
\* batch resources (what the node agent consumes); every entry it holds must be the spec's entry.
HasBatch(c) == \E k \in BatchRes : c.req[k] # NoVal \/ c.lim[k] # NoVal
OnlyBatch(L) == [k \in Res |-> IF k \in BatchRes THEN L[k] ELSE NoVal]
SummaryOf(a, L) == \A k \in Res : IF k \in BatchRes THEN a[k] = L[k] ELSE a[k] \in {NoVal, L[k]}
AnnotOK(p) ==
    /\ \A i \in DOMAIN p.cs : HasBatch(p.cs[i]) => p.cs[i].n \in DOMAIN p.ann
    /\ \A n \in DOMAIN p.ann : \E i \in DOMAIN p.cs :
          /\ p.cs[i].n = n
          /\ SummaryOf(p.ann[n].req, p.cs[i].req)
          /\ SummaryOf(p.ann[n].lim, p.cs[i].lim)

PodEq(a, b) == /\ a.qos = b.qos /\ a.pcl = b.pcl /\ a.prio = b.prio
               /\ SameSpec(a, b)
               /\ DOMAIN a.ann = DOMAIN b.ann /\ \A n \in DOMAIN a.ann : a.ann[n] = b.ann[n]

\* in0: pod as submitted; out: after the mutating webhook; out2: after admitting out again.
\* The profiles may have given the pod other labels / priority: the tier is that of the pod the translation saw.
MutateOK(in0, out, out2) ==
    LET in == [in0 EXCEPT !.qos = out.qos, !.pcl = out.pcl, !.prio = out.prio]
        t  == ClassWithDefault(in)
    IN  IF t \in Tiers /\ TranslateOK(in, out, t)
        THEN AnnotOK(out) /\ PodEq(out2, out)       \* translated (or nothing left to translate): summary + idempotence
        ELSE SameSpec(in, out)                      \* otherwise every declared amount is where it was

(***************************************************************************)
(* DESIGN LEVEL: transcription of the validating webhook                   *)
(* (clusterColocationProfileValidatingPod)                                 *)
(***************************************************************************)
PriorityProdValueMin == 9000    PriorityProdValueMax == 9999
PriorityMidValueMin == 7000     PriorityMidValueMax == 7999
PriorityBatchValueMin == 5000   PriorityBatchValueMax == 5999
PriorityFreeValueMin == 3000    PriorityFreeValueMax == 3999
ClassImplOfPriority(v) ==
    IF v = NoPrio THEN "none"
    ELSE IF v >= PriorityProdValueMin /\ v <= PriorityProdValueMax THEN "koord-prod"
    ELSE IF v >= PriorityMidValueMin /\ v <= PriorityMidValueMax THEN "koord-mid"
    ELSE IF v >= PriorityBatchValueMin /\ v <= PriorityBatchValueMax THEN "koord-batch"
    ELSE IF v >= PriorityFreeValueMin /\ v <= PriorityFreeValueMax THEN "koord-free"
    ELSE "none"
ClassImpl(p) == IF p.pcl # NoLabel THEN (IF p.pcl \in KnownClass THEN p.pcl ELSE "none") ELSE ClassImplOfPriority(p.prio)

IsZero(x) == x <= 0
\* cpu.Value()*1000 == cpu.MilliValue(), both rounding up
ImplIntegerCPU(u) == CeilDiv(u, 1000000) * 1000 = CeilDiv(u, 1000)
ImplForbidden(p, q, classes) == QoSOf(p) = q /\ ClassImpl(p) \in classes

AdmitImpl(op, old, new) ==
    /\ op = "update" => (QoSOf(old) = QoSOf(new) /\ ClassImpl(old) = ClassImpl(new))
    /\ (IsZero(PodReq(new, "batch-cpu")) /\ IsZero(PodReq(new, "batch-memory"))) \/ QoSOf(new) = "BE"
    /\ ~ImplForbidden(new, "BE", {"none", "koord-prod"})
    /\ ~ImplForbidden(new, "LSR", {"none", "koord-mid", "koord-batch", "koord-free"})
    /\ QoSOf(new) \in {"LSR", "LSE"} => (~IsZero(PodReq(new, "cpu")) /\ ImplIntegerCPU(PodReq(new, "cpu")))

\* the only pods the rules above refuse although AdmitOK holds: LSR/LSE pods that declare no CPU at all
ZeroCPUBound(p) == QoSOf(p) \in {"LSR", "LSE"} /\ PodReq(p, "cpu") = 0

(***************************************************************************)
(* DESIGN LEVEL: transcription of the mutating webhook                     *)
(* (mutatePodResourceSpec + mutateByExtendedResources); p already carries  *)
(* the labels / priority given by the matching profiles                    *)
(***************************************************************************)
ReplaceAndErase(L, t, r) == IF L[r] # NoVal THEN [L EXCEPT ![Ext(t, r)] = Amt(r, L[r]), ![r] = NoVal] ELSE L
Restrict(c, t, r) == IF c.req[Ext(t, r)] = NoVal /\ c.lim[Ext(t, r)] # NoVal
                     THEN [c EXCEPT !.req[Ext(t, r)] = c.lim[Ext(t, r)]] ELSE c
ContImpl(c, t) ==
    LET rq == ReplaceAndErase(ReplaceAndErase(c.req, t, "cpu"), t, "memory")
        lm == ReplaceAndErase(ReplaceAndErase(c.lim, t, "cpu"), t, "memory")
    IN  Restrict(Restrict([c EXCEPT !.req = rq, !.lim = lm], t, "cpu"), t, "memory")
ResourceSpecImpl(p) ==
    LET t == ClassWithDefault(p)
    IN  IF t \notin Tiers THEN p
        ELSE [p EXCEPT !.cs  = [i \in DOMAIN p.cs |-> ContImpl(p.cs[i], t)],
                       !.ics = [i \in DOMAIN p.ics |-> ContImpl(p.ics[i], t)],
                       !.oh  = ReplaceAndErase(ReplaceAndErase(p.oh, t, "cpu"), t, "memory")]
AnnotateImpl(p) ==
    [p EXCEPT !.ann = [n \in {p.cs[i].n : i \in {j \in DOMAIN p.cs : HasBatch(p.cs[j])}} |->
                          LET c == CHOOSE c \in {p.cs[i] : i \in DOMAIN p.cs} : c.n = n
                          IN  [req |-> OnlyBatch(c.req), lim |-> OnlyBatch(c.lim)]]]
\* translate: some profile matched, none of them asks to skip the resource update, the request is a CREATE
MutateImpl(p, translate) == AnnotateImpl(IF translate THEN ResourceSpecImpl(p) ELSE p)
=============================================================================
