------------------------- MODULE PodAdmissionTrace -------------------------
(***************************************************************************)
(* Trace validation for C13.  One segment per case (pure-function family): *)
(*                                                                         *)
(*  reset  {kind:"admit",  opn:"create"|"update", old: POD, new: POD, raw} *)
(*  verdict{allowed: BOOLEAN, reason}      what the real                    *)
(*         clusterColocationProfileValidatingPod answered                  *)
(*                                                                         *)
(*  reset  {kind:"mutate", opn:"create", pod: POD, match, raw}             *)
(*  mutated{out: POD, out2: POD, m, again} the pod after the real mutating *)
(*         webhook (handleCreate: clusterColocationProfileMutatingPod,     *)
(*         then extendedResourceSpecMutatingPod), and after admitting that *)
(*         result a second time                                            *)
(*                                                                         *)
(* POD is the projection of a real corev1.Pod (built by the harness from   *)
(* "raw", which TLC ignores) onto the abstract pod of PodAdmission.tla:    *)
(*  {qos, pcl, prio, cs:[{n,req,lim}], ics:[...], oh:{..}, ann:{name:{req,lim}}} *)
(* with resource maps holding only the present entries; amounts are        *)
(* integers (cpu in micro-cores, others plain value); -2 marks a quantity  *)
(* that is not an integer in its unit (no specification value equals it).  *)
(* Verdicts come from the property-level predicates AdmitOK / MutateOK     *)
(* only; AdmitImpl / MutateImpl just feed the explanation of a rejection.  *)
(***************************************************************************)
EXTENDS PodAdmission, TraceCommon
VARIABLES cas          \* the reset event of this segment = the case
vars == <<cas>>

Val(m, k) == IF k \in DOMAIN m THEN m[k] ELSE NoVal
Tot(m)    == [k \in Res |-> Val(m, k)]
Cont(j)   == [n |-> j.n, req |-> Tot(j.req), lim |-> Tot(j.lim)]
Pod(j)    == [qos |-> j.qos, pcl |-> j.pcl, prio |-> j.prio,
              cs  |-> [i \in 1..Len(j.cs) |-> Cont(j.cs[i])],
              ics |-> [i \in 1..Len(j.ics) |-> Cont(j.ics[i])],
              oh  |-> Tot(j.oh),
              ann |-> [n \in DOMAIN j.ann |-> [req |-> Tot(j.ann[n].req), lim |-> Tot(j.ann[n].lim)]]]

\* the projection stayed inside the abstract domain: known resource names, exact non-negative amounts
RLWF(m)   == DOMAIN m \subseteq Res /\ \A k \in DOMAIN m : m[k] >= 0
ContWF(j) == RLWF(j.req) /\ RLWF(j.lim)
PodWF(j)  == /\ \A i \in 1..Len(j.cs) : ContWF(j.cs[i])
             /\ \A i \in 1..Len(j.ics) : ContWF(j.ics[i])
             /\ RLWF(j.oh)
             /\ \A n \in DOMAIN j.ann : ContWF(j.ann[n])
             /\ j.prio >= NoPrio

\* explanations print only the entries that are present
ShowRL(L)   == [k \in {x \in Res : L[x] # NoVal} |-> L[k]]
ShowCont(c) == [n |-> c.n, req |-> ShowRL(c.req), lim |-> ShowRL(c.lim)]
ShowPod(p)  == [cs  |-> [i \in DOMAIN p.cs |-> ShowCont(p.cs[i])], ics |-> [i \in DOMAIN p.ics |-> ShowCont(p.ics[i])],
                oh  |-> ShowRL(p.oh),
                ann |-> [n \in DOMAIN p.ann |-> [req |-> ShowRL(p.ann[n].req), lim |-> ShowRL(p.ann[n].lim)]]]

TVerdict ==
    /\ IsEvent("verdict") /\ cas.kind = "admit" /\ UNCHANGED vars
    /\ LET old == Pod(cas.old)
           new == Pod(cas.new)
       IN  Expect(/\ PodWF(cas.old) /\ PodWF(cas.new)
                  /\ Ev.allowed => AdmitOK(cas.opn, old, new),
                  [admit_only_if |-> [pair_permitted |-> PairOK(new), whole_cpus |-> WholeCPU(new),
                                      batch_only_for_BE |-> BatchOnlyBE(new),
                                      unchanged_on_update |-> (cas.opn = "update" => Immutable(old, new))],
                   qos |-> QoSOf(new), class |-> ClassOf(new), cpu_micro |-> PodReq(new, "cpu"),
                   rules_as_transcribed_admit |-> AdmitImpl(cas.opn, old, new)])

TMutated ==
    /\ IsEvent("mutated") /\ cas.kind = "mutate" /\ UNCHANGED vars
    /\ LET in   == Pod(cas.pod)
           out  == Pod(Ev.out)
           out2 == Pod(Ev.out2)
           seen == [in EXCEPT !.qos = out.qos, !.pcl = out.pcl, !.prio = out.prio]
       IN  Expect(/\ PodWF(cas.pod) /\ PodWF(Ev.out) /\ PodWF(Ev.out2)
                  /\ MutateOK(in, out, out2),
                  [tier |-> ClassWithDefault(seen),
                   translated_form |-> (ClassWithDefault(seen) \in Tiers /\ TranslateOK(seen, out, ClassWithDefault(seen))),
                   untouched |-> SameSpec(seen, out), summary_matches |-> AnnotOK(out), second_pass_same |-> PodEq(out2, out),
                   if_translated |-> ShowPod(MutateImpl(seen, TRUE)), if_not |-> ShowPod(MutateImpl(seen, FALSE))])

TraceInit == \E i \in Starts : TraceStart(i) /\ cas = Trace[i]
TraceNext == TVerdict \/ TMutated \/ (SegDone /\ UNCHANGED vars)
TraceSpec == TraceInit /\ [][TraceNext]_<<vars, tvars>>
=============================================================================
