SPECIFICATION TraceSpec
CONSTANTS
  EarlyReturn = TRUE
INVARIANT BudgetFloor
CONSTRAINT Report
CHECK_DEADLOCK FALSE
