SPECIFICATION TraceSpec
CONSTANTS
  EarlyReturn = TRUE
\* listed as CONSTRAINT before Report (see docs/FAMILY_GUIDE.md): a violating recorded state cuts only its own segment
CONSTRAINT BudgetFloor
CONSTRAINT Report
CHECK_DEADLOCK FALSE
