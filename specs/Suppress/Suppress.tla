------------------------------ MODULE Suppress ------------------------------
(***************************************************************************)
(* C10 - best-effort (BE) CPU suppression keeps BE off protected CPUs and  *)
(* inside its budget.                                                      *)
(*                                                                         *)
(* Abstract inputs (one record  inp ; all CPU amounts in milli-CPU):       *)
(*   procs     sequence of [cpu, core, socket, node]   the processor list  *)
(*   pods      sequence of [qos, kube, cpus, usage]                        *)
(*               qos   koordinator QoS label  "LSE" "LSR" "LS" "BE" ""     *)
(*               kube  kubernetes QoS  "Guaranteed" "Burstable" "BestEffort"*)
(*               cpus  sequence of CPU ids of the cpuset annotation (<<>>  *)
(*                     = no annotation); annotations of distinct pods are  *)
(*                     disjoint (scheduler invariant, assumption)          *)
(*               usage last CPU usage metric                               *)
(*   hosts     sequence of [qos, base, usage]   host applications          *)
(*   nodeUsage node CPU usage metric                                       *)
(*   cap       node CPU capacity                                           *)
(*   kres      kubelet reservation (capacity - allocatable)                *)
(*   ares      CPU amount of the node-reservation annotation               *)
(*   rcpus     CPUs reserved by id in the node-reservation annotation      *)
(*   sys, sysx system-QoS cpuset and its "exclusive" flag                  *)
(*   thr, minp suppress threshold percent, minimum percent (-1 = unset)    *)
(*   old       BE cpuset before the first round                            *)
(*   quota0    BE cfs quota before the first round (-1 = unset)            *)
(*   kubelet   kubelet CPU-manager policy "none" | "static"                *)
(*                                                                         *)
(* State:                                                                  *)
(*   inp    the current inputs (usages grow through Grow)                  *)
(*   be     cpuset of the BE root cgroup (what the next round reads as old)*)
(*   quota  cfs quota of the BE root cgroup                                *)
(*   last   [has, v] the budget observed last                              *)
(*   due    TRUE iff every change since that observation was a growth of   *)
(*          non-BE consumption (so the monotonicity clause applies)        *)
(*                                                                         *)
(* Two layers:                                                             *)
(*   property level   Budget, Target, CPUSetOK, QuotaOK, PolicyOK,         *)
(*                    RecoverOK and the actions ObserveBudget / Grow /     *)
(*                    ApplyCPUSet / ApplyQuota : what every observed       *)
(*                    result must satisfy whatever the algorithm is.       *)
(*                    Used by the trace specification (verdicts).          *)
(*   design level     Policy / AdjustImpl / QuotaImpl : a transcription of *)
(*                    calculateBESuppressCPUSetPolicy, adjustByCPUSet and  *)
(*                    adjustByCfsQuota (cpu_suppress.go).  TLC checks over *)
(*                    exhaustive small domains that the transcription      *)
(*                    satisfies the property-level predicates (MC).        *)
(*                    There is NO crash/panic action: a recorded `panic`   *)
(*                    event can never be explained.                        *)
(***************************************************************************)
EXTENDS Integers, Sequences, FiniteSets, SequencesExt, TLC

CONSTANT EarlyReturn  \* design level only. TRUE: the selection returns early when no CPU is eligible
                      \* (repaired code); FALSE: as found at the pinned commit (divides by zero)

VARIABLES inp, be, quota, last, due
vars == <<inp, be, quota, last, due>>

Period     == 100000   \* system.DefaultCPUCFSPeriod (us)
MinQuota   == 2000     \* beMinQuota
UnsetQuota == -1       \* beUnsetQuota
MinCPUs    == 2        \* beMinCPUSetCores

MaxOf(a, b) == IF a >= b THEN a ELSE b
MinOf(a, b) == IF a <= b THEN a ELSE b
Abs(a)    == IF a >= 0 THEN a ELSE -a
CeilDiv(a, b) == -((-a) \div b)          \* b > 0 ; \div floors

RECURSIVE SumTo(_, _)
SumTo(f, n) == IF n = 0 THEN 0 ELSE f[n] + SumTo(f, n - 1)
SumSeq(s)   == SumTo(s, Len(s))
SetMin(S)   == CHOOSE x \in S : \A y \in S : x <= y
SetMax(S)   == CHOOSE x \in S : \A y \in S : x >= y
IsDistinct(s) == Cardinality(ToSet(s)) = Len(s)

(***************************** property level ******************************)
(* (1) the budget *)
\* a pod is best-effort if koordinator says BE or kubernetes runs it under the best-effort cgroup
PodIsBE(p)  == p.qos = "BE" \/ p.kube = "BestEffort"
\* a host application is best-effort only if it is declared BE and runs under the best-effort cgroup
HostIsBE(h) == h.qos = "BE" /\ h.base = "KubepodsBesteffort"

PodsAll(i)    == SumSeq([k \in 1..Len(i.pods)  |-> i.pods[k].usage])
PodsNonBE(i)  == SumSeq([k \in 1..Len(i.pods)  |-> IF PodIsBE(i.pods[k]) THEN 0 ELSE i.pods[k].usage])
HostsAll(i)   == SumSeq([k \in 1..Len(i.hosts) |-> i.hosts[k].usage])
HostsNonBE(i) == SumSeq([k \in 1..Len(i.hosts) |-> IF HostIsBE(i.hosts[k]) THEN 0 ELSE i.hosts[k].usage])

\* node reservation = max(kubelet reservation, annotation); CPUs reserved by id count one CPU each
Reservation(i) == MaxOf(i.kres, IF i.rcpus # <<>> THEN 1000 * Cardinality(ToSet(i.rcpus)) ELSE i.ares)
\* what the system uses = what neither pods nor host applications account for, at least the reservation
SystemUsed(i)  == MaxOf(MaxOf(i.nodeUsage - PodsAll(i) - HostsAll(i), 0), Reservation(i))

RawBudget(i) == (i.cap * i.thr) \div 100 - PodsNonBE(i) - HostsNonBE(i) - SystemUsed(i)
Floor(i)     == (i.cap * i.minp) \div 100
Budget(i)    == IF i.minp >= 0 THEN MaxOf(RawBudget(i), Floor(i)) ELSE RawBudget(i)

(* (2) the CPU set *)
CPUIds(i)    == {i.procs[k].cpu : k \in 1..Len(i.procs)}
LSEOwned(i)  == UNION {ToSet(i.pods[k].cpus) : k \in {j \in 1..Len(i.pods) : i.pods[j].qos = "LSE"}}
SysExcl(i)   == IF i.sysx THEN ToSet(i.sys) ELSE {}
Protected(i) == LSEOwned(i) \cup ToSet(i.rcpus) \cup SysExcl(i)
Eligible(i)  == CPUIds(i) \ Protected(i)

Step(n) == (n + 9) \div 10                \* ceil(10% of the processors)
\* number of CPUs budgeted for this round: ceil(budget), at least two, at most |old| + step
Target(q, oldN, n) == MinOf(MaxOf(MinCPUs, CeilDiv(q, 1000)), oldN + Step(n))

\* `set` = the CPU list applied to the BE containers when a set was applied (written),
\* nothing derived otherwise (the round left the cgroups alone)
CPUSetOK(i, oldSet, q, written, set) ==
  LET T == Target(q, Cardinality(oldSet), Len(i.procs))
      S == IF written THEN ToSet(set) ELSE {}
  IN /\ written => IsDistinct(set)                           \* distinct ...
     /\ S \subseteq CPUIds(i)                                \* ... existing CPUs
     /\ Cardinality(S) <= T                                  \* never more than budgeted
     /\ Cardinality(Eligible(i)) >= T => Cardinality(S) = T  \* exactly that many when enough are eligible
     /\ S \cap Protected(i) = {}                             \* never an LSE-owned / reserved / system-exclusive CPU

\* the selection primitive: `cpus` CPUs out of the pool `pool` (distinct CPU ids)
PolicyOK(cpus, pool, res) ==
  /\ IsDistinct(res)
  /\ ToSet(res) \subseteq ToSet(pool)
  /\ Len(res) <= MaxOf(cpus, 0)
  /\ (cpus >= 0 /\ Len(pool) >= cpus) => Len(res) = cpus

\* the cpuset BE is given back when suppression does not confine it (recover path)
RecoverOK(i, set) == ToSet(set) \subseteq CPUIds(i) /\ ToSet(set) \cap Protected(i) = {}

(* (4) quota mode *)
QuotaTarget(q) == MaxOf(MinQuota, q * (Period \div 1000))
\* the quota written is the target; the two documented deviations are allowed, not demanded:
\*   bypass  the change is smaller than 1% of the node (and the target is not the minimum): quota left alone
\*   step    the quota was set before and would grow by more than 10% of the node: grows by exactly that step
\* (|delta| exactly 1% is computed in floating point by the code: either side is accepted there)
QuotaOK(q, cur, capCores, after) ==
  LET t        == QuotaTarget(q)
      minDelta == (capCores * Period) \div 100
      step     == (capCores * Period) \div 10
  IN \/ after = t
     \/ t # MinQuota /\ Abs(t - cur) <= minDelta /\ after = cur
     \/ cur # UnsetQuota /\ t - cur > step /\ after = cur + step

(* actions *)
NoBudget == [has |-> FALSE, v |-> 0]

InitWith(i) == /\ inp = i
               /\ be = ToSet(i.old)
               /\ quota = i.quota0
               /\ last = NoBudget
               /\ due = TRUE

\* a usage metric grows by d >= 0 (a pod / host application, optionally together with the node usage
\* it is part of; or the node usage alone = the system's consumption grows)
Grow(what, k, d, withNode) ==
  /\ d >= 0
  /\ what \in {"pod", "host", "node"}
  /\ IF what = "pod" THEN
        /\ k \in 1..Len(inp.pods)
        /\ inp' = [inp EXCEPT !.pods[k].usage = @ + d, !.nodeUsage = @ + (IF withNode THEN d ELSE 0)]
        /\ due' = (due /\ ~PodIsBE(inp.pods[k]))
     ELSE IF what = "host" THEN
        /\ k \in 1..Len(inp.hosts)
        /\ inp' = [inp EXCEPT !.hosts[k].usage = @ + d, !.nodeUsage = @ + (IF withNode THEN d ELSE 0)]
        /\ due' = (due /\ ~HostIsBE(inp.hosts[k]))
     ELSE
        /\ inp' = [inp EXCEPT !.nodeUsage = @ + d]
        /\ due' = due
  /\ UNCHANGED <<be, quota, last>>

\* the budget computed from the current inputs is m
ObserveBudget(m) ==
  /\ m = Budget(inp)                               \* the formula, floored by the configured minimum
  /\ (last.has /\ due) => m <= last.v              \* does not grow when non-BE consumption grows
  /\ last' = [has |-> TRUE, v |-> m]
  /\ due' = TRUE
  /\ UNCHANGED <<inp, be, quota>>

\* one cpuset round with budget q: `set` applied to the BE containers (if written), `root` = BE root cpuset afterwards
ApplyCPUSet(q, written, set, root) ==
  /\ CPUSetOK(inp, be, q, written, set)
  /\ (inp.kubelet = "static" /\ written) => RecoverOK(inp, root)  \* static policy: a round that applies a set gives the upper levels the recovered one
  /\ be' = ToSet(root)
  /\ UNCHANGED <<inp, quota, last, due>>

\* one quota round with budget q
ApplyQuota(q, after) ==
  /\ QuotaOK(q, quota, CeilDiv(inp.cap, 1000), after)
  /\ quota' = after
  /\ UNCHANGED <<inp, be, last, due>>

\* invariant on recorded states: an observed budget is never below the configured minimum
BudgetFloor == (last.has /\ inp.minp >= 0) => last.v >= Floor(inp)

\* NOT part of any verdict (a stronger reading than the statement, kept for reference): after a round the BE root
\* cpuset itself is off the protected CPUs.  The code does not guarantee it: a round that finds fewer eligible
\* CPUs than budgeted applies nothing and BE keeps its previous cpuset (8 CPUs, old 0-7, an idle LSE pod owning
\* 0-3, budget 5200m: target 6 > 4 eligible, BE stays on 0-7).  The statement speaks of "the CPU set derived from"
\* the budget, and such a round derives none.
BEOffProtected == be \cap Protected(inp) \cap CPUIds(inp) = {}

(******************************* design level ******************************)
(* calculateBESuppressCPUSetPolicy(cpus, P) : P = sequence of processors *)
ProcLess(a, b)   == IF a.core = b.core THEN a.cpu < b.cpu ELSE a.core < b.core
BucketLess(a, b) == IF Len(a) = Len(b) THEN a[1].cpu < b[1].cpu ELSE Len(a) > Len(b)

Buckets(P) ==
  LET n == Len(P)
      idx(p) == (p.node + n) * (p.socket + 1)
      keys == {idx(P[k]) : k \in 1..n}
      bucket(key) == SetToSortSeq({P[k] : k \in {j \in 1..n : idx(P[j]) = key}}, ProcLess)
  IN SetToSortSeq({bucket(key) : key \in keys}, BucketLess)

FirstPair(b, used) ==
  LET J == {j \in 1..(Len(b) - 1) : b[j].cpu \notin used /\ b[j].core = b[j + 1].core}
  IN IF J = {} THEN 0 ELSE SetMin(J)
FirstFree(b, used) ==
  LET J == {j \in 1..Len(b) : b[j].cpu \notin used}
  IN IF J = {} THEN 0 ELSE SetMin(J)

\* loop state s = [i (0-based bucket index), need, used, out, pre]
RECURSIVE PairLoop(_, _)
PairLoop(B, s) ==
  IF s.need <= 1 THEN s
  ELSE IF s.i = 0 /\ s.pre = s.need THEN s
  ELSE LET pre2 == IF s.i = 0 THEN s.need ELSE s.pre
           b    == B[s.i + 1]
           j    == FirstPair(b, s.used)
           nxt  == (s.i + 1) % Len(B)
       IN IF j = 0 THEN PairLoop(B, [s EXCEPT !.i = nxt, !.pre = pre2])
          ELSE PairLoop(B, [i |-> nxt, need |-> s.need - 2, pre |-> pre2,
                            used |-> s.used \cup {b[j].cpu, b[j + 1].cpu},
                            out |-> s.out \o <<b[j].cpu, b[j + 1].cpu>>])

RECURSIVE SingleLoop(_, _, _)
SingleLoop(B, start, s) ==
  IF s.need <= 0 THEN s
  ELSE IF s.i = start /\ s.pre = s.need THEN s
  ELSE LET pre2 == IF s.i = start THEN s.need ELSE s.pre
           b    == B[s.i + 1]
           j    == FirstFree(b, s.used)
           nxt  == (s.i + 1) % Len(B)
       IN IF j = 0 THEN SingleLoop(B, start, [s EXCEPT !.i = nxt, !.pre = pre2])
          ELSE SingleLoop(B, start, [i |-> nxt, need |-> s.need - 1, pre |-> pre2,
                                     used |-> s.used \cup {b[j].cpu},
                                     out |-> s.out \o <<b[j].cpu>>])

Policy(cpus, P) ==
  IF Len(P) < cpus \/ Len(P) = 0 THEN <<>>
  ELSE LET B  == Buckets(P)
           s1 == PairLoop(B, [i |-> 0, need |-> cpus, used |-> {}, out |-> <<>>, pre |-> -1])
           s2 == SingleLoop(B, s1.i, [s1 EXCEPT !.pre = -1])
       IN s2.out

(* adjustByCPUSet : split of the target across the LSR-owned pool and the shared pool *)
PoolOf(i, c) == LET K == {k \in 1..Len(i.pods) : c \in ToSet(i.pods[k].cpus)}
                IN IF K = {} THEN "" ELSE i.pods[SetMax(K)].qos

AdjustImpl(i, oldSet, q) ==
  LET excl == ToSet(i.rcpus) \cup SysExcl(i)
      lsr  == SelectSeq(i.procs, LAMBDA p : p.cpu \notin excl /\ PoolOf(i, p.cpu) = "LSR")
      ls   == SelectSeq(i.procs, LAMBDA p : p.cpu \notin excl /\ PoolOf(i, p.cpu) \notin {"LSR", "LSE"})
      cpus == Target(q, Cardinality(oldSet), Len(i.procs))
      tot  == Len(lsr) + Len(ls)
  IN IF tot = 0 THEN [crash |-> ~EarlyReturn, written |-> FALSE, set |-> <<>>]
     ELSE LET nl == (cpus * Len(lsr)) \div tot
              a  == IF nl > 0 THEN Policy(nl, lsr) ELSE <<>>
              b  == IF cpus - nl > 0 THEN Policy(cpus - nl, ls) ELSE <<>>
          IN [crash |-> FALSE, written |-> Len(a \o b) > 0, set |-> a \o b]

(* adjustByCfsQuota *)
QuotaImpl(q, cur, capCores) ==
  LET t        == QuotaTarget(q)
      minDelta == (capCores * Period) \div 100
      step     == (capCores * Period) \div 10
  IN IF Abs(t - cur) < minDelta /\ t # MinQuota THEN cur
     ELSE IF t - cur > step /\ cur # UnsetQuota THEN cur + step
     ELSE t
=============================================================================
