\* every assignment of 4 CPUs to {free, LSR, LSE, reserved, system-exclusive} x 4 layouts x 5 budgets x 3 old sizes
SPECIFICATION SelSpec
CONSTANTS
  EarlyReturn = TRUE
  N = 4
  Layouts <- AllLayouts
  OldNs <- OldSmall
  MaxRounds = 0
INVARIANT SelOK
CHECK_DEADLOCK FALSE
