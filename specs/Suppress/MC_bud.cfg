\* budget formula: floor, reservation bound, monotonicity under every single growth of non-BE consumption; quota rule (ASSUME)
SPECIFICATION BudSpec
CONSTANTS
  EarlyReturn = TRUE
  N = 4
  Layouts <- OneLayout
  OldNs <- OldFull
  MaxRounds = 0
INVARIANT BudOK
CHECK_DEADLOCK FALSE
