\* 8 CPUs (2 nodes x 2 cores x 2 threads): 5^8 assignments x 9 budgets, old cpuset = all CPUs
SPECIFICATION SelSpec
CONSTANTS
  EarlyReturn = TRUE
  N = 8
  Layouts <- OneLayout
  OldNs <- OldFull
  MaxRounds = 0
INVARIANT SelOK
CHECK_DEADLOCK FALSE
