\* 6 CPUs: 5^6 assignments x 4 layouts x 7 budgets x 3 old sizes
SPECIFICATION SelSpec
CONSTANTS
  EarlyReturn = TRUE
  N = 6
  Layouts <- AllLayouts
  OldNs <- OldSmall
  MaxRounds = 0
INVARIANT SelOK
CHECK_DEADLOCK FALSE
