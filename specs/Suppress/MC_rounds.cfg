\* a few rounds driven by the transcription: every step is allowed by the property-level actions
SPECIFICATION RoundsSpec
CONSTANTS
  EarlyReturn = TRUE
  N = 4
  Layouts <- OneLayout
  OldNs <- OldFull
  MaxRounds = 4
INVARIANT BudgetFloor
PROPERTY RoundsProp
PROPERTY RoundsGrowth
CHECK_DEADLOCK FALSE
