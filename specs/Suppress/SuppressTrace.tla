--------------------------- MODULE SuppressTrace ---------------------------
(* Trace validation for C10.  One segment = one set of inputs (the reset    *)
(* event carries them) followed by the results the REAL code produced:      *)
(*   budget   milli   = calculateBESuppressCPU(...).MilliValue()            *)
(*   grow     what,i,d,node   a usage metric grows (harness changes inputs) *)
(*   cpuset   q ; written,set,root  = adjustByCPUSet(q): did it apply a set *)
(*            to the BE containers, which (container cpuset.cpus read back),*)
(*            BE root cpuset.cpus read back                                 *)
(*   quota    q ; after = cpu.cfs_quota_us read back after adjustByCfsQuota *)
(*   policy   cpus,pool ; result = calculateBESuppressCPUSetPolicy          *)
(*   recover  set = calcBECPUSet()                                          *)
(* Every event must be a step the property-level actions of Suppress allow. *)
(* A recovered panic is recorded as event `panic`: there is no such action, *)
(* so the segment is rejected ("never crashes the agent").                  *)
EXTENDS Suppress, TraceCommon

TBudget  == /\ IsEvent("budget")
            /\ Expect(Ev.milli = Budget(inp) /\ ((last.has /\ due) => Ev.milli <= last.v),
                      [budget |-> Budget(inp), nonBEPods |-> PodsNonBE(inp), nonBEHosts |-> HostsNonBE(inp),
                       system |-> SystemUsed(inp), mustNotExceed |-> IF last.has /\ due THEN last.v ELSE 2147483647])
            /\ ObserveBudget(IF Explaining THEN Budget(inp) ELSE Ev.milli)

TGrow    == IsEvent("grow") /\ Grow(Ev.what, Ev.i, Ev.d, Ev.node)

CpusetExpect(q) ==
  LET T == Target(q, Cardinality(be), Len(inp.procs))
  IN [target |-> T, eligible |-> SetToSortSeq(Eligible(inp), <), protected |-> SetToSortSeq(Protected(inp) \cap CPUIds(inp), <),
      sizeMustBe |-> IF Cardinality(Eligible(inp)) >= T THEN T ELSE -1]
TCpuset  == /\ IsEvent("cpuset")
            /\ IF Explaining
                 THEN Expect(TRUE, CpusetExpect(Ev.q)) /\ be' = ToSet(Ev.root) /\ UNCHANGED <<inp, quota, last, due>>
                 ELSE ApplyCPUSet(Ev.q, Ev.written, Ev.set, Ev.root)

TQuota   == /\ IsEvent("quota")
            /\ IF Explaining
                 THEN Expect(TRUE, [target |-> QuotaTarget(Ev.q), current |-> quota]) /\ quota' = Ev.after /\ UNCHANGED <<inp, be, last, due>>
                 ELSE ApplyQuota(Ev.q, Ev.after)

TPolicy  == /\ IsEvent("policy")
            /\ Expect(PolicyOK(Ev.cpus, Ev.pool, Ev.result),
                      [size |-> IF Len(Ev.pool) >= Ev.cpus THEN Ev.cpus ELSE -1, subsetOf |-> Ev.pool])
            /\ UNCHANGED vars

TRecover == /\ IsEvent("recover")
            /\ Expect(RecoverOK(inp, Ev.set), [within |-> SetToSortSeq(Eligible(inp), <)])
            /\ UNCHANGED vars

TraceInit == \E i \in Starts : TraceStart(i) /\ InitWith(Trace[i])
TraceNext == TBudget \/ TGrow \/ TCpuset \/ TQuota \/ TPolicy \/ TRecover \/ (SegDone /\ UNCHANGED vars)
TraceSpec == TraceInit /\ [][TraceNext]_<<vars, tvars>>
=============================================================================
