---------------------------- MODULE MC_Suppress ----------------------------
(***************************************************************************)
(* Exhaustive bounded model checking for C10 ("decide the property on the  *)
(* model").  Three little state spaces over one variable  c  (the design   *)
(* spec's own variables are pinned):                                       *)
(*                                                                         *)
(*  Sel   every assignment of N CPUs to {free, LSR-owned, LSE-owned,       *)
(*        reserved, system-exclusive} x topology x budget x |old cpuset| : *)
(*        the transcription of adjustByCPUSet / the selection policy never *)
(*        crashes and its result satisfies CPUSetOK; every direct call of  *)
(*        the selection primitive satisfies PolicyOK.  Assignments are     *)
(*        built one CPU per step so that TLC's workers share the work.     *)
(*  Bud   budget inputs: floor, upper bound and monotonicity of Budget     *)
(*        under every single growth of non-BE consumption.                 *)
(*  Rounds  a few rounds of cpuset / quota suppression driven by the       *)
(*        transcription from the design spec's Init: every step is one the *)
(*        property-level actions allow (step limit across rounds).         *)
(***************************************************************************)
EXTENDS Suppress

CONSTANTS N,        \* number of CPUs
          Layouts,  \* set of [perNode, perCore, split] : CPU k -> (core, socket = node)
          OldNs     \* sizes of the old BE cpuset tried

\* budgets (milli-CPU) tried: a negative one and ceil(q) = 2 .. N+1
Qs == {-500} \cup {1000 * j - 500 : j \in 2..(N + 1)}
\* one node / two nodes, hyper-threaded (consecutive or split sibling numbering) or not
AllLayouts == {[perNode |-> N, perCore |-> 2, split |-> FALSE], [perNode |-> N \div 2, perCore |-> 2, split |-> FALSE],
               [perNode |-> N \div 2, perCore |-> 2, split |-> TRUE], [perNode |-> N, perCore |-> 1, split |-> FALSE]}
OneLayout  == {[perNode |-> N \div 2, perCore |-> 2, split |-> FALSE]}
OldSmall   == {0, 2, N}
OldFull    == {N}

VARIABLE c
mcvars == <<c, vars>>

Kinds == {"free", "lsr", "lse", "res", "sys"}

\* CPU k (0-based) of a layout: consecutive numbering (siblings k, k+1) or split numbering (siblings k, k + N/2)
ProcOf(lay, k) ==
  LET h    == N \div 2
      slot == IF lay.split THEN (IF k < h THEN 2 * k ELSE 2 * (k - h) + 1) ELSE k
      core == slot \div lay.perCore
      node == slot \div lay.perNode
  IN [cpu |-> k, core |-> core, socket |-> node, node |-> node]

CpusOf(kinds, kind) == SelectSeq([k \in 1..Len(kinds) |-> k - 1], LAMBDA x : kinds[x + 1] = kind)

InpOf(kinds, lay, oldN) ==
  [procs |-> [k \in 1..N |-> ProcOf(lay, k - 1)],
   pods  |-> << [qos |-> "LSR", kube |-> "Guaranteed", cpus |-> CpusOf(kinds, "lsr"), usage |-> 0],
                [qos |-> "LSE", kube |-> "Guaranteed", cpus |-> CpusOf(kinds, "lse"), usage |-> 0],
                [qos |-> "LS",  kube |-> "Burstable",  cpus |-> <<>>, usage |-> 0] >>,
   hosts |-> <<>>, nodeUsage |-> 0, cap |-> 1000 * N, kres |-> 0, ares |-> 0,
   rcpus |-> CpusOf(kinds, "res"), sys |-> CpusOf(kinds, "sys"), sysx |-> TRUE,
   thr |-> 65, minp |-> -1, old |-> [k \in 1..oldN |-> k - 1], quota0 |-> -1, kubelet |-> "none"]

(******************************** Sel **************************************)
\* the design spec's variables are not used by Sel / Bud
Pinned == inp = <<>> /\ be = {} /\ quota = 0 /\ last = NoBudget /\ due = TRUE
SelInit == c = [kinds |-> <<>>, done |-> FALSE] /\ Pinned
SelNext ==
  /\ ~c.done
  /\ IF Len(c.kinds) < N
       THEN \E k \in Kinds : c' = [c EXCEPT !.kinds = Append(@, k)]
       ELSE \E lay \in Layouts, q \in Qs, o \in OldNs : c' = [kinds |-> c.kinds, done |-> TRUE, lay |-> lay, q |-> q, oldN |-> o]
SelOK ==
  c.done =>
    LET i == InpOf(c.kinds, c.lay, c.oldN)
        r == AdjustImpl(i, ToSet(i.old), c.q)
        pool == SelectSeq(i.procs, LAMBDA p : p.cpu \in Eligible(i))
        want == CeilDiv(c.q, 1000)
    IN /\ ~r.crash                                                   \* (3) never crashes
       /\ CPUSetOK(i, ToSet(i.old), c.q, r.written, r.set)          \* (2)
       /\ PolicyOK(want, [k \in 1..Len(pool) |-> pool[k].cpu], Policy(want, pool))
\* vacuity guards (evaluated on the complete cases; must be violated = reachable, see MC_vac.cfg)
SeenAllProtected == ~(c.done /\ Eligible(InpOf(c.kinds, c.lay, c.oldN)) = {})
SeenShort == ~(c.done /\ LET i == InpOf(c.kinds, c.lay, c.oldN)
                         IN Eligible(i) # {} /\ Cardinality(Eligible(i)) < Target(c.q, c.oldN, N))
SelSpec == SelInit /\ [][SelNext /\ UNCHANGED vars]_mcvars

(******************************** Bud **************************************)
PodMenu  == {[qos |-> x[1], kube |-> x[2], cpus |-> <<>>, usage |-> u] :
               x \in {<<"LS", "Burstable">>, <<"BE", "BestEffort">>, <<"LS", "BestEffort">>, <<"BE", "Burstable">>, <<"", "Guaranteed">>},
               u \in {0, 500, 2000}}
HostMenu == {[qos |-> x[1], base |-> x[2], usage |-> u] :
               x \in {<<"BE", "KubepodsBesteffort">>, <<"BE", "CgroupRoot">>, <<"LS", "KubepodsBurstable">>, <<"LS", "KubepodsBesteffort">>},
               u \in {0, 500}}
NodeUsages == {0, 1000, 3000, 6000}
KRes   == {0, 1000}
ARes   == {0, 500, 1500}
RCpus  == {<<>>, <<0, 1>>}
MinPs  == {-1, 0, 10, 50}
Deltas == {125, 1000}
BudInp(p1, p2, h, nu, kr, ar, rc, mp) ==
  [procs |-> <<>>, pods |-> <<p1, p2>>, hosts |-> <<h>>, nodeUsage |-> nu, cap |-> 8000, kres |-> kr, ares |-> ar,
   rcpus |-> rc, sys |-> <<>>, sysx |-> TRUE, thr |-> 65, minp |-> mp, old |-> <<>>, quota0 |-> -1, kubelet |-> "none", st |-> 0]
\* built in three steps so that TLC's workers share the work; BudOK is evaluated on the complete inputs (st = 3)
BudInit == c = [st |-> 0] /\ Pinned
BudNext ==
  \/ c.st = 0 /\ \E p1 \in PodMenu, p2 \in PodMenu : c' = [st |-> 1, p1 |-> p1, p2 |-> p2]
  \/ c.st = 1 /\ \E h \in HostMenu, nu \in NodeUsages : c' = [st |-> 2, p1 |-> c.p1, p2 |-> c.p2, h |-> h, nu |-> nu]
  \/ c.st = 2 /\ \E kr \in KRes, ar \in ARes, rc \in RCpus, mp \in MinPs :
                   c' = [BudInp(c.p1, c.p2, c.h, c.nu, kr, ar, rc, mp) EXCEPT !.st = 3]
GrowPod(i, k, d, wn)  == [i EXCEPT !.pods[k].usage = @ + d, !.nodeUsage = @ + (IF wn THEN d ELSE 0)]
GrowHost(i, k, d, wn) == [i EXCEPT !.hosts[k].usage = @ + d, !.nodeUsage = @ + (IF wn THEN d ELSE 0)]
GrowNode(i, d)        == [i EXCEPT !.nodeUsage = @ + d]
BudOK == c.st = 3 =>
  /\ c.minp >= 0 => Budget(c) >= Floor(c)                                            \* floored by the minimum
  /\ LET ub == (c.cap * c.thr) \div 100 - Reservation(c) - PodsNonBE(c) - HostsNonBE(c)      \* the system takes at least the reservation
     IN Budget(c) <= IF c.minp >= 0 THEN MaxOf(ub, Floor(c)) ELSE ub
  /\ \A d \in Deltas :
       /\ Budget(GrowNode(c, d)) <= Budget(c)
       /\ \A wn \in BOOLEAN :
            /\ \A k \in 1..2 : ~PodIsBE(c.pods[k]) => Budget(GrowPod(c, k, d, wn)) <= Budget(c)
            /\ ~HostIsBE(c.hosts[1]) => Budget(GrowHost(c, 1, d, wn)) <= Budget(c)
\* quota rule: the transcription of adjustByCfsQuota is always an allowed outcome, and never below the minimum
QuotaCases == \A q \in {250 * k - 1000 : k \in 0..44}, cur \in {-1, 2000, 2100, 9000, 100000, 400000, 790000, 800000}, cores \in {1, 8} :
                LET a == QuotaImpl(q, cur, cores) IN QuotaOK(q, cur, cores, a) /\ (a # cur => a >= MinQuota)
ASSUME QuotaCases
BudSpec == BudInit /\ [][BudNext /\ UNCHANGED vars]_mcvars

(******************************* Rounds ************************************)
CONSTANT MaxRounds
RoundQs == {-500, 2500, 1000 * N - 500}
RoundInputs == {InpOf(k, lay, o) : k \in {[j \in 1..N |-> "free"],
                                           [j \in 1..N |-> IF j = 1 THEN "lse" ELSE IF j = 2 THEN "lsr" ELSE "free"],
                                           [j \in 1..N |-> IF j <= 2 THEN "res" ELSE IF j = N THEN "sys" ELSE "free"],
                                           [j \in 1..N |-> IF j = 1 THEN "free" ELSE "lse"],
                                           [j \in 1..N |-> "lse"]},
                                    lay \in OneLayout, o \in {0, N}}
RoundsInit == /\ \E i \in RoundInputs : InitWith(i)
              /\ c = 0                      \* c counts the rounds here
RoundsNext ==
  /\ c < MaxRounds
  /\ c' = c + 1
  /\ \/ \E q \in RoundQs :
          LET r == AdjustImpl(inp, be, q) IN
          /\ ~r.crash
          /\ be' = IF r.written THEN ToSet(r.set) ELSE be
          /\ UNCHANGED <<inp, quota, last, due>>
     \/ \E q \in RoundQs :
          /\ quota' = QuotaImpl(q, quota, CeilDiv(inp.cap, 1000))
          /\ UNCHANGED <<inp, be, last, due>>
     \/ \E k \in 1..Len(inp.pods), wn \in BOOLEAN : Grow("pod", k, 1000, wn)
     \/ Grow("node", 0, 500, FALSE)
     \/ ObserveBudget(Budget(inp))
\* every step of the transcription is a step the property-level actions allow
RoundsStepOK ==
  \/ \E q \in RoundQs : \E w \in BOOLEAN :
       ApplyCPUSet(q, w, IF w THEN SetToSortSeq(be', <) ELSE <<>>, SetToSortSeq(be', <))
  \/ \E q \in RoundQs : ApplyQuota(q, quota')
  \/ \E k \in 1..Len(inp.pods), wn \in BOOLEAN : Grow("pod", k, 1000, wn)
  \/ Grow("node", 0, 500, FALSE)
  \/ ObserveBudget(Budget(inp))
RoundsProp == [][RoundsStepOK]_vars
\* across rounds the BE cpuset grows by at most the step limit and stays off protected CPUs once rewritten
RoundsGrowth == [][Cardinality(be') <= MaxOf(Cardinality(be), Cardinality(be) + Step(Len(inp.procs)))]_vars
RoundsSpec == RoundsInit /\ [][RoundsNext]_mcvars
=============================================================================
