\* the selection as found at the pinned commit (no early return): TLC finds the crash when every CPU is protected
SPECIFICATION SelSpec
CONSTANTS
  EarlyReturn = FALSE
  N = 4
  Layouts <- OneLayout
  OldNs <- OldFull
  MaxRounds = 0
INVARIANT SelOK
CHECK_DEADLOCK FALSE
