---------------------------- MODULE TraceCommon ----------------------------
(***************************************************************************)
(* Shared trace-validation plumbing.                                       *)
(*                                                                         *)
(* A trace file ($VERIF_TRACE, ndjson) is a concatenation of SEGMENTS;     *)
(* each segment starts with an event  {"op":"reset", ...cfg}  followed by  *)
(* the events recorded from one execution of the real code.  Every segment *)
(* is an independent behaviour: the trace specification has one initial    *)
(* state per segment (so a rejected segment does not hide the others and   *)
(* TLC validates segments in parallel).                                    *)
(*                                                                         *)
(*  l    index of the next event to consume                                *)
(*  seg  index of this segment's reset event                               *)
(*  done TRUE once the whole segment has been consumed                     *)
(*                                                                         *)
(* A segment is ACCEPTED iff the behaviour reaches  done = TRUE ; the      *)
(* SegDone action then prints <<"SEG_OK", seg>>, which bin/check collects. *)
(* Segments that never print it were rejected; bin/check re-runs those     *)
(* with VERIF_VERBOSE set, where the state constraint Report prints the    *)
(* position after every consumed event, giving the longest accepted prefix *)
(* and thereby the first event the specification could not explain.        *)
(***************************************************************************)
EXTENDS Json, TLC, Sequences, Naturals, IOUtils

Trace  == ndJsonDeserialize(IOEnv.VERIF_TRACE)
TLen   == Len(Trace)
Starts == {i \in 1..TLen : Trace[i].op = "reset"}

VARIABLES l, seg, done
tvars == <<l, seg, done>>

TraceStart(i) == l = i + 1 /\ seg = i /\ done = FALSE

Ev == Trace[l]

IsEvent(op) == /\ ~done
               /\ l <= TLen
               /\ Trace[l].op = op
               /\ l' = l + 1
               /\ UNCHANGED <<seg, done>>

AtSegEnd == IF l > TLen THEN TRUE ELSE Trace[l].op = "reset"   \* IF, not \/ : inside an action TLC evaluates both disjuncts

\* conjoin with UNCHANGED <family variables>
SegDone == /\ ~done
           /\ AtSegEnd
           /\ done' = TRUE
           /\ PrintT(<<"SEG_OK", seg>>)
           /\ UNCHANGED <<l, seg>>

Report == IF "VERIF_VERBOSE" \in DOMAIN IOEnv THEN PrintT(<<"AT", seg, l>>) ELSE TRUE

\* Explain mode (VERIF_EXPLAIN set; used by bin/check on a rejected segment only): instead of
\* comparing, print what the specification expects for the event being consumed and accept.
Explaining == "VERIF_EXPLAIN" \in DOMAIN IOEnv
Expect(cond, expected) == IF Explaining THEN PrintT(<<"EXPECT", l, ToJson(expected)>>) ELSE cond

\* equality of two maps one of which may be EMPTY: TLC refuses to compare the empty record read
\* from JSON ("{}") with an empty function built by a function constructor
FEq(a, b) == DOMAIN a = DOMAIN b /\ \A k \in DOMAIN a : a[k] = b[k]

Has(e, k) == k \in DOMAIN e
Get(e, k, dflt) == IF k \in DOMAIN e THEN e[k] ELSE dflt
=============================================================================
