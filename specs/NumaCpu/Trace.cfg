SPECIFICATION TraceSpec
\* property invariants as CONSTRAINTs before Report (see docs/FAMILY_GUIDE.md): a recorded state that violates one
\* cuts only its own segment, which then never reaches SegDone (= rejected)
CONSTRAINT RefWithinLimit
CONSTRAINT LedgerExact
CONSTRAINT Report
CHECK_DEADLOCK FALSE
