\* all histories of NUMA-level Alloc (any allowed split, any hint mask, refusals where (N3) allows) / Release:
\* 3 pods, 3 NUMA nodes of capacity 2
SPECIFICATION HistSpec
CONSTANTS
  Dims <- D1311
  MaxRefs = {1}
  Reserves <- NoReserve
  PodIds = {"p1", "p2", "p3"}
  NumaCaps = {2}
  WithCpus = FALSE
  K = 0
  MaxFree = 0
  MaxReq = 0
  Modes = {}
  AsFound = FALSE
INVARIANT RefWithinLimit
INVARIANT LedgerExact
INVARIANT TypeOK
CHECK_DEADLOCK FALSE
