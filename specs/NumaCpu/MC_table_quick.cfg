\* every subset of the 8 CPUs of a 1x2x2x2 node as the available set, n in 1..8, 3 bind policies, required or not
SPECIFICATION TableSpec
CONSTANTS
  Dims <- D1222
  MaxRefs = {1, 2}
  Reserves <- NoReserve
  PodIds = {}
  NumaCaps = {0}
  WithCpus = FALSE
  K = 0
  MaxFree = 0
  MaxReq = 0
  Modes = {}
  AsFound = FALSE
INVARIANT TableInv
CHECK_DEADLOCK FALSE
