\* every free vector of 4 NUMA nodes (0..4 each) x all 16 hint masks x request 0..8 x 4 divisibility modes
SPECIFICATION DistSpec
CONSTANTS
  Dims <- D1142
  MaxRefs = {1}
  Reserves <- NoReserve
  PodIds = {}
  NumaCaps = {0}
  WithCpus = FALSE
  K = 4
  MaxFree = 4
  MaxReq = 8
  Modes = {"mem", "cpu", "cpubind", "fullpcpus"}
  AsFound = FALSE
INVARIANT DistInv
CHECK_DEADLOCK FALSE
