\* all histories of CPU-set Alloc (any allowed set) / Update / Release: 3 pods on a 1x2x1x2 node (4 CPUs),
\* sharing limit 1 and 2, no CPU / CPU 0 reserved
SPECIFICATION HistSpec
CONSTANTS
  Dims <- D1212
  MaxRefs = {1, 2}
  Reserves <- ReserveNoneOrZero
  PodIds = {"p1", "p2", "p3"}
  NumaCaps = {0}
  WithCpus = TRUE
  K = 0
  MaxFree = 0
  MaxReq = 0
  Modes = {}
  AsFound = FALSE
INVARIANT RefWithinLimit
INVARIANT LedgerExact
INVARIANT TypeOK
CHECK_DEADLOCK FALSE
