\* NOT part of the check: the comparator AS FOUND at the pinned commit (indexed by slice position) - TLC reports DistInv violated (N3)
SPECIFICATION DistSpec
CONSTANTS
  Dims <- D1142
  MaxRefs = {1}
  Reserves <- NoReserve
  PodIds = {}
  NumaCaps = {0}
  WithCpus = FALSE
  K = 3
  MaxFree = 4
  MaxReq = 8
  Modes = {"mem", "cpu", "cpubind", "fullpcpus"}
  AsFound = TRUE
INVARIANT DistInv
CHECK_DEADLOCK FALSE
