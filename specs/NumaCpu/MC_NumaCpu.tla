---------------------------- MODULE MC_NumaCpu ----------------------------
(***************************************************************************)
(* Exhaustive bounded model checking for C06 ("decide the property on the  *)
(* model").  Three little state spaces; an auxiliary variable  c  builds   *)
(* the inputs step by step so that TLC's workers share the work.           *)
(*                                                                         *)
(*  Dist   every free vector of K NUMA nodes (0..MaxFree per node) x EVERY *)
(*         hint mask (any subset of node ids) x request 0..MaxReq x mode:  *)
(*         the transcription of tryBestToDistributeEvenly, run with every  *)
(*         visiting order that is ascending in the free amount, satisfies  *)
(*         (N1) (N2) (N3).  With AsFound = TRUE the order is the one the   *)
(*         pinned commit computes (comparator indexed by slice position):  *)
(*         MC_dist_asfound.cfg shows the (N3) counterexample on the model. *)
(*  Table  every subset of an 8-CPU topology as the available set, n in    *)
(*         1..8, every bind policy, required or not: the contract CpuOK    *)
(*         (E, A, P) admits a result exactly when one exists (so it never  *)
(*         forbids success), every admitted result keeps the sharing limit,*)
(*         and the transcription of determineFullPCPUs /                   *)
(*         determineSpreadByPCPUs agrees with WholeCores / OnePerCore.     *)
(*  Hist   all histories of Alloc / Update / Release over a small node in  *)
(*         which every allocation is ANY result the post-conditions allow  *)
(*         and the ledger is kept incrementally: (R) and (N4) hold in      *)
(*         every reachable state, however the operations interleave.       *)
(***************************************************************************)
EXTENDS NumaCpu

CONSTANTS Dims,      \* <<sockets, NUMA nodes per socket, cores per node, threads per core>>
          MaxRefs,   \* set of sharing limits tried
          Reserves,  \* set of reserved-CPU sets tried
          PodIds,    \* Hist: pod names
          NumaCaps,  \* Hist: per-node capacity of the NUMA resource "mem" ("cpu" is pinned to 0); 0 disables NUMA hints
          WithCpus,  \* Hist: TRUE = CPU-set allocations are generated
          K, MaxFree, MaxReq, Modes, AsFound   \* Dist

VARIABLE c

D1142 == <<1, 1, 4, 2>>
D1222 == <<1, 2, 2, 2>>
D2122 == <<2, 1, 2, 2>>
D2221 == <<2, 2, 2, 1>>
D1212 == <<1, 2, 1, 2>>
D1311 == <<1, 3, 1, 1>>
NoReserve == {{}}
ReserveNoneOrZero == {{}, {0}}
mcvars == <<c, vars>>

\* buildCPUTopologyForTest(sockets, nodesPerSocket, coresPerNode, cpusPerCore): ids are assigned depth first
TopoOf(d) ==
  LET perCore == d[4]  perNode == d[3] * d[4]  perSocket == d[2] * d[3] * d[4]  n == d[1] * d[2] * d[3] * d[4]
  IN [i \in 1..n |-> [cpu |-> i - 1, core |-> (i - 1) \div perCore, node |-> (i - 1) \div perNode, socket |-> (i - 1) \div perSocket]]
NodeIds(d) == 0..(d[1] * d[2] - 1)
CapOf(d, amount) == LET ids == NodeIds(d) IN [i \in 1..Cardinality(ids) |-> [node |-> i - 1, cpu |-> 0, mem |-> amount]]
ResetOf(d, mr, rsv, amount) == [topo |-> TopoOf(d), tpc |-> d[4], maxRef |-> mr, reserved |-> rsv, cap |-> CapOf(d, amount)]
RECURSIVE SeqOfSet(_)
SeqOfSet(S) == IF S = {} THEN <<>> ELSE LET m == CHOOSE x \in S : \A y \in S : x <= y IN <<m>> \o SeqOfSet(S \ {m})

(******************************** Dist *************************************)
Unit(mode) == IF mode \in {"cpubind", "fullpcpus"} THEN 1000 ELSE 1
RName(mode) == IF mode = "mem" THEN "mem" ELSE "cpu"
Lift(f, r) == [n \in DOMAIN f |-> [Zero EXCEPT ![r] = f[n]]]
DistPinned == cfg = <<>> /\ podCpus = <<>> /\ podNuma = <<>> /\ ledger = <<>>
DistInit == c = [free |-> <<>>, done |-> FALSE] /\ DistPinned
DistNext ==
  /\ ~c.done
  /\ IF Len(c.free) < K
       THEN \E f \in 0..MaxFree : c' = [c EXCEPT !.free = Append(@, f)]
       ELSE \E hint \in SUBSET (0..(K - 1)), q \in 0..MaxReq, mode \in Modes :
              c' = [free |-> c.free, done |-> TRUE, hint |-> hint, q |-> q, mode |-> mode]
DistCase(free, hint, q, mode, order) ==
  LET r  == Distribute(mode, Dims[4], free, order, q)
      ok == r.rem = 0          \* "Insufficient NUMA <resource>" iff something of the request is left
  IN DistOK(mode, Lift(free, RName(mode)), hint, [Zero EXCEPT ![RName(mode)] = q], ok, Lift(r.split, RName(mode)))
DistInv ==
  c.done =>
    LET free   == [n \in 0..(K - 1) |-> c.free[n + 1] * Unit(c.mode)]
        q      == c.q * Unit(c.mode)
        orders == IF AsFound THEN {AsFoundOrder(free, c.hint)} ELSE SortedOrders(free, c.hint)
    IN \A o \in orders : DistCase(free, c.hint, q, c.mode, o)
\* vacuity guards: each must be VIOLATED (= the situation is reachable) when put in place of the INVARIANT of the cfg (run by hand)
SeenHintNotFromZero == ~(c.done /\ c.hint # {} /\ 0 \notin c.hint)
SeenEnough          == ~(c.done /\ Divisible(c.mode) /\ c.q > 0 /\ SumF([n \in c.hint |-> c.free[n + 1]], c.hint) >= c.q)
SeenShort           == ~(c.done /\ SumF([n \in c.hint |-> c.free[n + 1]], c.hint) < c.q)
DistSpec == DistInit /\ [][DistNext /\ UNCHANGED vars]_mcvars

(******************************** Table ************************************)
\* the available set is built one CPU per step; the CPUs outside it are held by a filler pod
Policies == {"", "FullPCPUs", "SpreadByPCPUs"}
TableInit == /\ c = [avail |-> {}, next |-> 0, done |-> FALSE]
             /\ \E mr \in MaxRefs : InitWith(ResetOf(Dims, mr, <<>>, 0))
TableNext ==
  /\ ~c.done
  /\ IF c.next < Cardinality(cfg.cpus)
       THEN \E in \in BOOLEAN : c' = [c EXCEPT !.avail = IF in THEN @ \cup {c.next} ELSE @, !.next = @ + 1]
       ELSE c' = [c EXCEPT !.done = TRUE]
  /\ UNCHANGED vars
FullFreeCores(A) == {k \in CoresOf(cfg.cpus) : CpusOfCore(k) \subseteq A}
Feasible(A, n, policy, required) ==
  IF ~required \/ policy = "" THEN n <= Cardinality(A)
  ELSE IF policy = "FullPCPUs" THEN n % cfg.tpc = 0 /\ n <= cfg.tpc * Cardinality(FullFreeCores(A))
  ELSE n <= Cardinality(CoresOf(A))
\* the filler holds every CPU outside A as often as the sharing limit allows, so AvailFor = A
Filler(A) == [p \in {"f" \o ToString(i) : i \in 1..cfg.maxRef} |-> cfg.cpus \ A]
TableInv ==
  c.done =>
    LET A  == c.avail
        pc == Filler(A)
    IN /\ AvailFor(pc, {}, {}) = A
       /\ \A n \in 1..Cardinality(cfg.cpus), policy \in Policies, required \in BOOLEAN :
            LET a == [n |-> n, bind |-> TRUE, policy |-> policy, required |-> required, pref |-> {}, pre |-> {},
                      hasHint |-> FALSE, hint |-> {}, req |-> Zero]
                allowed == {S \in SUBSET A : CpuOK(pc, S, a)}
            IN /\ (allowed # {}) <=> Feasible(A, n, policy, required)
               /\ \A S \in allowed : \A x \in cfg.cpus : RefFS(Put(pc, "new", S), x) <= cfg.maxRef
       \* crediting: the filler's own CPUs are free for the filler
       /\ AvailFor(pc, cfg.cpus \ A, {}) = cfg.cpus
       \* transcription of the policy verification agrees with what the policies mean
       /\ FullImpl(A) <=> WholeCores(A)
       /\ SpreadImpl(A) <=> OnePerCore(A)
TableSpec == TableInit /\ [][TableNext]_mcvars

(******************************** Hist *************************************)
HistInit == /\ c = 0
            /\ \E mr \in MaxRefs, rsv \in Reserves, cap \in NumaCaps : InitWith(ResetOf(Dims, mr, SeqOfSet(rsv), cap))
HasNuma == \E n \in cfg.nodes : cfg.cap[n]["mem"] > 0
MaxCap  == IF cfg.nodes = {} THEN 0 ELSE CHOOSE m \in {cfg.cap[n]["mem"] : n \in cfg.nodes} : \A n \in cfg.nodes : cfg.cap[n]["mem"] <= m
Splits(hint) == {[n \in {m \in hint : f[m] > 0} |-> [cpu |-> 0, mem |-> f[n]]] : f \in [hint -> 0..MaxCap]}
CpuArgs(n, policy, required, pref) ==
  [n |-> n, bind |-> TRUE, policy |-> policy, required |-> required, pref |-> pref, pre |-> {},
   hasHint |-> FALSE, hint |-> {}, req |-> Zero]
NumaArgs(hint, q) ==
  [n |-> 0, bind |-> FALSE, policy |-> "", required |-> FALSE, pref |-> {}, pre |-> {},
   hasHint |-> TRUE, hint |-> hint, req |-> [cpu |-> 0, mem |-> q]]
HistNext ==
  /\ c' = c
  /\ \/ /\ WithCpus                     \* CPU-set allocation: ANY set with the post-conditions, committed
        /\ \E pod \in PodIds, n \in 1..Cardinality(cfg.cpus), policy \in Policies, required \in BOOLEAN, own \in BOOLEAN :
             \E S \in SUBSET cfg.cpus :
               Alloc(pod, CpuArgs(n, policy, required, IF own THEN OldCpus(pod) ELSE {}), TRUE, TRUE, S, NoNuma)
     \/ /\ HasNuma                      \* NUMA-level allocation: ANY split with the post-conditions, committed
        /\ \E pod \in PodIds, hint \in SUBSET cfg.nodes, q \in 0..(2 * MaxCap) :
             \/ \E split \in Splits(hint) : Alloc(pod, NumaArgs(hint, q), TRUE, TRUE, {}, split)
             \/ Alloc(pod, NumaArgs(hint, q), TRUE, FALSE, {}, NoNuma)      \* a refusal, where (N3) allows one
     \/ /\ WithCpus                     \* informer delivery of a legal CPU allocation
        /\ \E pod \in PodIds, S \in SUBSET cfg.cpus : Update(pod, S, NoNuma)
     \/ \E pod \in PodIds : Release(pod)
\* (a CPU-set allocation and a NUMA-level allocation are generated separately - a pod holds one kind at a time here -
\* so that the two halves do not multiply the state space; recorded traces combine them)
HistSpec == HistInit /\ [][HistNext]_mcvars
\* vacuity guards
SeenShared   == ~(\E x \in cfg.cpus : RefFS(podCpus, x) >= 2)
SeenNumaFull == ~(HasNuma /\ \E n \in cfg.nodes : NumaFS(podNuma, n, "mem") = cfg.cap[n]["mem"])
=============================================================================
