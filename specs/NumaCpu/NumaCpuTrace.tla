--------------------------- MODULE NumaCpuTrace ---------------------------
(* Trace validation for C06.  One segment = one node (the reset event carries *)
(* topology, sharing limit, reserved CPUs, NUMA capacities) followed by what  *)
(* the REAL code did:                                                         *)
(*   alloc    resourceManager.Allocate(options) [+ Update(result) when        *)
(*            commit, as Plugin.Reserve does]; result = ok, cpus, numa        *)
(*   update   resourceManager.Update(pod allocation)   (informer path)        *)
(*   release  resourceManager.Release(pod)                                    *)
(*   take     direct takeCPUs / takePreferredCPUs on an explicit available set*)
(*   dist     direct tryBestToDistributeEvenly on explicit free amounts       *)
(*   policy   direct satisfiedRequiredCPUBindPolicy                           *)
(* alloc / update / release carry obs = projection of the NodeAllocation:     *)
(*   pods   pod -> [cpus, numa]          allocatedPods[uid].{CPUSet,NUMANodeResources} *)
(*   refs   refs[c+1] = allocatedCPUs[c].RefCount (0 when absent), stray = entries for unknown CPU ids *)
(*   numa   [node, cpu, mem]             allocatedResources[node].Resources   *)
(* Every logged result must be one the property-level predicates of NumaCpu   *)
(* ALLOW (the CPU set / the split are not predicted), and the logged ledger   *)
(* must equal the one derived from scratch from the live pods' allocations.   *)
(* A recovered panic is logged as event `panic`: no action explains it.       *)
EXTENDS NumaCpu, TraceCommon

RECURSIVE SortedSeq(_)
SortedSeq(S) == IF S = {} THEN <<>> ELSE LET m == CHOOSE x \in S : \A y \in S : x <= y IN <<m>> \o SortedSeq(S \ {m})
NumaList(m, N) == LET s == SortedSeq(N) IN [i \in 1..Len(s) |-> [node |-> s[i], cpu |-> Amt(m, s[i], "cpu"), mem |-> Amt(m, s[i], "mem")]]

ArgsOf(e) == [n |-> e.n, bind |-> e.bind, policy |-> e.policy, required |-> e.required,
              pref |-> ToSet(e.pref), pre |-> ToSet(e.pre), hasHint |-> e.hasHint, hint |-> ToSet(e.hint),
              req |-> [cpu |-> e.req.cpu, mem |-> e.req.mem]]

(************************ projection -> ledger ****************************)
LedgerOf(o) ==
  LET stray == {o.stray[i].cpu : i \in 1..Len(o.stray)}
      m     == NumaFn(o.numa)
  IN [ref  |-> [x \in (0..(Len(o.refs) - 1)) \cup stray |->
                  IF x \in stray THEN SumF([i \in 1..Len(o.stray) |-> IF o.stray[i].cpu = x THEN o.stray[i].ref ELSE 0], 1..Len(o.stray))
                  ELSE o.refs[x + 1]],
      numa |-> [n \in cfg.nodes \cup DOMAIN m |-> [r \in Res |-> Amt(m, n, r)]]]
NumaSame(a, b) == \A n \in DOMAIN a \cup DOMAIN b, r \in Res : Amt(a, n, r) = Amt(b, n, r)
PodsMatch(op, pc, pn) ==
  /\ DOMAIN op = DOMAIN pc
  /\ \A p \in DOMAIN pc : ToSet(op[p].cpus) = pc[p] /\ NumaSame(NumaFn(op[p].numa), pn[p])
\* what a correct node reports for the pod maps pc / pn (shape of obs, for bin/explain)
ExpectedObs(pc, pn) ==
  LET cs == SortedSeq(cfg.cpus) IN
  [pods  |-> [p \in DOMAIN pc |-> [cpus |-> SortedSeq(pc[p]), numa |-> NumaList(pn[p], DOMAIN pn[p])]],
   refs  |-> [i \in 1..Len(cs) |-> RefFS(pc, cs[i])],
   stray |-> <<>>,
   numa  |-> LET N == cfg.nodes \cup HeldNodes(pn)
             IN NumaList([n \in N |-> [r \in Res |-> NumaFS(pn, n, r)]], N)]
\* (R) (N4): ledger' is what the code reports; it must be the one derived from scratch from the live pods.
\* One Expect per event (bin/check keeps one expectation per event): rule = what the result had to satisfy
ObsMatches(o) == LedgerMatches(LedgerOf(o), podCpus', podNuma') /\ PodsMatch(o.pods, podCpus', podNuma')
ObsOK(o, resultOK, rule) ==
  /\ ledger' = LedgerOf(o)
  /\ Expect(resultOK /\ ObsMatches(o), [rule |-> rule] @@ ExpectedObs(podCpus', podNuma'))

(****************************** actions ***********************************)
AllocExpect(a) ==
  [mustSucceed  |-> MustSucceed(podNuma, a),
   ifSuccessful |-> [cpuSetSize |-> IF a.bind THEN a.n ELSE 0,
                     cpusWithin |-> SortedSeq(AvailFor(podCpus, a.pref, a.pre)),
                     requiredPolicy |-> IF a.required THEN a.policy ELSE "",
                     numaTotal  |-> IF a.hasHint THEN a.req ELSE Zero,
                     numaAtMost |-> NumaList(FreeNow(podNuma), cfg.nodes)]]
TAlloc ==
  /\ IsEvent("alloc")
  /\ LET a     == ArgsOf(Ev)
         S     == ToSet(Ev.result.cpus)
         split == NumaFn(Ev.result.numa)
     IN /\ IF Ev.result.ok /\ Ev.commit
             THEN podCpus' = Put(podCpus, Ev.pod, S) /\ podNuma' = Put(podNuma, Ev.pod, split)
             ELSE UNCHANGED <<podCpus, podNuma>>
        /\ ObsOK(Ev.obs, AllocOK(podCpus, podNuma, a, Ev.result.ok, S, split) /\ (Ev.commit => CommitLegal(Ev.pod, a)), AllocExpect(a))
  /\ UNCHANGED cfg

TUpdate ==
  /\ IsEvent("update")
  /\ UpdateLegal(Ev.pod, ToSet(Ev.cpus))          \* the harness only delivers legal allocations (assumption)
  /\ podCpus' = Put(podCpus, Ev.pod, ToSet(Ev.cpus))
  /\ podNuma' = Put(podNuma, Ev.pod, NumaFn(Ev.numa))
  /\ ObsOK(Ev.obs, TRUE, "ledger = sum of the live pods")
  /\ UNCHANGED cfg

TRelease ==
  /\ IsEvent("release")
  /\ IF Ev.pod \in Pods
       THEN podCpus' = Drop(podCpus, Ev.pod) /\ podNuma' = Drop(podNuma, Ev.pod)
       ELSE UNCHANGED <<podCpus, podNuma>>
  /\ ObsOK(Ev.obs, TRUE, "ledger = sum of the live pods")
  /\ UNCHANGED cfg

\* C19 (CPU / NUMA part): the scheduler restarts. Every live allocation was persisted on its pod at bind time; the fresh
\* cache is rebuilt from those objects only (any informer order, duplicate adds, same-allocation updates) and must hold
\* exactly the allocations the old scheduler held - an allocation that holds nothing is not restored (and need not be).
HoldsNothing(p) == podCpus[p] = {} /\ \A n \in DOMAIN podNuma[p] : podNuma[p][n].cpu = 0 /\ podNuma[p][n].mem = 0
TRestart ==
  /\ IsEvent("restart")
  /\ LET keep == {p \in DOMAIN podCpus : ~(podCpus[p] = {} /\ DOMAIN podNuma[p] = {})} IN
        /\ podCpus' = [p \in keep |-> podCpus[p]]
        /\ podNuma' = [p \in keep |-> podNuma[p]]
  /\ ObsOK(Ev.obs, TRUE, "fresh cache rebuilt from the persisted objects = the live scheduler's state")
  /\ UNCHANGED cfg

\* the same rebuild run again on another fresh cache came out differently: the demand is the same
TReprobe ==
  /\ IsEvent("reprobe")
  /\ UNCHANGED vars
  /\ ObsOK(Ev.obs, TRUE, "fresh cache rebuilt from the persisted objects = the live scheduler's state")

TTake ==
  /\ IsEvent("take")
  /\ Expect(TakeOK(ToSet(Ev.avail), Ev.n, Ev.result.ok, ToSet(Ev.result.cpus)),
            [ifSuccessful |-> [size |-> Ev.n, within |-> Ev.avail]])
  /\ UNCHANGED vars

TDist ==
  /\ IsEvent("dist")
  /\ LET free == NumaFn(Ev.free)
         hint == ToSet(Ev.hint)
         req  == [cpu |-> Ev.req.cpu, mem |-> Ev.req.mem]
     IN Expect(DistOK(Ev.mode, free, hint, req, Ev.result.ok, NumaFn(Ev.result.numa)),
               [mustSucceed  |-> Divisible(Ev.mode) /\ Enough(free, hint, req),
                hintedFree   |-> [cpu |-> SumOver(free, hint, "cpu"), mem |-> SumOver(free, hint, "mem")],
                ifSuccessful |-> [total |-> req, atMost |-> Ev.free]])
  /\ UNCHANGED vars

TPolicy ==
  /\ IsEvent("policy")
  /\ Expect(PolicyReportOK(Ev.policy, ToSet(Ev.cpus), Ev.result.satisfied),
            [reallySatisfied |-> ReallySatisfied(Ev.policy, ToSet(Ev.cpus))])
  /\ UNCHANGED vars

TraceInit == \E i \in Starts : TraceStart(i) /\ InitWith(Trace[i])
TraceNext == TAlloc \/ TUpdate \/ TRelease \/ TRestart \/ TReprobe \/ TTake \/ TDist \/ TPolicy \/ (SegDone /\ UNCHANGED vars)
TraceSpec == TraceInit /\ [][TraceNext]_<<vars, tvars>>
=============================================================================
