\* all histories of CPU-set Alloc (any allowed set) / Update / Release: 2 pods on a 1x2x2x2 node (8 CPUs),
\* sharing limit 1 and 2, no CPU / CPU 0 reserved
SPECIFICATION HistSpec
CONSTANTS
  Dims <- D1222
  MaxRefs = {1, 2}
  Reserves <- ReserveNoneOrZero
  PodIds = {"p1", "p2"}
  NumaCaps = {0}
  WithCpus = TRUE
  K = 0
  MaxFree = 0
  MaxReq = 0
  Modes = {}
  AsFound = FALSE
INVARIANT RefWithinLimit
INVARIANT LedgerExact
INVARIANT TypeOK
CHECK_DEADLOCK FALSE
