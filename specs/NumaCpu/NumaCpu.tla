------------------------------ MODULE NumaCpu ------------------------------
(***************************************************************************)
(* C06 - CPU and NUMA allocations are exact, disjoint and within capacity. *)
(*                                                                         *)
(* "Constants" of one node (fixed by Init, never changed; held in the      *)
(* record  cfg  so that trace validation can give every recorded segment   *)
(* its own node):                                                          *)
(*   cfg.cpus      set of logical CPU ids                                  *)
(*   cfg.core      CPU id -> physical core id                              *)
(*   cfg.node      CPU id -> NUMA node id                                  *)
(*   cfg.tpc       threads per core (CPUTopology.CPUsPerCore())            *)
(*   cfg.maxRef    sharing limit: how many pods may hold one CPU (>= 1)    *)
(*   cfg.reserved  set of reserved CPU ids (never handed out)              *)
(*   cfg.nodes     set of NUMA node ids                                    *)
(*   cfg.cap       NUMA node id -> [cpu |-> milli-CPU, mem |-> units]      *)
(*                                                                         *)
(* State:                                                                  *)
(*   podCpus  live pod -> set of CPU ids it holds                          *)
(*   podNuma  live pod -> (NUMA node -> [cpu, mem]) amounts it holds       *)
(*   ledger   the node's allocation ledger AS THE CODE REPORTS IT:         *)
(*            ref  : CPU id -> reference count (NodeAllocation.            *)
(*                   allocatedCPUs[c].RefCount, 0 when absent)             *)
(*            numa : NUMA node -> [cpu, mem] (NodeAllocation.              *)
(*                   allocatedResources[n].Resources, 0 when absent)       *)
(*                                                                         *)
(* Two layers:                                                             *)
(*   property level  CpuOK (E, A, P), NumaOK (N1, N2), MustSucceed (N3),   *)
(*                   RefWithinLimit / LedgerExact (R, N4), TakeOK,         *)
(*                   PolicyReportOK and the actions Alloc / Update /       *)
(*                   Release: what every observed result must satisfy      *)
(*                   WHATEVER the algorithm is (the CPU set and the split  *)
(*                   are nondeterministic: any value with the              *)
(*                   post-conditions).  Only this layer decides verdicts.  *)
(*   design level    Distribute / SortedOrders / AsFoundOrder: a           *)
(*                   transcription of tryBestToDistributeEvenly, and       *)
(*                   FullImpl / SpreadImpl: of determineFullPCPUs /        *)
(*                   determineSpreadByPCPUs, checked by MC_NumaCpu over    *)
(*                   exhaustive small domains.                             *)
(***************************************************************************)
EXTENDS Integers, Sequences, FiniteSets, TLC

VARIABLES cfg, podCpus, podNuma, ledger
vars == <<cfg, podCpus, podNuma, ledger>>

Res == {"cpu", "mem"}
Zero == [cpu |-> 0, mem |-> 0]

ToSet(s) == {s[i] : i \in 1..Len(s)}
Max2(a, b) == IF a >= b THEN a ELSE b
Min2(a, b) == IF a <= b THEN a ELSE b
CeilDiv(a, b) == (a + b - 1) \div b

RECURSIVE SumF(_, _)
SumF(f, S) == IF S = {} THEN 0 ELSE LET x == CHOOSE y \in S : TRUE IN f[x] + SumF(f, S \ {x})

(* A "NUMA amount map" is a function  node id -> [cpu, mem] ; nodes that are *)
(* not in its domain hold nothing.  Maps are never compared with = (domains  *)
(* may differ) but pointwise through Amt.                                    *)
Amt(m, n, r)  == IF n \in DOMAIN m THEN m[n][r] ELSE 0
Total(m, r)   == SumF([n \in DOMAIN m |-> m[n][r]], DOMAIN m)
SumOver(m, N, r) == SumF([n \in N |-> Amt(m, n, r)], N)
\* from a list of [node, cpu, mem] records (the JSON shape); several entries for one node add up
NumaFn(list) ==
  [n \in {list[i].node : i \in 1..Len(list)} |->
     [r \in Res |-> SumF([i \in 1..Len(list) |-> IF list[i].node = n THEN list[i][r] ELSE 0], 1..Len(list))]]
NoNuma == NumaFn(<<>>)

(****************************** topology **********************************)
CpusOfCore(k)   == {c \in cfg.cpus : cfg.core[c] = k}
CoresOf(S)      == {cfg.core[c] : c \in S \cap cfg.cpus}
\* (P) what "full physical cores" and "one thread per core" REALLY mean
WholeCores(S)   == S \subseteq cfg.cpus /\ \A k \in CoresOf(S) : CpusOfCore(k) \subseteq S
OnePerCore(S)   == S \subseteq cfg.cpus /\ \A c1 \in S, c2 \in S : c1 # c2 => cfg.core[c1] # cfg.core[c2]
ReallySatisfied(policy, S) == /\ policy = "FullPCPUs"     => WholeCores(S)
                              /\ policy = "SpreadByPCPUs" => OnePerCore(S)

(************************* derived from scratch ***************************)
Pods == DOMAIN podCpus
Holders(pc, c)        == {p \in DOMAIN pc : c \in pc[p]}
RefFS(pc, c)          == Cardinality(Holders(pc, c))
NumaFS(pn, n, r)      == SumF([p \in DOMAIN pn |-> Amt(pn[p], n, r)], DOMAIN pn)
HeldCpus(pc)          == UNION {pc[p] : p \in DOMAIN pc}
HeldNodes(pn)         == UNION {DOMAIN pn[p] : p \in DOMAIN pn}

LRef(L, c) == IF c \in DOMAIN L.ref THEN L.ref[c] ELSE 0

\* the ledger a correct node would report for the pod maps pc / pn
LedgerMatches(L, pc, pn) ==
  /\ \A c \in cfg.cpus \cup DOMAIN L.ref \cup HeldCpus(pc) : LRef(L, c) = RefFS(pc, c)
  /\ \A n \in cfg.nodes \cup DOMAIN L.numa \cup HeldNodes(pn), r \in Res : Amt(L.numa, n, r) = NumaFS(pn, n, r)

(***************************** invariants *********************************)
\* (R) no CPU is held by more pods than the sharing limit allows - in the ledger and in truth
RefWithinLimit == /\ \A c \in cfg.cpus \cup DOMAIN ledger.ref : LRef(ledger, c) <= cfg.maxRef
                  /\ \A c \in cfg.cpus \cup HeldCpus(podCpus) : RefFS(podCpus, c) <= cfg.maxRef
\* (R) the reference count is the number of live pods holding the CPU; (N4) the NUMA ledger is the
\* sum of the live pods' allocations
LedgerExact    == LedgerMatches(ledger, podCpus, podNuma)
\* reserved CPUs are never held
TypeOK == DOMAIN podCpus = DOMAIN podNuma

(******************** (A) free for this pod *******************************)
\* getAvailableCPUs: every set of credited CPUs (the pod's preferred CPUs, the CPUs it may preempt)
\* gives back one reference; a CPU is free when it is not reserved and still below the sharing limit
Credit(c, pref, pre) == (IF c \in pref THEN 1 ELSE 0) + (IF c \in pre THEN 1 ELSE 0)
AvailFor(pc, pref, pre) ==
  {c \in cfg.cpus \ cfg.reserved : Max2(0, RefFS(pc, c) - Credit(c, pref, pre)) < cfg.maxRef}

\* a = [n, bind, policy, required, pref, pre, hasHint, hint, req]
CpuOK(pc, S, a) ==
  /\ Cardinality(S) = a.n                                      \* (E) exactly the requested number
  /\ S \subseteq AvailFor(pc, a.pref, a.pre)                   \* (A) all free for this pod
  /\ a.required => ReallySatisfied(a.policy, S)                \* (P) a required policy reported satisfied really is

(***************************** NUMA level *********************************)
FreeNow(pn) == [n \in cfg.nodes |-> [r \in Res |-> Max2(0, cfg.cap[n][r] - NumaFS(pn, n, r))]]

NumaOK(split, req, free) ==
  /\ \A n \in DOMAIN split \cup DOMAIN free, r \in Res : Amt(split, n, r) <= Amt(free, n, r)   \* (N1)
  /\ \A r \in Res : Total(split, r) = req[r]                                                  \* (N2)
Enough(free, hint, req) == \A r \in Res : SumOver(free, hint, r) >= req[r]

(* one direct call of tryBestToDistributeEvenly.  mode tells how a quantity is *)
(* divisible:  "mem", "cpu" (milli-CPU, no CPU binding)  freely (unit steps);   *)
(* "cpubind" whole CPUs; "fullpcpus" whole physical cores - (N3) is claimed     *)
(* for the freely divisible ones only.                                          *)
Divisible(mode) == mode \in {"mem", "cpu"}
DistOK(mode, free, hint, req, ok, split) ==
  /\ ok => NumaOK(split, req, free)
  /\ ~ok => ~(Divisible(mode) /\ Enough(free, hint, req))      \* (N3) completeness

(**************************** Allocate ************************************)
\* resourceManager.Allocate on the current node state.  CPU binding and a NUMA hint are independent
\* parts; without CPU binding the NUMA amounts are freely divisible (milli-CPU / memory units).
MustSucceed(pn, a) == a.hasHint /\ ~a.bind /\ Enough(FreeNow(pn), a.hint, a.req)
AllocOK(pc, pn, a, ok, S, split) ==
  /\ ok => /\ IF a.bind THEN CpuOK(pc, S, a) ELSE S = {}
           /\ IF a.hasHint THEN NumaOK(split, a.req, FreeNow(pn)) ELSE DOMAIN split = {}
  /\ ~ok => ~MustSucceed(pn, a)

\* the pod's maps after it was given (S, split)
Put(f, pod, v) == [p \in DOMAIN f \cup {pod} |-> IF p = pod THEN v ELSE f[p]]
Drop(f, pod)   == [p \in DOMAIN f \ {pod} |-> f[p]]

\* ledger bookkeeping the way a correct implementation does it (design-level MC only; the trace
\* specification takes ledger' from the log)
LedgerAdd(L, S, split) ==
  [ref  |-> [c \in DOMAIN L.ref \cup S |-> LRef(L, c) + (IF c \in S THEN 1 ELSE 0)],
   numa |-> [n \in DOMAIN L.numa \cup DOMAIN split |-> [r \in Res |-> Amt(L.numa, n, r) + Amt(split, n, r)]]]
LedgerSub(L, S, split) ==
  [ref  |-> [c \in DOMAIN L.ref |-> Max2(0, L.ref[c] - (IF c \in S THEN 1 ELSE 0))],
   numa |-> [n \in DOMAIN L.numa |-> [r \in Res |-> Max2(0, L.numa[n][r] - Amt(split, n, r))]]]
OldCpus(pod) == IF pod \in DOMAIN podCpus THEN podCpus[pod] ELSE {}
OldNuma(pod) == IF pod \in DOMAIN podNuma THEN podNuma[pod] ELSE NoNuma
Replace(pod, S, split) ==
  /\ podCpus' = Put(podCpus, pod, S)
  /\ podNuma' = Put(podNuma, pod, split)
  /\ ledger'  = LedgerAdd(LedgerSub(ledger, OldCpus(pod), OldNuma(pod)), S, split)

\* a committed allocation credits only CPUs the pod itself holds (its previous allocation, released by the
\* commit); crediting other holders' CPUs (victims of a preemption) is a dry run
CommitLegal(pod, a) == (a.pref \cup a.pre) \cap HeldCpus(podCpus) \subseteq OldCpus(pod)

Alloc(pod, a, commit, ok, S, split) ==
  /\ AllocOK(podCpus, podNuma, a, ok, S, split)
  /\ commit => CommitLegal(pod, a)
  /\ IF ok /\ commit THEN Replace(pod, S, split) ELSE UNCHANGED <<podCpus, podNuma, ledger>>
  /\ UNCHANGED cfg

\* informer path: the pod's recorded allocation is delivered (again).  Deliveries are legal: the allocation
\* was made by a scheduler that honoured the sharing limit and the reserved CPUs
UpdateLegal(pod, S) == S \subseteq AvailFor(podCpus, OldCpus(pod), {})
Update(pod, S, split) ==
  /\ UpdateLegal(pod, S)
  /\ Replace(pod, S, split)
  /\ UNCHANGED cfg

\* releasing a pod the node does not know changes nothing
Release(pod) ==
  /\ IF pod \in Pods
       THEN /\ podCpus' = Drop(podCpus, pod)
            /\ podNuma' = Drop(podNuma, pod)
            /\ ledger'  = LedgerSub(ledger, podCpus[pod], podNuma[pod])
       ELSE UNCHANGED <<podCpus, podNuma, ledger>>
  /\ UNCHANGED cfg

(************************ direct calls (pure) *****************************)
\* takeCPUs / takePreferredCPUs: a successful call returns exactly n CPUs, all from the available set
TakeOK(avail, n, ok, S) == ok => Cardinality(S) = n /\ S \subseteq avail
\* satisfiedRequiredCPUBindPolicy: a policy reported satisfied really is
PolicyReportOK(policy, S, satisfied) == satisfied => ReallySatisfied(policy, S)

(***************************** initial state ******************************)
TopoFn(topo, field) ==
  [c \in {topo[i].cpu : i \in 1..Len(topo)} |-> topo[CHOOSE i \in 1..Len(topo) : topo[i].cpu = c][field]]
EmptyLedger(cpus, nodes) == [ref |-> [c \in cpus |-> 0], numa |-> [n \in nodes |-> Zero]]
\* e = [topo (sequence of [cpu, core, node, socket]), tpc, maxRef, reserved (sequence), cap (sequence of [node, cpu, mem])]
CfgOf(e) == [cpus |-> {e.topo[i].cpu : i \in 1..Len(e.topo)}, core |-> TopoFn(e.topo, "core"), node |-> TopoFn(e.topo, "node"),
             tpc |-> e.tpc, maxRef |-> e.maxRef, reserved |-> ToSet(e.reserved),
             nodes |-> DOMAIN NumaFn(e.cap), cap |-> NumaFn(e.cap)]
InitWith(e) ==
  /\ cfg = CfgOf(e)
  /\ podCpus = <<>>
  /\ podNuma = <<>>
  /\ ledger = EmptyLedger({e.topo[i].cpu : i \in 1..Len(e.topo)}, DOMAIN NumaFn(e.cap))

(***************************************************************************)
(* Design level: transcription of tryBestToDistributeEvenly for ONE        *)
(* resource.  free: node id -> amount; order: the hinted node ids in the   *)
(* order the code visits them; q the requested amount.  Amounts of "cpu"   *)
(* are milli-CPU.                                                          *)
(*   splitQuantity:  mem        q / k                                      *)
(*                   cpu        q / k            (milli)                   *)
(*                   cpubind    Value(q) / k  whole CPUs                   *)
(*                   fullpcpus  ((Value(q) / tpc) / k) * tpc  whole CPUs   *)
(*   allocateRes:    min(available, split)                                 *)
(***************************************************************************)
SplitQ(mode, q, k, tpc) ==
  CASE mode \in {"mem", "cpu"} -> q \div k
    [] mode = "cpubind"        -> (CeilDiv(q, 1000) \div k) * 1000
    [] mode = "fullpcpus"      -> ((CeilDiv(q, 1000) \div tpc) \div k) * tpc * 1000
FreeAt(free, n) == IF n \in DOMAIN free THEN free[n] ELSE 0
RECURSIVE DistFrom(_, _, _, _, _, _, _)
DistFrom(mode, tpc, free, order, i, q, acc) ==
  IF i > Len(order) THEN [rem |-> q, split |-> acc]
  ELSE LET s == SplitQ(mode, q, Len(order) - (i - 1), tpc)
           a == Min2(FreeAt(free, order[i]), s)
       IN DistFrom(mode, tpc, free, order, i + 1, q - a, IF a > 0 THEN Put(acc, order[i], a) ELSE acc)
Distribute(mode, tpc, free, order, q) == DistFrom(mode, tpc, free, order, 1, q, <<>>)

\* every order of the hinted nodes that is ascending in the free amount (sort.Slice is not stable: any tie order)
Perms(S) == {p \in [1..Cardinality(S) -> S] : \A i, j \in 1..Cardinality(S) : i # j => p[i] # p[j]}
SortedOrders(free, hint) == {p \in Perms(hint) : \A i \in 1..(Len(p) - 1) : FreeAt(free, p[i]) <= FreeAt(free, p[i + 1])}

\* the order AS FOUND at the pinned commit: sort.Slice (insertion sort below 12 elements) over the ascending
\* node ids with a comparator that indexes the free amounts by SLICE POSITION (0-based) instead of node id
Swap(s, i, j) == [s EXCEPT ![i] = s[j], ![j] = s[i]]
RECURSIVE Sink(_, _, _)
Sink(free, s, j) ==   \* j is the 1-based position; less(j, j-1) compares free[j-1] with free[j-2] (0-based positions)
  IF j > 1 /\ FreeAt(free, j - 1) < FreeAt(free, j - 2) THEN Sink(free, Swap(s, j, j - 1), j - 1) ELSE s
RECURSIVE InsSort(_, _, _)
InsSort(free, s, i) == IF i > Len(s) THEN s ELSE InsSort(free, Sink(free, s, i), i + 1)
RECURSIVE AscSeq(_)
AscSeq(S) == IF S = {} THEN <<>> ELSE LET m == CHOOSE x \in S : \A y \in S : x <= y IN <<m>> \o AscSeq(S \ {m})
AsFoundOrder(free, hint) == InsSort(free, AscSeq(hint), 2)

\* transcription of determineFullPCPUs / determineSpreadByPCPUs
FullImpl(S)   == Cardinality(CoresOf(S)) * cfg.tpc = Cardinality(S)
SpreadImpl(S) == Cardinality(CoresOf(S)) = Cardinality(S)
=============================================================================
