\* every subset of the 8 CPUs of a 2x2x2x1 node as the available set, n in 1..8, 3 bind policies, required or not
SPECIFICATION TableSpec
CONSTANTS
  Dims <- D2221
  MaxRefs = {1, 2}
  Reserves <- NoReserve
  PodIds = {}
  NumaCaps = {0}
  WithCpus = FALSE
  K = 0
  MaxFree = 0
  MaxReq = 0
  Modes = {}
  AsFound = FALSE
INVARIANT TableInv
CHECK_DEADLOCK FALSE
