\* thorough: every tree with <=4 nodes (depth <=3); cpusets over 3 CPUs, limits {1,2,3,Unl}; cache cold or fully warm
SPECIFICATION MCSpec
CONSTANTS
  CacheMerged = TRUE
  OwnUnion = TRUE
  MaxRewrites = 1
  MaxNodes = 4
  CPUs = {0, 1, 2}
  LimitVals = {1, 2, 3, 99}
  Kinds = {"cpuset", "limit"}
  Algos = {"leveled", "suppress"}
  CacheMode = "coldwarm"
  ExternalSteps = FALSE
INVARIANT V
INVARIANT TNAtEnd
INVARIANT CacheAgrees
PROPERTY StepIsPropStep
CHECK_DEADLOCK FALSE
