\* two consecutive rewrites from a cold cache with arbitrary expiry in between, the BE mechanisms (suppress / recover) alternating freely,
\* and the environment replacing the file contents between the rewrites: the cache carried over agrees with the files (2 CPUs: the
\* environment step multiplies the successors; MC_quick covers every consistent cache start over 3 CPUs). Run with coverage.
SPECIFICATION MCSpec
CONSTANTS
  CacheMerged = TRUE
  OwnUnion = TRUE
  MaxRewrites = 2
  MaxNodes = 2
  CPUs = {0, 1}
  LimitVals = {1, 2, 99}
  Kinds = {"cpuset", "limit"}
  Algos = {"leveled", "suppress", "recover"}
  CacheMode = "cold"
  ExternalSteps = TRUE
INVARIANT V
INVARIANT TNAtEnd
INVARIANT CacheAgrees
PROPERTY StepIsPropStep
CHECK_DEADLOCK FALSE
