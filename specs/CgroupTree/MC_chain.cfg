\* two consecutive rewrites from a cold cache with arbitrary expiry in between: the cache carried over agrees with the files
SPECIFICATION MCSpec
CONSTANTS
  CacheMerged = TRUE
  OwnUnion = TRUE
  MaxRewrites = 2
  MaxNodes = 2
  CPUs = {0, 1, 2}
  LimitVals = {1, 2, 99}
  Kinds = {"cpuset", "limit"}
  Algos = {"leveled", "suppress"}
  CacheMode = "cold"
INVARIANT V
INVARIANT TNAtEnd
INVARIANT CacheAgrees
PROPERTY StepIsPropStep
CHECK_DEADLOCK FALSE
