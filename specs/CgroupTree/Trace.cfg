SPECIFICATION TraceSpec
CONSTANTS
  CacheMerged = TRUE
  OwnUnion = TRUE
  MaxRewrites = 1
INVARIANT V
CONSTRAINT Report
CHECK_DEADLOCK FALSE
