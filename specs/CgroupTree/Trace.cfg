SPECIFICATION TraceSpec
CONSTANTS
  CacheMerged = TRUE
  OwnUnion = TRUE
  MaxRewrites = 1
\* property invariants as CONSTRAINTs before Report (docs/FAMILY_GUIDE.md): a violating recorded state cuts only its own segment
CONSTRAINT VT
CONSTRAINT Report
CHECK_DEADLOCK FALSE
