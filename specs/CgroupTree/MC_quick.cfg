\* <=3 nodes; cpusets over 3 CPUs, limits {1,2,3,Unl}; any subset of files remembered by the cache; one rewrite
SPECIFICATION MCSpec
CONSTANTS
  CacheMerged = TRUE
  OwnUnion = TRUE
  MaxRewrites = 1
  MaxNodes = 3
  CPUs = {0, 1, 2}
  LimitVals = {1, 2, 3, 99}
  Kinds = {"cpuset", "limit"}
  Algos = {"leveled", "suppress", "recover"}
  CacheMode = "subsets"
  ExternalSteps = FALSE
INVARIANT V
INVARIANT TNAtEnd
INVARIANT CacheAgrees
PROPERTY StepIsPropStep
CHECK_DEADLOCK FALSE
