\* thorough: <=3 nodes, cpusets over 4 CPUs (all of the property's value domain), limits {0,1,2,3,Unl}; any subset of files remembered by the cache
SPECIFICATION MCSpec
CONSTANTS
  CacheMerged = TRUE
  OwnUnion = TRUE
  MaxRewrites = 1
  MaxNodes = 3
  CPUs = {0, 1, 2, 3}
  LimitVals = {0, 1, 2, 3, 99}
  Kinds = {"cpuset", "limit"}
  Algos = {"leveled", "suppress"}
  CacheMode = "subsets"
  ExternalSteps = FALSE
INVARIANT V
INVARIANT TNAtEnd
INVARIANT CacheAgrees
PROPERTY StepIsPropStep
CHECK_DEADLOCK FALSE
