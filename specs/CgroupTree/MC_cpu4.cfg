\* thorough: <=3 nodes, cpusets over 4 CPUs (all of the property's value domain), limits {0,1,2,3,Unl}; cache cold or fully warm
SPECIFICATION MCSpec
CONSTANTS
  CacheMerged = TRUE
  MaxRewrites = 1
  MaxNodes = 3
  CPUs = {0, 1, 2, 3}
  LimitVals = {0, 1, 2, 3, 99}
  Kinds = {"cpuset", "limit"}
  CacheMode = "coldwarm"
INVARIANT V
INVARIANT TNAtEnd
INVARIANT CacheAgrees
PROPERTY StepIsPropStep
CHECK_DEADLOCK FALSE
