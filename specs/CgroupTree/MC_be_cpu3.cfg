\* the BE cgroups over three consecutive rounds: suppress (loose union top-down, new cpuset bottom-up) and recover (the pool cpuset in
\* one top-down pass) alternating freely on the same executor, arbitrary expiry and the environment replacing the file contents in between
SPECIFICATION MCSpec
CONSTANTS
  CacheMerged = TRUE
  OwnUnion = TRUE
  MaxRewrites = 3
  MaxNodes = 2
  CPUs = {0, 1, 2}
  LimitVals = {1, 2, 99}
  Kinds = {"cpuset"}
  Algos = {"suppress", "recover"}
  CacheMode = "cold"
  ExternalSteps = TRUE
INVARIANT V
INVARIANT TNAtEnd
INVARIANT CacheAgrees
PROPERTY StepIsPropStep
CHECK_DEADLOCK FALSE
