\* 1-3 nodes: cpusets over 3 CPUs, limits {1,2,3,Unl}; cold and fully warm cache
SPECIFICATION GenSpec
CONSTANTS
  CacheMerged = TRUE
  OwnUnion = TRUE
  MaxRewrites = 1
  MinNodes = 1
  MaxNodes = 3
  CPUs = {0, 1, 2}
  LimitVals = {1, 2, 3, 99}
  Kinds = {"cpuset", "limit"}
  Algos = {"leveled"}
  CacheMode = "coldwarm"
  ExternalSteps = FALSE
INVARIANT GenPrint
CHECK_DEADLOCK FALSE
