\* 3 nodes (chain and star): cpusets over 2 CPUs, limits {1,2,Unl}; cold and fully warm cache
SPECIFICATION GenSpec
CONSTANTS
  CacheMerged = TRUE
  OwnUnion = TRUE
  MaxRewrites = 1
  MinNodes = 3
  MaxNodes = 3
  CPUs = {0, 1}
  LimitVals = {1, 2, 99}
  Kinds = {"cpuset", "limit"}
  Algos = {"leveled"}
  CacheMode = "coldwarm"
  ExternalSteps = FALSE
INVARIANT GenPrint
CHECK_DEADLOCK FALSE
