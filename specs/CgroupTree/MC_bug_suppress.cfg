\* NOT part of the check: applyCPUSetWithNonePolicy as found (phase 1 writes the BE root's old cpuset \cup new to every cgroup).
\* TLC reports TNAtEnd violated (the N half), e.g. root {0,1}, child {0}, new cpuset {0}: the child is written twice.
SPECIFICATION MCSpec
CONSTANTS
  CacheMerged = TRUE
  OwnUnion = FALSE
  MaxRewrites = 1
  MaxNodes = 2
  CPUs = {0, 1}
  LimitVals = {1, 2, 99}
  Kinds = {"cpuset"}
  Algos = {"suppress"}
  CacheMode = "cold"
  ExternalSteps = FALSE
INVARIANT V
INVARIANT TNAtEnd
PROPERTY StepIsPropStep
CHECK_DEADLOCK FALSE
