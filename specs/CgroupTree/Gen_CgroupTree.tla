--------------------------- MODULE Gen_CgroupTree ---------------------------
(* Input generation: every (tree, kind, old, target, cache start) of the    *)
(* bounded MC universe printed as one JSON script per line; the Go harness  *)
(* executes each on the real code.  A warm cache is produced the way the    *)
(* real agent produces it: by a previous rewrite (here: to the same values) *)
(* followed by the expiry of the entries that are to be absent.             *)
EXTENDS MC_CgroupTree, Json
CONSTANTS MinNodes
VARIABLE hist

Enc(k, a) == [n \in 1..Len(a) |-> IF k = "cpuset" THEN SetToSortSeq(a[n], <) ELSE a[n]]

Script(p, k, o, t, c) ==
  LET all    == 1..Len(p)
      absent == {n \in all : ~c[n].has}
      reset  == [op |-> "reset", par |-> p, kind |-> k, old |-> Enc(k, o)]
      begin(x) == [op |-> "begin", target |-> Enc(k, x)]
  IN IF absent = all THEN <<reset, begin(t)>>
     ELSE IF absent = {} THEN <<reset, begin(o), begin(t)>>
     ELSE <<reset, begin(o), [op |-> "expire", nodes |-> SetToSortSeq(absent, <)], begin(t)>>

GenInit ==
  \E p \in {q \in AllTrees : Len(q) >= MinNodes}, k \in Kinds :
    LET VA == ValidAssign(p, k) IN
    \E o \in VA, t \in VA :
      \E c \in CacheStarts(p, k, o) :
        /\ hist = Script(p, k, o, t, c)
        /\ par = p /\ kind = k
        /\ val = o /\ old = o /\ target = t /\ written = {} /\ phase = "idle"
        /\ cache = c /\ pc = <<"idle">> /\ rewrites = 0 /\ algo = "leveled"

GenSpec  == GenInit /\ [][UNCHANGED <<vars, hist>>]_<<vars, hist>>
GenPrint == PrintT(ToJson(hist))
=============================================================================
