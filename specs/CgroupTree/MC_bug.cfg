\* NOT part of the check: the design as found in updater.go (pass 1 remembers the TARGET after writing the MERGED value).
\* TLC reports TNAtEnd violated, e.g. one node, cpuset {0} -> {1}: the file ends at {0,1}.
SPECIFICATION MCSpec
CONSTANTS
  CacheMerged = FALSE
  OwnUnion = TRUE
  MaxRewrites = 1
  MaxNodes = 2
  CPUs = {0, 1}
  LimitVals = {1, 2, 99}
  Kinds = {"cpuset", "limit"}
  Algos = {"leveled"}
  CacheMode = "cold"
  ExternalSteps = FALSE
INVARIANT V
INVARIANT TNAtEnd
PROPERTY StepIsPropStep
CHECK_DEADLOCK FALSE
