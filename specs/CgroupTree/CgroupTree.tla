----------------------------- MODULE CgroupTree -----------------------------
(***************************************************************************)
(* C12 - Hierarchical cgroup rewrites never pass through an invalid        *)
(* hierarchy.                                                              *)
(*                                                                         *)
(* A rewrite takes a parent-children subtree of cgroup directories, each   *)
(* holding ONE file of the same hierarchical setting (cpuset.cpus, or a    *)
(* limit/protection: cpu.cfs_quota_us | cpu.max, memory.min/low/high),     *)
(* from an assignment `old` to an assignment `target`, one file write at   *)
(* a time.                                                                 *)
(*                                                                         *)
(* PART 1 (property level - the only part that decides verdicts)           *)
(*   Begin(t)     a rewrite towards the hierarchy-valid assignment t starts*)
(*   Write(n, v)  ANY write of any value to the file of node n             *)
(*   Call         an updater call that wrote nothing                       *)
(*   Done         the rewrite is declared complete                         *)
(*   External(a)  BETWEEN rewrites something else (kubelet, an operator,   *)
(*                an interrupted earlier run of the agent) left the files  *)
(*                at another hierarchy-valid assignment a                  *)
(*  (V) after EVERY single write the hierarchy is valid (every prefix of   *)
(*      the write sequence is a possible crash point):                     *)
(*        cpuset : val[child] \subseteq val[parent]                        *)
(*        limit  : val[child] <= val[parent]        (Unlimited = top)      *)
(*  (T) at Done every file holds its target value                          *)
(*  (N) at Done no file whose old value equals its target was written      *)
(*                                                                         *)
(* PART 2 (design level - HOW resourceexecutor.LeveledUpdateBatch does it; *)
(* checked by MC to establish V, T, N; never a verdict on the code)        *)
(*   pass 1, top-down   : per file, if the executor's cache does not       *)
(*                        already hold the target: read the file, and if   *)
(*                        the target is looser (cpuset: not a subset of    *)
(*                        the current; limit: larger) write the MERGED     *)
(*                        value (cpuset: union; limit: the target)         *)
(*   pass 2, bottom-up  : per file, if the cache does not hold the target: *)
(*                        write the target unless the file already has it  *)
(*   the cache remembers per file the value the executor believes the file *)
(*   holds; CacheMerged selects WHAT pass 1 remembers after a merged write:*)
(*     TRUE  the value it wrote (the design that satisfies T)              *)
(*     FALSE the target (transcription of updater.go MergeFuncUpdateCgroup *)
(*           as found: `return resource, cgroupFileWrite(.., mergedValue)`)*)
(*                                                                         *)
(* PART 2b (design level - cpusuppress.applyCPUSetWithNonePolicy): ONE new *)
(* cpuset for every BE cgroup; phase 1 widens top-down (directory walk     *)
(* order), phase 2 writes the new cpuset in the reverse order; every write *)
(* goes through the cacheable UpdateBatch (skip if the cache holds the     *)
(* value, else write-if-different).  OwnUnion selects what phase 1 writes: *)
(*     TRUE  each cgroup's OWN current cpuset \cup new (satisfies N)        *)
(*     FALSE the BE root's old cpuset \cup new, the same for every cgroup   *)
(*           (transcription of cpu_suppress.go as found)                   *)
(*                                                                         *)
(* PART 2c (design level - cpusuppress.recoverCPUSetIfNeed /               *)
(* recoverCPUSetForBECPUManager, the path taken when the cpuset policy is  *)
(* left): ONE cpuset, the node's whole BE pool, for every BE cgroup,       *)
(* written in a SINGLE top-down pass through the cacheable UpdateBatch.    *)
(* That is a valid order exactly when the value covers what every cgroup   *)
(* holds (pure widening), which is the start condition modelled here.      *)
(* The code takes this path also when the pool has SHIFTED (an LSE pod took *)
(* CPUs the BE cgroups hold): the BE root is then written below its        *)
(* children - recorded finding C12-recover-writes-shifted-pool-top-down,   *)
(* reproduced on the real code by the trace check.  The repair is PART 2b  *)
(* with the pool as the new cpuset (loose union top-down, pool bottom-up), *)
(* which MC shows valid for every target (proposed_fixes/C12b).            *)
(* Between rewrites IExternal replaces the file contents; the cache entry  *)
(* of a file changed behind the executor is gone (expired, or the agent    *)
(* restarted) - see the assumptions in lib/props/C12.py.                   *)
(***************************************************************************)
EXTENDS Integers, Sequences, FiniteSets, SequencesExt

CONSTANTS
  CacheMerged,    \* BOOLEAN, see above (PART 2)
  OwnUnion,       \* BOOLEAN, see above (PART 2b)
  MaxRewrites     \* how many consecutive rewrites one behaviour performs (cache carried over)

Unl == 99                          \* "unlimited" (-1 / max / MaxInt64): top of the limit order

VARIABLES
  par,      \* <<0, p2, .., pN>> : par[n] = parent of node n inside the subtree (0: the subtree root); par[n] < n
  kind,     \* "cpuset" | "limit"
  val,      \* node -> value currently in the file      (cpuset: set of CPU ids; limit: Nat, Unl = unlimited)
  old,      \* node -> value when the current rewrite began
  target,   \* node -> value the current rewrite must reach
  written,  \* nodes whose file has been written during the current rewrite
  phase     \* "idle" | "busy"
pvars == <<par, kind, val, old, target, written, phase>>

Nodes == 1..Len(par)

Leq(k, a, b) == IF k = "cpuset" THEN a \subseteq b ELSE a <= b

\* the hierarchy is one the kernel would accept (as the property states it)
HierValid(p, k, a) == \A n \in 1..Len(p) : p[n] # 0 => Leq(k, a[n], a[p[n]])

RECURSIVE Depth(_, _)
Depth(p, n) == IF p[n] = 0 THEN 1 ELSE 1 + Depth(p, p[n])

----------------------------------------------------------------------------
(* PART 1 : property level *)

V == HierValid(par, kind, val)                                     \* state invariant: holds after every write
T == \A n \in Nodes : val[n] = target[n]
N == \A n \in Nodes : old[n] = target[n] => n \notin written

Begin(t) ==
  /\ phase = "idle"
  /\ DOMAIN t = Nodes
  /\ HierValid(par, kind, t)
  /\ target' = t /\ old' = val /\ written' = {} /\ phase' = "busy"
  /\ UNCHANGED <<par, kind, val>>

Write(n, v) ==
  /\ phase = "busy"
  /\ n \in Nodes
  /\ val' = [val EXCEPT ![n] = v]
  /\ written' = written \cup {n}
  /\ UNCHANGED <<par, kind, old, target, phase>>

Call == phase = "busy" /\ UNCHANGED pvars

Done ==
  /\ phase = "busy"
  /\ T
  /\ N
  /\ phase' = "idle"
  /\ UNCHANGED <<par, kind, val, old, target, written>>

\* between rewrites: the environment leaves another hierarchy-valid assignment in the files
External(a) ==
  /\ phase = "idle"
  /\ DOMAIN a = Nodes
  /\ HierValid(par, kind, a)
  /\ val' = a
  /\ UNCHANGED <<par, kind, old, target, written, phase>>

\* every step of a conforming implementation is one of these (used as an action property on PART 2)
PropStep ==
  \/ Begin(target')
  \/ \E n \in Nodes : Write(n, val'[n])
  \/ Call
  \/ Done
  \/ External(val')

----------------------------------------------------------------------------
(* PART 2 : design level (LeveledUpdateBatch) *)

VARIABLES
  cache,    \* node -> [has, v] : has = FALSE: nothing remembered (never written, or expired); else v = the value the
            \*         executor believes the file holds (ResourceCache, keyed by file path)
  pc,       \* <<"idle">> | <<"merge", i>> | <<"exact", i>> | <<"widen", i>> | <<"narrow", i>> | <<"cover", i>> | <<"end">>
  rewrites, \* number of rewrites begun so far
  algo      \* "leveled" (PART 2) | "suppress" (PART 2b) | "recover" (PART 2c)
ivars == <<cache, pc, rewrites, algo>>
vars  == <<pvars, ivars>>

NoEnt(k) == [has |-> FALSE, v |-> IF k = "cpuset" THEN {} ELSE 0]
Ent(x)   == [has |-> TRUE, v |-> x]

\* levels[i] of the Go call = the nodes of depth i+1, each level in node order
MergeOrder(p) == LET k(n) == 10 * Depth(p, n) + n                                   \* pass 1: upper -> lower
                 IN SetToSortSeq(1..Len(p), LAMBDA a, b : k(a) < k(b))
ExactOrder(p) == LET k(n) == 10 * (10 - Depth(p, n)) + n                            \* pass 2: lower -> upper
                 IN SetToSortSeq(1..Len(p), LAMBDA a, b : k(a) < k(b))

NeedUpdate(n) == ~cache[n].has \/ cache[n].v # target[n]           \* executor.needUpdate (forced periodic rewrite disabled)

\* updater.go merge conditions
NeedMerge(k, cur, new) == IF k = "cpuset" THEN ~(new \subseteq cur)                \* MergeConditionIfCPUSetIsLooser
                                           ELSE new > cur                          \* ...IfValueIsLarger / IfCFSQuotaIsLarger
Merged(k, cur, new)    == IF k = "cpuset" THEN cur \cup new ELSE new

MergeStep(n) ==
  IF ~NeedUpdate(n) THEN UNCHANGED <<val, written, cache>>
  ELSE IF NeedMerge(kind, val[n], target[n])
       THEN LET m == Merged(kind, val[n], target[n]) IN
            /\ val' = [val EXCEPT ![n] = m]
            /\ written' = written \cup {n}
            /\ cache' = [cache EXCEPT ![n] = Ent(IF CacheMerged THEN m ELSE target[n])]
       ELSE /\ cache' = [cache EXCEPT ![n] = Ent(val[n])]   \* remembers what it read, writes nothing
            /\ UNCHANGED <<val, written>>

ExactStep(n) ==
  IF ~NeedUpdate(n) THEN UNCHANGED <<val, written, cache>>
  ELSE /\ cache' = [cache EXCEPT ![n] = Ent(target[n])]
       /\ IF val[n] # target[n]                              \* cgroupFileWriteIfDifferent
          THEN val' = [val EXCEPT ![n] = target[n]] /\ written' = written \cup {n}
          ELSE UNCHANGED <<val, written>>

\* a = the mechanism of THIS rewrite: the BE cgroups are rewritten by "suppress" and "recover" rounds in turn (same executor, same
\* cache), a leveled subtree only by "leveled" ones
IBegin(t, expired, a) ==
  /\ pc = <<"idle">>
  /\ rewrites < MaxRewrites
  /\ IF algo = "leveled" THEN a = "leveled" ELSE a \in {"suppress", "recover"}
  /\ a \in {"suppress", "recover"} => kind = "cpuset" /\ t[1] # {} /\ \A n \in Nodes : t[n] = t[1]   \* one non-empty cpuset for all
  /\ a = "recover" => \A n \in Nodes : val[n] \subseteq t[n]                            \* the BE pool covers what the cgroups hold
  /\ Begin(t)
  /\ cache' = [n \in Nodes |-> IF n \in expired THEN NoEnt(kind) ELSE cache[n]]
  /\ pc' = CASE a = "leveled" -> <<"merge", 1>> [] a = "suppress" -> <<"widen", 1>> [] OTHER -> <<"cover", 1>>
  /\ rewrites' = rewrites + 1
  /\ algo' = a

IMerge ==
  /\ pc[1] = "merge"
  /\ MergeStep(MergeOrder(par)[pc[2]])
  /\ pc' = IF pc[2] < Len(par) THEN <<"merge", pc[2] + 1>> ELSE <<"exact", 1>>
  /\ UNCHANGED <<par, kind, old, target, phase, rewrites, algo>>

IExact ==
  /\ pc[1] = "exact"
  /\ ExactStep(ExactOrder(par)[pc[2]])
  /\ pc' = IF pc[2] < Len(par) THEN <<"exact", pc[2] + 1>> ELSE <<"end">>
  /\ UNCHANGED <<par, kind, old, target, phase, rewrites, algo>>

IDone ==
  /\ pc = <<"end">>
  /\ phase' = "idle"
  /\ pc' = <<"idle">>
  /\ UNCHANGED <<par, kind, val, old, target, written, cache, rewrites, algo>>

(* PART 2b : applyCPUSetWithNonePolicy *)

\* GetBECPUSetPathsByMaxDepth: filepath.Walk = depth-first, a directory before its entries, entries in name (= node) order
RECURSIVE PreOrder(_, _)
PreOrder(p, n) ==
  LET kids == SetToSortSeq({c \in 1..Len(p) : p[c] = n}, <)
      F[i \in 0..Len(kids)] == IF i = 0 THEN <<n>> ELSE F[i - 1] \o PreOrder(p, kids[i])
  IN F[Len(kids)]

\* executor.UpdateBatch(cacheable = true, u): updateByCache
ByCache(n, u) ==
  IF cache[n].has /\ cache[n].v = u THEN UNCHANGED <<val, written, cache>>
  ELSE /\ cache' = [cache EXCEPT ![n] = Ent(u)]
       /\ IF val[n] # u                                      \* cgroupFileWriteIfDifferent
          THEN val' = [val EXCEPT ![n] = u] /\ written' = written \cup {n}
          ELSE UNCHANGED <<val, written>>

\* old[1] stands for adjustByCPUSet's oldCPUSet = the BE qos cgroup's cpuset when the rewrite began
SWiden ==
  /\ pc[1] = "widen"
  /\ LET n == PreOrder(par, 1)[pc[2]] IN ByCache(n, (IF OwnUnion THEN val[n] ELSE old[1]) \cup target[n])
  /\ pc' = IF pc[2] < Len(par) THEN <<"widen", pc[2] + 1>> ELSE <<"narrow", 1>>
  /\ UNCHANGED <<par, kind, old, target, phase, rewrites, algo>>

SNarrow ==
  /\ pc[1] = "narrow"
  /\ LET n == Reverse(PreOrder(par, 1))[pc[2]] IN ByCache(n, target[n])
  /\ pc' = IF pc[2] < Len(par) THEN <<"narrow", pc[2] + 1>> ELSE <<"end">>
  /\ UNCHANGED <<par, kind, old, target, phase, rewrites, algo>>

(* PART 2c : recoverCPUSetIfNeed - the pool cpuset for every BE cgroup, one top-down pass *)
SCover ==
  /\ pc[1] = "cover"
  /\ LET n == PreOrder(par, 1)[pc[2]] IN ByCache(n, target[n])
  /\ pc' = IF pc[2] < Len(par) THEN <<"cover", pc[2] + 1>> ELSE <<"end">>
  /\ UNCHANGED <<par, kind, old, target, phase, rewrites, algo>>

\* between rewrites the files are replaced; the entries of the files that changed behind the executor are gone
IExternal(a) ==
  /\ pc = <<"idle">>
  /\ External(a)
  /\ cache' = [n \in Nodes |-> IF a[n] # val[n] THEN NoEnt(kind) ELSE cache[n]]
  /\ UNCHANGED <<pc, rewrites, algo>>

\* what MC establishes about the design
TNAtEnd        == pc = <<"end">> => T /\ N
\* between rewrites the cache agrees with the files (so "entry absent or equal to the file" is the general start state)
CacheAgrees    == pc = <<"idle">> => \A n \in Nodes : cache[n].has => cache[n].v = val[n]
StepIsPropStep == [][PropStep]_pvars
=============================================================================
