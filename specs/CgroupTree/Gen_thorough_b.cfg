\* 2-3 nodes: any subset of the files remembered by the cache (partial expiry); cpusets over 2 CPUs, limits {1,2,Unl}
SPECIFICATION GenSpec
CONSTANTS
  CacheMerged = TRUE
  OwnUnion = TRUE
  MaxRewrites = 1
  MinNodes = 2
  MaxNodes = 3
  CPUs = {0, 1}
  LimitVals = {1, 2, 99}
  Kinds = {"cpuset", "limit"}
  Algos = {"leveled"}
  CacheMode = "subsets"
  ExternalSteps = FALSE
INVARIANT GenPrint
CHECK_DEADLOCK FALSE
