--------------------------- MODULE MC_CgroupTree ---------------------------
(* Exhaustive bounded model checking of the LeveledUpdateBatch design:      *)
(* every tree with <= MaxNodes nodes and depth <= 3, every hierarchy-valid  *)
(* old and target assignment over the small domains, every cache start      *)
(* allowed by CacheMode; (V) on every reachable state = every crash point,  *)
(* (T),(N) at the end, every step a property-level step.                    *)
EXTENDS CgroupTree, TLC
CONSTANTS
  MaxNodes,     \* <= 4
  CPUs,         \* cpuset values are SUBSET CPUs
  LimitVals,    \* limit values, e.g. {1, 2, 3, 99}
  Kinds,        \* subset of {"cpuset", "limit"}
  Algos,        \* subset of {"leveled", "suppress", "recover"} (the last two alternate freely inside one behaviour)
  CacheMode,    \* "cold": no entry | "coldwarm": none or all files remembered | "subsets": any subset of files remembered
  ExternalSteps \* BOOLEAN: may the environment replace the file contents between two rewrites

MaxDepth == 3

\* parent vectors: par[1] = 0, 1 <= par[n] < n, depth <= 3 (isomorphic orderings kept on purpose: they vary the in-level order)
TreesOf(k) == {p \in [1..k -> 0..(k - 1)] :
                 /\ p[1] = 0
                 /\ \A n \in 2..k : p[n] >= 1 /\ p[n] < n
                 /\ \A n \in 1..k : Depth(p, n) <= MaxDepth}
AllTrees == UNION {TreesOf(k) : k \in 1..MaxNodes}

ValsOf(k) == IF k = "cpuset" THEN SUBSET CPUs ELSE LimitVals
ValidAssign(p, k) == {a \in [1..Len(p) -> ValsOf(k)] : HierValid(p, k, a)}

CacheStarts(p, k, o) ==
  LET remembered(S) == [n \in 1..Len(p) |-> IF n \in S THEN Ent(o[n]) ELSE NoEnt(k)] IN
  CASE CacheMode = "cold"     -> {remembered({})}
    [] CacheMode = "coldwarm" -> {remembered({}), remembered(1..Len(p))}
    [] CacheMode = "subsets"  -> {remembered(S) : S \in SUBSET (1..Len(p))}

MCInit ==
  \E p \in AllTrees, k \in Kinds, a \in Algos :
    \E o \in ValidAssign(p, k) :
      \E c \in CacheStarts(p, k, o) :
        /\ a \in {"suppress", "recover"} => k = "cpuset"
        /\ algo = a
        /\ par = p /\ kind = k
        /\ val = o /\ old = o /\ target = o /\ written = {} /\ phase = "idle"
        /\ cache = c /\ pc = <<"idle">> /\ rewrites = 0

MCNext ==
  \/ /\ pc = <<"idle">> /\ rewrites < MaxRewrites          \* (guards first: TLC enumerates the quantifier before IBegin's own guards)
     /\ \E t \in ValidAssign(par, kind), a \in Algos :
          \E e \in (IF rewrites = 0 THEN {{}} ELSE SUBSET Nodes) : IBegin(t, e, a)
  \/ /\ pc = <<"idle">> /\ rewrites >= 1 /\ rewrites < MaxRewrites /\ ExternalSteps    \* between two rewrites
     /\ \E x \in ValidAssign(par, kind) : x # val /\ IExternal(x)
  \/ IMerge
  \/ IExact
  \/ SWiden
  \/ SNarrow
  \/ SCover
  \/ IDone

MCSpec == MCInit /\ [][MCNext]_vars
=============================================================================
