-------------------------- MODULE CgroupTreeTrace --------------------------
(* Trace validation for C12.  One segment = one cgroup subtree under a temp *)
(* cgroup root and one executor (so its cache is carried across rewrites):  *)
(*   reset  {par, kind, old, ...}   the tree and the file contents at start *)
(*   begin  {target}                the REAL rewrite is started             *)
(*   call   {written, files}        one per individual updater call of the  *)
(*                                  real code: `files` = projection of ALL  *)
(*                                  files after the call, `written` = the   *)
(*                                  files whose mtime moved during the call *)
(*   done   {files}                 the real rewrite returned               *)
(*   expire {nodes}                 cache entries dropped between rewrites  *)
(*   external {files}               between rewrites something else put the *)
(*                                  files at `files` (hierarchy-valid)      *)
(*   restart                        the agent restarted: a fresh plugin     *)
(*                                  object and executor on the same files   *)
(* Two callers of one executor (leveled driver, `begin` with target2/at): a *)
(* second caller enters LeveledUpdateBatch after the at-th updater call of  *)
(* the first batch.  Where the executor makes it wait, its batch is simply  *)
(* the next rewrite of the segment.  Where it gets in at once, its begin /  *)
(* done carry nested = TRUE and surround its calls inside the first batch:  *)
(* (V) is demanded after every write of either batch, (T) of the nested     *)
(* batch at its done, and at the done of the batch it overlapped the files  *)
(* hold the target of one of the two; (N) is not demanded of overlapping    *)
(* batches.  (Concurrency is outside C12's quantifier: an extra.)           *)
(* A begin of the BE driver says `how` the real round was entered: through  *)
(* the cpuset policy (a cpuset of the round's own choosing) or through one  *)
(* of the paths that LEAVE the cpuset policy (feature disabled, cfsQuota    *)
(* policy, BECPUManager), whose target is the node's BE pool (`cpus` of the *)
(* reset event) for every BE cgroup.                                        *)
(* Only PART 1 of CgroupTree (property level) is used: any write is         *)
(* allowed, (V) must hold after every one of them, (T) and (N) at done.     *)
(* File values arrive as JSON: cpuset = sorted array of CPU ids, limit =    *)
(* number with 99 = unlimited; an unparsable file is logged as -1 / [-1]    *)
(* and is no value of the domain (WellTyped rejects it).                    *)
EXTENDS CgroupTree, TraceCommon

\* Recorded finding C12-suppress-union-rewrites-unchanged (known_findings.json): the loose pass of applyCPUSetWithNonePolicy writes
\* (BE root's old cpuset \cup new) into EVERY BE cgroup and the tight pass writes the new cpuset back, also where the cgroup held
\* the new cpuset all along.  lib/pipeline.py validates the segments rejected for it a second time with this switch on: exactly
\* those two writes are then no longer counted by clause (N); any other write to an unchanged file, (V) and (T) stay demanded.
TolerateUnion == "VERIF_TOLERATE_C12_UNION" \in DOMAIN IOEnv

\* Recorded finding C12-recover-writes-shifted-pool-top-down: the paths that recover the BE cgroups to the BE pool
\* (recoverCPUSetIfNeed, recoverCPUSetForBECPUManager; under kubelet's static policy also every cpuset round, which recovers the
\* upper levels and then writes the containers) write the pool in ONE top-down pass.  Where the pool no longer covers what a BE
\* cgroup holds (an LSE pod took CPUs meanwhile: a SHIFTED pool) a parent is written below its children.  With this switch on,
\* clause (V) is not demanded of the states of exactly that write sequence: a rewrite entered through one of these paths, towards
\* a pool that does not cover the old values, as long as every write so far put a cgroup's target into a cgroup whose parent
\* already holds its target.  (T), (N), (V) of every other state stay demanded.
TolerateRecover == "VERIF_TOLERATE_C12_RECOVER" \in DOMAIN IOEnv
RecoverHows == {"disabled", "cfsquota", "becpumgr", "static"}
VARIABLE excused    \* the current rewrite is, so far, the single top-down pass of a recover to a shifted pool (FALSE unless TolerateRecover)

\* (V) as Trace.cfg constrains it
VT == V \/ excused

VARIABLE strict     \* nodes that took, in the current rewrite, a write NOT explained by the recorded union pattern
                    \* (= `written` unless TolerateUnion)
VARIABLES outer,    \* <<>> | <<[old, target, written]>> : the batch in progress while a second caller's batch is nested in it
          alt       \* targets of the batches that ran nested in the current one
xvars == <<strict, outer, alt, excused>>
Nested(e) == Get(e, "nested", FALSE)

DecV(k, x)   == IF k = "cpuset" THEN ToSet(x) ELSE x
Dec(k, xs)   == [n \in 1..Len(xs) |-> DecV(k, xs[n])]
WellTyped(k, a) == \A n \in DOMAIN a : IF k = "cpuset" THEN a[n] \subseteq 0..1023 ELSE a[n] \in 0..99

Offenders(a) == {<<n, par[n]>> : n \in {m \in Nodes : par[m] # 0 /\ ~Leq(kind, a[m], a[par[m]])}}

LeavesCPUSetPolicy == {"disabled", "cfsquota", "becpumgr"}

\* the loose union of the recorded finding, for node n of the current rewrite
LooseUnion(n) == old[1] \cup target[n]
UnionPattern(n, v) ==
  /\ TolerateUnion
  /\ kind = "cpuset" /\ Get(Trace[seg], "driver", "") = "suppress"
  /\ LooseUnion(n) # target[n]
  /\ \/ v = LooseUnion(n)                                   \* loose pass
     \/ v = target[n] /\ val[n] = LooseUnion(n)              \* tight pass, coming back from the loose value

TBegin ==
  /\ IsEvent("begin") /\ ~Nested(Ev)
  /\ LET t == Dec(kind, Ev.target) IN
       /\ WellTyped(kind, t) /\ Begin(t)
       /\ Get(Ev, "how", "cpuset") \in LeavesCPUSetPolicy =>                 \* the recover paths aim at the node's BE pool
            /\ kind = "cpuset" /\ Has(Trace[seg], "cpus")
            /\ \A n \in Nodes : t[n] = ToSet(Trace[seg].cpus) \ ToSet(Get(Ev, "lse", <<>>))   \* (minus what an LSE pod holds meanwhile)
  /\ strict' = {}
  /\ excused' = /\ TolerateRecover
                /\ kind = "cpuset" /\ Get(Trace[seg], "driver", "") = "suppress"
                /\ Get(Ev, "how", "cpuset") \in RecoverHows
                /\ \E n \in Nodes : ~(val[n] \subseteq ToSet(Ev.target[n]))          \* the pool does not cover what is held
  /\ UNCHANGED <<ivars, outer, alt>>

\* a second caller's batch gets in while a batch is in progress
TBeginNested ==
  /\ IsEvent("begin") /\ Nested(Ev)
  /\ phase = "busy" /\ outer = <<>>
  /\ LET t == Dec(kind, Ev.target) IN
       /\ WellTyped(kind, t) /\ DOMAIN t = Nodes /\ HierValid(par, kind, t)
       /\ target' = t
  /\ old' = val /\ written' = {} /\ strict' = {}
  /\ outer' = <<[old |-> old, target |-> target, written |-> written]>>
  /\ UNCHANGED <<par, kind, val, phase, ivars, alt, excused>>

TDoneNested ==
  /\ IsEvent("done") /\ Nested(Ev)
  /\ phase = "busy" /\ outer # <<>>
  /\ Dec(kind, Ev.files) = val
  /\ Expect(T, [T_every_file_must_hold |-> target])                         \* (T) of the nested batch
  /\ old' = outer[1].old /\ target' = outer[1].target
  /\ written' = outer[1].written \cup written /\ strict' = outer[1].written \cup written
  /\ alt' = alt \cup {target}
  /\ outer' = <<>>
  /\ UNCHANGED <<par, kind, val, phase, ivars, excused>>

TCall ==
  /\ IsEvent("call")
  /\ LET f == Dec(kind, Ev.files)
         w == ToSet(Ev.written) IN
       /\ DOMAIN f = Nodes /\ w \subseteq Nodes
       /\ Cardinality(w) <= 1                          \* observation granularity: one write at most per call
       /\ \A n \in Nodes \ w : f[n] = val[n]           \* a file not written keeps its value
       /\ IF w = {} THEN Call ELSE \E n \in w : Write(n, f[n])
       /\ strict' = strict \cup {n \in w : ~UnionPattern(n, f[n])}
       /\ LET ex == excused /\ \A n \in w : f[n] = target[n] /\ (IF par[n] = 0 THEN TRUE ELSE val[par[n]] = target[par[n]]) IN
            /\ excused' = ex
            /\ Expect(WellTyped(kind, f) /\ (HierValid(par, kind, f) \/ ex),                     \* (V)
                      [V_requires_each_child_within_its_parent_but |-> Offenders(f)])
  /\ UNCHANGED <<ivars, outer, alt>>

TDone ==
  /\ IsEvent("done") /\ ~Nested(Ev)
  /\ outer = <<>>
  /\ Dec(kind, Ev.files) = val
  /\ IF Explaining
     THEN /\ PrintT(<<"EXPECT", l, ToJson([T_every_file_must_hold |-> target,
                                            N_must_not_have_been_written |-> {n \in Nodes : old[n] = target[n]},
                                            written |-> strict, or_every_file_holds_one_of |-> alt])>>)
          /\ phase' = "idle" /\ UNCHANGED <<par, kind, val, old, target, written>>
     ELSE IF alt # {}                                   \* batches overlapped: the files hold the target of one of them
          THEN /\ phase = "busy" /\ (T \/ val \in alt)
               /\ phase' = "idle" /\ UNCHANGED <<par, kind, val, old, target, written>>
     ELSE IF TolerateUnion
          THEN /\ phase = "busy" /\ T
               /\ \A n \in Nodes : old[n] = target[n] => n \notin strict     \* (N) minus the two writes of the recorded pattern
               /\ phase' = "idle" /\ UNCHANGED <<par, kind, val, old, target, written>>
          ELSE Done                                     \* (T) and (N)
  /\ alt' = {} /\ excused' = FALSE
  /\ UNCHANGED <<ivars, strict, outer>>

TExpire  == IsEvent("expire")  /\ phase = "idle" /\ UNCHANGED <<vars, xvars>>
TRestart == IsEvent("restart") /\ phase = "idle" /\ UNCHANGED <<vars, xvars>>

TExternal ==
  /\ IsEvent("external")
  /\ LET f == Dec(kind, Ev.files) IN
       /\ DOMAIN f = Nodes
       /\ Expect(WellTyped(kind, f) /\ HierValid(par, kind, f),               \* = External(f) of CgroupTree (script sanity, not a
                 [external_steps_leave_a_valid_hierarchy_but |-> Offenders(f)]) \*   demand on the code: the harness wrote these)
       /\ phase = "idle" /\ val' = f
       /\ UNCHANGED <<par, kind, old, target, written, phase>>
  /\ UNCHANGED <<ivars, xvars>>

TraceInit ==
  \E i \in Starts :
    /\ TraceStart(i)
    /\ LET e == Trace[i]
           o == Dec(e.kind, e.old) IN
         /\ e.kind \in {"cpuset", "limit"}
         /\ Len(e.par) = Len(e.old) /\ e.par[1] = 0
         /\ \A n \in 2..Len(e.par) : e.par[n] >= 1 /\ e.par[n] < n
         /\ WellTyped(e.kind, o) /\ HierValid(e.par, e.kind, o)      \* hierarchy-valid at start
         /\ par = e.par /\ kind = e.kind
         /\ val = o /\ old = o /\ target = o /\ written = {} /\ phase = "idle"
    /\ cache = <<>> /\ pc = <<"idle">> /\ rewrites = 0 /\ algo = ""   \* PART 2 variables are not used here
    /\ strict = {} /\ outer = <<>> /\ alt = {} /\ excused = FALSE

TraceNext == \/ TBegin \/ TCall \/ TDone \/ TExpire \/ TRestart \/ TExternal \/ TBeginNested \/ TDoneNested
             \/ (SegDone /\ phase = "idle" /\ UNCHANGED <<vars, xvars>>)
TraceSpec == TraceInit /\ [][TraceNext]_<<vars, tvars, xvars>>
=============================================================================
