-------------------------- MODULE CgroupTreeTrace --------------------------
(* Trace validation for C12.  One segment = one cgroup subtree under a temp *)
(* cgroup root and one executor (so its cache is carried across rewrites):  *)
(*   reset  {par, kind, old, ...}   the tree and the file contents at start *)
(*   begin  {target}                the REAL rewrite is started             *)
(*   call   {written, files}        one per individual updater call of the  *)
(*                                  real code: `files` = projection of ALL  *)
(*                                  files after the call, `written` = the   *)
(*                                  files whose mtime moved during the call *)
(*   done   {files}                 the real rewrite returned               *)
(*   expire {nodes}                 cache entries dropped between rewrites  *)
(* Only PART 1 of CgroupTree (property level) is used: any write is         *)
(* allowed, (V) must hold after every one of them, (T) and (N) at done.     *)
(* File values arrive as JSON: cpuset = sorted array of CPU ids, limit =    *)
(* number with 99 = unlimited; an unparsable file is logged as -1 / [-1]    *)
(* and is no value of the domain (WellTyped rejects it).                    *)
EXTENDS CgroupTree, TraceCommon

DecV(k, x)   == IF k = "cpuset" THEN ToSet(x) ELSE x
Dec(k, xs)   == [n \in 1..Len(xs) |-> DecV(k, xs[n])]
WellTyped(k, a) == \A n \in DOMAIN a : IF k = "cpuset" THEN a[n] \subseteq 0..1023 ELSE a[n] \in 0..99

Offenders(a) == {<<n, par[n]>> : n \in {m \in Nodes : par[m] # 0 /\ ~Leq(kind, a[m], a[par[m]])}}

TBegin ==
  /\ IsEvent("begin")
  /\ LET t == Dec(kind, Ev.target) IN WellTyped(kind, t) /\ Begin(t)
  /\ UNCHANGED ivars

TCall ==
  /\ IsEvent("call")
  /\ LET f == Dec(kind, Ev.files)
         w == ToSet(Ev.written) IN
       /\ DOMAIN f = Nodes /\ w \subseteq Nodes
       /\ Cardinality(w) <= 1                          \* observation granularity: one write at most per call
       /\ \A n \in Nodes \ w : f[n] = val[n]           \* a file not written keeps its value
       /\ IF w = {} THEN Call ELSE \E n \in w : Write(n, f[n])
       /\ Expect(WellTyped(kind, f) /\ HierValid(par, kind, f),                                  \* (V)
                 [V_requires_each_child_within_its_parent_but |-> Offenders(f)])
  /\ UNCHANGED ivars

TDone ==
  /\ IsEvent("done")
  /\ Dec(kind, Ev.files) = val
  /\ IF Explaining
     THEN /\ PrintT(<<"EXPECT", l, ToJson([T_every_file_must_hold |-> target,
                                            N_must_not_have_been_written |-> {n \in Nodes : old[n] = target[n]},
                                            written |-> written])>>)
          /\ phase' = "idle" /\ UNCHANGED <<par, kind, val, old, target, written>>
     ELSE Done                                          \* (T) and (N)
  /\ UNCHANGED ivars

TExpire == IsEvent("expire") /\ phase = "idle" /\ UNCHANGED vars

TraceInit ==
  \E i \in Starts :
    /\ TraceStart(i)
    /\ LET e == Trace[i]
           o == Dec(e.kind, e.old) IN
         /\ e.kind \in {"cpuset", "limit"}
         /\ Len(e.par) = Len(e.old) /\ e.par[1] = 0
         /\ \A n \in 2..Len(e.par) : e.par[n] >= 1 /\ e.par[n] < n
         /\ WellTyped(e.kind, o) /\ HierValid(e.par, e.kind, o)      \* hierarchy-valid at start
         /\ par = e.par /\ kind = e.kind
         /\ val = o /\ old = o /\ target = o /\ written = {} /\ phase = "idle"
    /\ cache = <<>> /\ pc = <<"idle">> /\ rewrites = 0 /\ algo = ""   \* PART 2 variables are not used here

TraceNext == TBegin \/ TCall \/ TDone \/ TExpire \/ (SegDone /\ phase = "idle" /\ UNCHANGED vars)
TraceSpec == TraceInit /\ [][TraceNext]_<<vars, tvars>>
=============================================================================
