SPECIFICATION GenSpecStrictWait
CONSTANTS
  Pods = {"p1", "p2", "p3", "p4"}
  Gangs = {"g1", "g2"}
  K = 14
VIEW GenView
CONSTRAINT GenBound
INVARIANT GenPrint
CHECK_DEADLOCK FALSE
