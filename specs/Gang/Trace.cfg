SPECIFICATION TraceSpec
CONSTANTS
  Pods = {"p1", "p2", "p3", "p4", "p5", "p6", "p7", "p8"}
  Gangs = {"g1", "g2", "g3"}
INVARIANT FwSane
CONSTRAINT Report
CHECK_DEADLOCK FALSE
