SPECIFICATION TraceSpec
CONSTANTS
  Pods = {"p1", "p2", "p3", "p4", "p5", "p6", "p7", "p8"}
  Gangs = {"g1", "g2", "g3", "g11"}
\* property invariants are listed as CONSTRAINTs (before Report): a recorded state that violates one is not
\* explored further, so its segment never reaches SegDone (= rejected) while TLC goes on with the other segments
CONSTRAINT FwSane
CONSTRAINT Report
CHECK_DEADLOCK FALSE
