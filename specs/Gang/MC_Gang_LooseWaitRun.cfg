SPECIFICATION SpecLooseWaitRun
CONSTANTS
  Pods = {"p1", "p2", "p3", "p4"}
  Gangs = {"g1", "g2"}
INVARIANT FwSane
PROPERTY DesignOK
