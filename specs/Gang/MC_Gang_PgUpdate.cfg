SPECIFICATION SpecPg
CONSTANTS
  Pods = {"p1", "p2", "p3"}
  Gangs = {"g1", "g2"}
INVARIANT FwSane
PROPERTY DesignOK
