------------------------------ MODULE MC_Gang ------------------------------
EXTENDS Gang
MCGangOf == [p \in Pods |-> IF p \in {"p1", "p2"} THEN "g1" ELSE "g2"]
G12 == {"g1", "g2"}
MCCfgStrictOnce   == [g \in Gangs |-> [min |-> IF g = "g1" THEN 2 ELSE 1, strict |-> TRUE,  policy |-> "once",    group |-> G12]]
MCCfgStrictWait   == [g \in Gangs |-> [min |-> IF g = "g1" THEN 2 ELSE 1, strict |-> TRUE,  policy |-> "waiting", group |-> G12]]
MCCfgLooseWaitRun == [g \in Gangs |-> [min |-> IF g = "g1" THEN 2 ELSE 1, strict |-> FALSE, policy |-> "waitrun", group |-> G12]]
SpecStrictOnce == SpecWith(MCGangOf, MCCfgStrictOnce)
SpecStrictWait == SpecWith(MCGangOf, MCCfgStrictWait)
SpecLooseWaitRun == SpecWith(MCGangOf, MCCfgLooseWaitRun)
=============================================================================
