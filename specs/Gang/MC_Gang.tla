------------------------------ MODULE MC_Gang ------------------------------
EXTENDS Gang
MCGangOf == [p \in Pods |-> IF p \in {"p1", "p2"} THEN "g1" ELSE "g2"]
G12 == {"g1", "g2"}
MCCfgStrictOnce   == [g \in Gangs |-> [min |-> IF g = "g1" THEN 2 ELSE 1, strict |-> TRUE,  policy |-> "once",    group |-> G12]]
MCCfgStrictWait   == [g \in Gangs |-> [min |-> IF g = "g1" THEN 2 ELSE 1, strict |-> TRUE,  policy |-> "waiting", group |-> G12]]
MCCfgLooseWaitRun == [g \in Gangs |-> [min |-> IF g = "g1" THEN 2 ELSE 1, strict |-> FALSE, policy |-> "waitrun", group |-> G12]]
\* pod-group updates: the settings of a gang change while its members are in flight
G1 == {"g1"}
PgChoices == {[min |-> m, strict |-> st, policy |-> po, group |-> gr] :
                 m \in {1, 2}, st \in BOOLEAN, po \in {"waiting", "waitrun"}, gr \in {G1, G12}}
NextPg == Next \/ \E c \in PgChoices : PgSet("g1", c) /\ c # Cfg["g1"]
SpecPg == InitWith(MCGangOf, MCCfgStrictWait) /\ [][NextPg]_vars
SpecStrictOnce == SpecWith(MCGangOf, MCCfgStrictOnce)
SpecStrictWait == SpecWith(MCGangOf, MCCfgStrictWait)
SpecLooseWaitRun == SpecWith(MCGangOf, MCCfgLooseWaitRun)
=============================================================================
