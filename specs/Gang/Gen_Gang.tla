------------------------------ MODULE Gen_Gang ------------------------------
(* Behaviour generation for C04: one witness history for every reachable     *)
(* state of the bounded design model (VIEW vars), i.e. every interleaving    *)
(* class of informer / permit / roll-back / failure / bind steps of 4 pods   *)
(* in 2 gangs, replayed on the real gang cache.                              *)
EXTENDS MC_Gang, Json, SequencesExt
CONSTANT K
VARIABLE hist
AllPods  == {"p1", "p2", "p3", "p4", "p5", "p6", "p7", "p8"}
GangOfJ  == [p \in AllPods |-> IF p \in Pods THEN GangOf[p] ELSE "g3"]
PolicyJ(c) == [min |-> c.min, strict |-> c.strict, policy |-> c.policy, group |-> SetToSeq(c.group)]
CfgJ     == [g \in {"g1", "g2", "g3"} |-> IF g \in Gangs THEN PolicyJ(Cfg[g])
                                           ELSE [min |-> 1, strict |-> FALSE, policy |-> "once", group |-> <<"g3">>]]
Log(e) == hist' = Append(hist, e)
GenNext == \E p \in Pods :
   \/ \E b \in BOOLEAN : /\ (b => hold[p] # "none" \/ ~member[p])      \* an object gets its node name only through a bind (or arrives bound)
                         \* pods are identified by name: a pod is re-created under the same name only after the scheduler is
                         \* done with the previous incarnation (its roll-back / PostBind has arrived)
                         /\ (~member[p] => hold[p] = "none")
                         /\ InformerSet(p, b) /\ Log([op |-> "podSet", pod |-> p, bound |-> b])
   \/ InformerDelete(p) /\ member[p] /\ Log([op |-> "podDelete", pod |-> p])
   \/ DPermit(p)    /\ Log([op |-> "permit", pod |-> p])
   \/ DUnreserve(p) /\ Log([op |-> "unreserve", pod |-> p])
   \/ DFail(p)      /\ Log([op |-> "fail", pod |-> p])
   \/ PostBindStep(p) /\ Log([op |-> "postBind", pod |-> p])
GenSpecStrictOnce   == InitWith(MCGangOf, MCCfgStrictOnce)   /\ hist = <<>> /\ [][GenNext]_<<vars, hist>>
GenSpecStrictWait   == InitWith(MCGangOf, MCCfgStrictWait)   /\ hist = <<>> /\ [][GenNext]_<<vars, hist>>
GenSpecLooseWaitRun == InitWith(MCGangOf, MCCfgLooseWaitRun) /\ hist = <<>> /\ [][GenNext]_<<vars, hist>>
GenView  == vars
GenBound == Len(hist) <= K
GenPrint == Len(hist) >= 1 => PrintT(ToJson(<<[op |-> "reset", gangOf |-> GangOfJ, cfg |-> CfgJ]>> \o hist))
=============================================================================
