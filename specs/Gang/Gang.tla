-------------------------------- MODULE Gang --------------------------------
(***************************************************************************)
(* C04 - gang (co-)scheduling is all-or-nothing across the gang group.     *)
(*                                                                         *)
(* Ground truth kept by the specification, per pod p (GangOf[p] fixed):    *)
(*   member[p]  the informer currently knows p as a child of its gang      *)
(*   hold[p]    "none" | "assumed" (passed Reserve, sits in or was let     *)
(*              through Permit) | "bound"                                  *)
(*   fw         pods parked by the framework at the permit stage           *)
(*   sat        groups (= sets of gangs) that were satisfied once: some    *)
(*              member has been bound since the group came into being      *)
(*                                                                         *)
(* Property level (used by the trace specification):                       *)
(*   Partition   every member is in exactly one of the pending / waiting / *)
(*               bound sets REPORTED by the gang cache, and those sets     *)
(*               mean what they say (waiting = assumed, bound = bound)     *)
(*   ReleaseOK   a pod of a not-yet-satisfied group passes Permit only     *)
(*               when every gang of the group has >= min members holding   *)
(*               resources (waiting, + bound under waiting-and-running)    *)
(*   StrictOK    roll-back / scheduling failure of a member of a           *)
(*               not-yet-satisfied strict group rejects every waiting      *)
(*               member of the group                                       *)
(* Design level: PermitRule / RejectRule transcribe core.go; TLC checks    *)
(* that they imply the property over all interleavings (MC_Gang*.cfg).     *)
(***************************************************************************)
EXTENDS Integers, FiniteSets, Sequences, FiniteSetsExt, TLC

CONSTANTS Pods, Gangs

VARIABLES member, hold, fw, sat,
          released,   \* assumed pods that were let through Permit (their binding is under way)
          GangOf,     \* Pods -> Gangs                      (fixed during a behaviour)
          Cfg,        \* Gangs -> [min, strict, policy, group]   policy in {"once","waiting","waitrun"}; group \subseteq Gangs
          crd         \* BOOLEAN (fixed): gangs are declared by PodGroup objects - a gang then exists (and keeps its group's
                      \* once-satisfied mark) as long as its PodGroup does, also without any member pod; declared by pod
                      \* annotations a gang exists exactly as long as it has a member
vars == <<member, hold, fw, sat, released, GangOf, Cfg, crd>>
Fixed == UNCHANGED <<GangOf, Cfg, crd>>

PodsOf(g)    == {p \in Pods : GangOf[p] = g}
Children(g)  == {p \in PodsOf(g) : member[p]}
Waiting(g)   == {p \in PodsOf(g) : hold[p] = "assumed"}
Bound(g)     == {p \in PodsOf(g) : hold[p] = "bound"}
Pending(g)   == {p \in Children(g) : hold[p] = "none"}
Group(g)     == Cfg[g].group
GroupOfPod(p) == Group(GangOf[p])
Exists(g)    == Children(g) # {} \/ Waiting(g) # {} \/ Bound(g) # {}
Satisfied(G) == G \in sat

\* members holding resources, as the gang's match policy counts them
Holding(g) == IF Cfg[g].policy = "waitrun" THEN Cardinality(Waiting(g)) + Cardinality(Bound(g))
              ELSE Cardinality(Waiting(g))
\* the once-satisfied exemption exists only under the once-satisfied match policy
Exempt(g)  == Cfg[g].policy = "once" /\ Satisfied(Group(g))
GangOK(g)  == (crd \/ Children(g) # {}) /\ (Holding(g) >= Cfg[g].min \/ Exempt(g))
GroupReady(G) == \A g \in G : GangOK(g)

(***************************** property level ******************************)
\* p passes Permit (evaluated in the state right after p was counted as assumed): every gang of the group has its
\* minimum of members holding resources (or is exempt because it was satisfied once under that policy)
ReleaseOK(p) == GroupReady(GroupOfPod(p))
\* after a roll-back / scheduling failure of p: who must have been rejected
\* (p must still be a member: the roll-back of a pod the informer already deleted is not a member's failure)
MustReject(p) == IF member[p] /\ Cfg[GangOf[p]].strict /\ ~Exempt(GangOf[p])
                 THEN {w \in fw : GangOf[w] \in GroupOfPod(p)} ELSE {}

(******************************** transitions ******************************)
\* informer add / update of pod p; bound = the object carries a node name
InformerSet(p, bound) ==
    /\ Fixed
    /\ member' = [member EXCEPT ![p] = TRUE]
    /\ hold'   = IF bound THEN [hold EXCEPT ![p] = "bound"] ELSE hold
    /\ sat'    = IF bound THEN sat \cup {GroupOfPod(p)} ELSE sat
    /\ fw'     = IF bound THEN fw \ {p} ELSE fw
    /\ released' = IF bound THEN released \ {p} ELSE released
InformerDelete(p) ==
    /\ Fixed
    /\ member' = [member EXCEPT ![p] = FALSE]
    \* a bound pod is gone; an assumed one stays assumed until the scheduler's own roll-back / PostBind arrives
    /\ hold'   = IF hold[p] = "bound" THEN [hold EXCEPT ![p] = "none"] ELSE hold
    /\ fw'     = fw \ {p}               \* the framework drops a deleted pod from the permit stage (its Unreserve follows)
    /\ UNCHANGED released                \* a binding that is under way goes on (PostBind or Unreserve will arrive)
    \* the group's once-satisfied mark goes away with the last gang of the group
    /\ sat'    = IF ~crd /\ \A g \in GroupOfPod(p) : \A q \in PodsOf(g) : q # p => ~member[q]
                 THEN sat \ {GroupOfPod(p)} ELSE sat
\* scheduler: p passed Reserve and enters Permit; released = Permit answered Success
\* (then every parked member of the group is allowed too), otherwise p is parked
PermitStep(p, isReleased) ==
    /\ Fixed
    /\ member[p] /\ hold[p] = "none"
    /\ hold' = [hold EXCEPT ![p] = "assumed"]
    /\ fw'   = IF isReleased THEN {w \in fw : GangOf[w] \notin GroupOfPod(p)} ELSE fw \cup {p}
    /\ released' = IF isReleased THEN released \cup {p} \cup {w \in fw : GangOf[w] \in GroupOfPod(p)} ELSE released
    /\ UNCHANGED <<member, sat>>
\* roll-back of an assumed pod (permit timeout, rejection, bind failure); rej = pods rejected by it
\* (it may also arrive for a pod the informer already reports bound: the bind was persisted but the call returned
\*  an error to the scheduler - such a pod stays bound)
UnreserveStep(p, rej) ==
    /\ Fixed
    /\ hold[p] \in {"assumed", "bound"}
    /\ hold' = IF hold[p] = "assumed" THEN [hold EXCEPT ![p] = "none"] ELSE hold
    /\ fw'   = (fw \ {p}) \ rej
    /\ released' = released \ {p}
    /\ UNCHANGED <<member, sat>>
\* scheduling failure of a pending member (AfterPostFilter)
FailStep(p, rej) ==
    /\ Fixed
    /\ member[p] /\ hold[p] = "none"
    /\ fw' = fw \ rej
    /\ UNCHANGED <<member, hold, sat, released>>
PostBindStep(p) ==
    /\ Fixed
    /\ hold[p] = "assumed" /\ p \in released       \* only a pod that was let through Permit is bound
    /\ released' = released \ {p}
    /\ hold' = IF member[p] THEN [hold EXCEPT ![p] = "bound"] ELSE [hold EXCEPT ![p] = "none"]  \* a deleted pod holds nothing
    /\ sat'  = sat \cup {GroupOfPod(p)}
    /\ UNCHANGED <<member, fw>>

\* the pod group object of gang g is updated (min member, mode, match policy, gang group): from now on the gang is
\* judged by the new settings; what its members hold does not change
PgSet(g, c) ==
    /\ Cfg' = [Cfg EXCEPT ![g] = c]
    /\ UNCHANGED <<member, hold, fw, sat, released, GangOf, crd>>

InitWith3(go, c, b) == /\ member = [p \in Pods |-> FALSE] /\ hold = [p \in Pods |-> "none"]
                       /\ fw = {} /\ sat = {} /\ released = {} /\ GangOf = go /\ Cfg = c /\ crd = b
InitWith(go, c) == InitWith3(go, c, FALSE)

(****************************** design level *******************************)
\* isGangValidForPermit / Permit of core.go, evaluated after p was added to the waiting set
GangValid(g, h) ==
    LET W == Cardinality({p \in PodsOf(g) : h[p] = "assumed"})
        B == Cardinality({p \in PodsOf(g) : h[p] = "bound"})
    IN  /\ (crd \/ Children(g) # {})               \* gang exists and is initialised
        /\ CASE Cfg[g].policy = "waiting" -> W >= Cfg[g].min
             [] Cfg[g].policy = "waitrun" -> W + B >= Cfg[g].min
             [] OTHER -> W >= Cfg[g].min \/ Satisfied(Group(g))
PermitRule(p) == \A g \in GroupOfPod(p) : GangValid(g, [hold EXCEPT ![p] = "assumed"])
\* Unreserve / AfterPostFilter of core.go
RejectRule(p) == IF Cfg[GangOf[p]].strict /\ ~Exempt(GangOf[p])
                 THEN {w \in fw : GangOf[w] \in GroupOfPod(p)} ELSE {}

DPermit(p)    == PermitStep(p, PermitRule(p))
DUnreserve(p) == UnreserveStep(p, RejectRule(p) \ {p})
DFail(p)      == FailStep(p, RejectRule(p))
\* the framework rolls back every rejected pod: modelled by later DUnreserve steps of those pods
Next == \E p \in Pods : \/ \E b \in BOOLEAN : InformerSet(p, b)
                        \/ InformerDelete(p) \/ DPermit(p) \/ DUnreserve(p) \/ DFail(p) \/ PostBindStep(p)
SpecWith(go, c) == InitWith(go, c) /\ [][Next]_vars

\* what TLC checks on the design: every release and every roll-back is one the property allows
DesignOK == [][ \A p \in Pods :
                  /\ (DPermit(p) /\ PermitRule(p)) => ReleaseOK(p)'
                  /\ DUnreserve(p) => MustReject(p) \ {p} \subseteq RejectRule(p)
                  /\ DFail(p) => MustReject(p) \subseteq RejectRule(p) ]_vars
\* a parked pod is always an assumed one
FwSane == /\ \A p \in fw : hold[p] = "assumed"
          /\ fw \cap released = {}
=============================================================================
