----------------------------- MODULE GangTrace -----------------------------
(***************************************************************************)
(* Trace validation for C04.  Events recorded from the real                *)
(* PodGroupManager / gang cache (informer handlers, Permit, Unreserve,     *)
(* AfterPostFilter, PostBind) with a recording framework handle:           *)
(*   obs      GetGangSummaries() projected to the four sets per gang       *)
(*   result   "Success" | "Wait" of Permit                                 *)
(*   allowed / rejected   pods that received Allow / Reject during the call*)
(***************************************************************************)
EXTENDS Gang, TraceCommon, SequencesExt

S(x) == ToSet(x)
\* the sets reported by the gang cache, restricted to current members, are a partition that means what it says
PartitionOK(e) ==
  \A g \in Gangs :
     LET o == IF g \in DOMAIN e.obs THEN e.obs[g] ELSE [children |-> <<>>, pending |-> <<>>, waiting |-> <<>>, bound |-> <<>>]
         M == Children(g)'
     IN  /\ S(o.children) = M
         /\ S(o.pending) \cap M = Pending(g)'
         /\ S(o.waiting) \cap M = Waiting(g)' \cap M
         /\ S(o.bound)   \cap M = Bound(g)' \cap M
         \* exactly one of the three reported sets for every member
         /\ \A p \in M : Cardinality({k \in {"pending", "waiting", "bound"} : p \in S(o[k])}) = 1
ExpectedSets == [g \in Gangs |-> [children |-> Children(g), pending |-> Pending(g), waiting |-> Waiting(g), bound |-> Bound(g)]]
ObsOK(e) == Expect(PartitionOK(e), ExpectedSets')

TSet    == IsEvent("podSet")    /\ InformerSet(Ev.pod, Ev.bound) /\ ObsOK(Ev)
TDelete == IsEvent("podDelete") /\ InformerDelete(Ev.pod) /\ ObsOK(Ev)
TPermit == /\ IsEvent("permit")
           /\ Ev.result \in {"Success", "Wait"}
           /\ PermitStep(Ev.pod, Ev.result = "Success")
           /\ (Ev.result = "Success" => \E p \in {Ev.pod} : ReleaseOK(p)')   \* all-or-nothing (bound p: the prime must not reach Ev)
           \* a release lets every parked member of the group go (and nobody else)
           /\ (Ev.result = "Success" => S(Ev.allowed) = {w \in fw : GangOf[w] \in GroupOfPod(Ev.pod)})
           /\ (Ev.result = "Wait" => Ev.allowed = <<>>)
           /\ ObsOK(Ev)
TUnreserve == /\ IsEvent("unreserve")
              /\ UnreserveStep(Ev.pod, S(Ev.rejected))
              /\ MustReject(Ev.pod) \ {Ev.pod} \subseteq S(Ev.rejected)       \* strict mode rejects the whole group
              /\ S(Ev.rejected) \subseteq fw
              /\ ObsOK(Ev)
TFail == /\ IsEvent("fail")
         /\ FailStep(Ev.pod, S(Ev.rejected))
         /\ MustReject(Ev.pod) \subseteq S(Ev.rejected)
         /\ S(Ev.rejected) \subseteq fw
         /\ ObsOK(Ev)
TPostBind == IsEvent("postBind") /\ PostBindStep(Ev.pod) /\ ObsOK(Ev)

Cfg1(x) == [min |-> x.min, strict |-> x.strict, policy |-> x.policy, group |-> S(x.group)]
TPgSet == IsEvent("pgSet") /\ PgSet(Ev.gang, Cfg1(Ev.cfg)) /\ ObsOK(Ev)

CfgOf(c) == [g \in DOMAIN c |-> [min |-> c[g].min, strict |-> c[g].strict, policy |-> c[g].policy, group |-> S(c[g].group)]]
TraceInit == \E i \in Starts : /\ TraceStart(i)
                               /\ Assert(DOMAIN Trace[i].cfg \subseteq Gangs /\ DOMAIN Trace[i].gangOf \subseteq Pods,
                                         "Trace.cfg: Gangs / Pods do not cover the names used by the harness")
                               /\ InitWith3(Trace[i].gangOf, CfgOf(Trace[i].cfg), Has(Trace[i], "crd") /\ Trace[i].crd)
TraceNext == TSet \/ TDelete \/ TPermit \/ TUnreserve \/ TFail \/ TPostBind \/ TPgSet \/ (SegDone /\ UNCHANGED vars)
TraceSpec == TraceInit /\ [][TraceNext]_<<vars, tvars>>
=============================================================================
