SPECIFICATION TraceSpec
CONSTANTS
  Nodes = {"n1", "n2", "n3"}
  MaxUid = 1000000
  Repairs = {}
\* the property-level invariants are CONSTRAINTs (before Report): a recorded state that violates one is not explored
\* further, so its segment never reaches SegDone (= rejected) while TLC goes on with the other segments.
\* (Tm) is an action predicate and is conjoined to the reconcile event in MigrationJobTrace.
CONSTRAINT GInv
CONSTRAINT TtTraceInv
CONSTRAINT OnceInv
CONSTRAINT Report
CHECK_DEADLOCK FALSE
