\* the controller AS FOUND: TLC reports the G (stale same-node check / replaced pod) and Tt (leaked reservation) counterexamples; not run by bin/check
SPECIFICATION Spec
CONSTANTS
  Nodes = {"n1", "n2"}
  MaxUid = 2
  Repairs = {}
  MaxW = 4
  Ttls = {0, 2}
  MaxNow = 2
INVARIANT TypeOK
INVARIANT GInv
INVARIANT TtInv
INVARIANT OnceInv
PROPERTY Tm
CHECK_DEADLOCK FALSE
