\* Non-vacuity of the write-sequence clause of (Tm) (not run by bin/check): the design with the repairs PLUS the modelled
\* defect "seed-prepare-goes-on" (seeded change C17-4: preparePodRef returns the abort's own error). TLC must report
\* "Action property Tm is violated": pod deleted before the first reconcile, one Reconcile persists Failed, Running, Failed.
SPECIFICATION Spec
CONSTANTS
  Nodes = {"n1", "n2"}
  MaxUid = 2
  Repairs = {"uid", "leak", "seed-prepare-goes-on"}
  MaxW = 4
  Ttls = {0, 2}
  MaxNow = 2
INVARIANT TypeOK
PROPERTY Tm
CHECK_DEADLOCK FALSE
