\* Non-vacuity of the model (not run by bin/check): each Never* "invariant" must be VIOLATED, i.e. the situation is reachable.
\* Run once per witness (TLC stops at the first violation): keep one INVARIANT line, comment the others.
\*   NeverEvicts        an Evict call is reachable                      (shortest: 4 states)
\*   NeverSucceeds      phase Succeeded is reachable                    (7 states)
\*   NeverTimeout       the TTL abort is reachable                      (4 states)
\*   NeverPreemptEvict  an eviction after completed preemption          (5 states)
SPECIFICATION Spec
CONSTANTS
  Nodes = {"n1", "n2"}
  MaxUid = 2
  Repairs = {"uid", "leak"}
  MaxW = 4
  Ttls = {0, 2}
  MaxNow = 2
INVARIANT NeverSucceeds
\* INVARIANT NeverEvicts
\* INVARIANT NeverTimeout
\* INVARIANT NeverPreemptEvict
CHECK_DEADLOCK FALSE
