\* simulation: random walks of 14 steps over the richer universe (3 nodes, all parameter combinations, double faults)
SPECIFICATION GenSpec
CONSTANTS
  Nodes = {"n1", "n2", "n3"}
  MaxUid = 6
  Repairs = {}
  MaxW = 4
  Ttls = {0, 2, 3}
  MaxNow = 4
  K = 14
  TailLen = 99
  Biased = TRUE
  Focus = FALSE
  GenFaults <- F2
INVARIANT SimPrint
CHECK_DEADLOCK FALSE
