\* the reservation's life cycle alone (Focus), exhaustive and unsampled: all orders of the scheduler's reports about the
\* reservation interleaved with reconciles, up to K steps (2 nodes, with and without preemption, the first or second write of a reconcile may fail);
\* the view keeps the order of the reports, so every order is generated (not one schedule per model state)
SPECIFICATION GenSpec
CONSTANTS
  Nodes = {"n1", "n2"}
  MaxUid = 2
  Repairs = {}
  MaxW = 4
  Ttls = {0}
  Pars <- P0
  MaxNow = 2
  K = 10
  TailLen = 1
  Biased = FALSE
  Focus = TRUE
  GenFaults <- F0
VIEW GenView
CONSTRAINT GenBound
INVARIANT GenPrint
CHECK_DEADLOCK FALSE
