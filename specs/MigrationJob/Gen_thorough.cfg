SPECIFICATION GenSpec
CONSTANTS
  Nodes = {"n1", "n2"}
  MaxUid = 3
  Repairs = {}
  MaxW = 4
  Ttls = {0}
  Pars <- P2
  MaxNow = 2
  K = 7
  TailLen = 2
  Biased = FALSE
  Focus = FALSE
  GenFaults <- F2
VIEW GenView
CONSTRAINT GenBound
INVARIANT GenPrint
CHECK_DEADLOCK FALSE
