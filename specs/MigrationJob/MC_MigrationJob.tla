--------------------------- MODULE MC_MigrationJob ---------------------------
(* Exhaustive bounded model checking of the design: every interleaving of    *)
(* Reconcile (with every set of failing writes) with the legal environment   *)
(* events, over all job parameters.  The state space is finite (uids, clock  *)
(* and the eviction counter are capped), so there is no depth bound.         *)
EXTENDS MigrationJob
CONSTANTS MaxW,       \* write indices 1..MaxW may be chosen to fail
          Ttls,       \* TTL choices in ticks (0 = no TTL)
          MaxNow
\* Which writes of one Reconcile fail.  After a failed write the controller returns, except that a failed
\* CreateReservation is followed by one more status write (and `_ = abort...` ignores its own error and returns), so at
\* most two failures are ever reached and they are consecutive: singletons and adjacent pairs cover every outcome of
\* SUBSET (1..MaxW) (checked once with FaultSets == SUBSET (1..MaxW): same distinct-state count).
FaultSets == {{}} \cup {{i} : i \in 1..MaxW} \cup {{i, i + 1} : i \in 1..(MaxW - 1)}
Pars == [ttl : Ttls, preempt : BOOLEAN, owned : BOOLEAN]
Init == \E p0 \in Pars, n0 \in Nodes : InitWith(p0, n0)
Next == \/ \E F \in FaultSets : Reconcile(F)
        \/ \E n \in Nodes : RScheduled(n)
        \/ \E h \in BOOLEAN, np \in BOOLEAN : RUnschedulable(h, np)
        \/ RPreempted \/ RExpire \/ RDelete
        \/ \E w \in {"other", "same", "gone"} : RBind(w)
        \/ PodDelete \/ PodReady
        \/ \E n \in Nodes, rdy \in BOOLEAN : PodReplace(n, rdy)
        \/ (now < MaxNow /\ Tick(1))
        \/ (~restarted /\ Restart)
Spec == Init /\ [][Next]_vars

TypeOK == /\ job.phase \in {"", "Pending", "Running", "Succeeded", "Failed"}
          /\ resv.st \in {"none", "pending", "unsched", "failed", "scheduled", "expired", "succeeded"}
          /\ pod.uid \in 1..MaxUid
          /\ nEvict \in 0..EvictCap
\* non-vacuity witnesses (run with the _witness cfg: each must be VIOLATED, i.e. reachable)
NeverEvicts == nEvict = 0
NeverSucceeds == job.phase # "Succeeded"
NeverTimeout == job.reason # "Timeout"
NeverPreemptEvict == ~(\E i \in 1..Len(lastCalls) : lastCalls[i].kind = "Evict" /\ lastCalls[i].r.st = "failed")
=============================================================================
