\* the design with the proposed repairs, larger universe: must satisfy G, Tm, Tt, Once
SPECIFICATION Spec
CONSTANTS
  Nodes = {"n1", "n2", "n3"}
  MaxUid = 3
  Repairs = {"uid", "leak"}
  MaxW = 4
  Ttls = {0, 2}
  MaxNow = 2
INVARIANT TypeOK
INVARIANT GInv
INVARIANT TtInv
INVARIANT OnceInv
PROPERTY Tm
CHECK_DEADLOCK FALSE
