---------------------------- MODULE MigrationJob ----------------------------
(***************************************************************************)
(* C17  Migration jobs evict only after capacity is secured; finished jobs *)
(*      stay finished.                                                     *)
(*                                                                         *)
(* One PodMigrationJob in reservation-first mode, its Reservation, its     *)
(* target pod, a clock, and the migration controller                       *)
(* (pkg/descheduler/controllers/migration/controller.go).                  *)
(*                                                                         *)
(*  job    persisted PodMigrationJob: Status.{Phase,Reason,Status,NodeName,*)
(*         Conditions} + Spec.PodRef.UID (uid) + Spec.ReservationOptions.  *)
(*         ReservationRef set? (ref).  A condition is "none" or            *)
(*         "<Status>:<Reason>".                                            *)
(*  resv   the Reservation named after the job                             *)
(*           st   "pending"    phase ""/Pending, no Unschedulable condition*)
(*                "unsched"    phase Pending + Scheduled=False/Unschedulable*)
(*                             (what koord-scheduler writes)               *)
(*                "failed"     phase Failed + Unschedulable, not expired   *)
(*                             (hard unschedulable; what the package's     *)
(*                             tests use; the only state with preemption)  *)
(*                "scheduled"  phase Available, node, Scheduled=True       *)
(*                "expired"    phase Failed + Ready=False/Expired          *)
(*                "succeeded"  phase Succeeded, bound = who consumed it    *)
(*           uc   carries an Unschedulable condition                       *)
(*           np/pd  needs preemption / preemption for it has completed     *)
(*  pod    the pod with the job's PodRef name: exists, uid (1,2,..: every  *)
(*         replacement gets a new uid), node, ready                        *)
(*  now    ticks since the job was created;  par.ttl = 0 means no TTL      *)
(*  lastCalls  calls the controller issued in the last step, each stamped  *)
(*         with the environment (reservation, pod) and the job's PERSISTED *)
(*         phase (jp) AT THAT INSTANT                                      *)
(*  lastWrites the phases carried by the job as persisted after every      *)
(*         SUCCESSFUL write of the job in the last step (Update,           *)
(*         Status().Update), in order: what an observer of the API server  *)
(*         sees between the start and the end of one Reconcile             *)
(*  nEvict Evict calls so far (capped), faulted: an API write has failed   *)
(*                                                                         *)
(* Rec(..) is a transcription of Reconcile/doMigrate's gate order: a pure  *)
(* function of the observed state and of the set F of write indices that   *)
(* fail in this invocation (the API-fault oracle).  Repairs selects the    *)
(* controller as found ({}) or with the proposed repairs ("uid", "leak").  *)
(* The transcription serves MC and Gen; the VERDICT on the real code comes *)
(* only from the property-level predicates below (G, Tm, Tt, Once)         *)
(* evaluated on recorded executions (MigrationJobTrace).                   *)
(***************************************************************************)
EXTENDS Integers, Sequences, FiniteSets, TLC

CONSTANTS Nodes,     \* node names
          MaxUid,    \* pod uids are 1..MaxUid
          Repairs    \* subset of {"uid", "leak"} (+ "seed-prepare-goes-on": a modelled defect, see Prepare)

VARIABLES job, resv, pod, now, par, restarted, lastCalls, lastWrites, nEvict, faulted
vars == <<job, resv, pod, now, par, restarted, lastCalls, lastWrites, nEvict, faulted>>

Terminal == {"Succeeded", "Failed"}
EvictCap == 3
Min2(a, b) == IF a < b THEN a ELSE b

Job0 == [phase |-> "", reason |-> "", status |-> "", node |-> "", uid |-> 0, ref |-> FALSE,
         cCreated |-> "none", cSched |-> "none", cEvict |-> "none",
         cPodBound |-> "none", cBound |-> "none", cReady |-> "none"]
NoResv == [exists |-> FALSE, st |-> "none", node |-> "", bound |-> "", uc |-> FALSE, np |-> FALSE, pd |-> FALSE]
NewResv == [NoResv EXCEPT !.exists = TRUE, !.st = "pending"]
Pod0(n) == [exists |-> TRUE, uid |-> 1, node |-> n, ready |-> TRUE]

-----------------------------------------------------------------------------
(* Property-level predicates (the statement of C17)                        *)

\* capacity is secured for evicting pod p: the reservation is scheduled on a node different from the pod's,
\* or preemption for it has completed. Everything else (missing, pending, unschedulable, expired, bound to
\* some other pod, scheduled on the pod's own node) is not.
Secured(r, p) == \/ r.exists /\ r.st = "scheduled" /\ p.exists /\ r.node # "" /\ r.node # p.node
                 \/ r.exists /\ r.st = "failed" /\ r.np /\ r.pd

NumKind(calls, kinds) == Cardinality({i \in 1..Len(calls) : calls[i].kind \in kinds})

\* (G) every Evict call happened while capacity was secured
G(calls) == \A i \in 1..Len(calls) : calls[i].kind = "Evict" => Secured(calls[i].r, calls[i].p)
GInv == G(lastCalls)

\* (Tm) a finished job keeps its phase and triggers no further eviction or reservation.
\* "has reached succeeded or failed" = that phase has been PERSISTED, in an earlier step or earlier in this one:
\*   TmWrites  in the sequence <phase before the step> \o <phases persisted by the step's writes> a terminal phase is
\*             never followed by another phase (Failed -> Running -> Failed within one Reconcile is a phase change
\*             although the step ends where it started);
\*   TmCalls   no Evict / CreateReservation is issued at an instant at which the persisted phase is terminal.
TmWrites(j, ws) == LET s == <<j.phase>> \o ws
                   IN  \A i \in 1..(Len(s) - 1) : s[i] \in Terminal => s[i + 1] = s[i]
TmCalls(calls) == \A i \in 1..Len(calls) :
                      calls[i].kind \in {"Evict", "CreateReservation"} => calls[i].jp \notin Terminal
TmStep(j, jn, calls, ws) ==
    /\ j.phase \in Terminal => /\ jn.phase = j.phase
                                /\ NumKind(calls, {"Evict", "CreateReservation"}) = 0
    /\ TmWrites(j, ws)
    /\ TmCalls(calls)
Tm == [][TmStep(job, job', lastCalls', lastWrites')]_vars

\* (Tt) a job aborted by its TTL has deleted its reservation
TtInv == (job.phase = "Failed" /\ job.reason = "Timeout") => ~resv.exists

\* (Once) on behaviours without API errors the pod is evicted at most once
OnceInv == ~faulted => nEvict <= 1

-----------------------------------------------------------------------------
(* The controller: transcription of Reconcile / doMigrate                  *)
(*   j0 job, r0 reservation, p pod as read from the API; t clock; pr parameters; rst restarted; F failing writes *)
Rec(j0, r0, p, t, pr, rst, F) ==
  LET c0 == [j |-> j0, r |-> r0, w |-> 0, calls |-> <<>>, hit |-> FALSE, ph |-> <<>>]
      fails(c) == (c.w + 1) \in F                       \* the next write (or Evict) fails
      used(c)  == [c EXCEPT !.w = @ + 1, !.hit = @ \/ fails(c)]
      call(c, k, ok) == [c EXCEPT !.calls = Append(@, [kind |-> k, ok |-> ok, r |-> c.r, p |-> p, jp |-> c.j.phase])]
      \* a write of the job that is persisted: the job is now jn, an observer sees phase jn.phase
      wrote(c, jn) == [used(c) EXCEPT !.j = jn, !.ph = Append(@, jn.phase)]
      \* Status().Update(job) carrying status jn, then return
      SW(c, jn) == IF fails(c) THEN used(c) ELSE wrote(c, jn)
      \* Status().Update(job) carrying status jn; return on error, else go on with K
      CondW(c, jn, K(_)) == IF fails(c) THEN used(c) ELSE K(wrote(c, jn))
      abort(c, why) == SW(c, [c.j EXCEPT !.phase = "Failed", !.reason = why])

      \* ---- :408-430 all done
      Finish(c) == SW(c, [c.j EXCEPT !.phase = "Succeeded", !.status = "Complete", !.reason = "", !.cPodBound = "True:"])
      \* ---- handleBoundPodReadySuccess
      ReadyOK(c) == IF c.j.cReady = "True:" THEN Finish(c)
                    ELSE CondW(c, [c.j EXCEPT !.cReady = "True:", !.status = "BoundPodReady", !.reason = ""], Finish)
      \* ---- waitForPodReady (a bound pod that cannot be found counts as ready)
      WaitReady(c) ==
          IF c.j.cReady = "True:" THEN ReadyOK(c)
          ELSE IF c.r.bound = "same" /\ p.exists /\ ~p.ready
               THEN IF c.j.cReady = "False:WaitForBoundPodReady" THEN c
                    ELSE SW(c, [c.j EXCEPT !.cReady = "False:WaitForBoundPodReady", !.status = "BoundPodReady",
                                           !.reason = "WaitForBoundPodReady"])
               ELSE ReadyOK(c)
      \* ---- handleReservationBoundSuccess
      BoundOK(c) == IF c.j.cBound = "True:" THEN WaitReady(c)
                    ELSE CondW(c, [c.j EXCEPT !.cBound = "True:"], WaitReady)
      \* ---- waitForPodBindReservation
      WaitBind(c) ==
          IF c.j.cPodBound = "True:" THEN BoundOK(c)
          ELSE IF c.r.bound = ""
               THEN IF c.j.cPodBound = "False:WaitForPodBindReservation" THEN c
                    ELSE SW(c, [c.j EXCEPT !.cPodBound = "False:WaitForPodBindReservation", !.status = "PodBoundReservation",
                                           !.reason = "WaitForPodBindReservation"])
               ELSE BoundOK(c)
      \* ---- evictPod (:783)
      UidMismatch(c) == /\ p.exists /\ c.j.uid # 0 /\ c.j.uid # p.uid
                        /\ ("uid" \in Repairs \/ c.j.cEvict # "none")      \* as found: consulted only once an Eviction condition exists
      EvictPod(c) ==
          IF c.j.cEvict = "True:EvictComplete" THEN WaitBind(c)
          ELSE IF ~p.exists \/ UidMismatch(c)
               THEN IF c.j.status # "Eviction" THEN abort(c, "MissingPod")
                    ELSE CondW(c, [c.j EXCEPT !.cEvict = "True:EvictComplete", !.status = "Eviction", !.reason = "EvictComplete"], WaitBind)
          ELSE IF c.j.cEvict = "False:Evicting" THEN c                    \* eviction in progress: wait for the pod to go
          ELSE IF c.r.st = "succeeded" THEN abort(c, "ForbiddenMigratePod")   \* abortJobIfReservationBoundByAnotherPod
          ELSE IF fails(c) THEN call(used(c), "Evict", FALSE)
          ELSE LET c1 == call(used(c), "Evict", TRUE)
               IN  SW(c1, [c1.j EXCEPT !.cEvict = "False:Evicting", !.status = "Eviction", !.reason = "Evicting"])
      \* ---- prepareJobWithReservationScheduleSuccess (:847) incl. abortJobIfReserveOnSameNode (:654)
      PrepSched(c) ==
          IF c.r.node = "" \/ c.j.node # "" \/ c.j.cSched = "True:" THEN EvictPod(c)
          ELSE IF p.exists /\ c.r.node = p.node THEN abort(c, "ForbiddenMigratePod")
          ELSE CondW(c, [c.j EXCEPT !.node = c.r.node, !.cSched = "True:", !.status = "ReservationScheduled", !.reason = ""], EvictPod)
      \* ---- :358 not scheduled: abort, or preempt
      NotSched(c) ==
          IF c.r.st \in {"scheduled", "succeeded"} THEN PrepSched(c)
          ELSE IF ~(c.r.np /\ pr.preempt) THEN abort(c, "Unschedulable")
          ELSE LET c1 == call(c, "Preempt", c.r.pd) IN IF c.r.pd THEN PrepSched(c1) ELSE c1
      \* ---- :348 pending  :353 expired
      Gates(c) == IF c.r.st \in {"pending", "unsched"} THEN c
                  ELSE IF c.r.st = "expired" THEN abort(c, "ReservationExpired")
                  ELSE NotSched(c)
      \* ---- syncReservationScheduleFailed (:687)
      SyncUnsched(c) ==
          IF c.r.uc /\ c.j.cSched = "none"
          THEN CondW(c, [c.j EXCEPT !.cSched = "False:Unschedulable", !.status = "ReservationScheduled", !.reason = "Unschedulable"], Gates)
          ELSE Gates(c)
      \* ---- handleReservationCreateSuccess
      CreatedOK(c) == IF c.j.cCreated = "True:" THEN SyncUnsched(c)
                      ELSE CondW(c, [c.j EXCEPT !.cCreated = "True:", !.status = "ReservationCreated", !.reason = ""], SyncUnsched)
      \* ---- setReservationOrder: a missing reservation is an error returned before abortJobByMissingReservation is reached
      WithRef(c) == IF ~c.r.exists THEN c ELSE CreatedOK(c)
      \* ---- createReservation (:947)
      Create(c) ==
          IF ~p.exists THEN abort(c, "MissingPod")
          ELSE IF fails(c)
               THEN LET c1 == call(used(c), "CreateReservation", FALSE)
                    IN  IF c1.j.cCreated = "False:FailedCreateReservation" THEN c1
                        ELSE SW(c1, [c1.j EXCEPT !.cCreated = "False:FailedCreateReservation", !.status = "ReservationCreated",
                                                 !.reason = "FailedCreateReservation"])
               ELSE LET c1 == call(used(c), "CreateReservation", TRUE)
                        c2 == [c1 EXCEPT !.r = IF c.r.exists THEN c.r ELSE NewResv]     \* AlreadyExists: adopted
                    IN  IF fails(c2) THEN used(c2) ELSE wrote(c2, [c2.j EXCEPT !.ref = TRUE])   \* Update(job) recording the reference
      AfterPrepare(c) == IF c.j.ref THEN WithRef(c) ELSE Create(c)
      \* ---- preparePendingJob (:433)
      Prepare(c) ==
          IF c.j.phase \in {"", "Pending"}
          THEN IF ~p.exists
               THEN IF "seed-prepare-goes-on" \notin Repairs THEN abort(c, "MissingPod")
                    \* a modelled DEFECT (seeded change C17-4; MC_seed_tm.cfg): preparePodRef returns the abort's own error,
                    \* so preparePendingJob goes on and persists Running over the persisted Failed
                    ELSE CondW(c, [c.j EXCEPT !.phase = "Failed", !.reason = "MissingPod"],
                               LAMBDA c1 : CondW(c1, [c1.j EXCEPT !.phase = "Running"], AfterPrepare))
               ELSE IF fails(c) THEN used(c)                                 \* Update(job) recording the pod UID
               ELSE LET c1 == wrote(c, [c.j EXCEPT !.uid = p.uid])
                    IN  CondW(c1, [c1.j EXCEPT !.phase = "Running"], AfterPrepare)
          ELSE AfterPrepare(c)
      \* ---- abortJobIfTimeout (:544)
      Timeout(c) ==
          IF pr.ttl > 0 /\ t >= pr.ttl
          THEN IF c.j.ref \/ "leak" \in Repairs      \* as found: a reservation whose reference was never recorded is not looked for
               THEN IF ~c.r.exists THEN abort(call(c, "DeleteReservation", FALSE), "Timeout")     \* NotFound is tolerated
                    ELSE IF fails(c) THEN call(used(c), "DeleteReservation", FALSE)
                    ELSE LET c1 == call(used(c), "DeleteReservation", TRUE)
                         IN  abort([c1 EXCEPT !.r = NoResv], "Timeout")
               ELSE abort(c, "Timeout")
          ELSE Prepare(c)
  IN  IF pr.owned /\ rst THEN c0                                       \* created by an earlier incarnation: ignored
      ELSE IF j0.phase \notin {"", "Pending", "Running"} THEN c0       \* :292 terminal phases short-circuit
      ELSE Timeout(c0)

Reconcile(F) ==
    LET o == Rec(job, resv, pod, now, par, restarted, F)
    IN  /\ job' = o.j /\ resv' = o.r
        /\ lastCalls' = o.calls /\ lastWrites' = o.ph
        /\ nEvict' = Min2(nEvict + NumKind(o.calls, {"Evict"}), EvictCap)
        /\ faulted' = (faulted \/ o.hit)
        /\ UNCHANGED <<pod, now, par, restarted>>

-----------------------------------------------------------------------------
(* The environment: only legal events                                      *)
EnvFrame == lastCalls' = <<>> /\ lastWrites' = <<>> /\ UNCHANGED <<job, par, nEvict, faulted>>

RScheduled(n) == /\ resv.exists /\ resv.st \in {"pending", "unsched"}
                 /\ resv' = [resv EXCEPT !.st = "scheduled", !.node = n, !.uc = FALSE]
                 /\ EnvFrame /\ UNCHANGED <<pod, now, restarted>>
\* hard: the reservation is failed for good (phase Failed); np: it could be scheduled after preempting other pods
RUnschedulable(hard, np) ==
                 /\ resv.exists /\ resv.st \in (IF hard THEN {"pending", "unsched"} ELSE {"pending"})
                 /\ (np => hard /\ par.preempt)
                 /\ resv' = [resv EXCEPT !.st = IF hard THEN "failed" ELSE "unsched", !.uc = TRUE, !.np = np]
                 /\ EnvFrame /\ UNCHANGED <<pod, now, restarted>>
RPreempted == /\ resv.exists /\ resv.st = "failed" /\ resv.np /\ ~resv.pd
              /\ resv' = [resv EXCEPT !.pd = TRUE]
              /\ EnvFrame /\ UNCHANGED <<pod, now, restarted>>
RExpire == /\ resv.exists /\ resv.st \in {"pending", "unsched", "scheduled"}
           /\ resv' = [resv EXCEPT !.st = "expired"]
           /\ EnvFrame /\ UNCHANGED <<pod, now, restarted>>
RDelete == /\ resv.exists /\ resv' = NoResv
           /\ EnvFrame /\ UNCHANGED <<pod, now, restarted>>
\* the reservation is consumed by some other pod, or by a pod that replaced the target under the same name
\* "gone": consumed by some other pod that has been deleted since (the reservation controller has emptied currentOwners)
RBind(who) == /\ resv.exists /\ resv.st = "scheduled" /\ who \in {"other", "same", "gone"}
              /\ (who = "same" => pod.exists /\ pod.uid > 1 /\ pod.node = resv.node)
              /\ resv' = [resv EXCEPT !.st = "succeeded", !.bound = IF who = "gone" THEN "" ELSE who]
              /\ EnvFrame /\ UNCHANGED <<pod, now, restarted>>
PodDelete == /\ pod.exists /\ pod' = [pod EXCEPT !.exists = FALSE, !.node = "", !.ready = FALSE]
             /\ EnvFrame /\ UNCHANGED <<resv, now, restarted>>
PodReplace(n, rdy) == /\ pod.uid < MaxUid
                      /\ pod' = [exists |-> TRUE, uid |-> pod.uid + 1, node |-> n, ready |-> rdy]
                      /\ EnvFrame /\ UNCHANGED <<resv, now, restarted>>
PodReady == /\ pod.exists /\ ~pod.ready /\ pod' = [pod EXCEPT !.ready = TRUE]
            /\ EnvFrame /\ UNCHANGED <<resv, now, restarted>>
Tick(k) == /\ k > 0 /\ now' = now + k
           /\ EnvFrame /\ UNCHANGED <<resv, pod, restarted>>
Restart == /\ restarted' = TRUE
           /\ EnvFrame /\ UNCHANGED <<resv, pod, now>>

InitWith(p0, n0) == /\ job = Job0 /\ resv = NoResv /\ pod = Pod0(n0) /\ now = 0 /\ par = p0
                    /\ restarted = FALSE /\ lastCalls = <<>> /\ lastWrites = <<>> /\ nEvict = 0 /\ faulted = FALSE
=============================================================================
