\* the design with the proposed repairs: must satisfy G, Tm, Tt, Once
SPECIFICATION Spec
CONSTANTS
  Nodes = {"n1", "n2"}
  MaxUid = 2
  Repairs = {"uid", "leak"}
  MaxW = 4
  Ttls = {0, 2}
  MaxNow = 2
INVARIANT TypeOK
INVARIANT GInv
INVARIANT TtInv
INVARIANT OnceInv
PROPERTY Tm
CHECK_DEADLOCK FALSE
