------------------------- MODULE Gen_MigrationJob -------------------------
(* Schedule generation for the C17 harness.  The schedules are sequences of  *)
(* {reconcile with the set of failing write indices, legal environment      *)
(* event, tick, restart}; legality of an environment event is decided on the *)
(* model state (the controller transcription AS FOUND predicts what the      *)
(* controller has created / deleted).  What the real controller DOES with a  *)
(* schedule is observed by the harness, not predicted here; an event that is *)
(* not legal in the real state is recorded as not applied.                   *)
(*                                                                           *)
(* BFS with VIEW = model state (hist excluded): one shortest schedule per    *)
(* reachable model state up to K steps (the harness drops schedules that are *)
(* proper prefixes of others).  -simulate: random walks of K steps.          *)
(* Focus (Gen_resv.cfg): the reservation's life cycle alone, exhaustively and *)
(* unsampled - every ORDER (the view keeps the order of the reports, not only *)
(* the model state) of {reported unschedulable, scheduled on the pod's        *)
(* node / another node, failed for good, preempted, expired, deleted, bound}  *)
(* interleaved with reconciles (the pod only disappears once its eviction has *)
(* been issued; no replacement, restart, clock): e.g. "unschedulable, seen by *)
(* the job, and only THEN scheduled on the pod's own node".                   *)
EXTENDS MC_MigrationJob, Json, SequencesExt
CONSTANTS K, GenFaults, TailLen, Biased, Focus
VARIABLES hist, tail         \* tail: steps taken since the job reached a terminal phase
gvars == <<vars, hist, tail>>
H(rec) == hist' = Append(hist, rec)
GenInit == /\ \E p0 \in Pars : InitWith(p0, "n1")
           /\ tail = 0
           /\ hist = <<[op |-> "reset", ttl |-> par.ttl, preempt |-> par.preempt, owned |-> par.owned, node |-> pod.node]>>
\* only fault sets whose every index is actually reached by this reconcile (the others repeat a smaller set)
Eff(F) == LET o == Rec(job, resv, pod, now, par, restarted, F) IN \A i \in F : i <= o.w
\* Biased (simulation picks uniformly among successor states): pod churn and restarts only at every third step, so that
\* random walks let the job make progress
Rare == ~Biased \/ Len(hist) % 3 = 0
GenStep ==
  \/ \E F \in GenFaults : Eff(F) /\ Reconcile(F) /\ H([op |-> "reconcile", fail |-> SetToSeq(F)])
  \/ \E n \in Nodes : RScheduled(n) /\ H([op |-> "rsched", node |-> n])
  \/ \E h \in BOOLEAN, np \in BOOLEAN : RUnschedulable(h, np) /\ H([op |-> "runsched", hard |-> h, np |-> np])
  \/ RPreempted /\ H([op |-> "rpreempted"])
  \/ RExpire /\ H([op |-> "rexpire"])
  \/ RDelete /\ H([op |-> "rdelete"])
  \/ \E w \in {"other", "same", "gone"} : RBind(w) /\ H([op |-> "rbind", who |-> w])
  \/ Rare /\ (Focus => job.cEvict = "False:Evicting") /\ PodDelete /\ H([op |-> "poddelete"])
  \/ ~Focus /\ PodReady /\ H([op |-> "podready"])
  \/ ~Focus /\ Rare /\ \E n \in Nodes, rdy \in BOOLEAN : PodReplace(n, rdy) /\ H([op |-> "podreplace", node |-> n, ready |-> rdy])
  \/ (~Focus /\ par.ttl > 0 /\ now < MaxNow /\ \E k \in 1..(MaxNow - now) : Tick(k) /\ H([op |-> "tick", n |-> k]))
  \/ (~Focus /\ Rare /\ ~restarted /\ Restart /\ H([op |-> "restart"]))
GenNext == GenStep /\ tail' = IF job.phase \in Terminal THEN tail + 1 ELSE 0
GenSpec == GenInit /\ [][GenNext]_gvars
\* lastWrites is a function of the step taken: not part of the view. Focus: the ORDER of the reports about the reservation
\* so far is part of the view, so that every order is kept (not only one shortest schedule per model state)
ResvOps == SelectSeq(hist, LAMBDA h : h.op \in {"rsched", "runsched", "rexpire", "rdelete", "rbind", "rpreempted"})
GenView == <<job, resv, pod, now, par, restarted, lastCalls, nEvict, faulted, tail, IF Focus THEN ResvOps ELSE <<>> >>
GenBound == Len(hist) <= K /\ tail < TailLen        \* states beyond are printed but not expanded
GenPrint == (Len(hist) >= 3 /\ hist[Len(hist)].op = "reconcile") => PrintT(ToJson(hist))
SimPrint == Len(hist) = K + 1 => PrintT(ToJson(hist))
F0 == {{}, {1}, {2}}
F1 == {{}, {1}, {2}, {3}, {4}, {5}}
F2 == F1 \cup {{1, 2}, {2, 3}, {3, 4}, {1, 3}, {2, 4}}
P0 == {[ttl |-> 0, preempt |-> FALSE, owned |-> FALSE], [ttl |-> 0, preempt |-> TRUE, owned |-> FALSE]}
P1 == {[ttl |-> 0, preempt |-> FALSE, owned |-> FALSE], [ttl |-> 2, preempt |-> TRUE, owned |-> FALSE]}
P2 == P1 \cup {[ttl |-> 2, preempt |-> FALSE, owned |-> TRUE], [ttl |-> 1, preempt |-> TRUE, owned |-> FALSE]}
=============================================================================
