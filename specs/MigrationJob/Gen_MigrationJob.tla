------------------------- MODULE Gen_MigrationJob -------------------------
(* Schedule generation for the C17 harness.  The schedules are sequences of  *)
(* {reconcile with the set of failing write indices, legal environment      *)
(* event, tick, restart}; legality of an environment event is decided on the *)
(* model state (the controller transcription AS FOUND predicts what the      *)
(* controller has created / deleted).  What the real controller DOES with a  *)
(* schedule is observed by the harness, not predicted here; an event that is *)
(* not legal in the real state is recorded as not applied.                   *)
(*                                                                           *)
(* BFS with VIEW = model state (hist excluded): one shortest schedule per    *)
(* reachable model state up to K steps (the harness drops schedules that are *)
(* proper prefixes of others).  -simulate: random walks of K steps.          *)
EXTENDS MC_MigrationJob, Json, SequencesExt
CONSTANTS K, GenFaults, TailLen, Biased
VARIABLES hist, tail         \* tail: steps taken since the job reached a terminal phase
gvars == <<vars, hist, tail>>
H(rec) == hist' = Append(hist, rec)
GenInit == /\ \E p0 \in Pars : InitWith(p0, "n1")
           /\ tail = 0
           /\ hist = <<[op |-> "reset", ttl |-> par.ttl, preempt |-> par.preempt, owned |-> par.owned, node |-> pod.node]>>
\* only fault sets whose every index is actually reached by this reconcile (the others repeat a smaller set)
Eff(F) == LET o == Rec(job, resv, pod, now, par, restarted, F) IN \A i \in F : i <= o.w
\* Biased (simulation picks uniformly among successor states): pod churn and restarts only at every third step, so that
\* random walks let the job make progress
Rare == ~Biased \/ Len(hist) % 3 = 0
GenStep ==
  \/ \E F \in GenFaults : Eff(F) /\ Reconcile(F) /\ H([op |-> "reconcile", fail |-> SetToSeq(F)])
  \/ \E n \in Nodes : RScheduled(n) /\ H([op |-> "rsched", node |-> n])
  \/ \E h \in BOOLEAN, np \in BOOLEAN : RUnschedulable(h, np) /\ H([op |-> "runsched", hard |-> h, np |-> np])
  \/ RPreempted /\ H([op |-> "rpreempted"])
  \/ RExpire /\ H([op |-> "rexpire"])
  \/ RDelete /\ H([op |-> "rdelete"])
  \/ \E w \in {"other", "same"} : RBind(w) /\ H([op |-> "rbind", who |-> w])
  \/ Rare /\ PodDelete /\ H([op |-> "poddelete"])
  \/ PodReady /\ H([op |-> "podready"])
  \/ Rare /\ \E n \in Nodes, rdy \in BOOLEAN : PodReplace(n, rdy) /\ H([op |-> "podreplace", node |-> n, ready |-> rdy])
  \/ (par.ttl > 0 /\ now < MaxNow /\ \E k \in 1..(MaxNow - now) : Tick(k) /\ H([op |-> "tick", n |-> k]))
  \/ (Rare /\ ~restarted /\ Restart /\ H([op |-> "restart"]))
GenNext == GenStep /\ tail' = IF job.phase \in Terminal THEN tail + 1 ELSE 0
GenSpec == GenInit /\ [][GenNext]_gvars
GenView == <<vars, tail>>
GenBound == Len(hist) <= K /\ tail < TailLen        \* states beyond are printed but not expanded
GenPrint == (Len(hist) >= 3 /\ hist[Len(hist)].op = "reconcile") => PrintT(ToJson(hist))
SimPrint == Len(hist) = K + 1 => PrintT(ToJson(hist))
F1 == {{}, {1}, {2}, {3}, {4}, {5}}
F2 == F1 \cup {{1, 2}, {2, 3}, {3, 4}, {1, 3}, {2, 4}}
P1 == {[ttl |-> 0, preempt |-> FALSE, owned |-> FALSE], [ttl |-> 2, preempt |-> TRUE, owned |-> FALSE]}
P2 == P1 \cup {[ttl |-> 2, preempt |-> FALSE, owned |-> TRUE], [ttl |-> 1, preempt |-> TRUE, owned |-> FALSE]}
=============================================================================
