SPECIFICATION GenSpec
CONSTANTS
  Nodes = {"n1", "n2"}
  MaxUid = 2
  Repairs = {}
  MaxW = 4
  Ttls = {0}
  Pars <- P1
  MaxNow = 2
  K = 6
  TailLen = 2
  Biased = FALSE
  Focus = FALSE
  GenFaults <- F1
VIEW GenView
CONSTRAINT GenBound
INVARIANT GenPrint
CHECK_DEADLOCK FALSE
