------------------------- MODULE MigrationJobTrace -------------------------
(***************************************************************************)
(* Trace validation for C17.  One segment = one PodMigrationJob driven on  *)
(* the REAL Reconciler (harness zz_verif_c17_test.go).  Every event        *)
(* carries obs = the job status, the reservation and the pod as read from  *)
(* the fake API server after the step; a reconcile event also carries the  *)
(* calls the controller issued (Evict, CreateReservation,                  *)
(* DeleteReservation, Preempt), each stamped with the reservation, the pod *)
(* and the job's persisted phase (jp) read from the API server at that     *)
(* instant, whether an injected API failure was hit, and writes = the      *)
(* phase of the job read back from the API server after every write of the *)
(* job that the API server accepted during this reconcile, in order.       *)
(*                                                                         *)
(* What is CHECKED (the statement of C17, nothing else):                   *)
(*   GInv     every Evict stamp has capacity secured                       *)
(*   TmStep   a finished job keeps its phase, no Evict / CreateReservation: *)
(*            judged on the phase after the previous step FOLLOWED BY the   *)
(*            phase persisted by every successful write of the job in this *)
(*            reconcile (Ev.writes, read back from the API server after    *)
(*            each write), and on the persisted phase stamped on each call *)
(*   TtInv    a job failed by Timeout has no reservation left              *)
(*            (TtTraceInv: with VERIF_TOLERATE_C17_TT set - second pass of  *)
(*            lib/pipeline.py over segments rejected for the recorded      *)
(*            finding - not demanded of a job whose reservation reference  *)
(*            was never recorded; everything else stays)                   *)
(*   OnceInv  no API failure so far => at most one Evict call              *)
(* plus the harness's own discipline: environment events are legal and do  *)
(* what the model says (so that a stamp means what the predicates assume), *)
(* a reconcile leaves the pod alone, and the write log explains the job    *)
(* observed after the reconcile (WritesBind).                              *)
(* The state after a reconcile is TAKEN from the observation; equality     *)
(* with the transcription Rec(..) is only a diagnostic (explain mode, or   *)
(* enforced when VERIF_C17_STRICT is set - development aid, never used by  *)
(* bin/check).                                                             *)
(***************************************************************************)
EXTENDS MigrationJob, TraceCommon

Strict == "VERIF_C17_STRICT" \in DOMAIN IOEnv
\* the recorded finding C17-unrecorded-reservation-left-behind-on-ttl (known_findings.json): createReservation created the
\* Reservation, the Update(job) recording its reference failed, the TTL passed: the job is Failed/Timeout with ref = FALSE
\* and the reservation is still there. With the switch set exactly that situation is not judged by (Tt).
TolerateTt == "VERIF_TOLERATE_C17_TT" \in DOMAIN IOEnv
TtTraceInv == IF TolerateTt /\ ~job.ref THEN TRUE ELSE TtInv

\* projection of the raw reservation fields onto the model's reservation
StOf(x) == IF ~x.exists THEN "none"
           ELSE IF x.phase = "Failed" /\ x.expired THEN "expired"
           ELSE IF x.phase = "Succeeded" THEN "succeeded"
           ELSE IF x.phase = "Available" /\ x.node # "" /\ x.sched = "Scheduled" THEN "scheduled"
           ELSE IF x.phase \in {"", "Pending"} /\ x.sched = "Unschedulable" THEN "unsched"
           ELSE IF x.phase = "Failed" /\ x.sched = "Unschedulable" THEN "failed"
           ELSE IF x.phase \in {"", "Pending"} /\ x.sched = "none" THEN "pending"
           ELSE "unknown"
AbsR(x) == IF ~x.exists THEN NoResv
           ELSE [exists |-> TRUE, st |-> StOf(x), node |-> x.node, bound |-> x.bound,
                 uc |-> (x.sched = "Unschedulable"), np |-> x.np, pd |-> x.pd]
AbsP(x) == [exists |-> x.exists, uid |-> x.uid, node |-> x.node, ready |-> x.ready]
AbsJ(x) == [phase |-> x.phase, reason |-> x.reason, status |-> x.status, node |-> x.node, uid |-> x.uid, ref |-> x.ref,
            cCreated |-> x.cCreated, cSched |-> x.cSched, cEvict |-> x.cEvict,
            cPodBound |-> x.cPodBound, cBound |-> x.cBound, cReady |-> x.cReady]
AbsCalls(cs) == [i \in 1..Len(cs) |-> [kind |-> cs[i].kind, ok |-> cs[i].ok, r |-> AbsR(cs[i].r), p |-> AbsP(cs[i].p), jp |-> cs[i].jp]]
\* the harness's own discipline for the write log: the job is written by the controller only, so what is observed after the
\* reconcile is what the last persisted write left (no write: the job is as it was)
WritesBind(j, jn, ws) == IF Len(ws) = 0 THEN jn = j ELSE ws[Len(ws)] = jn.phase
ToSetOf(s) == {s[i] : i \in 1..Len(s)}

\* the pod of the model remembers the uid of a deleted pod (for numbering replacements); the API server does not
SamePod(a, b) == a.exists = b.exists /\ a.node = b.node /\ a.ready = b.ready /\ (a.exists => a.uid = b.uid)
ObsEnv(e) == Expect(resv' = AbsR(e.obs.r) /\ SamePod(pod', AbsP(e.obs.p)) /\ now' = e.obs.now /\ job' = AbsJ(e.obs.job),
                    [r |-> resv', p |-> pod', now |-> now', job |-> job'])

\* an environment event: legal and applied as the model says, or not legal in the real state and not applied
Env(op, A) == /\ IsEvent(op)
              /\ IF Ev.applied THEN A /\ ObsEnv(Ev)
                 ELSE ~ENABLED A /\ UNCHANGED vars

TRScheduled == Env("rsched", RScheduled(Ev.node))
TRUnsched   == Env("runsched", RUnschedulable(Ev.hard, Ev.np))
TRPreempted == Env("rpreempted", RPreempted)
TRExpire    == Env("rexpire", RExpire)
TRDelete    == Env("rdelete", RDelete)
TRBind      == Env("rbind", RBind(Ev.who))
TPodDelete  == Env("poddelete", PodDelete)
TPodReplace == Env("podreplace", PodReplace(Ev.node, Ev.ready))
TPodReady   == Env("podready", PodReady)
TTick       == Env("tick", Tick(Ev.n))
TRestart    == IsEvent("restart") /\ Restart /\ ObsEnv(Ev)

\* what the transcription predicts for this reconcile (diagnostic)
NormP(p) == IF p.exists THEN p ELSE [p EXCEPT !.uid = 0]
Predicted(e) == LET o == Rec(job, resv, pod, now, par, restarted, ToSetOf(e.fail))
                IN  [job |-> o.j, r |-> o.r, hit |-> o.hit, writes |-> o.ph,
                     calls |-> [i \in 1..Len(o.calls) |-> [o.calls[i] EXCEPT !.p = NormP(@)]]]
TReconcile ==
    /\ IsEvent("reconcile")
    /\ LET cs == AbsCalls(Ev.calls)
           pr == Predicted(Ev)
       IN  /\ job' = AbsJ(Ev.obs.job)
           /\ resv' = AbsR(Ev.obs.r)
           /\ lastCalls' = cs
           /\ lastWrites' = Ev.writes
           /\ nEvict' = Min2(nEvict + NumKind(cs, {"Evict"}), EvictCap)
           /\ faulted' = (faulted \/ Ev.hit)
           /\ UNCHANGED <<pod, now, par, restarted>>
           /\ SamePod(pod, AbsP(Ev.obs.p))                      \* the controller touches the pod only through Evict
           /\ WritesBind(job, job', Ev.writes)
           /\ Expect(/\ TmStep(job, job', lastCalls', lastWrites')         \* (Tm)
                     /\ (Strict => (pr.job = job' /\ pr.r = resv' /\ pr.calls = cs /\ pr.hit = Ev.hit /\ pr.writes = Ev.writes)),
                     \* explain mode: which clause is false in the state reached by this event, and what the transcription predicts
                     [clauses |-> [G_holds |-> G(cs), Tm_holds |-> TmStep(job, job', lastCalls', lastWrites'),
                                   Tm_writes_holds |-> TmWrites(job, Ev.writes), Tm_calls_holds |-> TmCalls(cs),
                                   Tt_holds |-> TtTraceInv', Once_holds |-> OnceInv'],
                      transcription |-> pr])

TraceInit == \E i \in Starts :
                /\ TraceStart(i)
                /\ InitWith([ttl |-> Trace[i].ttl, preempt |-> Trace[i].preempt, owned |-> Trace[i].owned], Trace[i].node)
TraceNext == \/ TReconcile
             \/ TRScheduled \/ TRUnsched \/ TRPreempted \/ TRExpire \/ TRDelete \/ TRBind
             \/ TPodDelete \/ TPodReplace \/ TPodReady \/ TTick \/ TRestart
             \/ (SegDone /\ UNCHANGED vars)
TraceSpec == TraceInit /\ [][TraceNext]_<<vars, tvars>>
=============================================================================
