# one claim(...) per registered property; read by mkmanifest.py
claim("C15",
      "TLA+ spec QuotaTopology (TLC exhaustive MC of the transcribed webhook checks + TLC-generated request histories replayed on the real quotaTopology + TLC trace validation of every recorded request/topology against the property-level spec)",
      "TLC shows WellFormed is an invariant of the transcribed webhook design for all request sequences over 3 quota names (12.7k states); every request "
      "history of length 3-4 over a small universe plus TLC-simulated and seeded random histories is executed on the real ValidAddQuota/ValidUpdateQuota/"
      "ValidDeleteQuota and TLC checks for each event that accept => result well-formed and equal to the admitted objects, reject => recorded topology unchanged.",
      "Trusted: TLC, controller-runtime fake client, the harness projection of quotaInfoMap/quotaHierarchyInfo/namespaceToQuotaMap. Feature gates at defaults; no force-update/tree-root labels.",
      "DESIGN.md 5 C15")
