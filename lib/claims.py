# one claim(...) per registered property; read by mkmanifest.py
claim("C15",
      "TLA+ spec QuotaTopology (TLC exhaustive MC of the transcribed webhook checks + TLC-generated request histories replayed on the real quotaTopology + TLC trace validation of every recorded request/topology against the property-level spec)",
      "TLC shows WellFormed is an invariant of the transcribed webhook design for all request sequences over 3 quota names (12.7k states); every request "
      "history of length 3-4 over a small universe plus TLC-simulated and seeded random histories is executed on the real ValidAddQuota/ValidUpdateQuota/"
      "ValidDeleteQuota and TLC checks for each event that accept => result well-formed and equal to the admitted objects, reject => recorded topology unchanged.",
      "Trusted: TLC, controller-runtime fake client, the harness projection of quotaInfoMap/quotaHierarchyInfo/namespaceToQuotaMap. Feature gates at defaults; no force-update/tree-root labels.",
      "DESIGN.md 5 C15")
claim("C01",
      "TLA+ specs QuotaAccounting (from-scratch figures) + QuotaAccountingImpl (incremental algorithm): TLC exhaustive MC of Impl = from-scratch, one TLC witness history per reachable model state + TLC-simulated + seeded random/concurrent histories executed on the real GroupQuotaManager, every reported figure after every operation validated by TLC against the from-scratch operators (trace validation)",
      "TLC proves on the algorithm-level model (delta propagation with max-limiting, min-raising, clamping, re-parent = delete + re-add, full rebuild) that the stored figures equal the "
      "from-scratch figures in every reachable state of the bounded model; every such state is then driven on the real manager and, together with long random histories "
      "(two dimensions, non-preemptible pods, concurrent batches on distinct pods, fresh-manager rebuilds), each reported Used/Request/ChildRequest/Self*/NonPreemptible* figure and each pod's isAssigned flag "
      "is compared by TLC with the recursive from-scratch definition after every single operation.",
      "Trusted: TLC, the projection of GetQuotaSummaries(true). Groups share the fixed dimension set {cpu,memory}; histories respect what the webhook (C15) admits; feature gates at defaults; "
      "root/system/default groups not asserted; sub-call interleavings are covered only at quiescence of concurrent batches.",
      "DESIGN.md 5 C01")
claim("C02",
      "TLA+ spec RuntimeShare (relational predicates + transcription of the water-filling/Hamilton split): TLC exhaustive MC of the transcription against the predicates; real quotaTree.redistribution outputs (exhaustive small table + seeded random sibling sets, several insertion orders) and real multi-level RefreshRuntime levels validated by TLC against the predicates (trace validation, true inputs from the C01 abstract state)",
      "TLC decides on the model that the two-phase water-filling with largest-remainder split satisfies bounds / sum-fits / work-conservation / weight-proportional fairness / exactness for every input of a bounded domain; "
      "the same predicates are then evaluated by TLC on the runtime quotas the real code produced for enumerated and random sibling sets (order independence across insertion orders) and, on multi-level trees driven through "
      "GroupQuotaManager histories, for every level of every RefreshRuntime call with the level's TRUE inputs (max-limited from-scratch request, min, weight, lend flag) taken from the abstract objects.",
      "Trusted: TLC, in-package reads of quotaNode / calculator fields. 32-bit TLC integers: magnitudes keep weight*total < 2^31 (64-bit-scale memory values are not covered). Min-quota scaling on in half of the tree segments: the scaled min in force is taken from the calculator and only required to lie within 0..declared min. Guarantee feature gate off.",
      "DESIGN.md 5 C02")
claim("C03",
      "TLA+ specs QuotaAdmission (closed-loop design model, TLC exhaustive MC of NeverAboveMax) + QuotaAdmissionTrace (extends the C01/C02 trace specs): every PreFilter verdict of closed-loop histories through the real Plugin validated by TLC against the admission predicate on the from-scratch abstract state and the limits in force (trace validation)",
      "TLC checks on the closed-loop model that, whatever limit <= max is in force at each attempt, a group whose max is not lowered never shows used above max under all interleavings of pod creation, admission, roll-back, deletion and max changes "
      "(with and without parent checking). Histories through the real plugin (all four runtime x check-parent combinations) are validated event by event: verdict = Success iff used+request <= limit in every dimension for the group, "
      "every ancestor when parent checking is on, and non-preemptible usage <= min; the limit the plugin compared against is the right one (max, or the runtime quota which must itself satisfy C02's predicates at every level); NeverAboveMax as a state invariant.",
      "Trusted: TLC, the package's newPluginTestSuit fixture, in-package reads of PostFilterState and calculator fields. Min-quota scaling on in half of the segments (scaled mins in force taken from the logged calculator levels, bounded by the declared mins); hook plugins none; single default tree.",
      "DESIGN.md 5 C03")
claim("C04",
      "TLA+ spec Gang (ground-truth membership/hold state, property predicates ReleaseOK / MustReject / Partition, transcribed Permit and reject rules): TLC exhaustive MC of the design over all interleavings of informer, permit, roll-back, failure and bind steps; real PodGroupManager histories (online random driver playing the framework's waiting-pod table) validated event by event by TLC (trace validation)",
      "TLC shows on the model that the transcribed Permit / Unreserve / AfterPostFilter rules release a pod of a not-yet-satisfied group only when every gang of the group has its minimum of members holding resources and reject all parked members on a strict-mode failure, "
      "for all interleavings of 4 pods in 2 gangs under three policy/mode combinations. Every recorded call on the real gang cache is then checked by TLC: Permit verdict vs ReleaseOK on the ground truth, Allow/Reject sets vs the group's parked members, "
      "and after every event the reported children/pending/waiting/bound sets must partition the members and mean what they say.",
      "Trusted: TLC, the package's NewManagerForTest fixture, a fake framework handle serving the harness's waiting-pod table. Annotation gangs only; network topology / preemption out of scope; sub-call interleavings only in the model.",
      "DESIGN.md 5 C04")
claim("C09",
      "TLA+ spec Reclaim (bound / cap / monotonicity / stale / zone predicates + transcription of the batch and mid formulas): TLC exhaustive MC of the transcription; real Plugin.Calculate outputs for enumerated + seeded random inputs and raise-one-input chains validated by TLC against the predicates (trace validation)",
      "TLC checks on the model that the transcribed batch/mid formulas satisfy every bound of the statement and are monotone over a small exhaustive input domain; every output of the real batchresource/midresource Plugin.Calculate on "
      "enumerated tables and random inputs (policies usage/request/maxUsageRequest, pods with and without metrics, dangling metrics, host apps, NUMA zones, stale metrics) is checked by TLC against the property-level predicates, "
      "and each raise step of a consumption input must not raise a published amount.",
      "Trusted: TLC, fake clock/client of the package tests. Magnitudes < 2^31 (no 64-bit scale); safety-margin float product tolerance of 1 unit only where the exact product is an integer and the ratio not dyadic.",
      "DESIGN.md 5 C09")
claim("C12",
      "TLA+ spec CgroupTree (Write/Call/Done with hierarchy validity V after every write, terminal T and N; transcriptions of LeveledUpdateBatch and applyCPUSetWithNonePolicy): TLC exhaustive MC over all trees <= 4 nodes and hierarchy-valid old/target pairs; TLC-generated and random rewrites executed on the real executor under a temp cgroup root with a snapshot after every updater call, validated by TLC (trace validation)",
      "TLC shows on the transcribed two-pass algorithm that every prefix of the write sequence keeps child within parent and that on completion every file holds its target and unchanged files are not written, for all trees up to 4 nodes, "
      "cpusets over 4 CPUs and limits incl. Unlimited, any cache subset, chained rewrites. The real LeveledUpdateBatch and applyCPUSetWithNonePolicy are run on the same cases (both cgroup versions, five files) and every snapshot is checked by TLC.",
      "Trusted: TLC, system.NewFileTestUtil temp cgroup root (cannot refuse a write as a kernel would), the harness's write detector. One hierarchical file per rewrite; depth <= 3.",
      "DESIGN.md 5 C12")
claim("C16",
      "TLA+ spec EvictionCaps (callers as processes; Caps / Counters invariants; as-found vs atomic design): TLC exhaustive MC of the design over all interleavings of 3 callers; TLC-generated start/finish schedules (every interleaving) and random schedules of up to 8 callers replayed deterministically on the real PodEvictor and evictorProxy+EvictionLimiter through a blocking fake API, each recorded run validated by TLC (trace validation)",
      "TLC proves on the model that reserving the slot under the lock keeps successful evictions within the per-node / per-namespace / total caps and the counters equal to the evictions at quiescence for all interleavings (and exhibits the race of the as-found design). "
      "Every interleaving of start/finish steps of 2-3 callers, with API failures and all cap settings, is then forced on the real code by parking callers inside the API call; TLC checks Caps on the successful evictions, the reported counters at quiescence, "
      "refused => no side effect and dry-run => no API call. (Arbitration-round half of the property: being added, see DESIGN.md.)",
      "Trusted: TLC, the parking fake eviction client / evict plugin. Schedule granularity: a caller is observed when it is refused, parks inside the API call, or returns.",
      "DESIGN.md 5 C16")
claim("C10",
      "TLA+ spec Suppress (budget / cpuset / quota predicates + transcription of the selection policy and adjustByCPUSet/adjustByCfsQuota): TLC exhaustive MC over every assignment of 4-8 CPUs to {free, LSR, LSE, reserved, system-exclusive} x budgets; real calculateBESuppressCPU / calculateBESuppressCPUSetPolicy / adjustByCPUSet / adjustByCfsQuota outputs (files under a temp cgroup root, panics recorded as events) validated by TLC (trace validation)",
      "TLC checks on the transcription that the budget formula is floored and monotone and that the derived CPU set is distinct, within budget (min 2, step-limited), exact when enough CPUs are eligible and free of LSE-owned / reserved / system-exclusive CPUs for every CPU-class assignment of the bounded topologies; "
      "the same tables plus random nodes up to 64 CPUs are run on the real code and every recorded budget, policy result, written cpuset / cfs quota - or panic - is checked by TLC against the property-level predicates.",
      "Trusted: TLC, gomock states-informer / metric-cache and the temp cgroup root of the package tests. cgroup v1, BECPUManager off; usages multiples of 125m (exact arithmetic). Rounds that derive no set (fewer eligible CPUs than budgeted) are not judged - reading decision recorded in DESIGN.md.",
      "DESIGN.md 5 C10")
claim("C14",
      "TLA+ spec BatchCgroup (Shares / Quota / ScaleQuota / memory conversions and the pod-vs-container predicates): TLC exhaustive MC of the relation pod >= every container and the conversion identities; real batchresource hook outputs (pods run through the real mutating webhook, proxy / NRI / reconciler request modes) for enumerated + seeded random container lists validated by TLC (trace validation)",
      "TLC checks on the TLA+ definitions that the pod-level conversion of the sums is never tighter than any container's conversion, that unlimited propagates and that the sum relation holds up to rounding and clamps over an exhaustive small domain; "
      "every Response.Resources produced by the real hook for enumerated two-container tables and random pods (BE by label / annotation-only / not BE, CFS on/off, ratios none/1.0/1.5/2.0) is checked by TLC value by value against the standard conversions.",
      "Trusted: TLC, the fake client of the webhook handler. cpu <= 300000 milli, memory <= 2^28 bytes (32-bit TLC integers); dyadic ratios (exact float division); init containers / overhead not generated.",
      "DESIGN.md 5 C14")
claim("C13",
      "TLA+ spec PodAdmission (abstract pod; AdmitOK / MutateOK predicates; transcriptions of the validating rules incl. the priority-band mapping and of the tier translation): TLC exhaustive MC of the transcriptions against the predicates; real clusterColocationProfileValidatingPod verdicts and real mutating handleCreate outputs for enumerated + seeded random pods/profiles validated by TLC (trace validation)",
      "TLC checks on the model that the transcribed admit rules imply the permitted QoS/priority pairs, whole-CPU LSR/LSE, batch-only-for-BE and immutability, and that the transcribed translation preserves every container's request/limit (CPU in milli), erases native entries, "
      "keeps the summary annotation equal to the final spec and is idempotent, over an exhaustive abstract domain with boundary priorities; each real verdict (admitted => rules) and each real mutated pod (second admission after a JSON round trip included) is checked by TLC against the predicates.",
      "Trusted: TLC, fake client with ClusterColocationProfile objects, the abstraction of the pod back to the record (field reads). One-directional admit check as the statement says; numbers < 2^31; init-container / overhead summary not judged (code TODO).",
      "DESIGN.md 5 C13")
claim("C11",
      "TLA+ spec Evict (eviction loop as a process; predicates El / Or / St / Tw / Us / Rl; transcription of KillAndEvictPods): TLC exhaustive MC over <= 4 pods, contributions 0..2, targets 0..4, 1-2 tasks, all failure / already-evicted patterns; recorded Evict call sequences and ReleaseLists of the real loop and of the real memory / cpu strategies (eligibility + sorting + release functions) validated by TLC (trace validation)",
      "TLC checks on the loop model that victims are eligible, taken in an order consistent with the published pre-order, that eviction stops once released + pending covers the target, that no pod is evicted twice and that the returned release equals the contributions; "
      "the real KillAndEvictPods with a recording executor (eviction calls failing, pods already evicted, one or several simultaneous tasks) and the real BE/priority strategies are run on enumerated + random inputs and each call sequence is checked by TLC, ties accepted in any order.",
      "Trusted: TLC, gomock informer / metric cache of the package tests, attribution of an Evict call to its task through the message text. Candidate lists without duplicates; pods carry a non-zero priority.",
      "DESIGN.md 5 C11")
claim("C20",
      "TLA+ spec SloLayering (abstract sections absent/empty/malformed/parsed, Layered operator, NoLeak; transcription of default<-cluster<-first-matching-node merge with keep-old-on-error): TLC exhaustive MC incl. update histories of length <= 3; TLC-generated and random ConfigMap sequences rendered to real ConfigMaps, fed to the real syncConfig / getNodeSLOSpec, every field path of the five strategy types observed as tokens and validated by TLC (trace validation)",
      "TLC checks on the transcription that the delivered value of every field equals Layered (first matching node entry if it sets the field, else cluster, else default; absent => defaults; malformed => previous effective section) and that nothing leaks from non-selecting entries, "
      "over 4 label sets, overlapping selectors and all update sequences up to length 3; the real handler is driven with the same sequences over all 181 real field paths (chosen by reflection) and every observed value is checked by TLC.",
      "Trusted: TLC, fake client / recorder of the package tests, DefaultSLOCfg() as the source of defaults (a change inside it is invisible). Explicit nulls, empty lists, unknown keys not generated; extension strategies out of scope.",
      "DESIGN.md 5 C20")
claim("C06",
      "TLA+ spec NumaCpu (post-condition predicates CpuOK / NumaOK / MustSucceed / LedgerExact / RefWithinLimit / PolicyReportOK; transcription of tryBestToDistributeEvenly and of the full-core / spread verification): TLC exhaustive MC over all hint masks of 3-4 NUMA nodes, all available subsets of 8-CPU topologies and small allocate/update/release histories; real takeCPUs / resourceManager.Allocate-Update-Release / tryBestToDistributeEvenly results validated by TLC as ALLOWED results (trace validation)",
      "TLC checks on the model that the transcribed NUMA split hands out exactly the request, never more than a node has free and succeeds whenever the hinted nodes together have enough (any hint mask), and that the accumulator's contract and the ledger invariants hold over small histories; "
      "the real accumulator, resource manager and NUMA distribution are run on the same tables plus random histories (sharing limit 1-3, reserved CPUs, asymmetric free sets) and every logged CPU set / split / NodeAllocation is checked by TLC against the post-conditions and the from-scratch ledger.",
      "Trusted: TLC, the package's topology builders. Symmetric topologies up to 16 CPUs; amplification ratio 1; completeness claimed only for divisible resources without CPU binding; Allocate+Update treated as one serialised step.",
      "DESIGN.md 5 C06")
claim("C18",
      "TLA+ spec Rebalance (balance round as a process with running usage / headroom; predicates Src / An / Low / Fil / Stop / Z; transcription of classification, anomaly gating and the continue-condition): TLC exhaustive MC over 2-3 nodes, <= 4 pods, absolute and deviation thresholds, anomaly none/2, up to 5 rounds; recorded Evict calls of the real LowNodeLoad.Balance over successive rounds validated by TLC against the usage/threshold table recomputed from the logged inputs (trace validation)",
      "TLC checks on the model that every eviction comes from a node measured above its high threshold (for the required CONSECUTIVE rounds when anomaly detection is on), with an underused node available and a pod passing the filters, that a source stops once back under the threshold or when headroom is used up, and that nothing is evicted in the early-exit situations; "
      "the real plugin is run over several rounds on enumerated + random pools with a recording evictor and every call is checked by TLC.",
      "Trusted: TLC, the package's test handle / fake NodeMetric lister / recording evictor. Single node pool, cpu+memory, integer-exact percent conversions, timeouts one hour away.",
      "DESIGN.md 5 C18")
claim("C17",
      "TLA+ spec MigrationJob (job / reservation / pod / clock / API-fault state; predicates G, Tm, Tt, Once; pure-function transcription of Reconcile/doMigrate's gate order): TLC exhaustive MC over all interleavings of Reconcile with environment events, restarts and write faults; TLC-generated (BFS + simulation) and online random schedules executed on the real Reconciler over a fault-injecting fake client, every step validated by TLC (trace validation)",
      "TLC checks on the transcribed controller that every Evict happens with the reservation scheduled (or preemption completed) on a node different from the pod's and never while it is pending / unschedulable / expired / missing / bound to another pod, that terminal jobs stay terminal and trigger nothing, that a TTL abort deletes the reservation and that fault-free runs evict at most once, "
      "for all environment / fault interleavings (1.5 M states); the real reconciler is driven through the same schedules (n-th write failing, fake clock, recording evictor, restarts) and each recorded call, stamped with the reservation and pod state read from the fake API server at that instant, is checked by TLC.",
      "Trusted: TLC, controller-runtime fake client + interceptor, fake clock, recording evictor / reservation interpreter wrapper. One reservation-first job for a running pod; reads never stale; preemption is a fake plug-in.",
      "DESIGN.md 5 C17")
