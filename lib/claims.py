# one claim(...) per registered property; read by mkmanifest.py
claim("C15",
      "TLA+ spec QuotaTopology (TLC exhaustive MC of the transcribed webhook checks + TLC-generated request histories replayed on the real quotaTopology + TLC trace validation of every recorded request/topology against the property-level spec)",
      "TLC shows WellFormed is an invariant of the transcribed webhook design for all request sequences over 3 quota names (12.7k states); every request "
      "history of length 3-4 over a small universe plus TLC-simulated and seeded random histories is executed on the real ValidAddQuota/ValidUpdateQuota/"
      "ValidDeleteQuota and TLC checks for each event that accept => result well-formed and equal to the admitted objects, reject => recorded topology unchanged.",
      "Trusted: TLC, controller-runtime fake client, the harness projection of quotaInfoMap/quotaHierarchyInfo/namespaceToQuotaMap. Feature gates at defaults; no force-update/tree-root labels.",
      "DESIGN.md 5 C15")
claim("C01",
      "TLA+ specs QuotaAccounting (from-scratch figures) + QuotaAccountingImpl (incremental algorithm): TLC exhaustive MC of Impl = from-scratch, one TLC witness history per reachable model state + TLC-simulated + seeded random/concurrent histories executed on the real GroupQuotaManager, every reported figure after every operation validated by TLC against the from-scratch operators (trace validation)",
      "TLC proves on the algorithm-level model (delta propagation with max-limiting, min-raising, clamping, re-parent = delete + re-add, full rebuild) that the stored figures equal the "
      "from-scratch figures in every reachable state of the bounded model; every such state is then driven on the real manager and, together with long random histories "
      "(two dimensions, non-preemptible pods, concurrent batches on distinct pods, fresh-manager rebuilds), each reported Used/Request/ChildRequest/Self*/NonPreemptible* figure and each pod's isAssigned flag "
      "is compared by TLC with the recursive from-scratch definition after every single operation.",
      "Trusted: TLC, the projection of GetQuotaSummaries(true). Groups share the fixed dimension set {cpu,memory}; histories respect what the webhook (C15) admits; feature gates at defaults; "
      "root/system/default groups not asserted; sub-call interleavings are covered only at quiescence of concurrent batches.",
      "DESIGN.md 5 C01")
