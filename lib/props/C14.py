def sig(fl):
    """classify a rejected segment (diagnostic label + known-finding key only; the verdict was TLC's)"""
    seg = fl["segment"]
    r = seg[0]
    cs = r.get("containers", [])
    declares = [c for c in cs if not (c["req"] == -1 and c["lim"] == -1 and c["mem"] == -1)]
    kind = "be" if r.get("mark") == "label" else "not-be"
    mixed = "mixed-declaring" if (declares and len(declares) < len(cs)) else "all-declaring" if declares else "none-declaring"
    pod = fl["event"].get("obs", {}).get("pod", {})

    def lim(k):
        v = pod.get(k, {})
        return "unset" if not v.get("set") else "unlimited" if v.get("v") == -1 else "limited"
    return "op=%s mark=%s(%s) %s pod-quota=%s pod-mem=%s mode=%s" % (
        fl["event"].get("op"), r.get("mark"), kind, mixed, lim("quota"), lim("mem"), r.get("mode"))


CONF = {
    "id": "C14", "family": "BatchCgroup",
    "mc": [
        {"module": "MC_BatchCgroup", "cfg": {"quick": "MC_quick.cfg", "thorough": "MC_quick.cfg"}, "timeout": 600},
        {"module": "MC_BatchCgroup", "cfg": {"quick": None, "thorough": "MC_thorough.cfg"}, "timeout": 1500},
    ],
    "go": [{"pkg": "pkg/koordlet/runtimehooks/hooks/batchresource", "test": "TestVerifC14", "pfm": True}],
    "trace": {"module": "BatchCgroupTrace", "cfg": "Trace.cfg"},
    "signature": sig,
    "rule": "one segment per pod (reset = container list + marking + cfs/ratio configuration + request mode, "
            "hook = Response.Resources of the pod and of every container); distinct by content; non-trivial = has the hook event",
    "assumptions": [
        "best-effort = label koordinator.sh/qosClass=BE, the only marking the API defines (GetQoSClassByAttrs receives the "
        "annotations but does not consult them; the validating webhook demands the label for batch resources): a pod carrying "
        "the key only as an annotation is a non-BE pod and must be left untouched",
        "a container whose values the hook leaves unset keeps the kubelet's values, which for undeclared amounts are minimum "
        "shares / no limit (the statement's 'an undeclared limit means unlimited')",
        "CFS quota disabled (BE suppression by cfsQuota policy) means quota -1 at both levels",
        "a declared amount of zero is treated like an undeclared one (the standard conversion maps <= 0 to unlimited / minimum shares)",
        "normalization ratios are exact binary fractions with two decimals (1.0, 1.5, 2.0): the hook divides in float64",
        "init containers and pod overhead are outside the statement (TODO in the code) and are not generated",
        "TLC integers are 32-bit: cpu <= 300000 milli-cores and memory <= 2^28 bytes per container, at most 6 containers",
    ],
}
