def sig(fl):
    """classify a rejected segment (diagnostic label + known-finding key only; the verdict was TLC's)"""
    seg = fl["segment"]
    r = seg[0]
    ev = fl["event"]
    op = ev.get("op")
    cs = r.get("containers", [])
    declares = [c for c in cs if not (c["req"] == -1 and c["lim"] == -1 and c["mem"] == -1)]
    kind = "be" if r.get("mark") == "label" else "not-be"
    mixed = "mixed-declaring" if (declares and len(declares) < len(cs)) else "all-declaring" if declares else "none-declaring"
    pod = ev.get("obs", {}).get("pod", {})
    mode = ev.get("mode") or r.get("mode")

    def lim(k):
        v = pod.get(k, {})
        return "unset" if not v.get("set") else "unlimited" if v.get("v") == -1 else "limited"
    if op == "hook":
        base = "op=hook mark=%s(%s) %s pod-quota=%s pod-mem=%s mode=%s" % (r.get("mark"), kind, mixed, lim("quota"), lim("mem"), mode)
        if r.get("mark") == "label" and mixed == "mixed-declaring":
            # the class of the registered known finding (pod-level values of a pod with a non-declaring container), whose
            # key admits no suffix. Container-level rejections of such pods are located at their own `conts` event.
            return base
    elif op == "conts":
        vals = ev.get("obs", {}).get("containers", {})
        inj = sum(1 for c in cs if vals.get(c["name"], {}).get("quota", {}).get("set"))
        base = "op=conts mark=%s(%s) %s injected=%s mode=%s" % (
            r.get("mark"), kind, mixed, "none" if inj == 0 else "all" if inj == len(cs) else "some", mode)
    else:
        base = "op=%s mark=%s(%s) %s" % (op, r.get("mark"), kind, mixed)
    # context: the annotation the pod carried before admission, the deliveries that preceded the rejected event
    ctx = ""
    pre = (r.get("pre") or {}).get("kind", "none")
    if pre != "none":
        ctx += " pre=" + pre
    before = [e for e in seg[1:fl["fail_index"]] if e.get("op") in ("node", "slo")]
    if before:
        d = before[-1]
        if d["op"] == "node":
            earlier = [e.get("kind") for e in before[:-1] if e.get("op") == "node"]
            was = earlier[-1] if earlier else ("valid" if r.get("rnum", 0) > 0 else "none")
            ctx += " after=node:%s(was:%s)" % (d.get("kind"), was)
        else:
            ctx += " after=slo:%s/%s" % (d.get("policy") or "absent", "on" if d.get("enable") else "off")
    return base + ctx


CONF = {
    "id": "C14", "family": "BatchCgroup",
    "mc": [
        {"module": "MC_BatchConfig", "cfg": {"quick": "MC_config.cfg", "thorough": "MC_config_thorough.cfg"}, "timeout": 600},
        {"module": "MC_BatchCgroup", "cfg": {"quick": "MC_quick.cfg", "thorough": "MC_quick.cfg"}, "timeout": 600},
        {"module": "MC_BatchCgroup", "cfg": {"quick": None, "thorough": "MC_thorough.cfg"}, "timeout": 1500},
    ],
    "go": [{"pkg": "pkg/koordlet/runtimehooks/hooks/batchresource", "test": "TestVerifC14", "pfm": True}],
    "trace": {"module": "BatchCgroupTrace", "cfg": "Trace.cfg"},
    "signature": sig,
    "rule": "one segment per pod and agent instance (reset = container list + marking + annotation carried before admission + "
            "initial cfs/ratio configuration; admit = real mutating webhook; node / slo = objects delivered to the real rule "
            "parsers; conts / hook = Response.Resources of every container / of the pod in one request mode); distinct by "
            "content; non-trivial = at least the admit event",
    "assumptions": [
        "ratios that are not exact in binary (1.15, 2.3, 4.35) are used only on amounts whose exact quotient is never an integer (limits 1000 / 2500 alone and in pairs), where float64 and exact arithmetic give the same ceiling; the container status list is in reverse spec order",
        "best-effort = label koordinator.sh/qosClass=BE, the only marking the API defines (GetQoSClassByAttrs receives the "
        "annotations but does not consult them; the validating webhook demands the label for batch resources): a pod carrying "
        "the key only as an annotation is a non-BE pod and must be left untouched",
        "a container whose values the hook leaves unset keeps the kubelet's values, which for undeclared amounts are minimum "
        "shares / no limit (the statement's 'an undeclared limit means unlimited')",
        "CFS quota disabled (BE suppression by cfsQuota policy) means quota -1 at both levels",
        "a declared amount of zero is treated like an undeclared one (the standard conversion maps <= 0 to unlimited / minimum shares)",
        "normalization ratios are exact binary fractions with two decimals (0.5, 1.0, 1.25, 1.5, 1.75, 2.0, 3.0): the hook divides in "
        "float64; successive ratios differ by at least 0.25 (the rule ignores changes below 0.01)",
        "the configuration is STATE of the agent: the ratio / cfs switch in force for a hook call is what the LAST Node / NodeSLO "
        "object delivered to the real rule parsers (parseRuleForNodeMeta / parseRuleForNodeSLO) says - annotation absent or a "
        "ratio <= 1 means no division, whatever was learnt before; a fresh agent (no delivery yet) has cfs quota enabled and no ratio",
        "a MALFORMED cpu-normalization-ratio annotation (not a positive number: 'abc', '0', '-1.50', '') is outside 'all scale "
        "ratios': the specification accepts both readings - it configures nothing (no division) or the delivery is ignored (the "
        "ratio in force stays). The real code does the latter (GetCPUNormalizationRatio errors, the rule framework logs and keeps "
        "the rule, in this hook and in the cpunormalization hook alike): noted, not alarmed "
        "(VERIF_C14_STRICT_INVALID=1 in the environment of a hand-run trace validation shows the histories that depend on it)",
        "a delivered NodeSLO carries Enable whenever it carries a strategy (it is the MERGED NodeSLO); strategy absent = default "
        "strategy (cpuset policy, cfs quota stays enabled)",
        "the declared amounts are those of the pod SPEC. An extended-resource-spec annotation the pod carries before admission "
        "(equal, subset, superset, other amounts, somebody else's, empty) declares nothing: the chain webhook -> annotation -> "
        "hook must inject the conversion of the spec's amounts in every request mode (proxy / nri read the annotation the webhook "
        "left, the reconciler prefers the pod object and falls back to the annotation per container)",
        "a pod the webhook refuses (existing annotation not parseable) never reaches the agent and nothing is checked for it; if such "
        "a pod is admitted it is checked like any other; the webhook refusing a pod whose annotations are well-formed is a "
        "harness failure (exit 2), not a verdict",
        "a BE pod whose spec declares no batch amount at all is outside the statement ('a best-effort pod using reclaimed "
        "resources') whatever a stale annotation says: what is injected for it is recorded but not judged",
        "container-level and pod-level hooks are observed as two events (conts, hook); the relation 'pod no tighter than a "
        "container' is checked between a pod-level observation and the container-level observation made last under the same "
        "configuration and request mode (values observed under different configurations are not compared: the rule-update "
        "callbacks that re-apply existing cgroups are outside the statement)",
        "pod-level rejections of BE pods with a non-declaring container fall into the registered known finding (same signature "
        "as before, no context suffix); a breakage visible only at the pod level of such pods is therefore masked, the same "
        "breakage is looked for in all-declaring pods and at the container level (own event, own signature)",
        "init containers and pod overhead are outside the statement (TODO in the code) and are not generated",
        "TLC integers are 32-bit: cpu <= 300000 milli-cores and memory <= 2^28 bytes per container, at most 6 containers",
    ],
}
