def sig(fl):
    """classify a rejected event by the history of its pod (diagnostic label + known-finding key)"""
    e = fl["event"]
    i = fl["fail_index"]
    p = e.get("pod")
    hist = [x["op"] for x in fl["segment"][1:i] if x.get("pod") == p]
    # PostBind (binding goroutine) delivered after the informer already deleted the pod, no re-add in between
    leaked = False
    state = None
    for op in hist:
        if op == "podDelete":
            state = "deleted"
        elif op == "podSet":
            state = "present" if not leaked else state
            if state == "deleted":
                state = "present"
        elif op == "postBind" and state == "deleted":
            leaked = True
    kind = "other"
    if leaked:
        kind = "postBind-after-informer-delete-leaves-stale-bound-entry"
    return "op=%s kind=%s" % (e.get("op"), kind)


CONF = {
    "id": "C04", "family": "Gang",
    "mc": [
        {"module": "MC_Gang", "cfg": "MC_Gang_StrictOnce.cfg", "timeout": 600},
        {"module": "MC_Gang", "cfg": "MC_Gang_StrictWait.cfg", "timeout": 600},
        {"module": "MC_Gang", "cfg": "MC_Gang_LooseWaitRun.cfg", "timeout": 600},
    ],
    "gen": [
        {"module": "Gen_Gang", "cfg": "Gen_Gang_StrictOnce.cfg", "timeout": 600, "sample": {"quick": 3, "thorough": 1}},
        {"module": "Gen_Gang", "cfg": "Gen_Gang_StrictWait.cfg", "timeout": 600, "sample": {"quick": 3, "thorough": 1}},
        {"module": "Gen_Gang", "cfg": "Gen_Gang_LooseWaitRun.cfg", "timeout": 600, "sample": {"quick": 3, "thorough": 1}},
    ],
    "go": [{"pkg": "pkg/scheduler/plugins/coscheduling/core", "test": "TestVerifC04"}],
    "trace": {"module": "GangTrace", "cfg": "Trace.cfg"},
    "signature": sig,
    "assumptions": [
        "gangs declared by pod annotations (no PodGroup CRD); network-topology placement and preemption are out of the model",
        "histories are whole API calls of the informer goroutine and the scheduling / binding goroutines in any legal order "
        "(an object carrying a node name is never followed by one without; a stale update may follow PostBind); "
        "interleavings inside one call are explored only in the TLA+ model",
        "the harness plays the framework's waiting-pod table: rejected pods are rolled back (Unreserve) immediately",
    ],
}
