def _leaked(seg, upto):
    """pods whose PostBind arrived after the informer deleted them and that were not re-added since (stale bound entry)"""
    state, leaked = {}, set()
    for x in seg[1:upto]:
        p, op = x.get("pod"), x.get("op")
        if op == "podDelete":
            state[p] = "deleted"
        elif op == "podSet":
            state[p] = "present"
        elif op == "postBind" and state.get(p) == "deleted":
            leaked.add(p)
    return leaked


def sig(fl):
    """classify a rejected event (diagnostic label + known-finding key; the verdict was TLC's)"""
    e = fl["event"]
    i = fl["fail_index"]
    seg = fl["segment"]
    p = e.get("pod")
    leaked = _leaked(seg, i)
    kind = "other"
    if e.get("op") == "podSet" and p in leaked:
        # the re-created pod is reported bound
        kind = "postBind-after-informer-delete-leaves-stale-bound-entry"
    elif e.get("op") == "permit" and e.get("result") == "Success":
        # a release that counted a stale bound entry of the same group (waiting-and-running policy)
        gang_of, cfg = seg[0].get("gangOf", {}), seg[0].get("cfg", {})
        group = set(cfg.get(gang_of.get(p), {}).get("group", []))
        obs = e.get("obs", {})
        for q in leaked:
            g = gang_of.get(q)
            if g in group and cfg[g]["policy"] == "waitrun" and q in obs.get(g, {}).get("bound", []) \
                    and q not in obs.get(g, {}).get("children", []):
                kind = "postBind-after-informer-delete-leaves-stale-bound-entry"
    return "op=%s kind=%s" % (e.get("op"), kind)


CONF = {
    "id": "C04", "family": "Gang",
    "mc": [
        {"module": "MC_Gang", "cfg": "MC_Gang_StrictOnce.cfg", "timeout": 600},
        {"module": "MC_Gang", "cfg": "MC_Gang_StrictWait.cfg", "timeout": 600},
        {"module": "MC_Gang", "cfg": "MC_Gang_LooseWaitRun.cfg", "timeout": 600},
        # pod-group updates (min / mode / policy / gang group of g1 change while members are in flight)
        {"module": "MC_Gang", "cfg": "MC_Gang_PgUpdate.cfg", "timeout": 600},
    ],
    "gen": [
        {"module": "Gen_Gang", "cfg": "Gen_Gang_StrictOnce.cfg", "timeout": 600, "sample": {"quick": 3, "thorough": 1}},
        {"module": "Gen_Gang", "cfg": "Gen_Gang_StrictWait.cfg", "timeout": 600, "sample": {"quick": 3, "thorough": 1}},
        {"module": "Gen_Gang", "cfg": "Gen_Gang_LooseWaitRun.cfg", "timeout": 600, "sample": {"quick": 3, "thorough": 1}},
    ],
    "go": [{"pkg": "pkg/scheduler/plugins/coscheduling/core", "test": "TestVerifC04"},
           # plugin level: the same executor with Permit / Unreserve / AfterPostFilter / PostBind routed through coscheduling.go
           {"pkg": "pkg/scheduler/plugins/coscheduling", "test": "TestVerifC04Plugin",
            "extra_pkgs": ["pkg/scheduler/plugins/coscheduling/core"]}],
    "trace": {"module": "GangTrace", "cfg": "Trace.cfg"},
    "signature": sig,
    "assumptions": [
        "gangs declared by pod annotations or (a third of the random segments) by PodGroup objects that exist before their pods and are "
        "updated during the run (min member, mode; match policy and gang group only in segments without the once-satisfied policy, whose mark "
        "belongs to a gang GROUP); PodGroup deletion, network-topology placement and preemption are out of the model",
        "histories are whole API calls of the informer goroutine and the scheduling / binding goroutines in any legal order "
        "(an object carrying a node name is never followed by one without; a stale update may follow PostBind); "
        "interleavings inside one call are explored only in the TLA+ model",
        "the harness plays the framework's waiting-pod table: rejected pods are rolled back (Unreserve) immediately",
    ],
}
