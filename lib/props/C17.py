"""C17  Migration jobs evict only after capacity is secured; finished jobs stay finished  (family MigrationJob)."""


def _secured(r, p):
    st_sched = r.get("exists") and r.get("phase") == "Available" and r.get("node") and r.get("sched") == "Scheduled"
    if st_sched and p.get("exists") and r.get("node") != p.get("node"):
        return True
    hard = r.get("exists") and r.get("phase") == "Failed" and r.get("sched") == "Unschedulable" and not r.get("expired")
    return bool(hard and r.get("np") and r.get("pd"))


def sig(fl):
    """classify a rejected event (diagnostic label + known-finding key only; the verdict was TLC's)"""
    e = fl["event"]
    i = fl["fail_index"]
    seg = fl["segment"]
    op = e.get("op")
    if op != "reconcile":
        return "op=%s clause=env" % op        # the harness's environment discipline, not the controller
    prev = seg[i - 1].get("obs", {}) if i >= 1 else {}
    pj = prev.get("job", {})
    j = e.get("obs", {}).get("job", {})
    calls = e.get("calls", [])
    for c in calls:
        if c["kind"] == "Evict" and not _secured(c["r"], c["p"]):
            r, p = c["r"], c["p"]
            kind = "other"
            if r.get("exists") and r.get("phase") == "Available" and r.get("node") == p.get("node"):
                kind = "reservation-on-pod-node"
                if pj.get("node") == r.get("node") and pj.get("uid") not in (0, p.get("uid")):
                    # Status.NodeName was recorded for an earlier pod of that name: the same-node check is skipped and
                    # the pod UID is not consulted before an Eviction condition exists
                    kind = "replaced-pod-on-reservation-node-after-same-node-check"
            elif not r.get("exists"):
                kind = "reservation-missing"
            elif r.get("phase") == "Succeeded":
                kind = "reservation-bound"
            elif r.get("expired"):
                kind = "reservation-expired"
            elif r.get("phase") in ("", "Pending"):
                kind = "reservation-pending-or-unschedulable"
            elif r.get("sched") == "Unschedulable":
                kind = "reservation-unschedulable"
            return "op=reconcile clause=G kind=%s" % kind
    if pj.get("phase") in ("Succeeded", "Failed"):
        if j.get("phase") != pj.get("phase") or any(c["kind"] in ("Evict", "CreateReservation") for c in calls):
            return "op=reconcile clause=Tm"
    # the phases persisted by this reconcile's writes, after the phase the job had before it
    seq = [pj.get("phase", "")] + list(e.get("writes") or [])
    for a, b in zip(seq, seq[1:]):
        if a in ("Succeeded", "Failed") and b != a:
            return "op=reconcile clause=Tm kind=phase-%s-overwritten-by-%s-within-reconcile" % (a, b or "empty")
    if any(c["kind"] in ("Evict", "CreateReservation") and c.get("jp") in ("Succeeded", "Failed") for c in calls):
        return "op=reconcile clause=Tm kind=call-after-terminal-phase-persisted"
    ws = e.get("writes") or []
    if (ws and ws[-1] != j.get("phase")) or (not ws and i >= 1 and j != pj):
        return "op=reconcile clause=env kind=write-log-does-not-explain-observed-job"
    if j.get("phase") == "Failed" and j.get("reason") == "Timeout" and e["obs"]["r"].get("exists"):
        kind = "reservation-reference-never-recorded" if not pj.get("ref") else "other"
        return "op=reconcile clause=Tt kind=%s" % kind
    nev, faulted = 0, False
    for x in seg[1:i + 1]:
        if x.get("op") == "reconcile":
            faulted = faulted or x.get("hit")
            nev += sum(1 for c in x.get("calls", []) if c["kind"] == "Evict")
    if not faulted and nev > 1:
        return "op=reconcile clause=Once"
    return "op=reconcile clause=other"


CONF = {
    "id": "C17", "family": "MigrationJob",
    "mc": [
        # the design with the proposed repairs (MC_asfound.cfg shows TLC's counterexamples for the controller as found)
        {"module": "MC_MigrationJob", "cfg": {"quick": "MC_quick.cfg", "thorough": "MC_thorough.cfg"}, "timeout": 1500},
    ],
    "gen": [
        {"module": "Gen_MigrationJob", "cfg": {"quick": "Gen_quick.cfg", "thorough": "Gen_thorough.cfg"}, "timeout": 1200,
         "sample": {"quick": 6, "thorough": 5}},
        {"module": "Gen_MigrationJob", "cfg": "Gen_sim.cfg", "simulate": {"quick": "num=300", "thorough": "num=4000"},
         "depth": 15, "timeout": 600},
        # the reservation's life cycle alone, exhaustive and unsampled (unschedulable -> later scheduled on the pod's node ...)
        {"module": "Gen_MigrationJob", "cfg": "Gen_resv.cfg", "timeout": 600},
    ],
    "go": [{"pkg": "pkg/descheduler/controllers/migration", "test": "TestVerifC17", "timeout": 1200}],
    "trace": {"module": "MigrationJobTrace", "cfg": "Trace.cfg", "timeout": 1500},
    "signature": sig,
    "assumptions": [
        "a reconcile may read the job one persisted write behind (stale) only where this controller incarnation wrote both versions; the controller's default job mode is varied per segment (the job itself always asks for ReservationFirst); rbind who=gone = consumed by a pod that has been deleted since (Succeeded, no current owner)",
        "one PodMigrationJob in reservation-first mode for a running pod without controller owner (the pending-pod path "
        "waitForPendingPodScheduled issues no eviction and is not driven); default MigrationControllerArgs, no object limiters, "
        "arbitrator filters always pass",
        "Reconcile is atomic with respect to the environment (the harness is sequential): reads never fail and are never stale "
        "(no informer lag); a failed write is not applied",
        "'has reached succeeded or failed' is read as: that phase has been PERSISTED (accepted by the API server). (Tm) is judged "
        "on the phase after the previous step followed by the phase read back from the API server after every accepted write "
        "of the PodMigrationJob within the reconcile (client Update / Status().Update / Patch seen by the interceptor), and on "
        "the persisted phase stamped on every Evict / CreateReservation call; a phase that exists only in the controller's "
        "in-memory copy (its write failed) does not count; other writers of the job (doScavenge's Delete, users) are not driven",
        "environment generation: besides the sampled BFS and random walks, Gen_resv.cfg enumerates unsampled every order of the "
        "scheduler's reports about the reservation (unschedulable, scheduled on the pod's / another node, failed, preempted, "
        "expired, deleted, bound) with reconciles in between up to 10 steps (no pod replacement / restart / clock there), and "
        "two random segments in five report the reservation unschedulable first and schedule it (often on the "
        "pod's own node) / expire / fail it only later; one other random segment in four is a fault-free happy path "
        "(jobs that succeed and are reconciled again, also after their TTL)",
        "API write failures are injected at the n-th write of a Reconcile (client Create/Update/Delete/Patch/Status().Update and "
        "the eviction request itself); the injected error is neither NotFound nor AlreadyExists nor Conflict-specific",
        "environment: koord-scheduler's reservation life cycle (pkg/util/reservation setters) plus the package tests' "
        "hard-unschedulable form (phase Failed + Unschedulable); preemption is a fake downstream plug-in (NeedPreemption / "
        "Preempt read two annotations), since the open-source interpreter has none",
        "the controller's in-memory caches lost at restart are assumedCache and reconcilerUID (no object limiters configured)",
    ],
}
