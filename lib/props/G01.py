"""G01  (growth check, not one of C01-C20)  The reservation controller's phase machine: Pending -> Available ->
Succeeded / Failed, status.currentOwners / status.allocated, expiry, node loss, garbage collection, restart, API write
faults  (family ReservationController; /repo/pkg/scheduler/plugins/reservation/controller)."""


def _must_expire(x, now):
    code = not (x["hasTtl"] and x["ttl"] == 0) and ((x["hasExp"] and now > x["exp"]) or (x["hasTtl"] and now - x["created"] > x["ttl"]))
    doc = (now > x["exp"]) if x["hasExp"] else (x["hasTtl"] and x["ttl"] > 0 and now - x["created"] > x["ttl"])
    return code and doc, code or doc


def sig(fl):
    """classify a rejected event (diagnostic label + known-finding key only; the verdict was TLC's)"""
    e = fl["event"]
    i = fl["fail_index"]
    seg = fl["segment"]
    op = e.get("op")
    prev = {}
    for x in reversed(seg[:i]):
        if "obs" in x:
            prev = x["obs"]
            break
    obs = e.get("obs", {})
    term = ("Succeeded", "Failed")
    if op == "sync":
        r = e.get("r")
        x = prev.get("rs", {}).get(r, {"exists": False})
        y = obs.get("rs", {}).get(r, {"exists": False})
        now = obs.get("now", 0)
        if e.get("panic"):
            return "op=sync clause=panic"
        if x.get("exists") and x.get("phase") in term and y != x:
            return "op=sync clause=T kind=terminal-reservation-changed"
        if e.get("hit") and not e.get("err"):
            return "op=sync clause=S kind=failed-write-not-reported"
        if not x.get("exists"):
            return "op=sync clause=C-or-W kind=deleted-reservation"
        if x.get("phase") in term:
            if e.get("nw", 0) > 0:
                return "op=sync clause=I kind=write-on-terminal-reservation"
            return "op=sync clause=other kind=terminal"
        must, may = _must_expire(x, now)
        gone = x["node"] != "" and x["node"] not in prev.get("nodes", [])
        if not e.get("err") and y.get("exists"):
            if (must or gone) and y.get("phase") not in term:
                if x["node"] == "":
                    return "op=sync clause=S kind=pending-reservation-past-expiry-not-failed"
                return "op=sync clause=S kind=%s-not-failed" % ("node-gone" if gone and not must else "expired")
            if y.get("phase") == "Failed" and not may and not gone:
                return "op=sync clause=S kind=failed-before-expiry"
            if y.get("phase") == "Succeeded" and not (x["once"] and y.get("owners")):
                return "op=sync clause=S kind=succeeded-without-allocate-once-owner"
            if x["once"] and y.get("owners") and y.get("phase") != "Succeeded" and not (must or may or gone):
                return "op=sync clause=S kind=allocate-once-consumed-not-succeeded"
            if y.get("phase") not in term and e.get("nw", 0) == 0 and not e.get("timer") and (x["hasExp"] or (x["hasTtl"] and x["ttl"] > 0)):
                return "op=sync clause=W kind=no-timer-for-expiring-reservation"
        if not e.get("err") and y.get("exists") and x["node"] != "" and not (must or may or gone):
            pods = prev.get("pods", {})
            uid = "%s-%d" % (r, x["gen"])
            ann = dict(("%s-%d" % (p, q["gen"]), (p, q)) for p, q in pods.items()
                       if q.get("exists") and q["node"] == x["node"] and q["ra"] == uid)
            own = y.get("owners", [])
            if any(o not in ann for o in own):
                return "op=sync clause=S kind=listed-owner-not-assigned-to-this-reservation"
            if any(o not in own and not q["term"] for o, (p, q) in ann.items()):
                return "op=sync clause=S kind=live-owner-not-listed"
        if e.get("nw", 0) > 0 and x == y and not e.get("err"):
            return "op=sync clause=I-or-S kind=write-without-change"
        return "op=sync clause=S-or-I-or-W kind=status"
    if op == "gc":
        del_ = [r for r, x in prev.get("rs", {}).items() if x.get("exists") and not obs.get("rs", {}).get(r, {}).get("exists")]
        for r in del_:
            if prev["rs"][r].get("phase") not in term:
                return "op=gc clause=G kind=non-terminal-reservation-collected"
        if del_:
            return "op=gc clause=G kind=collected-too-early"
        if e.get("nhit", 0) > 0:
            return "op=gc clause=G kind=delete-attempted-on-non-collectable-reservation"
        return "op=gc clause=G kind=not-collected-or-changed"
    if op == "restart":
        return "op=restart clause=W-or-frame"
    # an environment event: either the harness's own discipline (effect / legality) or (W): the controller's event
    # handlers did not enqueue the reservation the event made stale
    return "op=%s clause=W-or-env" % op


CONF = {
    "id": "G01", "family": "ReservationController",
    "mc": [
        # the design with the proposed repair (MC_asfound.cfg shows TLC's counterexample for the controller as found;
        # MC_witness.cfg holds the non-vacuity witnesses)
        {"module": "MC_ReservationController", "cfg": {"quick": "MC_quick.cfg", "thorough": "MC_thorough.cfg"}, "timeout": 1500},
        {"module": "MC_ReservationController", "cfg": {"quick": None, "thorough": "MC_both.cfg"}, "timeout": 900},
        {"module": "MC_ReservationController", "cfg": {"quick": None, "thorough": "MC_two.cfg"}, "timeout": 1500},
        {"module": "MC_ReservationController", "cfg": "MC_cov.cfg", "timeout": 300, "coverage": True},
    ],
    "gen": [
        {"module": "Gen_ReservationController", "cfg": "Gen_sim.cfg", "simulate": {"quick": "num=120", "thorough": "num=1200"},
         "depth": 41, "timeout": 600},
    ],
    "go": [{"pkg": "pkg/scheduler/plugins/reservation/controller", "test": "TestVerifG01", "timeout": 1200}],
    "trace": {"module": "ReservationControllerTrace", "cfg": "Trace.cfg", "timeout": 1500},
    "signature": sig,
    "selftest_keys": ("obs", "enq"),
    "assumptions": [
        "the informers deliver at once and in a fixed order (reservations, pods, nodes): the harness keeps the un-started "
        "informers' indexers equal to the fake API server after every step and calls the controller's real event handlers "
        "for every difference; no informer lag, no stale lister reads, Controller.Start()'s wiring and worker goroutines are "
        "not exercised (sync / gcReservations are called directly, the real work queue is drained after every step)",
        "the controller reads the wall clock; a clock tick (1000h) is executed by shifting every timestamp the controller "
        "reads back by one tick; TTL k is k ticks + half a tick, so comparisons never sit on a tick boundary",
        "API write failures are injected at the n-th write (create/update/patch/delete) of one sync / GC call, as Conflict or "
        "ServerTimeout; a failed write is not applied; reads never fail",
        "environment: reservations are created Pending with ttl and/or expires, scheduled by SetReservationAvailable (what the "
        "scheduler's Bind does) or marked unschedulable; the scheduler hands an allocate-once reservation to at most one pod "
        "and annotates only pods bound to the reservation's node; spec fields are immutable; phase Waiting is not driven "
        "(nothing in the repository sets it)",
        "reading decisions (ReservationController.tla section 1): terminated-but-not-deleted owner pods may or may not be "
        "listed; with both ttl and expires set the expiry instant is anywhere between the two readings; GC may delete a "
        "terminal reservation whose node is gone before the GC duration",
    ],
}
