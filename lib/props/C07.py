def _ledger_kind(obs):
    """which ledger relation is broken inside the logged observation itself (diagnostic label only)"""
    kinds = []
    summed = {}
    for a in obs.get("alloc", []):
        for r, v in a.get("res", {}).items():
            summed[(a["t"], a["m"], r)] = summed.get((a["t"], a["m"], r), 0) + v
    seen = set()
    for d in obs.get("dev", []):
        for r in set(d.get("used", {})) | set(d.get("total", {})) | set(d.get("free", {})):
            u, t, f = d.get("used", {}).get(r, 0), d.get("total", {}).get(r, 0), d.get("free", {}).get(r, 0)
            seen.add((d["t"], d["m"], r))
            if u != summed.get((d["t"], d["m"], r), 0):
                kinds.append("used!=sum(allocateSet)")
            if f != max(0, t - u):
                kinds.append("free!=total-used")
    if any(k not in seen and v for k, v in summed.items()):
        kinds.append("used!=sum(allocateSet)")
    return "+".join(sorted(set(kinds))) or "ledgers-differ-from-objects(total/allocateSet/used)"


def _alloc_kind(e, prev):
    """(A)/(K) label recomputed from the previous observation's free amounts (diagnostic label only)"""
    free = {(d["t"], d["m"]): d.get("free", {}) for d in prev.get("obs", {}).get("dev", [])}
    res = e.get("result", {})
    feasible, cands = True, {}
    for t, r in e.get("reqs", {}).items():
        minors = set(m for (tt, m) in free if tt == t)
        if e.get("required", {}).get(t):
            minors &= set(e["required"][t])
        cands[t] = set(m for m in minors if all(free[(t, m)].get(k, 0) >= v for k, v in r["req"].items()))
        if len(cands[t]) < r["cnt"]:
            feasible = False
    if not res.get("ok"):
        return "failed-although-feasible" if feasible else None
    if not feasible:
        return "granted-although-infeasible"
    bad = []
    for t, r in e.get("reqs", {}).items():
        ms = [g["m"] for g in res.get("alloc", {}).get(t, [])]
        if len(set(ms)) != len(ms):
            bad.append("same-minor-twice")
        if any(m not in cands[t] for m in ms):
            bad.append("device-without-enough-free-or-not-allowed")
        if len(ms) != r["cnt"]:
            bad.append("wrong-count")
    return "+".join(sorted(set(bad))) or None


def sig(fl):
    """classify a rejected event (diagnostic label + known-finding key only; the verdict was TLC's)"""
    e = fl["event"]
    op = e.get("op")
    i = fl["fail_index"]
    prev = fl["segment"][i - 1] if i >= 1 else {}
    kind = None
    view = fl["segment"][0].get("view")     # plugin-level histories: the node whose ledgers the segment observes
    if op == "panic":
        kind = "panic in=%s" % e.get("in")
    elif view is not None and op in ("begin", "whatifRemove", "whatifAdd", "filter", "end"):
        # PreFilter / what-if RemovePod, AddPod / Filter only read: the ledgers observed after the step differ from before
        kind = "read-only-cycle-step-moved-the-ledgers:" + _ledger_kind(e.get("obs", {}))
        if e.get("obs") == prev.get("obs"):
            kind = None
    elif view is not None and "node" in e and e["node"] != view:
        kind = "step-on-node-%s-moved-the-ledgers-of-another-node:" % ("other" if op != "reserve" else "reserved") + _ledger_kind(e.get("obs", {}))
    elif view is not None and op == "unreserve" and e.get("obs") == prev.get("obs"):
        kind = "unreserve-released-nothing"
    elif op in ("alloc", "reserve"):
        kind = _alloc_kind(e, prev)
        if kind is None and _ledger_kind(e.get("obs", {})).startswith("ledgers-differ"):
            # the grant itself satisfies (A) and the ledgers are consistent: which granted device ended up over-committed?
            granted = set((t, g["m"]) for t, gs in e.get("result", {}).get("alloc", {}).items() for g in gs)
            asked = set(r for rq in e.get("reqs", {}).values() for r in rq.get("req", {}))
            over = set(r for d in e.get("obs", {}).get("dev", []) if (d["t"], d["m"]) in granted
                       for r in d.get("used", {}) if d["used"][r] > d.get("total", {}).get(r, 0))
            if over and not (over & asked):
                kind = "over-commit-of-derived-amount:" + ",".join(sorted(over))
            elif over:
                kind = "over-commit:" + ",".join(sorted(over))
    if kind is None:
        kind = _ledger_kind(e.get("obs", {}))
    return "op=%s %s" % (op, kind)


CONF = {
    "id": "C07", "family": "Device",
    "mc": [
        # the transcription of the ledger updates / default allocator satisfies (C) (F) (U) (A) (K) in every reachable state
        {"module": "MC_Device", "cfg": {"quick": "MC_quick.cfg", "thorough": "MC_quick.cfg"}, "timeout": 900},
        {"module": "MC_Device", "cfg": {"quick": None, "thorough": "MC_thorough_a.cfg"}, "timeout": 1800},
        {"module": "MC_Device", "cfg": {"quick": None, "thorough": "MC_thorough_c.cfg"}, "timeout": 1800},
        {"module": "MC_Device", "cfg": {"quick": None, "thorough": "MC_thorough_b.cfg"}, "timeout": 2700},
        # one scheduling cycle taken apart (PreFilter / what-if RemovePod / Filter / Reserve) with the environment moving in
        # between: the what-if steps and Filter leave the ledgers alone, Reserve commits against the state at Reserve time
        {"module": "MC_DeviceCycle", "cfg": {"quick": "MC_cycle_quick.cfg", "thorough": "MC_cycle_thorough.cfg"}, "timeout": 900},
    ],
    "gen": [
        {"module": "Gen_Device", "cfg": {"quick": "Gen_quick.cfg", "thorough": "Gen_thorough.cfg"}, "timeout": 1500},
    ],
    "go": [
        {"pkg": "pkg/scheduler/plugins/deviceshare", "test": "TestVerifC07", "timeout": {"quick": 900, "thorough": 1800}},
        # plugin level: whole scheduling cycles through the real Plugin (PreFilter, what-if RemovePod / AddPod, Filter on two
        # nodes, Reserve, Unreserve / PreBind + bind delivery) with informer events in between; one segment per (history, node)
        {"pkg": "pkg/scheduler/plugins/deviceshare", "test": "TestVerifC07Plugin", "uses_script": False,
         "timeout": {"quick": 900, "thorough": 1800},
         "trace": {"module": "DeviceTrace", "cfg": "TraceCycle.cfg", "timeout": {"quick": 900, "thorough": 2400}, "chunk_events": 40000}},
    ],
    "trace": {"module": "DeviceTrace", "cfg": "Trace.cfg", "timeout": {"quick": 900, "thorough": 2400}, "chunk_events": 40000},
    "signature": sig,
    "rule": "one segment per history executed on a real nodeDeviceCache (device / pod event handlers, AutopilotAllocator.Allocate, "
            "the ledger update of Reserve / Unreserve) and, plugin level, one segment per (history, node) of whole scheduling cycles run "
            "through the real Plugin on two nodes (PreFilter, PreFilterExtensions RemovePod / AddPod, Filter, Reserve, Unreserve, PreBind); "
            "after EVERY operation the projection of getNodeDeviceSummary() of the node is compared with the from-scratch operators of "
            "Device.tla; distinct by content hash, non-trivial = at least one checked event",
    "assumptions": [
        "plugin-level driver: Reserve, Unreserve and PreBind get the ASSUMED pod (a copy with spec.nodeName set), as kube-scheduler hands it to them",
        "one node (plugin-level driver: two); device types gpu / rdma / fpga with the resources the koordlet reports for them (gpu-core, gpu-memory-ratio, gpu-memory; rdma; fpga); "
        "the memory size of a GPU minor is fixed within a history and a healthy GPU reports 100 percent (GPU totals change by health / removal, "
        "rdma / fpga totals also shrink to 50)",
        "requests are expressed as pod resource requests the plugin accepts (percent of gpu-core / gpu-memory-ratio, gpu-memory in bytes, "
        "gpu.shared for several fractional GPUs; rdma / fpga percent, several whole devices); device hints (VF, exclusive policy, "
        "apply-for-all), joint allocation, GPU partition tables, reservations (restore states) are not generated; the preemption "
        "what-if (RemovePod / AddPod) is driven by the plugin-level driver only",
        "GPU memory asked for in one unit is charged in both (fillGPUTotalMem): (A) is checked on the amounts asked for, (U) on everything "
        "charged, (K) counts a device as fitting only if the derived amount (exact floor) is free too",
        "single-node driver: allocate + commit is one step (the property's quantifier): no inventory refresh between Allocate and the "
        "ledger update of Reserve. Plugin-level driver: Filter and Reserve are separate steps with informer events in between; what Reserve "
        "commits is judged against the node's state at Reserve time (Reserve itself - allocate + ledger update - is one step)",
        "plugin-level driver: two nodes with the same machine model (GPU memory size per minor), one Plugin built from the package's test "
        "fixtures (default args, fake reservation cache / nominator: no reservations), one scheduling cycle at a time plus reserved pods "
        "awaiting bind / roll-back; the what-if steps (PreFilterExtensions RemovePod / AddPod, Filter on the what-if state) run on "
        "cycleState.Clone() per node, as the preemption dry-run and the nominated-pods pass of the scheduler do; Reserve runs only on a "
        "node that passed Filter in the cycle; a failed Reserve is followed by the framework's Unreserve",
        "a designated allocation (device-allocated annotation honoured through the deviceshare scheduling hint) is a recorded "
        "allocation: exactly one entry per device asked for, carrying the per-device amounts the pod asks for (percent requests); the "
        "pod may then use only those minors ((A)/(K) with that restriction); without the hint the annotation is ignored",
        "verdicts of Filter / what-if Filter are not judged (the statement speaks about allocations); RestoreReservation / reservation "
        "restore states, NUMA topology hints, joint allocation and VF selection are not driven",
        "informer semantics: the old object of an update / delete is the object delivered last; duplicate adds re-deliver the current object, "
        "duplicate deletes re-deliver the object that went away; allocation annotations delivered for assigned pods are arbitrary "
        "(a device over-committed by such an annotation or by an inventory shrink is exempt from (U) until its usage falls back)",
        "VF bookkeeping (vfAllocations) is not part of getNodeDeviceSummary and is not observed",
    ],
}
