def _over(dev):
    return any(dev.get("used", {}).get(r, 0) > dev.get("total", {}).get(r, 0) for r in dev.get("used", {}))


def sig(fl):
    """classify a rejected event (diagnostic label + known-finding key only; the verdict was TLC's)"""
    e = fl["event"]
    op = e.get("op")
    kind = "ledger"
    if op == "panic":
        kind = "panic in=%s" % e.get("in")
    elif fl.get("violated"):
        kind = "invariant=%s" % fl["violated"]
    elif op == "alloc":
        exp = fl.get("expected") or {}
        al = exp.get("allocator") if isinstance(exp, dict) else None
        res = e.get("result", {})
        if al is not None:
            if res.get("ok") and not al.get("feasible"):
                kind = "granted-although-infeasible"
            elif not res.get("ok") and al.get("feasible"):
                kind = "failed-although-feasible"
            elif res.get("ok"):
                bad = []
                for t, grants in res.get("alloc", {}).items():
                    cands = set(al.get("candidates", {}).get(t, []))
                    ms = [g["m"] for g in grants]
                    if len(set(ms)) != len(ms):
                        bad.append("same-minor-twice")
                    if any(m not in cands for m in ms):
                        bad.append("device-without-enough-free-or-not-allowed")
                    want = e.get("reqs", {}).get(t, {}).get("cnt")
                    if want is not None and len(ms) != want:
                        bad.append("wrong-count")
                if not bad and any(_over(d) for d in e.get("obs", {}).get("dev", [])):
                    bad.append("over-commit-or-ledger")
                kind = "+".join(sorted(set(bad))) or "ledger"
    return "op=%s %s" % (op, kind)


CONF = {
    "id": "C07", "family": "Device",
    "mc": [
        # the transcription of the ledger updates / default allocator satisfies (C) (F) (U) (A) (K) in every reachable state
        {"module": "MC_Device", "cfg": {"quick": "MC_quick.cfg", "thorough": "MC_quick.cfg"}, "timeout": 900},
        {"module": "MC_Device", "cfg": {"quick": None, "thorough": "MC_thorough_a.cfg"}, "timeout": 1800},
        {"module": "MC_Device", "cfg": {"quick": None, "thorough": "MC_thorough_c.cfg"}, "timeout": 1800},
    ],
    "gen": [
        {"module": "Gen_Device", "cfg": {"quick": "Gen_quick.cfg", "thorough": "Gen_thorough.cfg"}, "timeout": 1500},
    ],
    "go": [{"pkg": "pkg/scheduler/plugins/deviceshare", "test": "TestVerifC07", "timeout": {"quick": 900, "thorough": 1800}}],
    "trace": {"module": "DeviceTrace", "cfg": "Trace.cfg", "timeout": {"quick": 900, "thorough": 2400}, "chunk_events": 40000},
    "signature": sig,
    "rule": "one segment per history executed on a real nodeDeviceCache (device / pod event handlers, AutopilotAllocator.Allocate, "
            "the ledger update of Reserve / Unreserve); after EVERY operation the projection of getNodeDeviceSummary() is compared "
            "with the from-scratch operators of Device.tla; distinct by content hash, non-trivial = at least one checked event",
    "assumptions": [
        "one node; device types gpu / rdma / fpga with the resources the koordlet reports for them (gpu-core, gpu-memory-ratio, gpu-memory; rdma; fpga); "
        "the memory size of a GPU minor is fixed within a history (totals change by health / removal / proportional shrink)",
        "requests are expressed as pod resource requests the plugin accepts (percent of gpu-core / gpu-memory-ratio, gpu.shared for several "
        "fractional GPUs; rdma / fpga percent, several whole devices); requests in gpu-memory bytes, device hints (VF, exclusive policy, "
        "apply-for-all), joint allocation, GPU partition tables, reservations / preemption restore states are not generated",
        "allocate + commit is one step (the property's quantifier): no inventory refresh between Allocate and the ledger update of Reserve",
        "informer semantics: the old object of an update / delete is the object delivered last; duplicate adds re-deliver the current object, "
        "duplicate deletes re-deliver the object that went away; allocation annotations delivered for assigned pods are arbitrary "
        "(a device over-committed by such an annotation or by an inventory shrink is exempt from (U) until its usage falls back)",
        "VF bookkeeping (vfAllocations) is not part of getNodeDeviceSummary and is not observed",
    ],
}
