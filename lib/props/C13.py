def sig(fl):
    """label of a rejected segment (diagnostics / known-finding key only; the verdict was TLC's)"""
    seg = fl["segment"]
    cas = seg[0]
    e = fl["event"]
    if cas.get("kind") == "admit":
        n = cas.get("new", {})
        return "admit opn=%s qos=%s pcl=%s prio=%s allowed=%s" % (cas.get("opn"), n.get("qos"), n.get("pcl"), n.get("prio"), e.get("allowed"))
    if cas.get("kind") == "mutate":
        o = e.get("out", {}) if isinstance(e.get("out"), dict) else {}
        return "mutate opn=%s qos=%s pcl=%s prio=%s match=%s op=%s" % (
            cas.get("opn"), o.get("qos"), o.get("pcl"), o.get("prio"), ",".join(cas.get("match", [])), e.get("op"))
    return "op=%s" % e.get("op")


CONF = {
    "id": "C13", "family": "PodAdmission",
    "mc": [
        {"module": "MC_Admit", "cfg": {"quick": "MC_Admit_quick.cfg", "thorough": "MC_Admit_thorough.cfg"}, "timeout": 1800},
        {"module": "MC_Translate", "cfg": {"quick": "MC_Translate_quick.cfg", "thorough": "MC_Translate_thorough.cfg"}, "timeout": 1800},
    ],
    "go": [{"pkg": "pkg/webhook/pod/validating", "test": "TestVerifC13"},
           {"pkg": "pkg/webhook/pod/mutating", "test": "TestVerifC13"}],
    "trace": {"module": "PodAdmissionTrace", "cfg": "Trace.cfg"},
    "signature": sig,
    "rule": "one segment per case (abstract pod / update pair / pod + matching profiles); distinct by content; "
            "non-trivial = has the verdict / mutated event",
    "assumptions": [
        "feature gates at defaults (ColocationProfileSkipValidatingPriority, ColocationProfileSkipMutatingResources, DisableExtendedResourceSpec off)",
        "priority bands and extended-resource names at their defaults (apis/extension variables not customised)",
        "CPU amounts are read in milli-cores the Kubernetes way (Quantity.MilliValue, rounding up); cpu is logged in micro-cores, "
        "every validated number is below 2^31 (cpu <= 2000 cores, memory < 2 GiB)",
        "ADMIT half: one direction only (admitted => rules), as the statement says; CPU amounts there are milli-granular",
        "pod request = max(sum of containers, largest init container) + overhead; init containers are not sidecars; no pod-level resources",
        "the summary annotation is defined over spec.containers and the batch resources (code TODO: init containers, overhead; mid-* are not summarised)",
        "a limit without request counts as request = limit (Kubernetes defaulting) when amounts are compared",
        "profiles: labels / QoS / priorityClassName / skip-update annotation / probability 0 or 100 / namespace selector; no patch, no key mappings or suffixes",
    ],
}
