def sig(fl):
    """coarse label of a rejected segment (diagnostics / known-finding key only; the verdict was TLC's)"""
    seg = fl["segment"]
    cas = seg[0]
    e = fl["event"]
    if cas.get("kind") == "admit":
        n = cas.get("new", {})
        return "admit opn=%s qos=%s allowed=%s" % (cas.get("opn"), n.get("qos"), e.get("allowed"))
    if cas.get("kind") == "mutate":
        o = e.get("out") if isinstance(e.get("out"), dict) else None
        i = cas.get("pod", {})
        if o is None:
            return "mutate op=%s" % e.get("op")
        touched = any(o.get(k) != i.get(k) for k in ("cs", "ics", "oh"))
        again = e.get("out2") != o
        return "mutate op=%s spec_touched=%s summary=%s second_pass_differs=%s" % (
            e.get("op"), touched, "present" if o.get("ann") else "empty", again)
    return "op=%s" % e.get("op")


CONF = {
    "id": "C13", "family": "PodAdmission",
    "mc": [
        {"module": "MC_Admit", "cfg": {"quick": "MC_Admit_quick.cfg", "thorough": "MC_Admit_thorough.cfg"}, "timeout": 1800},
        {"module": "MC_Translate", "cfg": {"quick": "MC_Translate_quick.cfg", "thorough": "MC_Translate_thorough.cfg"}, "timeout": 1800},
    ],
    "go": [{"pkg": "pkg/webhook/pod/validating", "test": "TestVerifC13"},
           {"pkg": "pkg/webhook/pod/mutating", "test": "TestVerifC13"}],
    "trace": {"module": "PodAdmissionTrace", "cfg": "Trace.cfg"},
    "signature": sig,
    # ADMIT trace: its only observation is the top-level boolean "allowed"; the statement is one-directional
    # ("admitted only if"), so corrupting allowed:true -> false is legitimately accepted and the generic binding
    # self-test is not applied to it (default keys find nothing there); the pair/whole-CPU mutants show the binding.
    "rule": "one segment per case (abstract pod / update pair / pod + matching profiles); distinct by content; "
            "non-trivial = has the verdict / mutated event",
    "assumptions": [
        "feature gates at defaults (ColocationProfileSkipValidatingPriority, ColocationProfileSkipMutatingResources, DisableExtendedResourceSpec off)",
        "priority bands and extended-resource names at their defaults (apis/extension variables not customised)",
        "CPU amounts are read in milli-cores the Kubernetes way (Quantity.MilliValue, rounding up); cpu is logged in micro-cores, "
        "every validated number is below 2^31 (cpu <= 2000 cores, memory < 2 GiB)",
        "ADMIT half: one direction only (admitted => rules), as the statement says; CPU amounts there are milli-granular",
        "pod request = max(sum of containers, largest init container) + overhead; init containers are not sidecars; no pod-level resources",
        "the summary annotation is defined over spec.containers and the batch resources (code TODO: init containers, overhead; mid-* are not summarised)",
        "a limit without request counts as request = limit (Kubernetes defaulting) when amounts are compared",
        "profiles: labels / QoS / priorityClassName / skip-update annotation / probability 0 or 100 / namespace selector; no patch, no key mappings or suffixes",
    ],
}
