def sig(fl):
    seg = fl["segment"]
    if "nodes" in seg[0]:
        return "single-level n=%d" % len(seg[0].get("nodes", []))
    return "tree op=%s" % fl["event"].get("op")


CONF = {
    "id": "C02", "family": "Quota",
    "mc": [
        {"module": "MC_Runtime", "cfg": {"quick": "MC_Runtime_quick.cfg", "thorough": "MC_Runtime_thorough.cfg"}, "timeout": 2400},
    ],
    "go": [{"pkg": "pkg/scheduler/plugins/elasticquota/core", "test": "TestVerifC02"},
           {"pkg": "pkg/scheduler/plugins/elasticquota/core", "test": "TestVerifC02Tree",
            "trace": {"module": "QuotaTreeTrace", "cfg": "Trace_C02_tree.cfg"},
            # the calculator's cached copies of the inputs (req/min/w/guar) are deliberately not trusted: corrupt outputs only
            "selftest_keys": ("rt", "result")}],
    "trace": {"module": "RuntimeShareTrace", "cfg": "Trace_C02.cfg"},
    "signature": sig,
    "rule": "one segment per sibling set + total; distinct by content; non-trivial = has the share event",
    "assumptions": [
        "single resource dimension per call (the calculator runs redistribution per dimension)",
        "TLC integers are 32-bit: validated magnitudes keep weight*total below 2^31",
        "fairness bound: |share_i*w_j - share_j*w_i| <= N*(w_i+w_j) (one unit of integer rounding per sibling and round), validated by TLC on the transcription first",
    ],
}
