"""C16, arbitration half (first sentence of the statement): standalone CONF, to be merged into C16.py
(add the "mc" entry, the "go" entry and the assumptions; sig() below is what C16.sig already returns for
segments that are not eviction-cap segments)."""


def sig(fl):
    return "arbitration op=%s" % fl["event"].get("op")


CONF = {
    "id": "C16", "family": "Disruption",
    "mc": [
        {"module": "MC_Arbitration", "cfg": {"quick": "MC_Arbitration_quick.cfg", "thorough": "MC_Arbitration_thorough.cfg"},
         "timeout": {"quick": 600, "thorough": 1500}},
        {"module": "MC_Arbitration", "cfg": {"thorough": "MC_Arbitration_wide.cfg"}, "timeout": 1500},
    ],
    "go": [
        {"pkg": "pkg/descheduler/controllers/migration/arbitrator", "test": "TestVerifC16Arbitration", "uses_script": False,
         "trace": {"module": "ArbitrationTrace", "cfg": "Trace_Arbitration.cfg"}},
    ],
    "trace": {"module": "ArbitrationTrace", "cfg": "Trace_Arbitration.cfg"},
    "signature": sig,
    "assumptions": [
        "arbitration: running-or-passed jobs are counted as jobs whose phase is Running, or Pending with the "
        "passed-arbitration annotation, read back from the fake API server after each round; a maximum of nil / <= 0 "
        "(per node, per namespace, globally), an unset per-workload value, or a limit whose eviction gate is skipped "
        "counts as not configured; percentages are only used where they divide the replicas exactly",
        "arbitration: generated histories keep to the property's quantifier - pods are not deleted while they have "
        "jobs, a job is only created for a pod without a live job (the situation Arbitrator.Filter guards), no "
        "evict-annotation override, no API faults, distinct job creation timestamps (the order of ties depends on "
        "Go map iteration); reasons other than headroom for failing a job are modelled as: pod not evictable "
        "(max eviction cost) or the documented expected-replicas rule",
        "arbitration: controller finder and API server are fakes (controller-runtime fake client with the real "
        "field indexes); the filter functions are assembled by the real initFilters, the jobs reach the arbitrator "
        "through the real event handler",
    ],
}
