"""C20 - NodeSLO layering (specs/SloLayering).  The verdict is TLC's; sig() only LABELS a rejected event
(diagnostics and known-finding key): it re-reads the logged layers to say which field of which section differs."""


import os

# the JVM's default maximum heap is a quarter of the machine; several checks run side by side on it
os.environ.setdefault("_JAVA_OPTIONS", "-Xmx6g")


def _req_ok(r, lab):
    k, op, vals = r["key"], r["op"], r["vals"]
    if op == "In":
        return k in lab and lab[k] in vals
    if op == "NotIn":
        return not (k in lab and lab[k] in vals)
    if op == "Exists":
        return k in lab
    if op == "DoesNotExist":
        return k not in lab
    return False


def _matches(sel, lab):
    return (not sel["nil"]) and all(lab.get(k) == v for k, v in (sel["ml"] or {}).items()) \
        and all(_req_ok(r, lab) for r in sel["me"])


def _layered(es, d, lab, p):
    if es["st"] != "default":
        for en in es["nodes"]:
            if _matches(en["sel"], lab):
                if p in en["set"]:
                    return en["set"][p]
                break
        if p in es["cluster"]:
            return es["cluster"][p]
    return d.get(p, "-")


def _as_map(x):
    return x if isinstance(x, dict) else {}


def sig(fl):
    seg, idx = fl["segment"], fl["fail_index"]
    e = fl["event"]
    try:
        env = seg[0]
        eff = {s: {"st": "default"} for s in env["dflt"]}
        for ev in seg[1:idx + 1]:
            if ev["op"] == "delete":
                eff = {s: {"st": "default"} for s in eff}
            elif ev["op"] == "update":
                for s, c in ev["cfg"].items():
                    if c["st"] == "absent":
                        eff[s] = {"st": "default"}
                    elif c["st"] == "parsed":
                        eff[s] = {"st": "parsed", "cluster": _as_map(c["cluster"]),
                                  "nodes": [{"sel": n["sel"], "set": _as_map(n["set"])} for n in c["nodes"]]}
        kinds, first = set(), None
        for n in sorted(env["nodes"]):
            lab = _as_map(env["nodes"][n])
            for s in sorted(eff):
                o, d = _as_map(e["obs"][n][s]), _as_map(env["dflt"][s])
                ps = set(d) | set(o)
                if eff[s]["st"] == "parsed":
                    ps |= set(eff[s]["cluster"])
                    for en in eff[s]["nodes"]:
                        ps |= set(en["set"])
                for p in sorted(ps):
                    x = _layered(eff[s], d, lab, p)
                    if o.get(p, "-") != x:
                        es = eff[s]
                        ents = es["nodes"] if es["st"] == "parsed" else []
                        hit = [en for en in ents if _matches(en["sel"], lab)][:1]
                        layer_vals = {d.get(p, "-"), "-"} | ({es["cluster"].get(p, "-")} if ents or es["st"] == "parsed" else set()) \
                            | {en["set"].get(p, "-") for en in ents}
                        if p.endswith("blocks") and o.get(p, "-") not in layer_vals:
                            k = "list-elements-blended-across-layers"      # delivered list is no layer's list
                        elif s == "host-application-config" and o.get(p, "-") == "-" and hit and p not in hit[0]["set"]:
                            k = "hostapp-entry-without-applications-hides-cluster-wide"
                        elif p == "totalNetworkBandwidth" and o.get(p) == "'0'" and hit and p not in hit[0]["set"]:
                            k = "unset-value-field-overrides-lower-layer"
                        else:
                            k = "other"
                        kinds.add(k)
                        first = first or (s, p)
        if first:
            # (the path is in the replay file's explanation; keeping it out of the signature keeps the number of signatures small)
            return "op=%s section=%s kind=%s" % (e.get("op"), first[0], "+".join(sorted(kinds)))
    except Exception as ex:      # a label only
        return "op=%s kind=unclassified(%s)" % (e.get("op"), type(ex).__name__)
    return "op=%s kind=unclassified" % e.get("op")


CONF = {
    "id": "C20", "family": "SloLayering",
    "mc": [
        {"module": "MC_SloLayering", "cfg": {"quick": "MC_quick.cfg", "thorough": "MC_thorough.cfg"}, "timeout": 1500},
        {"module": "MC_SloLayering", "cfg": "MC_hostapp.cfg", "timeout": 900},
        {"module": "MC_SloLayering", "cfg": {"quick": None, "thorough": "MC_hist.cfg"}, "timeout": 1500},
    ],
    "gen": [
        {"module": "Gen_SloLayering", "cfg": "Gen_a.cfg", "timeout": 900, "sample": {"quick": 40, "thorough": 10}},
        {"module": "Gen_SloLayering", "cfg": "Gen_b.cfg", "timeout": 900, "sample": {"quick": 25, "thorough": 8}},
        {"module": "Gen_SloLayering", "cfg": "Gen_c.cfg", "timeout": 900, "sample": {"quick": 150, "thorough": 30}},
    ],
    "go": [{"pkg": "pkg/slo-controller/nodeslo", "test": "TestVerifC20"}],
    # an event is ~3 kB (every leaf of five sections for every node): small chunks keep one TLC run near 1 GB
    "trace": {"module": "SloLayeringTrace", "cfg": "Trace.cfg", "chunk_events": 12000},
    "signature": sig,
    "rule": "one segment per life of the ConfigMap handler (reset, then ConfigMap events each followed by getNodeSLOSpec for "
            "every node); distinct by content; non-trivial = at least one checked event",
    "assumptions": [
        "before the observed nodes' specs are computed, a twin of every observed node (same labels, a node-bandwidth annotation of its own) has its spec computed and discarded; the annotation is never put on an observed node",
        "a 'field' is a leaf of the section's JSON document: scalars, quantities, int-or-strings and LISTS are leaves (a list is "
        "set and delivered as a whole); objects and string-keyed maps are interior (merged key by key)",
        "a layer 'sets' a field when its JSON text contains the key with a non-null value; explicit nulls, empty strings for "
        "omitempty string fields and explicit empty lists are not generated (whether they set a field is ambiguous)",
        "label selectors have metav1.LabelSelector semantics (nil selects nothing, empty selects everything); invalid selectors are not generated",
        "nodes carry no node-bandwidth annotation (it deliberately overrides system-config totalNetworkBandwidth)",
        "the built-in defaults are the strategies of DefaultSLOCfg() (resource-qos: nothing set; koordlet applies its own defaults later)",
        "third-party extension strategies (ExtensionCfgMerged) are out of scope",
    ],
}
