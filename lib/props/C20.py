def sig(fl):
    """label of a rejected event (diagnostics / known-finding key only; the verdict was TLC's)"""
    e = fl["event"]
    exp = fl.get("expected")
    kind = "other"
    where = ""
    if isinstance(exp, dict):
        diffs = []
        obs = e.get("obs", {})
        for n in sorted(set(obs) | set(exp)):
            for s in sorted(set(obs.get(n, {})) | set(exp.get(n, {}) or {})):
                o = obs.get(n, {}).get(s, {}) or {}
                x = (exp.get(n, {}) or {}).get(s, {}) or {}
                for p in sorted(set(o) | set(x)):
                    if o.get(p) != x.get(p):
                        diffs.append((s, p, o.get(p), x.get(p)))
        if diffs:
            s, p, o, x = diffs[0]
            where = " section=%s path=%s" % (s, p)
            if p.endswith("blocks"):
                kind = "list-elements-merged-across-layers"
            elif s == "host-application-config":
                kind = "hostapp-entry-without-applications-hides-cluster"
            elif p == "totalNetworkBandwidth" and o == "'0'":
                kind = "unset-value-field-overrides-lower-layer"
    return "op=%s%s kind=%s" % (e.get("op"), where, kind)


CONF = {
    "id": "C20", "family": "SloLayering",
    "mc": [
        {"module": "MC_SloLayering", "cfg": {"quick": "MC_quick.cfg", "thorough": "MC_thorough.cfg"}, "timeout": 1500},
        {"module": "MC_SloLayering", "cfg": "MC_hostapp.cfg", "timeout": 900},
        {"module": "MC_SloLayering", "cfg": {"quick": None, "thorough": "MC_hist.cfg"}, "timeout": 1500},
    ],
    "gen": [
        {"module": "Gen_SloLayering", "cfg": "Gen_a.cfg", "timeout": 900, "sample": {"quick": 40, "thorough": 6}},
        {"module": "Gen_SloLayering", "cfg": "Gen_b.cfg", "timeout": 900, "sample": {"quick": 25, "thorough": 4}},
        {"module": "Gen_SloLayering", "cfg": "Gen_c.cfg", "timeout": 900, "sample": {"quick": 150, "thorough": 15}},
    ],
    "go": [{"pkg": "pkg/slo-controller/nodeslo", "test": "TestVerifC20"}],
    "trace": {"module": "SloLayeringTrace", "cfg": "Trace.cfg", "chunk_events": 40000},
    "signature": sig,
    "rule": "one segment per life of the ConfigMap handler (reset, then ConfigMap events each followed by getNodeSLOSpec for "
            "every node); distinct by content; non-trivial = at least one checked event",
    "assumptions": [
        "a 'field' is a leaf of the section's JSON document: scalars, quantities, int-or-strings and LISTS are leaves (a list is "
        "set and delivered as a whole); objects and string-keyed maps are interior (merged key by key)",
        "a layer 'sets' a field when its JSON text contains the key with a non-null value; explicit nulls, empty strings for "
        "omitempty string fields and explicit empty lists are not generated (whether they set a field is ambiguous)",
        "label selectors have metav1.LabelSelector semantics (nil selects nothing, empty selects everything); invalid selectors are not generated",
        "nodes carry no node-bandwidth annotation (it deliberately overrides system-config totalNetworkBandwidth)",
        "the built-in defaults are the strategies of DefaultSLOCfg() (resource-qos: nothing set; koordlet applies its own defaults later)",
        "third-party extension strategies (ExtensionCfgMerged) are out of scope",
    ],
}
