"""C09  Reclaimed (batch/mid) capacity is never over-promised  (family Reclaim).

MC     MC_Reclaim / MC_ReclaimMid: the algorithm transcription satisfies every property-level predicate and is monotone
       over a small exhaustive input domain (incl. pods being deleted and NUMA annotation ids the node does not have).
       MC_ReclaimRecon: the node writer (with its hysteresis) withdraws what is published whenever the NodeMetric is
       missing / never updated / expired, whatever was published before.
Go     batchresource.TestVerifC09 / midresource.TestVerifC09Mid: enumerated input table + seeded random inputs, each a
       chain  calc, raise, raise, ...  executed on the real Plugin.Calculate.
       noderesource.TestVerifC09Reconcile: lives of one node under the real NodeResourceReconciler.Reconcile on a fake
       API server (publish, NodeMetric deleted / expired / never updated, koordlet back, pods arrive / are deleted).
Trace  ReclaimTrace: every recorded output must satisfy BatchOutOK / MidOutOK for its input, every raise must not raise
       a published amount; after every reconcile the node object must satisfy PubOK (withdrawn when the metric is
       missing or stale, bounded when it is fresh).
"""


def _apply(inp, e):
    """re-apply a recorded raise step to the input (label only)"""
    w, k, by = e.get("what"), e.get("k", 0), e.get("by", {"cpu": 0, "mem": 0})

    def add(rl, sign=1):
        rl["cpu"] += sign * by["cpu"]
        rl["mem"] += sign * by["mem"]
    try:
        if w in ("sys", "anno"):
            add(inp[w])
        elif w == "kres":
            add(inp["alloc"], -1)
        elif w == "margin":
            add(inp["thr"], -1)
        elif w in ("req", "use"):
            add(inp["pods"][k - 1][w])
        elif w == "dangling":
            add(inp["dangling"][k - 1]["use"])
        elif w == "app":
            add(inp["apps"][k - 1]["use"])
        elif w == "usage":
            add(inp["usage"])
    except Exception:
        pass


def sig(fl):
    """classify a rejected event (diagnostic label + known-finding key only; the verdict was TLC's).
    Structural facts about the input at the rejected event, no expected values are computed here."""
    import copy
    seg, idx = fl["segment"], fl["fail_index"]
    e = fl["event"]
    op = e.get("op")
    if op == "recon":
        # reconciler level: which kind of NodeMetric the reconcile saw, and whether the node still publishes something
        i, o = e.get("inp", {}), e.get("out", {})
        if i.get("nm") == "missing":
            nm = "missing"
        elif i.get("age", 0) < 0:
            nm = "never-updated"
        elif i.get("age", 0) > i.get("degrade", 0) * 60:
            nm = "expired"
        else:
            nm = "fresh"
        try:
            pub = any(o[sd][r] != 0 for sd in ("alloc", "cap") for r in ("cpu", "mem"))
        except Exception:
            pub = None
        return "op=recon nodemetric=%s node-publishes=%s" % (nm, {True: "yes", False: "no"}.get(pub, "?"))
    inp = None
    for ev in seg[:idx + 1]:
        if ev.get("op") in ("calc", "mcalc"):
            inp = copy.deepcopy(ev.get("inp"))
        elif ev.get("op") in ("raise", "mraise") and inp is not None:
            _apply(inp, ev)
    if op in ("mcalc", "mraise") or inp is None or "pol" not in inp:
        return "op=%s" % op

    def hp(p):
        pr = p["prio"]
        if pr == "none":
            pr = "batch" if p["qos"] == "BE" else "prod"
        return pr not in ("batch", "free")
    maxur = [r for r in ("cpu", "mem") if inp["pol"][r] == "maxUsageRequest"]
    nomet = any(hp(p) and p["phase"] in ("Running", "Pending") and not p["metric"] and any(p["req"][r] > 0 for r in maxur)
                for p in inp["pods"])
    # policy "request": the code subtracts the node reservation only, never the (larger) system usage.
    # Inputs of this shape are attributed to the recorded finding even if they also have another feature;
    # a regression elsewhere still shows on the many inputs without this shape.
    try:
        for r in ("cpu", "mem"):
            if (inp["pol"][r] or "usage") == "request":
                reserved = max(max(inp["cap"][r] - inp["alloc"][r], 0), inp["anno"][r])
                sysused = inp["sys"][r] + sum(a["use"][r] for a in inp.get("apps", []) if a.get("prio") in ("prod", "mid"))
                if sysused > reserved:
                    return "op=%s kind=request-policy-ignores-system-usage-above-reservation" % op
    except Exception:
        pass
    # structural features of the input (labels only): a high-priority pod that is being deleted, an annotation NUMA id
    # the node does not have
    feats = []
    try:
        if any(hp(p) and p["phase"] in ("Running", "Pending") and p.get("term") for p in inp["pods"]):
            feats.append("hp-pod-being-deleted")
        nz = len(inp.get("zones") or [])
        if nz and any(hp(p) and any(n < 0 or n >= nz for n in (p.get("numa") or [])) for p in inp["pods"]):
            feats.append("numa-id-not-on-node")
    except Exception:
        pass
    tail = (" features=" + ",".join(feats)) if feats else ""
    if nomet:
        return "op=%s kind=hp-pod-without-metric-under-maxUsageRequest%s" % (op, tail)
    return "op=%s kind=other%s" % (op, tail)


CONF = {
    "id": "C09", "family": "Reclaim",
    "mc": [
        {"module": "MC_Reclaim", "cfg": {"quick": "MC_quick.cfg", "thorough": "MC_quick.cfg"}, "timeout": 900},
        {"module": "MC_Reclaim", "cfg": {"quick": None, "thorough": "MC_thorough.cfg"}, "timeout": 2400},
        {"module": "MC_Reclaim", "cfg": {"quick": None, "thorough": "MC_pairs.cfg"}, "timeout": 1800},
        {"module": "MC_ReclaimMid", "cfg": {"quick": "MC_mid_quick.cfg", "thorough": "MC_mid_thorough.cfg"}, "timeout": 1800},
        {"module": "MC_ReclaimRecon", "cfg": {"quick": "MC_recon.cfg", "thorough": "MC_recon.cfg"}, "timeout": 600},
    ],
    "go": [
        {"pkg": "pkg/slo-controller/noderesource/plugins/batchresource", "test": "TestVerifC09", "uses_script": False},
        {"pkg": "pkg/slo-controller/noderesource/plugins/midresource", "test": "TestVerifC09Mid", "uses_script": False},
        {"pkg": "pkg/slo-controller/noderesource", "test": "TestVerifC09Reconcile", "uses_script": False},
    ],
    "trace": {"module": "ReclaimTrace", "cfg": "Trace.cfg", "timeout": 2400, "chunk_events": 250000},
    "signature": sig,
    "rule": "segments = chains (calc, raise*) of real Plugin.Calculate executions, and chains (recon*) of real "
            "NodeResourceReconciler.Reconcile executions on one node; distinct by content hash, "
            "non-trivial = at least one checked calculation / reconcile after the reset",
    "trusted_base": ["TLC (tla2tools in /opt/veriftools)", "k8s.io/utils/clock/testing fake clock injected through the packages' Clock / clk variables",
                     "c09Client stub (answers the NodeResourceTopology Get of calculateOnNUMALevel, nothing else)",
                     "controller-runtime fake client + the package's FakeCfgCache / plugin registration fixtures (reconciler level)",
                     "projection functions in /verif/harness (field reads only)"],
    "assumptions": [
        "reconciler driver: where the controller's real config cache accepts the step's strategy unchanged (valid; an unset calculate policy counts as the default 'usage') it is used, fed with the ConfigMap only when the configuration changes, and two other nodes with strategy overrides (one through a node config + annotation, one through the annotation only) are reconciled first; otherwise the package's FakeCfgCache is used",
        "policy 'request' (memory only) is bounded with the node reservation as system term (documented formula, pinned by "
        "batchresource/plugin_test.go); system usage above the reservation is not demanded there (Reclaim!ReqPolicySysUsage = FALSE)",
        "cpu policies: default/usage/maxUsageRequest ('request' is not supported for cpu and not generated)",
        "an LSE pod with metrics is charged its cpu REQUEST under policy usage (LSE does not lend cpu)",
        "a terminated pod that still reports usage, and a metric without a listed pod, are charged by the metric's priority at usage",
        "a pod counts until its phase is Succeeded/Failed: a pod that is being deleted (deletionTimestamp set, phase "
        "Running/Pending) is charged exactly like any other pod (no predicate reads the `term` attribute)",
        "reclaim thresholds 0..100; the safety margin may be 1 unit below the exact product only when that product is an "
        "integer and the ratio is not a multiple of 1/4 (float truncation), see Reclaim!MarginLo; no other tolerance",
        "every pod carries an explicit QoS label; host applications carry an explicit priority; NUMA ids in pod annotations "
        "are distinct; ids the node does not have (negative or >= number of zones) bind the pod nowhere: the pod is charged "
        "1/k in each of the k EXISTING zones it lists, 1/Z everywhere when it lists none; at most 4 zones",
        "all magnitudes < 2^31 (memory in scaled units); 64-bit magnitudes are not exercised",
        "staleness is decided on whole seconds with an injected fake clock",
        "observation point: ResourceItems returned by Plugin.Calculate; at the reconciler level batch-cpu / batch-memory in "
        "node.status.allocatable and .capacity after NodeResourceReconciler.Reconcile (NRT zone writer and mid resources "
        "are not observed there: midresource's clock cannot be injected from package noderesource)",
        "reconciler level: 'withdrawn' = resource absent from the node or zero; a missing NodeMetric object counts as stale; "
        "the upper bounds are demanded of the node object only when it must carry the last calculation (first reconcile of "
        "the controller instance, resourceDiffThreshold 0, or nothing published before) - in between the node writer may keep "
        "a value within resourceDiffThreshold of the new one (hysteresis, not part of the statement); only non-negativity then",
        "reconciler level: no API faults, no NodeResourceTopology object, updateTimeThresholdSeconds 300, colocation enabled; "
        "under memory policy 'request' the generator keeps system usage within the node reservation (the recorded "
        "request-policy finding is reported by the Calculate-level driver only)",
    ],
}
