"""C09  Reclaimed (batch/mid) capacity is never over-promised  (family Reclaim).

MC     MC_Reclaim / MC_ReclaimMid: the algorithm transcription satisfies every property-level predicate and is monotone
       over a small exhaustive input domain.
Go     batchresource.TestVerifC09 / midresource.TestVerifC09Mid: enumerated input table + seeded random inputs, each a
       chain  calc, raise, raise, ...  executed on the real Plugin.Calculate.
Trace  ReclaimTrace: every recorded output must satisfy BatchOutOK / MidOutOK for its input, every raise must not raise
       a published amount.
"""


def _apply(inp, e):
    """re-apply a recorded raise step to the input (label only)"""
    w, k, by = e.get("what"), e.get("k", 0), e.get("by", {"cpu": 0, "mem": 0})

    def add(rl, sign=1):
        rl["cpu"] += sign * by["cpu"]
        rl["mem"] += sign * by["mem"]
    try:
        if w in ("sys", "anno"):
            add(inp[w])
        elif w == "kres":
            add(inp["alloc"], -1)
        elif w == "margin":
            add(inp["thr"], -1)
        elif w in ("req", "use"):
            add(inp["pods"][k - 1][w])
        elif w == "dangling":
            add(inp["dangling"][k - 1]["use"])
        elif w == "app":
            add(inp["apps"][k - 1]["use"])
        elif w == "usage":
            add(inp["usage"])
    except Exception:
        pass


def sig(fl):
    """classify a rejected event (diagnostic label + known-finding key only; the verdict was TLC's).
    Structural facts about the input at the rejected event, no expected values are computed here."""
    import copy
    seg, idx = fl["segment"], fl["fail_index"]
    e = fl["event"]
    op = e.get("op")
    inp = None
    for ev in seg[:idx + 1]:
        if ev.get("op") in ("calc", "mcalc"):
            inp = copy.deepcopy(ev.get("inp"))
        elif ev.get("op") in ("raise", "mraise") and inp is not None:
            _apply(inp, ev)
    if op in ("mcalc", "mraise") or inp is None or "pol" not in inp:
        return "op=%s" % op

    def hp(p):
        pr = p["prio"]
        if pr == "none":
            pr = "batch" if p["qos"] == "BE" else "prod"
        return pr not in ("batch", "free")
    maxur = [r for r in ("cpu", "mem") if inp["pol"][r] == "maxUsageRequest"]
    nomet = any(hp(p) and p["phase"] in ("Running", "Pending") and not p["metric"] and any(p["req"][r] > 0 for r in maxur)
                for p in inp["pods"])
    # policy "request": the code subtracts the node reservation only, never the (larger) system usage.
    # Inputs of this shape are attributed to the recorded finding even if they also have another feature;
    # a regression elsewhere still shows on the many inputs without this shape.
    try:
        for r in ("cpu", "mem"):
            if (inp["pol"][r] or "usage") == "request":
                reserved = max(max(inp["cap"][r] - inp["alloc"][r], 0), inp["anno"][r])
                sysused = inp["sys"][r] + sum(a["use"][r] for a in inp.get("apps", []) if a.get("prio") in ("prod", "mid"))
                if sysused > reserved:
                    return "op=%s kind=request-policy-ignores-system-usage-above-reservation" % op
    except Exception:
        pass
    if nomet:
        return "op=%s kind=hp-pod-without-metric-under-maxUsageRequest" % op
    return "op=%s kind=other" % op


CONF = {
    "id": "C09", "family": "Reclaim",
    "mc": [
        {"module": "MC_Reclaim", "cfg": {"quick": "MC_quick.cfg", "thorough": "MC_quick.cfg"}, "timeout": 900},
        {"module": "MC_Reclaim", "cfg": {"quick": None, "thorough": "MC_thorough.cfg"}, "timeout": 2400},
        {"module": "MC_Reclaim", "cfg": {"quick": None, "thorough": "MC_pairs.cfg"}, "timeout": 1800},
        {"module": "MC_ReclaimMid", "cfg": {"quick": "MC_mid_quick.cfg", "thorough": "MC_mid_thorough.cfg"}, "timeout": 1800},
    ],
    "go": [
        {"pkg": "pkg/slo-controller/noderesource/plugins/batchresource", "test": "TestVerifC09", "uses_script": False},
        {"pkg": "pkg/slo-controller/noderesource/plugins/midresource", "test": "TestVerifC09Mid", "uses_script": False},
    ],
    "trace": {"module": "ReclaimTrace", "cfg": "Trace.cfg", "timeout": 2400, "chunk_events": 250000},
    "signature": sig,
    "rule": "segments = chains (calc, raise*) of real Plugin.Calculate executions; distinct by content hash, "
            "non-trivial = at least one checked calculation after the reset",
    "trusted_base": ["TLC (tla2tools in /opt/veriftools)", "k8s.io/utils/clock/testing fake clock injected through the packages' Clock / clk variables",
                     "c09Client stub (answers the NodeResourceTopology Get of calculateOnNUMALevel, nothing else)",
                     "projection functions in /verif/harness (field reads only)"],
    "assumptions": [
        "policy 'request' (memory only) is bounded with the node reservation as system term (documented formula, pinned by "
        "batchresource/plugin_test.go); system usage above the reservation is not demanded there (Reclaim!ReqPolicySysUsage = FALSE)",
        "cpu policies: default/usage/maxUsageRequest ('request' is not supported for cpu and not generated)",
        "an LSE pod with metrics is charged its cpu REQUEST under policy usage (LSE does not lend cpu)",
        "a terminated pod that still reports usage, and a metric without a listed pod, are charged by the metric's priority at usage",
        "reclaim thresholds 0..100; the safety margin may be 1 unit below the exact product only when that product is an "
        "integer and the ratio is not a multiple of 1/4 (float truncation), see Reclaim!MarginLo; no other tolerance",
        "every pod carries an explicit QoS label; host applications carry an explicit priority; NUMA ids in pod annotations "
        "are distinct and < number of zones; at most 4 zones",
        "all magnitudes < 2^31 (memory in scaled units); 64-bit magnitudes are not exercised",
        "staleness is decided on whole seconds with an injected fake clock",
        "observation point: ResourceItems returned by Plugin.Calculate (not what NodeResource/NRT writers do with them)",
    ],
}
