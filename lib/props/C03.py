def sig(fl):
    e = fl["event"]
    cfg = fl["segment"][0]
    return "op=%s code=%s runtime=%s checkParent=%s" % (e.get("op"), e.get("code"), cfg.get("runtime"), cfg.get("checkParent"))


CONF = {
    "id": "C03", "family": "Quota",
    "mc": [
        {"module": "QuotaAdmission", "cfg": "MC_Admission_cp.cfg", "timeout": 900},
        {"module": "QuotaAdmission", "cfg": "MC_Admission_nocp.cfg", "timeout": 900},
    ],
    "go": [{"pkg": "pkg/scheduler/plugins/elasticquota", "test": "TestVerifC03",
            "extra_pkgs": ["pkg/scheduler/plugins/elasticquota/core"]}],
    "trace": {"module": "QuotaAdmissionTrace", "cfg": "Trace_C03.cfg"},
    "signature": sig,
    "assumptions": [
        "closed loop: pods become assigned only through an admitted attempt followed by Reserve (no bound pods added by informer fail-over, no migration, "
        "no quota label change or resize of an assigned pod, no re-parenting) - the histories the statement quantifies over",
        "all groups declare {cpu, memory}; quota hook plugins none",
        "runtime quota values are compared in calculator units (milli-CPU)",
        "min-quota scaling on in half of the segments: scaled mins taken from the logged calculator levels, bounded by the declared mins",
    ],
}
