RES = ("cpu", "mem")


def _thr(cfg, nodes, use, n, r, lowmap, m, sign):
    """threshold quantity, same integer arithmetic as Thr in specs/Rebalance/Rebalance.tla (labels only, never a verdict)"""
    cap = nodes[n]["cap"][r]
    if r not in lowmap or (cfg.get("dev") and lowmap[r] == 0):
        return cap
    k = cap // 100
    if not cfg.get("dev"):
        return m[r] * k // 100
    fresh = sorted(x for x in nodes if nodes[x]["fresh"])
    nf, big = len(fresh), max(nodes[x]["cap"][r] for x in nodes)
    s_ = sum(use[i][r] * (big // nodes[i]["cap"][r]) for i in fresh)
    p_, q_ = 10000 * s_ + sign * m[r] * nf * big, 100 * nf * big
    p_ = min(max(p_, 0), 100 * q_)
    return p_ * k // q_


def _legacy(cfg):
    """segments recorded before the check drove several pools: one pool without selector"""
    if "pools" in cfg:
        return cfg
    pool = {k: cfg.get(k) for k in ("dev", "low", "high", "plow", "phigh", "anomaly", "norm")}
    pool["sel"] = {"nil": True, "labels": []}
    return {"numNodes": cfg.get("numNodes", 0), "nodeFit": cfg.get("nodeFit", False), "pools": [pool]}


def _matches(pool, node):
    return pool["sel"]["nil"] or all(l in (node.get("labels") or []) for l in pool["sel"]["labels"])


def _table(pool, rnd):
    """usage / threshold table of one pool (PoolTable in Rebalance.tla), for the measured nodes the pool selects"""
    nodes = {n: v for n, v in rnd.get("nodes", {}).items() if _matches(pool, v)}
    pods = rnd.get("pods", {}) or {}
    fresh = [n for n in nodes if nodes[n]["fresh"]]
    use = {n: {r: nodes[n]["sys"][r] + sum(p["use"][r] for p in pods.values() if p["node"] == n and p["metric"]) for r in RES} for n in fresh}
    puse = {n: {r: sum(p["use"][r] for p in pods.values() if p["node"] == n and p["metric"] and p["prod"]) for r in RES} for n in fresh}
    T = {"use": use, "puse": puse, "low": {}, "high": {}, "plow": {}, "phigh": {}, "sched": {}}
    for n in fresh:
        T["low"][n] = {r: _thr(pool, nodes, use, n, r, pool["low"], pool["low"], -1) for r in RES}
        T["high"][n] = {r: _thr(pool, nodes, use, n, r, pool["low"], pool["high"], 1) for r in RES}
        T["plow"][n] = {r: _thr(pool, nodes, puse, n, r, pool["plow"], pool["plow"], -1) for r in RES}
        T["phigh"][n] = {r: _thr(pool, nodes, puse, n, r, pool["plow"], pool["phigh"], 1) for r in RES}
        T["sched"][n] = not nodes[n]["unsched"]
    return T


def _overv(u, h):
    return any(u[r] > h[r] for r in RES)


def _underv(u, l):
    return all(u[r] <= l[r] for r in RES)


def _over_(T, n): return _overv(T["use"][n], T["high"][n])
def _pover(T, n): return _overv(T["puse"][n], T["phigh"][n])
def _under(T, n): return T["sched"][n] and _underv(T["use"][n], T["low"][n])
def _punder(T, n): return T["sched"][n] and _underv(T["puse"][n], T["plow"][n])


def _kind(T, n):
    return "node" if _over_(T, n) and not _under(T, n) else "prod" if _pover(T, n) else "none"


def _underused(T, k, m):
    if k == "node":
        return _under(T, m) and not _pover(T, m)
    return _punder(T, m) and not _pover(T, m) and (_under(T, m) or not _over_(T, m))


def _clauses(pool, numNodes, T, rnd, sN, sP, calls, k, p, shared=()):
    """the clauses of AllowedP for Evict(p) under pool k (labels only: mirrors WhyP of Rebalance.tla); shared = the nodes whose
    streak clause is switched off (second pass for the shared-detector finding, StreakFor of RebalanceTrace.tla)"""
    pods = rnd.get("pods", {}) or {}
    if p not in pods:
        return {"unknownPod": p}
    n = pods[p]["node"]
    if n not in T["use"]:
        return {"node": n, "measured": False}
    dec = lambda q: {r: (pods[q]["use"][r] if pods[q]["metric"] else 0) for r in RES}
    ok = [c for c in calls if c["ok"]]
    frm = [c for c in ok if pods[c["pod"]]["node"] == n]
    kd = _kind(T, n)
    est = {r: T["use"][n][r] - sum(dec(c["pod"])[r] for c in frm) for r in RES}
    pest = {r: T["puse"][n][r] - sum(dec(c["pod"])[r] for c in frm if pods[c["pod"]]["prod"]) for r in RES}
    src = kd != "none" and (kd != "prod" or pods[p]["prod"]) and \
        (_overv(est, T["high"][n]) if kd == "node" else _overv(pest, T["phigh"][n]))
    streak = 9 if n in shared else (sP if kd == "prod" else sN).get(n, 0)
    an = pool["anomaly"] < 2 or streak >= pool["anomaly"]
    kk = "node" if kd == "none" else kd
    low = any(_underused(T, kd, m) for m in T["use"] if m != n)
    D = [m for m in T["use"] if _underused(T, kk, m)]
    mine = [c for c in ok if c["pool"] == k and pods[c["pod"]]["node"] in T["use"] and _kind(T, pods[c["pod"]]["node"]) == kk]
    hd = {r: sum((T["high"][m][r] - T["use"][m][r]) if kk == "node" else (T["phigh"][m][r] - T["puse"][m][r]) for m in D)
          - sum(dec(c["pod"])[r] for c in mine) for r in RES}
    wl = pods[p].get("wl", "")
    fil = pods[p]["pass"] and all(c["pod"] != p for c in ok) and (wl == "" or all(pods[c["pod"]].get("wl", "") != wl for c in ok))
    und = [m for m in T["use"] if _underused(T, "node", m) or _underused(T, "prod", m)]
    z = not (all(_kind(T, m) == "none" for m in T["use"]) or not und or len(und) == len(T["use"]) or len(und) <= numNodes)
    return {"node": n, "kind": kd, "measured": True, "src": src, "an": an, "streak": streak, "required": pool["anomaly"],
            "low": low, "hd": all(hd[r] > 0 for r in RES), "fil": fil, "z": z}


_CL = ("src", "an", "low", "hd", "fil", "z")


def _failed(w):
    return [c for c in _CL if w.get(c) is False]


def _mirror(fl, tol=False):
    """recompute what the trace spec saw for the rejected evict event: {cursor, pools: [{pool, past, selNil, again, why}]};
    tol: as the second pass sees it (no streak clause for nodes that several pools select)"""
    seg, i = fl["segment"], fl["fail_index"]
    cfg = _legacy(seg[0]["cfg"])
    pools, nn = cfg["pools"], cfg["numNodes"]
    sN = [dict() for _ in pools]
    sP = [dict() for _ in pools]
    tabs, rnd, calls, cur = None, None, [], 1
    for x in seg[1:i + 1]:
        if x.get("op") == "round":
            rnd, calls, cur = x, [], 1
            tabs = [_table(pc, rnd) for pc in pools]
            for k, T in enumerate(tabs):
                for n in T["use"]:
                    sN[k][n] = min(sN[k].get(n, 0) + 1, 9) if _over_(T, n) else 0
                    sP[k][n] = min(sP[k].get(n, 0) + 1, 9) if _pover(T, n) else 0
        elif x.get("op") == "evict":
            ws = []
            shared = set()
            if tol:
                shared = {n for n in seg[0]["names"] if sum(1 for T in tabs if n in T["use"]) > 1}
            for k in range(1, len(pools) + 1):
                w = _clauses(pools[k - 1], nn, tabs[k - 1], rnd, sN[k - 1], sP[k - 1], calls, k, x["pod"], shared)
                pods = rnd.get("pods", {}) or {}
                again = ""      # as which kind of source an earlier pool of this round already relieved the node
                if x["pod"] in pods:
                    n = pods[x["pod"]]["node"]
                    js = sorted(c["pool"] for c in calls if c["ok"] and c["pool"] < k and pods[c["pod"]]["node"] == n)
                    if js:
                        again = _kind(tabs[js[0] - 1], n) if n in tabs[js[0] - 1]["use"] else "?"
                ws.append({"pool": k, "past": k < cur, "selNil": pools[k - 1]["sel"]["nil"], "again": again, "why": w})
            if x is seg[i]:
                return {"cursor": cur, "pools": ws}
            oks = [w["pool"] for w in ws if not w["past"] and w["why"].get("measured") and not _failed(w["why"])]
            if oks:
                cur = oks[0]
            calls.append({"pod": x["pod"], "ok": x["ok"], "pool": cur})
    return None


def _label(exp, seg):
    """signature of a rejected evict event from the per-pool diagnostics (TLC's in explain mode, else the mirror's)"""
    ws = [w for w in exp["pools"] if not w["past"]]
    cand = [w for w in ws if w["why"].get("measured")]
    npools = len(exp["pools"])
    if not cand:
        if any("unknownPod" in w["why"] for w in ws):
            return "unknown-pod"
        return "failed=unmeasured-node" + ("" if npools == 1 else " pools=%d" % npools)
    # the pool with the fewest failed clauses explains the call best; among equals, a pool for which the node was already
    # relieved by an earlier pool of this round ("again": the multi-pool explanation), of those one without selector, then the first
    best = min(cand, key=lambda w: (len(_failed(w["why"])), w["again"] in ("", False), not w["selNil"], w["pool"]))
    w = best["why"]
    failed = _failed(w)
    kind = "failed=" + ",".join(failed) if failed else "other"
    if failed == ["an"]:
        kind += " streak=%s required=%s" % (w.get("streak"), w.get("required"))
    if npools > 1:
        nsel = sum(1 for x in exp["pools"] if x["why"].get("measured"))
        # several pools: the overload kind, whether the explaining pool has a selector, whether several pools select the
        # node (shared) and whether an earlier pool of this round already relieved it, as which kind of source (again=)
        kind += " kind=%s sel=%s%s%s" % (w.get("kind"), "none" if best["selNil"] else "labels",
                                         " shared" if nsel > 1 else "", " again=%s" % best["again"] if best["again"] else "")
    return kind


def sig(fl):
    """classify a rejected event (diagnostic label + known-finding key only; the verdict was TLC's)"""
    e = fl["event"]
    if e.get("op") != "evict":
        return "op=%s other" % e.get("op")
    exp = fl.get("expected")
    try:
        if not (isinstance(exp, dict) and "pools" in exp):
            exp = _mirror(fl)       # only the first few rejections are explained by TLC: recompute the same diagnostics
        kind = _label(exp, fl["segment"]) if exp else "unexplained"
        if exp and len(exp["pools"]) > 1 and not kind.startswith("failed=an streak="):
            # several pools: a call the shared anomaly detector let through too early is attributed to ANOTHER pool by the
            # greedy attribution (and shifts the cursor for the calls after it). If the call is in order once the streak clause
            # is off for the nodes several pools select, it is a manifestation of that recorded finding; the second pass
            # (VERIF_TOLERATE_C18_SHARED) then has TLC decide whether anything else is wrong in the segment.
            ext = _mirror(fl, tol=True)
            if ext and any(not w["past"] and w["why"].get("measured") and not _failed(w["why"]) for w in ext["pools"]):
                kind = "failed=an(by attribution) shared"
    except Exception as ex:     # a label must never break the run
        kind = "unexplained (%s)" % type(ex).__name__
    return "op=%s %s" % (e.get("op"), kind)


CONF = {
    "id": "C18", "family": "Rebalance",
    "mc": [
        # the loop transcription (any order of sources / pods) satisfies the predicates; every action is taken (coverage):
        # absolute 20/80 + prod 10/15, 3 nodes of two capacities, 4 pods, anomaly none / 2, 4 rounds
        {"module": "MC_Rebalance", "cfg": {"quick": "MC_abs_quick.cfg", "thorough": "MC_abs_quick.cfg"}, "timeout": 1500,
         "coverage": True},
        # deviation thresholds 10 (prod 5) around the pool average
        {"module": "MC_Rebalance", "cfg": {"quick": "MC_dev_quick.cfg", "thorough": "MC_dev_quick.cfg"}, "timeout": 1500,
         "coverage": True},
        # thorough: memory-hot system usage, failing evictions, anomaly 1, more filter outcomes
        {"module": "MC_Rebalance", "cfg": {"quick": None, "thorough": "MC_abs_thorough.cfg"}, "timeout": 2400},
        {"module": "MC_Rebalance", "cfg": {"quick": None, "thorough": "MC_dev_thorough.cfg"}, "timeout": 2400},
        # NodeFit (any subset removable), stale metrics, unschedulable node, NumberOfNodes = 1, second pod set
        {"module": "MC_Rebalance", "cfg": {"quick": None, "thorough": "MC_fit_thorough.cfg"}, "timeout": 1500},
        # 5 rounds, anomaly 2 / 3, ConsecutiveNormalities 2
        {"module": "MC_Rebalance", "cfg": {"quick": None, "thorough": "MC_rounds5_thorough.cfg"}, "timeout": 1500},
        # SEVERAL pools: Balance over two pools (selector "a", then "b" / none / a stricter "b"; processed nodes and detectors as
        # proposed_fixes/C18b keeps them), 3 nodes, 4 pods, anomaly none / 2 per pool, 3 rounds; thorough: anomaly 2/3 mixes, 4 rounds.
        # (MC_pools_asfound.cfg / MC_pools_without_*.cfg are refuted by TLC: the tree as found, and the repair minus one part.)
        {"module": "MC_RebalancePools", "cfg": {"quick": "MC_pools_quick.cfg", "thorough": "MC_pools_thorough.cfg"}, "timeout": 1500,
         "coverage": True},
    ],
    "go": [{"pkg": "pkg/descheduler/framework/plugins/loadaware", "test": "TestVerifC18",
            "timeout": {"quick": 900, "thorough": 1800}}],
    "trace": {"module": "RebalanceTrace", "cfg": "Trace.cfg", "timeout": {"quick": 900, "thorough": 2400},
              "chunk_events": 60000},      # bounded memory per TLC run (the machine is shared)
    "signature": sig,
    "rule": "one segment per plugin life: reset = one to three node pools (label selectors over the nodes, thresholds / anomaly "
            "configuration per pool), then 3..8 successive rounds of the real LowNodeLoad.Balance (all pools in one call), each "
            "logged as its inputs followed by the ordered Evict calls of the recording evictor; "
            "distinct by content hash, non-trivial = at least one checked event after the reset",
    "assumptions": [
        "one to three node pools per configuration, processed by one real Balance call per round; selectors are MatchLabels over the "
        "labels a / b (none = no nodeSelector, every node; the empty selector; a; b; a+b): overlapping, nested, identical and disjoint "
        "pools, nodes selected by no pool; node labels do not change during a plugin life; NumberOfNodes is one setting for all pools",
        "which pool makes an Evict call is not observable: the calls of a round are attributed to pools in order (a call belongs to the "
        "first pool, not before the pool of the previous call, under which every clause holds); the clauses are evaluated against the "
        "pool's table over ALL measured nodes its selector matches (for absolute thresholds every clause is monotone in the set of "
        "member nodes, so this accepts whatever subset of already handled nodes an implementation leaves out of a later pool)",
        "a pool with deviation thresholds shares no node with an earlier pool (its average is then over exactly the nodes it selects, "
        "whatever earlier pools did); overlapping pools use absolute thresholds",
        "over one round the ESTIMATE of a node is the node's, not the pool's: measured usage minus everything successfully evicted from it "
        "in this round by whichever pool (the NodeMetric does not change within a round; an evicted pod stays listed on its node until "
        "the next round and the evictor's filter does not let it through again); the headroom of a pool's underused nodes is charged "
        "with the pool's own evictions only (nothing is demanded across pools); the anomaly streak is per pool and node (above the high "
        "threshold of the pool that evicts, for the number of rounds that pool asks for)",
        "resources cpu and memory (cpu always has thresholds; 'pods' thresholds, pod selectors and "
        "namespace filters are not generated); low/high (and prod low/high) thresholds are configured for the same resources and validate",
        "capacities 1000 / 2000 (milli-CPU, bytes); absolute percentages are multiples of 5 whose float conversion is exact; deviation "
        "percentages are x.03-like values so that no threshold quantity lies within 0.005 of an integer (the code's float arithmetic then "
        "floors to the exact value; checked on the inputs by the generator); no tolerance is applied",
        "a node is measured iff its NodeMetric exists, carries Status.NodeMetric and an update time younger than the expiration "
        "(stale ones are placed one hour in the past); an unmeasured round neither counts towards nor interrupts the anomaly streak",
        "the source kind of a node is its node-level overload (usage above high and not below low), else its prod-level overload; "
        "underused nodes for node load = below the low thresholds and not prod-overloaded, for prod load = prod usage below the prod low "
        "thresholds and the node not a source (exactly the destination classes of classifyNodes)",
        "(An) is one-directional: at least ConsecutiveAbnormalities consecutive overloaded rounds (the detector asks for more); "
        "anomaly timeouts and the detector cache expiry are one hour away (no wall-clock dependence)",
        "estimates are decremented only by evictions the evictor reported as successful and by the pod's reported usage "
        "(a pod without a pod metric contributes nothing to the measured usage)",
        "the node objects of every segment carry names of their own (script name + segment number; the trace keeps the script names), so "
        "no anomaly detector survives from one segment into the next wherever the plugin keeps its detectors",
    ],
}
