RES = ("cpu", "mem")


def _thr(cfg, nodes, use, n, r, lowmap, m, sign):
    """threshold quantity, same integer arithmetic as Thr in specs/Rebalance/Rebalance.tla (labels only, never a verdict)"""
    cap = nodes[n]["cap"][r]
    if r not in lowmap or (cfg.get("dev") and lowmap[r] == 0):
        return cap
    k = cap // 100
    if not cfg.get("dev"):
        return m[r] * k // 100
    fresh = sorted(x for x in nodes if nodes[x]["fresh"])
    nf, big = len(fresh), max(nodes[x]["cap"][r] for x in nodes)
    s_ = sum(use[i][r] * (big // nodes[i]["cap"][r]) for i in fresh)
    p_, q_ = 10000 * s_ + sign * m[r] * nf * big, 100 * nf * big
    p_ = min(max(p_, 0), 100 * q_)
    return p_ * k // q_


def _over(cfg, rnd):
    """node -> (kind of overload 'node' / 'prod' / 'none', usage above high, prod usage above prod high) for the measured nodes"""
    nodes, pods = rnd.get("nodes", {}), rnd.get("pods", {}) or {}
    fresh = [n for n in nodes if nodes[n]["fresh"]]
    use = {n: {r: nodes[n]["sys"][r] + sum(p["use"][r] for p in pods.values() if p["node"] == n and p["metric"]) for r in RES} for n in fresh}
    puse = {n: {r: sum(p["use"][r] for p in pods.values() if p["node"] == n and p["metric"] and p["prod"]) for r in RES} for n in fresh}
    out = {}
    for n in fresh:
        low = {r: _thr(cfg, nodes, use, n, r, cfg["low"], cfg["low"], -1) for r in RES}
        high = {r: _thr(cfg, nodes, use, n, r, cfg["low"], cfg["high"], 1) for r in RES}
        phigh = {r: _thr(cfg, nodes, puse, n, r, cfg["plow"], cfg["phigh"], 1) for r in RES}
        over = any(use[n][r] > high[r] for r in RES)
        under = (not nodes[n]["unsched"]) and all(use[n][r] <= low[r] for r in RES)
        pover = any(puse[n][r] > phigh[r] for r in RES)
        out[n] = ("node" if over and not under else "prod" if pover else "none", over, pover)
    return out


def sig(fl):
    """classify a rejected event (diagnostic label + known-finding key only; the verdict was TLC's)"""
    e = fl["event"]
    exp = fl.get("expected")
    kind = "other"
    if e.get("op") == "evict" and isinstance(exp, dict):
        failed = [k for k in ("src", "an", "low", "hd", "fil", "z") if exp.get(k) is False]
        if exp.get("measured") is False:
            failed = ["unmeasured-node"]
        kind = "failed=" + ",".join(failed) if failed else "other"
        if failed == ["an"]:
            kind += " streak=%s required=%s" % (exp.get("streak"), exp.get("required"))
    elif e.get("op") == "evict":
        # only the first few rejections are explained by TLC: label the others by the overload history of the source node
        try:
            seg, i = fl["segment"], fl["fail_index"]
            cfg = seg[0]["cfg"]
            node, streak, k = e.get("from"), 0, "none"
            rounds = [x for x in seg[:i] if x.get("op") == "round"]
            k = _over(cfg, rounds[-1]).get(node, ("none",))[0]
            for r in rounds:
                o = _over(cfg, r).get(node)
                if o is None:
                    continue        # not measured in that round
                streak = streak + 1 if (o[1] if k == "node" else o[2]) else 0
            if cfg["anomaly"] >= 2 and k != "none" and streak < cfg["anomaly"]:
                kind = "failed=an streak=%d required=%d" % (streak, cfg["anomaly"])
            else:
                kind = "unexplained kind=%s streak=%d anomaly=%d" % (k, streak, cfg["anomaly"])
        except Exception as ex:     # a label must never break the run
            kind = "unexplained (%s)" % type(ex).__name__
    return "op=%s %s" % (e.get("op"), kind)


CONF = {
    "id": "C18", "family": "Rebalance",
    "mc": [
        # the loop transcription (any order of sources / pods) satisfies the predicates; every action is taken (coverage):
        # absolute 20/80 + prod 10/15, 3 nodes of two capacities, 4 pods, anomaly none / 2, 4 rounds
        {"module": "MC_Rebalance", "cfg": {"quick": "MC_abs_quick.cfg", "thorough": "MC_abs_quick.cfg"}, "timeout": 1500,
         "coverage": True},
        # deviation thresholds 10 (prod 5) around the pool average
        {"module": "MC_Rebalance", "cfg": {"quick": "MC_dev_quick.cfg", "thorough": "MC_dev_quick.cfg"}, "timeout": 1500,
         "coverage": True},
        # thorough: memory-hot system usage, failing evictions, anomaly 1, more filter outcomes
        {"module": "MC_Rebalance", "cfg": {"quick": None, "thorough": "MC_abs_thorough.cfg"}, "timeout": 2400},
        {"module": "MC_Rebalance", "cfg": {"quick": None, "thorough": "MC_dev_thorough.cfg"}, "timeout": 2400},
        # NodeFit (any subset removable), stale metrics, unschedulable node, NumberOfNodes = 1, second pod set
        {"module": "MC_Rebalance", "cfg": {"quick": None, "thorough": "MC_fit_thorough.cfg"}, "timeout": 1500},
        # 5 rounds, anomaly 2 / 3, ConsecutiveNormalities 2
        {"module": "MC_Rebalance", "cfg": {"quick": None, "thorough": "MC_rounds5_thorough.cfg"}, "timeout": 1500},
    ],
    "go": [{"pkg": "pkg/descheduler/framework/plugins/loadaware", "test": "TestVerifC18",
            "timeout": {"quick": 900, "thorough": 1800}}],
    "trace": {"module": "RebalanceTrace", "cfg": "Trace.cfg", "timeout": {"quick": 900, "thorough": 2400},
              "chunk_events": 60000},      # bounded memory per TLC run (the machine is shared)
    "signature": sig,
    "rule": "one segment per plugin life: reset = thresholds / anomaly configuration, then 3..8 successive rounds of the real "
            "LowNodeLoad.Balance, each logged as its inputs followed by the ordered Evict calls of the recording evictor; "
            "distinct by content hash, non-trivial = at least one checked event after the reset",
    "assumptions": [
        "one node pool without selector; resources cpu and memory (cpu always has thresholds; 'pods' thresholds, pod selectors and "
        "namespace filters are not generated); low/high (and prod low/high) thresholds are configured for the same resources and validate",
        "capacities 1000 / 2000 (milli-CPU, bytes); absolute percentages are multiples of 5 whose float conversion is exact; deviation "
        "percentages are x.03-like values so that no threshold quantity lies within 0.005 of an integer (the code's float arithmetic then "
        "floors to the exact value; checked on the inputs by the generator); no tolerance is applied",
        "a node is measured iff its NodeMetric exists, carries Status.NodeMetric and an update time younger than the expiration "
        "(stale ones are placed one hour in the past); an unmeasured round neither counts towards nor interrupts the anomaly streak",
        "the source kind of a node is its node-level overload (usage above high and not below low), else its prod-level overload; "
        "underused nodes for node load = below the low thresholds and not prod-overloaded, for prod load = prod usage below the prod low "
        "thresholds and the node not a source (exactly the destination classes of classifyNodes)",
        "(An) is one-directional: at least ConsecutiveAbnormalities consecutive overloaded rounds (the detector asks for more); "
        "anomaly timeouts and the detector cache expiry are one hour away (no wall-clock dependence)",
        "estimates are decremented only by evictions the evictor reported as successful and by the pod's reported usage "
        "(a pod without a pod metric contributes nothing to the measured usage)",
    ],
}
