def sig(fl):
    e = fl["event"]
    if e.get("op") == "restart" and "podFirst" in e:   # reservation part
        return "op=restart part=reservation podBeforeReservation=%s" % ("yes" if e["podFirst"] > 0 else "no")
    if e.get("op") == "restart" and "order" in e:      # device part
        return "op=restart part=device order=%s" % e.get("order")
    if "res" in e.get("obs", {}):                      # reservation part, steady-state events: C05's labels
        from props import C05 as _c05
        return "part=reservation " + _c05.sig(fl)
    return "op=%s kind=%s" % (e.get("op"), e.get("kind"))


CONF = {
    "id": "C19", "family": "Restart",
    "mc": [],
    "gen": [
        {"module": "Codec", "cfg": {"quick": "Gen_Codec_quick.cfg", "thorough": "Gen_Codec_thorough.cfg"}, "timeout": 900,
         "sample": {"quick": 1, "thorough": 8}},
    ],
    "go": [
        {"pkg": "apis/extension", "test": "TestVerifC19Codec", "trace": {"module": "CodecTrace", "cfg": "Trace_Codec.cfg"},
         "selftest_keys": ("y", "y2")},
        # quota part: QuotaAccounting + Restart action; the fresh manager is fed the persisted objects only
        {"pkg": "pkg/scheduler/plugins/elasticquota/core", "test": "TestVerifC19Quota", "family": "Quota", "uses_script": False,
         "trace": {"module": "QuotaAccountingTrace", "cfg": "Trace_C01.cfg"}},
        # CPU / NUMA part: NumaCpu + Restart action; persistence through the real preBindObject, rebuild through podEventHandler
        {"pkg": "pkg/scheduler/plugins/nodenumaresource", "test": "TestVerifC19Numa", "family": "NumaCpu", "uses_script": False,
         "trace": {"module": "NumaCpuTrace", "cfg": "Trace.cfg"}},
        # device part: Device + Restart action; persistence through the real pre-bind code, rebuild through the informer handlers
        {"pkg": "pkg/scheduler/plugins/deviceshare", "test": "TestVerifC19Device", "family": "Device", "uses_script": False,
         "trace": {"module": "DeviceTrace", "cfg": "Trace.cfg"}},
        # reservation part: Reservation + Restart; assignments persisted by the real PreBind, rebuild through both informers' handlers
        {"pkg": "pkg/scheduler/plugins/reservation", "test": "TestVerifC19Reservation", "family": "Reservation", "uses_script": False,
         "trace": {"module": "ReservationTrace", "cfg": "Trace.cfg"}},
    ],
    "trace": {"module": "CodecTrace", "cfg": "Trace_Codec.cfg"},
    "signature": sig,
    "assumptions": [
        "CPU/NUMA restart: a quarter of the live allocations are carried by Reservation objects (persisted by the real PreBindReservation, re-learnt through the real reservation-to-pod event handler; every other one with a template that still carries a pod's old allocation); quota restart: the running pods p1 / p4 carry a deletionTimestamp ahead of the clock and a finalizer",
    ],
}
