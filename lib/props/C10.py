def _ceil_div(a, b):
    return -((-a) // b)


def sig(fl):
    """classify a rejected event (diagnostic label + known-finding key only; the verdict was TLC's)"""
    e = fl["event"]
    op = e.get("op")
    seg = fl["segment"]
    reset = seg[0]
    prot = set(reset.get("rcpus", []))
    if reset.get("sysx"):
        prot |= set(reset.get("sys", []))
    for p in reset.get("pods", []):
        if p.get("qos") == "LSE":
            prot |= set(p.get("cpus", []))
    cpus = set(p["cpu"] for p in reset.get("procs", []))
    elig = cpus - prot
    kind = "other"
    if op == "panic":
        kind = "in=%s no-eligible-cpu=%s msg=%s" % (e.get("in"), not elig, e.get("msg"))
    elif op == "cpuset":
        old = set(reset.get("old", []))
        for x in seg[1:fl["fail_index"]]:
            if x.get("op") == "cpuset":
                old = set(x.get("root", []))
        n = len(reset.get("procs", []))
        t = min(max(2, _ceil_div(e.get("q", 0), 1000)), len(old) + (n + 9) // 10)
        s = set(e.get("set", [])) if e.get("written") else set()
        if s & prot:
            kind = "protected-cpu-in-set"
        elif s - cpus:
            kind = "unknown-cpu-in-set"
        elif len(s) > t:
            kind = "more-than-budgeted"
        elif len(elig) >= t and len(s) < t:
            kind = "fewer-than-budgeted-although-enough-eligible written=%s" % e.get("written")
        elif reset.get("kubelet") == "static":
            kind = "static-root-has-protected-cpu"
    return "op=%s %s" % (op, kind)


CONF = {
    "id": "C10", "family": "Suppress",
    "mc": [
        # every assignment of N CPUs to {free, LSR, LSE, reserved, system-exclusive} x layouts x budgets x old sizes:
        # the transcription of the selection never crashes and satisfies CPUSetOK / PolicyOK
        {"module": "MC_Suppress", "cfg": {"quick": "MC_sel_quick.cfg", "thorough": "MC_sel_thorough.cfg"}, "timeout": 1200},
        {"module": "MC_Suppress", "cfg": {"quick": None, "thorough": "MC_sel_8.cfg"}, "timeout": 1800},
        # budget formula: floor, reservation bound, monotone in every non-BE consumption; quota rule
        {"module": "MC_Suppress", "cfg": "MC_bud.cfg", "timeout": 900},
        # rounds driven by the transcription are steps the property-level actions allow
        {"module": "MC_Suppress", "cfg": "MC_rounds.cfg", "timeout": 900},
    ],
    "go": [{"pkg": "pkg/koordlet/qosmanager/plugins/cpusuppress", "test": "TestVerifC10", "pfm": True,
            "timeout": {"quick": 900, "thorough": 1800}}],
    "trace": {"module": "SuppressTrace", "cfg": "Trace.cfg", "timeout": {"quick": 900, "thorough": 1800}},
    "signature": sig,
    "rule": "one segment per input set: reset = inputs, events = results of the real calculateBESuppressCPU / adjustByCPUSet / "
            "adjustByCfsQuota / calculateBESuppressCPUSetPolicy / calcBECPUSet (files read back from a temp cgroup root); "
            "distinct by content hash, non-trivial = at least one checked event after the reset",
    "assumptions": [
        "a CPU list written in a form that does not parse (rbad / sysbad) names no CPU: the event logs that list as empty; generated only without an annotation cpu amount (the budget side drops a reservation whose CPU list does not parse as a whole)",
        "cpuset annotations of distinct pods are disjoint (scheduler invariant); annotations are well-formed",
        "a pod is BE if its koordinator QoS is BE or its kubernetes QoS is BestEffort; a host application is BE only if "
        "declared BE and placed under the best-effort cgroup; CPUs reserved by id count 1000m each",
        "usages / reservations are multiples of 125m and capacities whole cores, so the code's float arithmetic is exact "
        "(no tolerance needed); processor counts 30/60/70 (float 10% step differs from the exact one) are not generated",
        "the CPU set judged is the one applied to the BE containers in a round; a round that applies nothing derives "
        "no set (what the BE cgroup keeps from earlier rounds is not judged)",
        "quota mode: the documented bypass (<1% of the node) and step (10% of the node) deviations are allowed, not demanded",
        "cgroup v1 layout, kubelet cpu-manager policy none or static, BECPUManager feature off",
    ],
}
