import json


def _amt(list_, nodes, key):
    return sum(x.get(key, 0) for x in list_ if x.get("node") in nodes)


def sig(fl):
    """diagnostic label of a rejected event (and known-finding key); the verdict itself was TLC's"""
    e = fl["event"]
    op = e.get("op")
    if op == "dist":
        r = e.get("result", {})
        hint = set(e.get("hint", []))
        enough = all(_amt(e.get("free", []), hint, k) >= e.get("req", {}).get(k, 0) for k in ("cpu", "mem"))
        from0 = (0 in hint) or not hint
        if not r.get("ok") and enough:
            kind = "refused-although-hinted-nodes-have-enough"
        elif r.get("ok"):
            kind = "split-not-exact-or-above-free"
        else:
            kind = "other"
        return "op=dist mode=%s hint-from-0=%s kind=%s" % (e.get("mode"), from0, kind)
    if op in ("alloc", "update", "release"):
        # the specification's expectation for the event (computed by TLC in explain mode, first few rejections only):
        # the obs-shaped ledger / pod maps a correct node reports, plus `rule` = what the result had to satisfy
        exp = fl.get("expected")
        kind = "unclassified"
        if fl.get("violated"):
            kind = "invariant-" + str(fl.get("violated"))
        elif isinstance(exp, dict) and "refs" in exp:
            obs = e.get("obs", {})
            norm = lambda x: json.dumps(x if x != [] else {}, sort_keys=True)
            differs = [k for k in ("pods", "refs", "stray", "numa") if norm(obs.get(k)) != norm(exp.get(k))]
            rule = exp.get("rule")
            if differs:
                kind = "ledger-differs-from-live-pods(%s)" % ",".join(differs)
            elif op == "alloc" and not e.get("result", {}).get("ok") and isinstance(rule, dict) and rule.get("mustSucceed"):
                kind = "refused-although-hinted-nodes-have-enough"
            elif op == "alloc":
                kind = "result-not-allowed"
        if kind == "unclassified" and op == "alloc" and e.get("hasHint") and not e.get("bind") and not e.get("result", {}).get("ok"):
            # label only (beyond the first few rejections bin/check does not ask TLC for the expectation): a refusal changes
            # nothing, so the free amounts it saw are capacity - ledger of the same event
            hint = set(e.get("hint", []))
            cap = fl["segment"][0].get("cap", [])
            led = e.get("obs", {}).get("numa", [])
            free = lambda k: sum(max(0, c.get(k, 0) - _amt(led, {c.get("node")}, k)) for c in cap if c.get("node") in hint)
            if all(free(k) >= e.get("req", {}).get(k, 0) for k in ("cpu", "mem")):
                kind = "refused-although-hinted-nodes-have-enough"
        if op != "alloc":
            return "op=%s kind=%s" % (op, kind)
        r = e.get("result", {})
        return "op=alloc bind=%s hint=%s required=%s ok=%s kind=%s" % (e.get("bind"), e.get("hasHint"), e.get("required"), r.get("ok"), kind)
    if op == "take":
        return "op=take fn=%s policy=%s ok=%s" % (e.get("fn"), e.get("policy"), e.get("result", {}).get("ok"))
    if op == "policy":
        return "op=policy policy=%s reported-satisfied=%s" % (e.get("policy"), e.get("result", {}).get("satisfied"))
    if op == "panic":
        return "op=panic in=%s" % e.get("in")
    return "op=%s" % op


CONF = {
    "id": "C06", "family": "NumaCpu",
    "mc": [
        # transcription of tryBestToDistributeEvenly: every free vector x EVERY hint mask x request x divisibility mode -> (N1) (N2) (N3)
        {"module": "MC_NumaCpu", "cfg": {"quick": "MC_dist_quick.cfg", "thorough": "MC_dist_thorough.cfg"}, "timeout": 900},
        # contract of the CPU accumulator over every subset of an 8-CPU topology as the available set, n in 1..8, all bind policies
        {"module": "MC_NumaCpu", "cfg": "MC_table_quick.cfg", "timeout": 900},
        {"module": "MC_NumaCpu", "cfg": {"quick": None, "thorough": "MC_table_2221.cfg"}, "timeout": 900},
        {"module": "MC_NumaCpu", "cfg": {"quick": None, "thorough": "MC_table_1142.cfg"}, "timeout": 900},
        # all histories of Alloc (ANY allowed result) / Update / Release: (R) and (N4) in every reachable state
        {"module": "MC_NumaCpu", "cfg": {"quick": "MC_hist_cpu_quick.cfg", "thorough": "MC_hist_cpu_thorough.cfg"}, "timeout": 1200},
        {"module": "MC_NumaCpu", "cfg": {"quick": "MC_hist_numa_quick.cfg", "thorough": "MC_hist_numa_thorough.cfg"}, "timeout": 1200},
    ],
    "go": [{"pkg": "pkg/scheduler/plugins/nodenumaresource", "test": "TestVerifC06", "timeout": {"quick": 900, "thorough": 1800}}],
    "trace": {"module": "NumaCpuTrace", "cfg": "Trace.cfg", "timeout": {"quick": 900, "thorough": 2400}},
    "signature": sig,
    "rule": "one segment per node: reset = topology / sharing limit / reserved CPUs / NUMA capacities, events = results of the real "
            "takeCPUs / takePreferredCPUs / tryBestToDistributeEvenly / satisfiedRequiredCPUBindPolicy (enumerated tables: one segment "
            "per available set resp. free vector) and of resourceManager.Allocate / Update / Release with the NodeAllocation projection "
            "(seeded random histories); distinct by content hash, non-trivial = at least one checked event after the reset",
    "assumptions": [
        "topologies: 1-4 sockets x 1-4 NUMA nodes x 1-4 cores x 1-2 threads (the 3- and 4-socket ones were added after a seed reviewer pointed at takeCPUs' last-resort loop; defect f6c7e5b)",
        "symmetric CPU topologies as built by the package's buildCPUTopologyForTest (sockets x NUMA nodes x cores x threads), "
        "asymmetric free sets; amplification ratios 1, no reusable / required (reservation-designated) NUMA resources",
        "a committed allocation credits (preferredCPUs / preemptibleCPUs) only CPUs the pod itself holds - its previous allocation, "
        "which the commit replaces; credits for CPUs held by others (preemption victims, reservations) are dry runs: the result is "
        "checked against the credited availability but not committed (reservation-owned CPUs handed to owner pods are C05's business)",
        "informer deliveries (Update) name only CPUs that are not reserved and below the sharing limit once the pod's previous "
        "holding is released (allocations made by a scheduler that honoured the limit)",
        "(N3) completeness is claimed for freely divisible amounts only: memory units and milli-CPU of pods without CPU binding; "
        "whole-CPU / whole-core splits (CPU binding) are checked for (N1) (N2) only",
        "(N2) covers the resources the NUMA nodes report (cpu, memory); a requested resource that no NUMA node reports is ignored by "
        "the NUMA-level allocation by design",
        "all amounts below 2^31 (milli-CPU, small memory units)",
    ],
}
