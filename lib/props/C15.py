def sig(fl):
    """classify a rejected event (diagnostic label + known-finding key only; the verdict was TLC's)"""
    e = fl["event"]
    i = fl["fail_index"]
    prev = fl["segment"][i - 1].get("obs", {}).get("info", {}) if i >= 1 else {}
    kind = "other"
    if e.get("op") in ("create", "update") and e.get("accepted"):
        n, seen = e.get("parent"), 0
        while n in prev and seen < 50:
            if n == e.get("name"):
                break
            n, seen = prev[n]["parent"], seen + 1
        if n == e.get("name"):
            kind = "parent-is-self-or-descendant"
    return "op=%s accepted=%s kind=%s" % (e.get("op"), e.get("accepted"), kind)


CONF = {
    "id": "C15", "family": "QuotaTopology",
    "mc": [
        {"module": "MC_QuotaTopology", "cfg": {"quick": "MC_quick.cfg", "thorough": "MC_quick.cfg"}, "timeout": 900},
        {"module": "MC_QuotaTopology", "cfg": {"quick": None, "thorough": "MC_ns.cfg"}, "timeout": 1800},
    ],
    "gen": [
        {"module": "Gen_QuotaTopology", "cfg": {"quick": "Gen_quick.cfg", "thorough": "Gen_thorough.cfg"}, "timeout": 1200,
         "sample": {"quick": 1, "thorough": 3}},
        {"module": "Gen_QuotaTopology", "cfg": {"quick": "Gen_quick2.cfg", "thorough": "Gen_thorough2.cfg"}, "timeout": 1200,
         "sample": {"quick": 1, "thorough": 4}},
        {"module": "Gen_QuotaTopology", "cfg": "Gen_sim.cfg", "simulate": {"quick": "num=200", "thorough": "num=3000"},
         "depth": 13, "timeout": 600},
    ],
    "go": [{"pkg": "pkg/webhook/elasticquota", "test": "TestVerifC15"}],
    "trace": {"module": "QuotaTopologyTrace", "cfg": "Trace.cfg"},
    "signature": sig,
    "assumptions": [
        "the built-in group names (koordinator-default-quota / koordinator-system-quota) are generated like any other quota name; a panic of the webhook on a request is recovered by the harness and logged as an event the specification rejects",
        "feature gates at defaults (ElasticQuotaEnableUpdateResourceKey off, ElasticQuotaGuaranteeUsage off)",
        "no force-update / tree-root labels, so the min-sum clause has no exemption",
        "old object passed to update/delete is the last admitted object (API-server semantics)",
        "pods are bound to quotas by the quota-name label only",
    ],
}
