"""C11 - node-pressure eviction takes only eligible victims, in order, and only as needed (family Evict).

MC     specs/Evict/MC_*.cfg      the loop model (repaired form) over bounded universes of cases: every call it makes is
                                 allowed by the property-level predicates, its account equals the sum over the victims
Go     three in-package harnesses run the REAL code with a recording EvictionExecutor:
         plugins/util        KillAndEvictPods on enumerated + seeded random tasks (order = the list handed in)
         plugins/memoryevict real buildEvictTask (target, eligibility, sort, per-pod release) + real loop, 3 strategies
         plugins/cpuevict    the same for the 3 cpu strategies, 1-3 simultaneous tasks
Trace  specs/Evict/EvictTrace.tla  every seen / evict / ret event must be a step the property level allows
"""


# ------------------------------------------------------------------------------------------------------------------
# Diagnostic label of a rejected event (which clause of the property the call breaks).  The verdict was TLC's; this
# mirror of Evict.tla only names the clause for the log / known-finding key.  When TLC's own clause report is
# available (explain pass of vlib, first few rejections) it is used instead.
def _val(m, k):
    return m.get(k, 0) if isinstance(m, dict) else 0


def _contrib(cs, T, p, r):
    best = 0
    for t in cs["tasks"]:
        if t["tt"] == T:
            c = t.get("c") or {}
            best = max(best, _val(c.get(p) or {}, r))
    return best


def _released(cs, T, r, V):
    return sum(_contrib(cs, T, p, r) for p in V)


def _short(cs, t, V):
    need = t.get("need") or {}
    return [r for r, n in need.items() if n > 0 and _released(cs, t["tt"], r, V) < n]


def _useful(cs, t, p, V):
    return any(_contrib(cs, t["tt"], p, r) > 0 for r in _short(cs, t, V))


def _ep(a):
    return a["ep"] if a.get("hasEp") else 0


def _lp(a):
    return a["lp"] if a.get("hasLp") else a["prio"]


def _before(cs, t, x, y):
    k = t["kind"]
    if k == "list":
        return t["list"].index(x) < t["list"].index(y)
    a, b = cs["pods"][x], cs["pods"][y]
    if k == "prio_used":
        return (_ep(a), a["prio"], _lp(a), -a["used"]) < (_ep(b), b["prio"], _lp(b), -b["used"])
    if k == "prio_req":
        return (_ep(a), a["prio"], _lp(a), -a["req"]) < (_ep(b), b["prio"], _lp(b), -b["req"])
    if k == "be_mem":
        return (a["prio"], -a["used"]) < (b["prio"], -b["used"])
    if k == "be_cpu":
        na, da = (a["used"], a["breq"]) if a["breq"] > 0 else (0, 1)
        nb, db = (b["used"], b["breq"]) if b["breq"] > 0 else (0, 1)
        return a["prio"] < b["prio"] or (a["prio"] == b["prio"] and na * db > nb * da)
    return False


def _eligible(cs, t, p):
    if p not in cs["pods"]:
        return False
    a, k = cs["pods"][p], t["kind"]
    if k == "list":
        return p in t["list"]
    allowed = (not a["hasPolicy"]) or (t["feature"] in a["policy"])
    if k in ("be_mem", "be_cpu"):
        return a["qos"] == "BE" and allowed
    return a["prio"] <= t["thr"] and a["evictLabel"] == "true" and allowed


def clauses_broken(seg, idx):
    cs = seg[0]
    V, Tr = set(), set()
    for e in seg[1:idx]:
        if e["op"] == "seen":
            V.add(e["pod"])
        elif e["op"] == "evict":
            Tr.add(e["pod"])
            if e["ok"]:
                V.add(e["pod"])
    e = seg[idx]
    if e["op"] == "ret":
        out = []
        rel = e.get("released") or {}
        for t in cs["tasks"]:
            for r, n in (t.get("need") or {}).items():
                if n > 0 and _val(rel.get(t["tt"]) or {}, r) != _released(cs, t["tt"], r, V) and "Rl" not in out:
                    out.append("Rl")
            if _short(cs, t, V) and "Pr" not in out:
                for x in t["list"]:
                    if not (x in Tr or x in V or cs["pods"][x]["already"] or not _useful(cs, t, x, V)):
                        out.append("Pr")
                        break
        return out or ["none?"]
    if e["op"] != "evict":
        return [e["op"]]
    ti, p = e.get("task", 0), e["pod"]
    if not (1 <= ti <= len(cs["tasks"])) or p not in cs["pods"]:
        return ["unknown-task-or-pod"]
    t = cs["tasks"][ti - 1]
    out = []
    if not _eligible(cs, t, p):
        out.append("El")
    if p in V or cs["pods"][p]["already"]:
        out.append("Tw")
    if not _short(cs, t, V):
        out.append("St")
    if not _useful(cs, t, p, V):
        out.append("Us")
    for x in t["list"]:
        if x != p and _before(cs, t, x, p) and not (x in Tr or x in V or cs["pods"][x]["already"] or not _useful(cs, t, x, V)):
            out.append("Or")
            break
    return out or ["none?"]


def sig(fl):
    e = fl["event"]
    exp = fl.get("expected")
    if isinstance(exp, dict) and e.get("op") == "evict" and exp.get("known"):
        broken = [k for k in ("El", "Tw", "St", "Us", "Or") if exp.get(k) is False]
    elif isinstance(exp, dict) and e.get("op") == "ret" and "Rl" in exp:
        broken = [k for k in ("Rl", "Pr") if exp.get(k) is False]
    else:
        try:
            broken = clauses_broken(fl["segment"], fl["fail_index"])
        except Exception as ex:  # a label only
            broken = ["unclassified:%s" % type(ex).__name__]
    return "op=%s broken=%s" % (e.get("op"), "+".join(broken))


_U = "pkg/koordlet/qosmanager/plugins/"
CONF = {
    "id": "C11", "family": "Evict",
    "mc": [
        {"module": "MC_Evict", "cfg": "MC_one.cfg", "timeout": 900},
        {"module": "MC_Evict", "cfg": {"quick": "MC_twores_q.cfg", "thorough": "MC_twores.cfg"}, "timeout": 900},
        {"module": "MC_Evict", "cfg": "MC_twosame_q.cfg", "timeout": 900, "coverage": True},   # every action of the model must fire
        {"module": "MC_Evict", "cfg": {"quick": None, "thorough": "MC_twosame.cfg"}, "timeout": 1200},
        {"module": "MC_Evict", "cfg": {"quick": "MC_twodiff_q.cfg", "thorough": "MC_twodiff.cfg"}, "timeout": 1200},
    ],
    "go": [
        {"pkg": _U + "util", "test": "TestVerifC11", "pfm": True},
        {"pkg": _U + "memoryevict", "test": "TestVerifC11", "pfm": True},
        {"pkg": _U + "cpuevict", "test": "TestVerifC11", "pfm": True},
    ],
    "trace": {"module": "EvictTrace", "cfg": "Trace.cfg", "timeout": {"quick": 600, "thorough": 1500}},
    "signature": sig,
    # observed values the trace spec binds (binding self-test of the pipeline corrupts one of them in an accepted run):
    # the returned ReleaseList, the executor's answer and the task an Evict call was made for.  `newly` (second return
    # value, "something was evicted") is logged for the reader only; the property says nothing about it.
    "selftest_keys": ("released", "ok", "task"),
    "rule": "one segment = one run of the real eviction loop on one case (enumerated or seeded random); distinct by "
            "content hash, non-trivial = at least one recorded call or return after the reset",
    "assumptions": [
        "pods carry spec.priority (non-zero), as the priority admission plugin guarantees; candidate lists hold no duplicates",
        "tasks with the same release target describe the same content (their per-pod figures agree where both are "
        "defined), as in the shipped strategies; BEMemoryEvict+MemoryEvict together is excluded because MemoryEvict "
        "records a pod's usage times 1000 (reported, outside this property)",
        "(St) counts the pending release of an already-evicted pod from the moment the loop has asked for it "
        "(IsPodEvicted); the stronger reading (all such pods count from the start) is reported, not judged",
        "release target computation is observed (input to the property), not judged",
    ],
}
