"""C11 - node-pressure eviction takes only eligible victims, in order, and only as needed (family Evict).

MC     specs/Evict/MC_*.cfg      the loop model (repaired form) over bounded universes of cases: every call it makes is
                                 allowed by the property-level predicates, its account equals the sum over the victims
Go     three in-package harnesses run the REAL code with a recording EvictionExecutor:
         plugins/util        KillAndEvictPods on enumerated + seeded random tasks (order = the list handed in); tasks that
                             share a target may know different resource names (projections of one table)
         plugins/memoryevict real buildEvictTask (target, eligibility, sort, per-pod release) + real loop, 3 strategies;
                             round mode: 2-3 rounds of the real memoryEvict() (feature gates per case) with the real
                             DefaultEvictionExecutor / Evictor on a fake API server, victims terminate between rounds
         plugins/cpuevict    the same for the 3 cpu strategies, 1-3 simultaneous tasks; round mode through cpuEvict()
Trace  specs/Evict/EvictTrace.tla  every seen / evict / ret (round / end) event must be a step the property level allows.
       In the strategy harnesses what a victim releases is computed by TLC from the INPUT (the pod's usage sample and
       declared request), never from the figures the code reports; the candidates of a strategy are the pods of the input
       its rule admits, not only those the code listed; whether a pod is already evicted in a later round is derived from
       the history of the segment.
"""


# ------------------------------------------------------------------------------------------------------------------
# Diagnostic label of a rejected event (which clause of the property the call breaks).  The verdict was TLC's; this
# mirror of Evict.tla only names the clause for the log / known-finding key.  When TLC's own clause report is
# available (explain pass of vlib, first few rejections) it is used instead.
def _val(m, k):
    return m.get(k, 0) if isinstance(m, dict) else 0


def _contrib(cs, T, p, r):
    if "usedRes" in cs:      # strategy case: from the pod's attributes (input), not from the code's figures
        a = cs["pods"].get(p)
        if a is None:
            return 0
        if T == "podUsed":
            return a["used"] * cs["unit"] if r == cs["usedRes"] else 0
        if T == "podResourceRequest":
            return a["req"] if r == a["reqRes"] else 0
        return 0
    best = 0
    for t in cs["tasks"]:
        if t["tt"] == T:
            c = t.get("c") or {}
            best = max(best, _val(c.get(p) or {}, r))
    return best


def _released(cs, T, r, V):
    return sum(_contrib(cs, T, p, r) for p in V)


def _short(cs, t, V):
    need = t.get("need") or {}
    return [r for r, n in need.items() if n > 0 and _released(cs, t["tt"], r, V) < n]


def _useful(cs, t, p, V):
    return any(_contrib(cs, t["tt"], p, r) > 0 for r in _short(cs, t, V))


def _ep(a):
    return a["ep"] if a.get("hasEp") else 0


def _lp(a):
    return a["lp"] if a.get("hasLp") else a["prio"]


def _before(cs, t, x, y):
    k = t["kind"]
    if k == "list":
        return x in t["list"] and y in t["list"] and t["list"].index(x) < t["list"].index(y)
    a, b = cs["pods"][x], cs["pods"][y]
    if k == "prio_used":
        return (_ep(a), a["prio"], _lp(a), -a["used"]) < (_ep(b), b["prio"], _lp(b), -b["used"])
    if k == "prio_req":
        return (_ep(a), a["prio"], _lp(a), -a["req"]) < (_ep(b), b["prio"], _lp(b), -b["req"])
    if k == "be_mem":
        return (a["prio"], -a["used"]) < (b["prio"], -b["used"])
    if k == "be_cpu":
        na, da = (a["used"], a["breq"]) if a["breq"] > 0 else (0, 1)
        nb, db = (b["used"], b["breq"]) if b["breq"] > 0 else (0, 1)
        return a["prio"] < b["prio"] or (a["prio"] == b["prio"] and na * db > nb * da)
    return False


def _eligible(cs, t, p):
    if p not in cs["pods"]:
        return False
    a, k = cs["pods"][p], t["kind"]
    if k == "list":
        return p in t["list"]
    allowed = (not a["hasPolicy"]) or (t["feature"] in a["policy"])
    if k in ("be_mem", "be_cpu"):
        return a["qos"] == "BE" and allowed
    return a["prio"] <= t["thr"] and a["evictLabel"] == "true" and allowed


def _cand(cs, t, p):
    if p not in cs["pods"]:
        return False
    if t["kind"] in ("prio_used", "prio_req"):
        return _eligible(cs, t, p) and cs["pods"][p]["hasMetric"]
    return _eligible(cs, t, p)


def _orset(cs, t):
    return sorted(set(t["list"]) | {p for p in cs["pods"] if _cand(cs, t, p)})


def _pending_before(cs, t, p):
    return {x for x in cs["pods"] if x != p and _cand(cs, t, x) and cs["pods"][x]["already"] and _before(cs, t, x, p)}


def _excused(cs, t, x, V, Tr):
    return x in Tr or x in V or cs["pods"][x]["already"] or not _useful(cs, t, x, V)


def _state(seg, idx):
    """the specification's state before event idx: the case (pods / tasks of the current round), victims, tried"""
    cs = dict(seg[0])
    cs["pods"] = {p: dict(a) for p, a in (cs.get("pods") or {}).items()}
    cs["tasks"] = list(cs.get("tasks") or [])
    V, Tr = set(), set()
    for e in seg[1:idx]:
        if e["op"] == "round":
            cs["pods"] = {p: dict(a, already=(a["already"] or p in V)) for p, a in cs["pods"].items() if p in e["present"]}
            cs["tasks"] = list(e["tasks"])
            V, Tr = set(), set()
        elif e["op"] == "seen":
            V.add(e["pod"])
        elif e["op"] == "evict":
            Tr.add(e["pod"])
            if e["ok"]:
                V.add(e["pod"])
    return cs, V, Tr


def clauses_broken(seg, idx):
    cs, V, Tr = _state(seg, idx)
    e = seg[idx]
    if e["op"] in ("ret", "end"):
        out = []
        rel = e.get("released") or {}
        for t in cs["tasks"]:
            for r, n in (t.get("need") or {}).items():
                if e["op"] == "ret" and n > 0 and _val(rel.get(t["tt"]) or {}, r) != _released(cs, t["tt"], r, V) and "Rl" not in out:
                    out.append("Rl")
            if _short(cs, t, V) and "Pr" not in out:
                for x in _orset(cs, t):
                    if not _excused(cs, t, x, V, Tr):
                        out.append("Pr")
                        break
        return out or ["none?"]
    if e["op"] == "seen":
        return ["seen-not-evicted-in-an-earlier-round"]
    if e["op"] != "evict":
        return [e["op"]]
    ti, p = e.get("task", 0), e["pod"]
    if not (1 <= ti <= len(cs["tasks"])) or p not in cs["pods"]:
        return ["unknown-task-or-pod"]
    t = cs["tasks"][ti - 1]
    out = []
    if not _eligible(cs, t, p):
        out.append("El")
    if p in V or cs["pods"][p]["already"]:
        out.append("Tw")
    if not _short(cs, t, V | _pending_before(cs, t, p)):
        out.append("St")
    if not _useful(cs, t, p, V):
        out.append("Us")
    for x in _orset(cs, t):
        if x != p and _before(cs, t, x, p) and not _excused(cs, t, x, V, Tr):
            out.append("Or")
            break
    return out or ["none?"]


def _uncredited(cs):
    """strategy cases: the allocatable strategy has to release PLAIN cpu / memory (requested by pods of no koordinator
    priority class) although its own per-pod function credits that resource to no pod, while the candidates do release
    it according to the input (label only: names the defect class of proposed_fixes/C11b)"""
    if "usedRes" not in cs:
        return []
    out = set()
    r = cs["usedRes"]
    for t in cs["tasks"]:
        if t["tt"] != "podResourceRequest" or _val(t.get("need") or {}, r) <= 0:
            continue
        cands = [p for p in (t.get("c") or {}) if p in cs["pods"]]
        code = any(_val(t["c"][p] or {}, r) > 0 for p in cands)
        real = any(_contrib(cs, t["tt"], p, r) > 0 for p in cands)
        if real and not code:
            out.add(r)
    return sorted(out)


def sig(fl):
    s = _sig(fl)
    try:
        un = _uncredited(_state(fl["segment"], fl["fail_index"])[0])
    except Exception:
        un = []
    return s + (" uncredited-target=" + "+".join(un) if un else "")


def _sig(fl):
    e = fl["event"]
    exp = fl.get("expected")
    if isinstance(exp, dict) and e.get("op") == "evict" and exp.get("known"):
        broken = [k for k in ("El", "Tw", "St", "Us", "Or") if exp.get(k) is False]
    elif isinstance(exp, dict) and e.get("op") in ("ret", "end") and "Pr" in exp:
        broken = [k for k in ("Rl", "Pr") if exp.get(k) is False]
    else:
        try:
            broken = clauses_broken(fl["segment"], fl["fail_index"])
        except Exception as ex:  # a label only
            broken = ["unclassified:%s" % type(ex).__name__]
    return "op=%s broken=%s" % (e.get("op"), "+".join(broken))


_U = "pkg/koordlet/qosmanager/plugins/"
CONF = {
    "id": "C11", "family": "Evict",
    "mc": [
        {"module": "MC_Evict", "cfg": {"quick": "MC_one_q.cfg", "thorough": "MC_one.cfg"}, "timeout": 900},
        {"module": "MC_Evict", "cfg": {"quick": "MC_twores_q.cfg", "thorough": "MC_twores.cfg"}, "timeout": 900},
        {"module": "MC_Evict", "cfg": "MC_twosame_q.cfg", "timeout": 900, "coverage": True},   # every action of the model must fire
        {"module": "MC_Evict", "cfg": {"quick": None, "thorough": "MC_twosame.cfg"}, "timeout": 1200},
        {"module": "MC_Evict", "cfg": {"quick": "MC_twodiff_q.cfg", "thorough": "MC_twodiff.cfg"}, "timeout": 1200},
        {"module": "MC_Evict", "cfg": {"quick": None, "thorough": "MC_twoproj.cfg"}, "timeout": 1200},
    ],
    "go": [
        {"pkg": _U + "util", "test": "TestVerifC11", "pfm": True},
        {"pkg": _U + "memoryevict", "test": "TestVerifC11", "pfm": True},
        {"pkg": _U + "cpuevict", "test": "TestVerifC11", "pfm": True},
    ],
    "trace": {"module": "EvictTrace", "cfg": "Trace.cfg", "timeout": {"quick": 600, "thorough": 1500}},
    "signature": sig,
    # observed values the trace spec binds (binding self-test of the pipeline corrupts one of them in an accepted run):
    # the returned ReleaseList, the executor's answer and the task an Evict call was made for.  `newly` (second return
    # value, "something was evicted") is logged for the reader only; the property says nothing about it.
    "selftest_keys": ("released", "ok", "task"),
    "rule": "one segment = one run of the real eviction loop on one case (enumerated or seeded random); distinct by "
            "content hash, non-trivial = at least one recorded call or return after the reset",
    "assumptions": [
        "pods carry spec.priority (non-zero), as the priority admission plugin guarantees; candidate lists hold no duplicates",
        "loop in isolation (plugins/util): tasks with the same release target describe the same content (their per-pod "
        "figures are projections of one table per target onto the resource names the task knows), as in the shipped strategies",
        "strategy harnesses: what the removal of a pod releases is taken from the input - podUsed: the pod's usage sample "
        "(cpu: cores x 1000; memory: sample x unit), podResourceRequest: the request declared on the pod under the resource "
        "name of its priority class; a pod without a usage sample releases 0 usage and is no candidate of the priority-"
        "threshold strategies (documented filter)",
        "memory: the priority-threshold strategies read a pod's usage sample times 1000 (reported, outside this property): "
        "cases in which MemoryEvict takes part are built in that unit (unit = 1000: node capacity / usage given in the small "
        "unit), BEMemoryEvict is not combined with the two priority-threshold memory strategies",
        "(St) counts the pending release of an already-evicted, still present pod from the moment the loop has asked for it "
        "(IsPodEvicted) AND, whatever the loop did, of every such candidate that strictly precedes the new victim in the "
        "published order; the stronger reading (all such pods count from the start, also those behind the victim) is "
        "reported, not judged",
        "rounds: between two rounds of the entry point the pod usage samples are unchanged (a terminating victim still "
        "holds what it used), the node pressure of each round is scripted; the cool-down is over at every round; a pod "
        "counts as already evicted iff an eviction of it was accepted in an earlier round of the segment and it is still "
        "listed by the informer (with or without deletionTimestamp); the ReleaseList of the entry points is not observable "
        "(clause Rl is judged in the direct runs of KillAndEvictPods only)",
        "release target computation is observed (input to the property), not judged: in round mode by a build of the "
        "tasks (real buildEvictTask, same state) right before the entry point runs; a target in a resource that the "
        "strategy's own per-pod function never credits (plain cpu / memory of the allocatable strategies, "
        "proposed_fixes/C11b) is judged like any other - such rejections carry the label uncredited-target=<resource>",
    ],
}
