CONF = {
    "id": "C11", "family": "Evict",
    "mc": [
        {"module": "MC_Evict", "cfg": "MC_one.cfg", "timeout": 600},
    ],
    "go": [
        {"pkg": "pkg/koordlet/qosmanager/plugins/util", "test": "TestVerifC11", "pfm": True},
    ],
    "trace": {"module": "EvictTrace", "cfg": "Trace.cfg"},
}
