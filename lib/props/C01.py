def sig(fl):
    e = fl["event"]
    if "label" in e or e.get("op") == "migrateCycle" or any("label" in x for x in fl["segment"][1:3]):
        return "plugin op=%s" % e.get("op")
    return "op=%s" % e.get("op")


CONF = {
    "id": "C01", "family": "Quota",
    "mc": [
        {"module": "QuotaAccountingImpl", "cfg": {"quick": "MC_Impl_quick.cfg", "thorough": "MC_Impl_quick.cfg"}, "timeout": 900},
        {"module": "QuotaAccountingImpl", "cfg": {"quick": None, "thorough": "MC_Impl_thorough.cfg"}, "timeout": 2400},
        # schedules clause: every interleaving of the lock / apply / unlock sub-steps of concurrent delta propagations
        {"module": "MC_Locking", "cfg": "MC_Locking.cfg", "timeout": 300},
        # plugin level (growth): which group a pod event is routed to, default-group parking, non-atomic migration cycle
        # (MC_Routing_asfound_bug.cfg is the as-shipped design and violates ExactlyOnce: not part of the pipeline)
        {"module": "PluginRouting", "cfg": "MC_Routing_fixed.cfg", "timeout": 300},
    ],
    "gen": [
        {"module": "Gen_QuotaAccounting", "cfg": {"quick": "Gen_C01_quick.cfg", "thorough": "Gen_C01_thorough.cfg"}, "timeout": 1200},
        {"module": "Gen_QuotaAccounting", "cfg": "Gen_C01_sim.cfg", "simulate": {"quick": "num=150", "thorough": "num=2000"},
         "depth": 26, "timeout": 900},
    ],
    "go": [{"pkg": "pkg/scheduler/plugins/elasticquota/core", "test": "TestVerifC01"},
           # plugin level (growth): label -> group routing with the default group, migrateDefaultQuotaGroupsPod cycle
           {"pkg": "pkg/scheduler/plugins/elasticquota", "test": "TestVerifC01Plugin", "uses_script": False,
            "extra_pkgs": ["pkg/scheduler/plugins/elasticquota/core"],
            "trace": {"module": "QuotaPluginTrace", "cfg": "Trace_C01_plugin.cfg"}}],
    "trace": {"module": "QuotaAccountingTrace", "cfg": "Trace_C01.cfg"},
    "signature": sig,
    "assumptions": [
        "all groups declare the same fixed dimension set {cpu, memory} in max (the property's quantifier)",
        "quota histories respect what the admission webhook (C15) admits: parent exists, no cycles, a group with children stays a parent, "
        "a group with pods does not become a parent, a group with children is not deleted",
        "feature gates at defaults (ElasticQuotaGuaranteeUsage off: Allocated/Guaranteed not asserted; terminating-pod gates off)",
        "root / system / default groups are not asserted (root is not in GetQuotaSummaries; system/default hold no pods in the drivers)",
        "concurrent batches: operations on distinct pods from separate goroutines, figures observed at quiescence",
    ],
}
