def sig(fl):
    """classify a rejected event (diagnostic label + known-finding key only; the verdict was TLC's)"""
    e = fl["event"]
    s = "op=%s" % e.get("op")
    if e.get("op") == "filter":
        s += " pass=%s code=%s" % (e.get("pass"), e.get("code"))
    return s


CONF = {
    "id": "C08", "family": "LoadAware",
    "mc": [
        {"module": "MC_LoadAware", "cfg": "MC_quick.cfg", "timeout": 900, "coverage": True},
        {"module": "MC_Threshold", "cfg": "MC_Threshold.cfg", "timeout": 900},
        {"module": "MC_LoadAware", "cfg": {"quick": None, "thorough": "MC_thorough_cfgs.cfg"}, "timeout": 1800},
        {"module": "MC_LoadAware", "cfg": {"quick": None, "thorough": "MC_thorough_2pods.cfg"}, "timeout": 1800},
        {"module": "MC_LoadAware", "cfg": {"quick": None, "thorough": "MC_thorough_2nodes.cfg"}, "timeout": 1800},
    ],
    "go": [{"pkg": "pkg/scheduler/plugins/loadaware", "test": "TestVerifC08", "timeout": {"quick": 900, "thorough": 2400}}],
    "trace": {"module": "LoadAwareTrace", "cfg": "Trace.cfg", "timeout": {"quick": 900, "thorough": 2400}},
    "signature": sig,
    "selftest_keys": ("obs", "est"),
    "assumptions": [
        "the projection reads the default-period view of two aggregation types (p95 and avg; avg is reported for fewer periods than p95)",
        "histories are the ones the scheduler and the informers deliver: reserve only of a pending pod, roll-back or binding afterwards, "
        "updates of an existing object (spec incl. in-place resize, spec.priority, conditions, node change, termination, resync), delete last; "
        "a pod's metadata that feeds the estimate (priority-class label, custom estimation annotations, owner) does not change during its life",
        "priority changes are delivered as spec.priority changes (the koordinator webhook makes the priority-class label immutable on update)",
        "NodeMetric objects are either the empty object created by the controller (no status) or a status written by koordlet "
        "(update time always set); a status without node usage but with a time is also driven",
        "percentages are integer percents rounded half away from zero as the code does; exactly at a half point either verdict is accepted",
        "wall clock: model times are seconds after T0 = now - 10 days; expiration is 1 day (expired) or 365 days (fresh)",
        "when the report carries no usage of the kind the profile asks for (no node usage / no aggregate of that duration), the sum of the "
        "full estimates of the pods placed there stands in for 'reported usage + excess' (as the cache does)",
        "values stay below 2^31 (TLC integers): at most 5 pods with the 200 MiB default memory estimate per history",
    ],
}
