"""C05  Reservations are never over-allocated and only serve their owners  (family Reservation).

MC     MC_Fit: the transcription of fitsReservation gives the property-level verdict (F) on the full small grid.
       MC_Reservation (ledger / index / match configurations): a transcription of reservationCache + ReservationInfo
       driven by an environment that only produces deliverable informer / scheduler histories satisfies
       (L) (X1) (X2) (O) (M) in every reachable state.
Gen    MC_Reservation with Recording: one witness history per reachable model state (BFS) + long simulated histories,
       each followed by a battery of fit / nominate queries.
Go     reservation.TestVerifC05: the scripts + the fit grid + seeded random histories on the REAL reservationCache,
       the reservation / pod event handlers, fitsNodeAndReservation, BeforePreFilter / Filter / NominateReservation.
Trace  ReservationTrace: after every operation (L) (X1) (X2) on the logged projection; (F) (M) (O) on the answers.
"""


def _names(o):
    d = set(o.get("alloc", {}))
    r = set(o.get("ropts", [])) & d
    return r if (o.get("policy") == "Restricted" and r) else d


_ROPS = ("rAdd", "rUpdate", "rDelete", "rAssume", "rForget", "rCacheDelete")


def _last_r(seg, idx, u):
    last = {}
    for x in seg[:idx]:
        if x.get("op") in _ROPS and x.get("r") == u:
            last = x
    return last


def _foreign_controller(seg, idx, e):
    """some matched / nominated reservation whose every owner term names a controller namespace other than the pod's"""
    us = {u for l in e.get("matched", {}).values() for u in l} | ({e["nominated"]} if e.get("nominated") else set())
    for u in us:
        ow = _last_r(seg, idx, u).get("owners") or []
        if ow and all(t.get("ctrlNs") and t.get("ctrlNs") != e.get("ns") for t in ow):
            return True
    return False


def _holder_missing(seg, idx, u, listed):
    """some pod whose LAST delivered object is bound, running and annotated with reservation u is not among the pods the
    cache lists for u (structural fact about the history and the observation; API objects survive a restart)"""
    last = {}
    for x in seg[:idx]:
        if x.get("op") in ("podAdd", "podUpdate"):
            last[x.get("pod")] = x
        elif x.get("op") == "podDelete":
            last.pop(x.get("pod"), None)
    return any(x.get("ra") == u and x.get("pnode") and not x.get("dead") and p not in listed for p, x in last.items())


def sig(fl):
    """classify a rejected event (diagnostic label + known-finding key only; the verdict was TLC's).
    Structural facts about the event and the logged observation; no expected values are computed here."""
    e = fl["event"]
    seg, idx = fl["segment"], fl["fail_index"]
    op = e.get("op")
    if op == "panic":
        return "op=panic during=%s" % e.get("during", {}).get("op")
    obs = e.get("obs", {})
    known = set(obs.get("res", {}))
    kind = "other"
    dangling = any(u not in known for ix in ("onNode", "matchable", "allocated") for us in obs.get(ix, {}).values() for u in us)
    if dangling:
        kind = "index-references-unknown-reservation"
    elif op == "nominate" and e.get("nominated"):
        u = e["nominated"]
        last = None
        for x in seg[:idx]:
            if x.get("op") in _ROPS and x.get("r") == u:
                last = x
        others = [p for p in obs.get("res", {}).get(u, {}).get("pods", []) if p != e.get("pod")]
        if last is not None and last.get("once") and others:
            kind = "allocate-once-reservation-holding-a-pod-nominated"
            if e.get("aff") and sum(len(v) for v in e.get("matched", {}).values()) >= 1 and len(e.get("matched", {}).get(e.get("node"), [])) == 1:
                kind += "-by-single-match-shortcut"
        elif _foreign_controller(seg, idx, e):
            kind = "reservation-owned-by-a-controller-of-another-namespace-matched"
        elif not e.get("aff") and (last or {}).get("policy") == "Restricted":
            kind = "restricted-reservation-nominated-to-pod-without-affinity"
    elif op in ("match", "nominate") and _foreign_controller(seg, idx, e):
        kind = "reservation-owned-by-a-controller-of-another-namespace-matched"
    elif op == "podUpdate" and e.get("old", {}).get("pod") != e.get("pod"):
        kind = "update-replaces-the-pod-by-a-recreated-one"
    elif op in ("rUpdate", "rAdd", "rAssume", "rDelete"):
        u = e.get("r")
        prev = None
        for x in seg[:idx]:
            if x.get("op") in _ROPS and x.get("r") == u:
                prev = x
        if prev is not None and obs.get("res", {}).get(u, {}).get("pods") and not (_names(e) <= _names(prev)):
            kind = "reserved-dimensions-grew-while-pods-assigned"
        elif u in obs.get("res", {}) and _holder_missing(seg, idx, u, obs["res"][u].get("pods", [])):
            kind = "pod-seen-before-its-reservation-not-assigned"     # repaired in reservation/cache.go (orphanPods), C19
    elif op == "fit":
        kind = "fit-verdict"
    return "op=%s kind=%s%s" % (op, kind, (" tag=%s" % e["tag"]) if e.get("tag") else "")


CONF = {
    "id": "C05", "family": "Reservation",
    "mc": [
        {"module": "MC_Fit", "cfg": "MC_Fit.cfg", "timeout": 600},
        {"module": "MC_Reservation", "cfg": {"quick": "MC_ledger_quick.cfg", "thorough": "MC_ledger.cfg"}, "timeout": 1800},
        {"module": "MC_Reservation", "cfg": {"quick": "MC_index_quick.cfg", "thorough": "MC_index.cfg"}, "timeout": 1800},
        {"module": "MC_Reservation", "cfg": {"quick": "MC_match_quick.cfg", "thorough": "MC_match.cfg"}, "timeout": 1800},
        {"module": "MC_Reservation", "cfg": {"quick": None, "thorough": "MC_index2.cfg"}, "timeout": 1800},
    ],
    "gen": [
        {"module": "MC_Reservation", "cfg": {"quick": "Gen_index.cfg", "thorough": "Gen_index_thorough.cfg"}, "timeout": 900,
         "sample": {"quick": 6, "thorough": 3}},
        {"module": "MC_Reservation", "cfg": {"quick": "Gen_ledger.cfg", "thorough": "Gen_ledger_thorough.cfg"}, "timeout": 900,
         "sample": {"quick": 6, "thorough": 3}},
        {"module": "MC_Reservation", "cfg": {"quick": "Gen_match.cfg", "thorough": "Gen_match_thorough.cfg"}, "timeout": 900,
         "sample": {"quick": 6, "thorough": 3}},
        {"module": "MC_Reservation", "cfg": "Gen_sim.cfg", "simulate": {"quick": "num=100", "thorough": "num=800"},
         "depth": 32, "timeout": 900},
    ],
    "go": [{"pkg": "pkg/scheduler/plugins/reservation", "test": "TestVerifC05"}],
    "trace": {"module": "ReservationTrace", "cfg": "Trace.cfg", "timeout": 2400},
    "signature": sig,
    "rule": "segments of recorded real-code executions (one per script / fit-grid cell / random history); distinct by content "
            "hash, non-trivial = at least one checked event after the reset",
    "assumptions": [
        "rAssume / rForget are the real Plugin.Reserve / Plugin.Unreserve of the reserve pod over a reservation lister that mirrors the informer store (the direct cache call is used only when the lister's object is not the one the event describes, e.g. TLC-generated scripts without an add)",
        "'exists' / 'currently assigned' are read at the cache's entry points: a reservation exists from updateReservation "
        "(informer add / update of an active object, assume of the reserve pod) until DeleteReservation; a pod is assigned by "
        "assumePod, or by the informer add-update of a bound, running pod carrying the reservation-allocated annotation of the "
        "reservation - from the moment both the pod and the reservation are known to the cache, in either arrival order (a pod "
        "delivered first is remembered until the reservation enters the cache; what a reservation held when it leaves the cache "
        "is not remembered) - and released by forgetPods / informer update-delete; refusals of assumePod are taken as answered",
        "histories are those the informer and the scheduler of this code base can deliver: per reservation uid the node never changes "
        "while it is cached (no code path re-binds an available reservation; the extended multi-scheduler 'same uid moves to another "
        "node' transition is modelled behind AllowMigrate / VERIF_C05_EXT and NOT part of the verdict); the plugin's handler and the "
        "scheduler-wide handler (DeleteReservation) run in either order per event; duplicates and resyncs included; a pod update "
        "may carry DIFFERENT pods as old and new object (same namespace / name, another uid: deleted and re-created, merged by a "
        "re-list): the old pod is gone, the new one (bound; running, or already terminated: then both hold nothing) is seen "
        "for the first time",
        "(F) is demanded of the fit verdict AND of every nomination (a nominated Restricted reservation has room for the request in the "
        "state of the query, nothing preempted); it is demanded in the reserved dimensions the pod requests (a zero request adds nothing to the sum); the pod-count rule "
        "counts one slot per assigned pod and subtracts the preemptible pod count as given (not clamped); fit check exercised through fitsNodeAndReservation with the node part skipped",
        "(M) owner vocabulary: label selector app=a|b, object reference (pod name / namespace), controller reference (ReplicaSet name / "
        "namespace; homonymous controllers rs1 exist in both namespaces and own pods there), empty term, no terms, unparsable term; reservation-ignored pods, taints, exact-match, pre-allocation, "
        "operating-mode pods and the (never written by this code base) Waiting phase are not generated",
        "nomination is observed after BeforePreFilter, PreFilter and Filter of the same cycle with lazy reservation restore "
        "(the scheduler cache / NodeInfo is not part of the harness); remembered nominations (AddNominatedReservation) are not exercised",
        "TLC integers are 32-bit: every logged amount and every sum stays below 2^31 (random amounts up to 1e6)",
    ],
}
