def sig(fl):
    seg = fl["segment"]
    e = fl["event"]
    if "evictor" in seg[0]:
        # caps: was another call in flight when this one started/finished? (the race needs overlapping calls)
        i = fl["fail_index"]
        inflight = set()
        overlap = False
        for x in seg[1:i + 1]:
            if x["op"] == "start" and x.get("outcome") == "parked":
                if inflight:
                    overlap = True
                inflight.add(x["caller"])
            elif x["op"] == "finish":
                inflight.discard(x["caller"])
        return "caps evictor=%s op=%s overlapping_calls=%s violated=%s" % (seg[0]["evictor"], e.get("op"), overlap, fl.get("violated"))
    return "arbitration op=%s" % e.get("op")


CONF = {
    "id": "C16", "family": "Disruption",
    "mc": [
        {"module": "MC_Caps", "cfg": "MC_Caps_atomic.cfg", "timeout": 900},
        # arbitration half (first sentence of the statement)
        {"module": "MC_Arbitration", "cfg": {"quick": "MC_Arbitration_quick.cfg", "thorough": "MC_Arbitration_thorough.cfg"},
         "timeout": {"quick": 600, "thorough": 1500}},
        {"module": "MC_Arbitration", "cfg": {"thorough": "MC_Arbitration_wide.cfg"}, "timeout": 1500},
    ],
    "gen": [
        {"module": "Gen_Caps", "cfg": {"quick": "Gen_Caps_quick.cfg", "thorough": "Gen_Caps_thorough.cfg"}, "timeout": 900,
         "sample": {"quick": 2, "thorough": 12}},
    ],
    "go": [
        {"pkg": "pkg/descheduler/evictions", "test": "TestVerifC16PodEvictor", "trace": {"module": "EvictionCapsTrace", "cfg": "Trace_Caps.cfg"}},
        {"pkg": "pkg/descheduler/framework/runtime", "test": "TestVerifC16Proxy", "trace": {"module": "EvictionCapsTrace", "cfg": "Trace_Caps.cfg"}},
        {"pkg": "pkg/descheduler/controllers/migration/arbitrator", "test": "TestVerifC16Arbitration", "uses_script": False,
         "trace": {"module": "ArbitrationTrace", "cfg": "Trace_Arbitration.cfg"}},
    ],
    "trace": {"module": "EvictionCapsTrace", "cfg": "Trace_Caps.cfg"},
    "signature": sig,
    "assumptions": [
        "arbitration: running-or-passed jobs are counted as jobs whose phase is Running, or Pending with the "
        "passed-arbitration annotation, read back from the fake API server after each round; a maximum of nil / <= 0 "
        "(per node, per namespace, globally), an unset per-workload value, or a limit whose eviction gate is skipped "
        "counts as not configured; percentages are only used where they divide the replicas exactly",
        "arbitration: generated histories keep to the property's quantifier - pods are not deleted while they have "
        "jobs, a job is only created for a pod without a live job (the situation Arbitrator.Filter guards), no "
        "evict-annotation override, no API faults, distinct job creation timestamps (the order of ties depends on "
        "Go map iteration); reasons other than headroom for failing a job are modelled as: pod not evictable "
        "(max eviction cost) or the documented expected-replicas rule",
        "arbitration: controller finder and API server are fakes (controller-runtime fake client with the real "
        "field indexes); the filter functions are assembled by the real initFilters, the jobs reach the arbitrator "
        "through the real event handler",
    ],
}
