def sig(fl):
    seg = fl["segment"]
    e = fl["event"]
    if "evictor" in seg[0]:
        # caps: was another call in flight when this one started/finished? (the race needs overlapping calls)
        i = fl["fail_index"]
        inflight = set()
        overlap = False
        for x in seg[1:i + 1]:
            if x["op"] == "start" and x.get("outcome") == "parked":
                if inflight:
                    overlap = True
                inflight.add(x["caller"])
            elif x["op"] == "finish":
                inflight.discard(x["caller"])
        return "caps evictor=%s op=%s overlapping_calls=%s violated=%s" % (seg[0]["evictor"], e.get("op"), overlap, fl.get("violated"))
    return "arbitration op=%s" % e.get("op")


CONF = {
    "id": "C16", "family": "Disruption",
    "mc": [
        {"module": "MC_Caps", "cfg": "MC_Caps_atomic.cfg", "timeout": 900},
    ],
    "gen": [
        {"module": "Gen_Caps", "cfg": {"quick": "Gen_Caps_quick.cfg", "thorough": "Gen_Caps_thorough.cfg"}, "timeout": 900,
         "sample": {"quick": 2, "thorough": 12}},
    ],
    "go": [
        {"pkg": "pkg/descheduler/evictions", "test": "TestVerifC16PodEvictor", "trace": {"module": "EvictionCapsTrace", "cfg": "Trace_Caps.cfg"}},
        {"pkg": "pkg/descheduler/framework/runtime", "test": "TestVerifC16Proxy", "trace": {"module": "EvictionCapsTrace", "cfg": "Trace_Caps.cfg"}},
    ],
    "trace": {"module": "EvictionCapsTrace", "cfg": "Trace_Caps.cfg"},
    "signature": sig,
    "assumptions": [],
}
